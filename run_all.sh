#!/bin/sh
# run every claimed check (tier from $1, default quick) ; prints one line per property
TIER=${1:-quick}
cd "$(dirname "$0")"
for p in $(python3 -c "import json; print(' '.join(c['property_id'] for c in json.load(open('MANIFEST.json'))['checks']))"); do
  ( out=$(./check $p --tier $TIER 2>&1); code=$?; echo "$p exit=$code $(echo "$out" | tail -1)" ) &
done
wait
