#!/bin/sh
# Build the framework from files on disk only (offline): translate the configuration of /repo's
# working tree into Lean, then build the library (model, lemmas, theorems) and the model driver.
set -e
cd "$(dirname "$0")"
python3 check --setup
