"""Input generators for the property oracles (harness/oracles.py): each returns a list of
{"op": "oracle", "prop": <id>, "input": {...}} operations for the implementation server."""
from gen import SearchGen, universe
import families


def _op(prop, inp):
    return {"op": "oracle", "prop": prop, "input": inp}


def gen_C01(v, n):
    out = [_op("C01", {"s": v.c01_string()}) for _ in range(n)]
    for _ in range(max(5, n // 25)):      # after a Sid object of the same string and another type went through the factory
        label, s, fields = v.typed_sid(search=0.6)
        others = [l for l in v.labels if len(v.tdict[l]) == len(fields) and l != label]
        if others:
            out.append(_op("C01", {"s": s, "pre": [v.rng.choice(others) + ":" + s]}))
    for _ in range(max(5, n // 25)):      # every type forced on a typed string, also with a trailing newline
        label, s, fields = v.typed_sid(search=0.4)
        for l2 in [l for l in v.labels if len(v.tdict[l]) == len(fields)]:
            out.append(_op("C01", {"s": l2 + ":" + s + v.rng.choice(["", "\n", "\n", " "])}))
    for s in ["", ":", "a:b:c", "hamlet\n", "hamlet/a/char\n", "hamlet/s/sq001/sh0010/anim/v001/w/ma\n", "project:hamlet",
              "nope:hamlet", ":hamlet", "asset__file:hamlet/a/char/x/model/v001/w/ma", "hamlet/s/sq٠٠١"]:
        out.append(_op("C01", {"s": s}))
    return out


def gen_C02(v, n):
    rng = v.rng
    out = []
    for _ in range(n):
        l, s, f = v.typed_sid(search=0.25)
        l2, s2, f2 = v.typed_sid(search=0.25)
        out.append(_op("C02", {"s": s, "s2": rng.choice([s2, s]), "seed": rng.randrange(10 ** 6)}))
    for _ in range(max(5, n // 20)):      # the same string as a Sid OBJECT of another type first, then the forms
        label, s, fields = v.typed_sid(search=0.6)
        others = [l for l in v.labels if len(v.tdict[l]) == len(fields) and l != label]
        if others:
            pre = [o + ":" + s for o in rng.sample(others, min(2, len(others)))]
            out.append(_op("C02", {"s": s, "pre": pre, "seed": rng.randrange(10 ** 6)}))
            out.append(_op("C02", {"s": s, "pre": pre[::-1] + [label + ":" + s], "seed": rng.randrange(10 ** 6)}))
    return out


def gen_C03(v, n):
    rng = v.rng
    out = []
    for _ in range(n):
        l, s, f = v.typed_sid(search=0.25)
        out.append(_op("C03", {"s": rng.choice([s, s, l + ":" + s, v.c01_string()])}))
    # Sids built from their path (as every Finder over files builds them), of every path-backed type
    configs = sorted(v.paths.keys())
    for label, s, fields in families.concrete_path_sids(v, max(10, n // 10)):
        out.append(_op("C03", {"s": s, "via_path": rng.choice(configs)}))
    for cfg in configs:
        for label in [l for l, _ in v.paths[cfg]["templates"] if l in v.tdict]:
            flds = [(k, v.value((k, r), concrete_only=True)) for k, r in v.tdict[label]]
            out.append(_op("C03", {"s": "/".join(val for _, val in flds), "via_path": cfg}))
    return out


def gen_C04(v, n):
    rng = v.rng
    out = []
    for _ in range(n):
        l, s, f = v.typed_sid(search=0.2)
        pairs = v.query_pairs(l, f)
        q = v.query_string(pairs)
        out.append(_op("C04", {"s": rng.choice([s, s, l + ":" + s]), "q": q, "via": rng.choice(["get_with", "sid"])}))
        kw = []
        seen = set()
        for k, val in v.query_pairs(l, f):
            if k in seen or not k or " " in k:
                continue
            seen.add(k)
            kw.append([k, None if rng.random() < 0.2 else val])
        if kw:
            inp = {"s": s, "kw": kw}
            if len(kw) == 1 and rng.random() < 0.4:
                inp["kv"] = True
            out.append(_op("C04", inp))
    out.append(_op("C04", {"s": "hamlet/a/char", "kw": [["foo", None]]}))
    return out


def gen_C14(v, n):
    rng = v.rng
    out = []
    for _ in range(n):
        l, s, f = v.typed_sid(search=0.25)
        l2, s2, f2 = v.typed_sid(search=0.25)
        out.append(_op("C14", {"a": rng.choice([s, l + ":" + s, v.c01_string()]),
                               "b": rng.choice([s, s2, l + ":" + s, l2 + ":" + s, rng.choice(v.labels) + ":" + s]),
                               "more": [s2, v.c01_string().replace("?", "")]}))
    # Sids that another interpreter (another hash seed) built, hashed and pickled: equal Sids hash equally here
    for _ in range(2):
        uris = []
        for _ in range(25):
            l, s, f = v.typed_sid(search=0.3)
            uris.append(rng.choice([s, l + ":" + s, rng.choice(v.labels) + ":" + s, v.c01_string()]))
        out.append(_op("C14", {"pickled_elsewhere": [u for u in uris if "\x00" not in u]}))
    return out


def gen_C19(v, n):
    rng = v.rng
    out = []
    for _ in range(n):
        t, ex, sep = families._mk_templates(rng)
        inp = {"sep": sep, "templates": [list(p) for p in t], "to_extrapolate": ex}
        kp = []
        for sel in rng.sample(["__", "t", "asset", "shot__", "a", "zz", t[0][0]], rng.randint(1, 3)):
            reps = {}
            for _ in range(rng.randint(1, 3)):
                k = rng.choice(["project", "type", "state", "ext", "version", "task"])
                reps["{%s}" % k] = "{%s:(%s|\\*|\\>)}" % (k, rng.choice(["a|b", "v\\d\\d\\d", "w|p"]))
            kp.append([sel, [[a, b] for a, b in reps.items()]])
        inp["key_patterns"] = [[k, val] for k, val in dict((a, b) for a, b in kp).items()]
        out.append(_op("C19", inp))
    out.append(_op("C19", {"sep": "__", "templates": [["shot__shot", "{project}/{type:s}/{sequence}/{shot}"]],
                           "to_extrapolate": ["shot__shot"]}))
    out.append(_op("C19", {"sep": "__", "templates": v.d["raw"]["sid_templates"], "to_extrapolate": v.d["raw"]["to_extrapolate"],
                           "key_patterns": v.d["raw"]["key_patterns"]}))
    return out


def gen_C08(v, n):
    rng = v.rng
    sg = SearchGen(v)
    out = []
    for _ in range(max(1, n // 6)):
        L, leaves = universe(v)
        for _ in range(6):
            base = rng.choice(leaves) if rng.random() < 0.8 else None
            s = sg.search(base=base, allow_gt=False, malformed=0.02)
            out.append(_op("C08", {"l": L, "s": s}))
        out.append(_op("C08", {"l": L, "s": rng.choice(L)}))
        for e in L[:4]:
            segs = e.split("/")
            out.append(_op("C08", {"l": [e] + L, "s": "/".join(("*" if rng.random() < 0.45 else x) for x in segs)}))
    out.append(_op("C08", {"l": ["hamlet/a/char/x/model/v001/w/ma", "hamlet/a/char/x/model/v001/w/mb"],
                           "s": "hamlet/a/char/x/model/v001/w/maya"}))
    return out


def lopsided(v, leaves, tuples=False):
    """'>' together with an alias: for a leaf whose extension belongs to an alias group, a sibling in
    ANOTHER version holding another extension of that group.  Returns (extra leaf strings,
    [(search with the concrete extension, search with the alias, index of '>')])"""
    from gen import re_words
    rng = v.rng
    extra, extra_t, out = [], [], []
    for label, fields in leaves[:3]:
        keys = [k for k, _ in fields]
        ext = fields[-1][1]
        groups = [(a, exts) for a, exts in v.aliases.items() if ext in exts and len(exts) > 1]
        vk = [k for k in keys[:-1] if dict(v.tdict[label])[k]["t"] != "star" and any(ch.isdigit() for ch in dict(fields)[k])]
        if not groups or not vk:
            continue
        alias, exts = rng.choice(groups)
        k = vk[-1]
        i = keys.index(k)
        words = [w for w in re_words(dict(v.tdict[label])[k], rng) if w not in ("*", ">") and w != fields[i][1]]
        other_ext = rng.choice([e for e in exts if e != ext])
        if not words or other_ext not in re_words(dict(v.tdict[label])[keys[-1]], rng, limit=200):
            continue
        sib = list(fields)
        sib[i] = (k, rng.choice(words))
        sib[-1] = (keys[-1], other_ext)
        extra.append("/".join(val for _, val in sib))
        extra_t.append((label, sib))
        segs = [val for _, val in fields]
        segs[i] = ">"
        out.append(("/".join(segs), "/".join(segs[:-1] + [alias]), i))
    if tuples:
        return extra_t, out
    return extra, out


def gen_C09(v, n):
    rng = v.rng
    sg = SearchGen(v)
    out = []
    for _ in range(max(1, n // 6)):
        L, leaves = universe(v, with_junk=False)
        for _ in range(6):
            label, fields = rng.choice(leaves)
            fields = list(fields)
            i = rng.randrange(1, len(fields))
            # '>' at position i, optionally a second one further right; '*' / aliases elsewhere
            segs = [val for _, val in fields]
            segs[i] = ">"
            for j in range(len(segs)):
                if j != i and rng.random() < 0.35:
                    segs[j] = "*" if (j < i or rng.random() < 0.8) else ">"
            if v.aliases and rng.random() < 0.2 and i != len(segs) - 1:
                segs[-1] = rng.choice(list(v.aliases.keys()))
            out.append(_op("C09", {"l": L, "s": "/".join(segs), "index": i, "repeat": rng.choice([1, 2, 3])}))
        # SEVERAL groups without any '*' before the '>': an or-list at a closed level right before it, and a '*' on the
        # type level only (each typed search then has a literal type code there); entries in every group
        from gen import re_is_free as _free
        for label, fields in leaves[:2]:
            ks = v.tdict[label]
            closed_at = [j for j in range(2, len(fields) - 1) if not _free(ks[j][1])]
            for j in closed_at[:2]:
                alt = [w for w in (v.closed.get(ks[j][0]) or []) if w != fields[j][1]]
                if not alt:
                    continue
                f2 = list(fields)
                f2[j] = (ks[j][0], alt[0])
                segs1, segs2 = [val for _, val in fields], [val for _, val in f2]
                L2 = list(L) + ["/".join(segs2[:m]) for m in range(1, len(segs2) + 1)] + ["/".join(segs1[:m]) for m in range(1, len(segs1) + 1)]
                L2 = list(dict.fromkeys(L2))
                i = j + 1
                s_or = "/".join(segs1[:j] + [segs1[j] + "," + segs2[j], ">"] + ["*"] * (len(segs1) - i - 1))
                out.append(_op("C09", {"l": L2, "s": s_or, "index": i}))
            other = [f for l2, f in leaves if f[1][1] != fields[1][1] and f[0][1] == fields[0][1] and len(f) > 3]
            if other and len(fields) > 3:      # a '*' on the type level only, '>' right after it: one group per basetype
                out.append(_op("C09", {"l": L, "s": "/".join([fields[0][1], "*", ">", "*"]), "index": 2}))
                out.append(_op("C09", {"l": L, "s": "/".join([fields[0][1], "*", ">", ">"]), "index": 2}))
    out.append(_op("C09", {"l": ["hamlet/a/char/a/model/v001/w/ma", "hamlet/a/char/a-b/model/v001/w/ma"],
                           "s": "hamlet/a/char/>/model/*/w/*", "index": 3}))
    # the same universe as a file tree: '>' as the ONLY search symbol (the string may fit several types
    # at that position), and '>' next to '*'
    for _ in range(max(2, n // 40)):
        leaves = families.tree_universe(v)
        ls = _leaf_strings(leaves)
        for _ in range(5):
            segs = rng.choice(ls).split("/")
            i = rng.randrange(1, len(segs))
            segs[i] = ">"
            if rng.random() < 0.4:
                j = rng.choice([k for k in range(1, len(segs)) if k != i] or [i])
                if j != i:
                    segs[j] = "*"
            out.append(_op("C09", {"tree": True, "leaves": ls, "s": "/".join(segs), "index": i}))
        # '>' followed by '**': the unfolded forms have several depths (leaf types of different depth), '>' at one position
        for _ in range(3):
            segs = rng.choice(ls).split("/")
            if len(segs) > 4:
                i = rng.randrange(2, len(segs) - 1)
                out.append(_op("C09", {"tree": True, "leaves": ls, "s": "/".join(segs[:i] + [">", "**"]), "index": i}))
        # '<name>' and '<name>-2' at a free level, of different leaf types: '>' at that level
        for label, fields in list(leaves)[:2]:
            pp = families.prefix_pair(v, label, fields)
            if pp:
                ls2 = ls + ["/".join(val for _, val in f2) for _, f2 in pp[0]]
                for s_pp in pp[1][:2]:
                    out.append(_op("C09", {"tree": True, "leaves": ls2, "s": s_pp, "index": s_pp.split("/").index(">")}))
        # one typed search of an alias search already served (its Finder chosen and cached), a FindInAll of
        # another configuration name used in between, then the alias search: still one answer per group
        extra, pairs = lopsided(v, leaves)
        for s1, s2, i in pairs:
            out.append(_op("C09", {"tree": True, "leaves": ls + extra, "s": s2, "index": i,
                                   "before": [["all", None, s1], ["all", rng.choice(["review", "x"]), rng.choice([s1, "*"])]]}))
    return out


def gen_C07(v, n):
    rng = v.rng
    sg = SearchGen(v)
    out = [_op("C07", {"s": sg.search(allow_gt=rng.random() < 0.3)}) for _ in range(n)]
    for s in ["bla?foo=bar", "hamlet/*/*?type=s", "x:y:z", "hamlet/a/**", "hamlet/**", "hamlet/s/**/ma", "junk?project=hamlet",
              "hamlet/a/char/**/maya", "hamlet/a,s/*", "hamlet/a/char/x/model/v001/w/maya", "hamlet/**/**", "junk/**", "hamlet/a/char/x/**/movie?state=p"]:
        out.append(_op("C07", {"s": s}))
    return out


def gen_C05(v, n):
    rng = v.rng
    sids = families.concrete_path_sids(v, n, backed_only=False)
    out = []
    for i, (label, s, fields) in enumerate(sids):
        s2 = sids[rng.randrange(len(sids))][1]
        if rng.random() < 0.3:   # a near neighbour: one field changed
            f2 = list(fields)
            j = rng.randrange(len(f2))
            f2[j] = (f2[j][0], v.value((f2[j][0], dict(v.tdict[label])[f2[j][0]]), concrete_only=True))
            s2 = "/".join(val for _, val in f2)
        inp = {"s": rng.choice([s, s, s, label + ":" + s]), "s2": s2}
        if rng.random() < 0.3:      # Sids of the same string and other types asked for their path first
            inp["pre"] = [l2 + ":" + s for l2 in v.labels if l2 != label and len(v.tdict[l2]) == len(fields)]
        if i % 7 == 3:              # ... and UNDEFINED Sids that have the uri of the typed one ('nosuchtype:<type>:<string>')
            inp["pre"] = inp.get("pre", []) + ["nosuchtype:" + label + ":" + s, "x:" + s, ":" + s]
        out.append(_op("C05", inp))
    return out


def gen_C06(v, n, model):
    rng = v.rng
    configs = sorted(v.paths.keys())
    sids = families.concrete_path_sids(v, max(1, n // 4))
    ask = []
    for label, s, fields in sids:
        for cfg in configs:
            ask.append({"op": "sid_call", "from": {"s": s}, "m": "path", "config": cfg})
    out = []
    for a_op, a in zip(ask, model(ask)):
        p = a.get("ok")
        if not p:
            continue
        cfg = a_op["config"]
        out.append(_op("C06", {"path": p, "config": cfg}))
        for _ in range(2):
            out.append(_op("C06", {"path": families.mutate_path(v, p), "config": rng.choice([cfg, cfg, None] + configs)}))
    return out


def _leaf_strings(leaves):
    return ["/".join(val for _, val in f) for _, f in leaves]


def _searches(v, leaves, n, allow_gt=0.3):
    rng = v.rng
    sg = SearchGen(v)
    out = []
    for _ in range(n):
        base = rng.choice(leaves)
        if rng.random() < 0.35:
            label, fields = base
            i = rng.randint(1, len(fields))
            pl = [l for l, ks in v.templates if [k for k, _ in ks] == [k for k, _ in fields[:i]]]
            base = (pl[0], fields[:i]) if pl else base
        out.append(sg.search(base=base, allow_gt=rng.random() < allow_gt, malformed=0.02))
    # '**' followed by one, two or three concrete trailing segments (they land on different keys for
    # leaf types of different depth), with and without '*'
    for label, fields in leaves[:4]:
        segs = [val for _, val in fields]
        for tail in (1, 2, 3):
            if len(segs) > tail + 2:
                head = rng.randint(2, len(segs) - tail - 1)
                t = list(segs[-tail:])
                if rng.random() < 0.4:
                    t[rng.randrange(len(t))] = "*"
                out.append("/".join(segs[:head]) + "/**/" + "/".join(t))
    return out


def gen_C11(v, n, model):
    rng = v.rng
    out = []
    cfg = v.d["conf"]["default_path"] or sorted(v.paths.keys())[0]
    for _ in range(n):
        leaves = families.tree_universe(v)
        ls = _leaf_strings(leaves)
        junk = []
        ask = [{"op": "sid_call", "from": {"s": s}, "m": "path", "config": cfg} for s in ls]
        for a in model(ask):
            p = a.get("ok")
            if not p:
                continue
            for _ in range(2):
                mp = families.mutate_path(v, p)
                if mp.startswith("/R/data/testing/SPIL_PROJECTS/LOCAL/") and not any(ch in mp for ch in "\n\x00[]?*") and "//" not in mp \
                        and not mp.endswith("/") and "/." not in mp and mp != p:
                    junk.append({"path": mp, "kind": rng.choice(["file", "dir"])})
            if rng.random() < 0.3:   # a sidecar-like hidden file and a foreign file next to the entity
                junk.append({"path": p.rsplit("/", 1)[0] + "/.stray.data.json", "kind": "file"})
                junk.append({"path": p.rsplit("/", 1)[0] + "/notes.txt", "kind": "file"})
            if rng.random() < 0.5:   # hidden files / folders at ancestor levels (free levels accept any visible name)
                q = p
                for _up in range(rng.randint(2, 5)):
                    q = q.rsplit("/", 1)[0]
                if q.count("/") > 6:
                    junk.append({"path": q.rsplit("/", 1)[0] + "/." + q.rsplit("/", 1)[1] + ".data.json", "kind": "file"})
                    junk.append({"path": q.rsplit("/", 1)[0] + "/.DS_Store", "kind": rng.choice(["file", "dir"])})
        # junk must not conform: keep only paths the model resolves to an untyped Sid, and only inside
        # directories the universe already has (planting must not create new conform folders on the way)
        have = set()
        for a in model(ask):
            q = a.get("ok")
            while q and q.count("/") > 1:
                q = q.rsplit("/", 1)[0]
                have.add(q)
        junk = [j for j in junk if j["path"].rsplit("/", 1)[0] in have]
        verdict = model([{"op": "sid", "path": j["path"], "config": cfg} for j in junk])
        junk = [j for j, a in zip(junk, verdict) if a.get("ok", {}).get("type") == ""]
        extra = []
        for label, fields in list(leaves)[:3]:      # a file whose NAME fits the name pattern of a search it does not match
            cs = families.confusable_sibling(v, label, fields, cfg)
            if cs:
                ls.append("/".join(val for _, val in cs[0]))
                extra.append(cs[1])
        out.append(_op("C11", {"leaves": ls, "junk": junk[:8], "searches": _searches(v, leaves, 8) + extra + ["hamlet/a/**", "hamlet/s/**", "hamlet/*"],
                               "const_searches": families.constant_searches(v, leaves, 6)}))
    return out


def gen_C12(v, n):
    rng = v.rng
    out = []
    for _ in range(n):
        leaves = families.tree_universe(v)
        ls = _leaf_strings(leaves)
        probes = []
        for s in ls:
            parts = s.split("/")
            i = rng.randint(2, len(parts))
            probes.append("/".join(parts[:i]))
        probes.append(v.typed_sid(search=0)[1])
        # '>' together with an alias / an or-list: the overall last lives in ONE of the unfolded searches
        # (two versions, each holding a different extension of one alias group)
        lopsided = []
        from gen import re_words
        for label, fields in leaves[:3]:
            keys = [k for k, _ in fields]
            ext = fields[-1][1]
            groups = [(a, exts) for a, exts in v.aliases.items() if ext in exts and len(exts) > 1]
            vk = [k for k in keys[:-1] if dict(v.tdict[label])[k]["t"] != "star" and any(ch.isdigit() for ch in dict(fields)[k])]
            if not groups or not vk:
                continue
            alias, exts = rng.choice(groups)
            k = vk[-1]
            i = keys.index(k)
            words = [w for w in re_words(dict(v.tdict[label])[k], rng) if w not in ("*", ">") and w != fields[i][1]]
            other_ext = rng.choice([e for e in exts if e != ext])
            if not words or other_ext not in re_words(dict(v.tdict[label])[keys[-1]], rng, limit=200):
                continue
            sib = list(fields)
            sib[i] = (k, rng.choice(words))
            sib[-1] = (keys[-1], other_ext)
            ls.append("/".join(val for _, val in sib))
            segs = [val for _, val in fields]
            segs[i] = ">"
            for last in (alias, ",".join(sorted([ext, other_ext])), ",".join(sorted([ext, other_ext], reverse=True))):
                lopsided.append("/".join(segs[:-1] + [last]))
        # list entries the configuration does not know, each with the star search that matches it first
        list_junk, junk_searches = [], []
        for s in rng.sample(ls, min(2, len(ls))):
            segs = s.split("/")
            i = rng.randrange(1, len(segs))
            j = rng.randint(i + 1, len(segs))
            list_junk.append("/".join(segs[:i] + [rng.choice(["zzjunk", "vehicle", segs[i] + "\n"])] + segs[i + 1:j]))
            junk_searches.append("/".join(segs[:i] + ["*"] + segs[i + 1:j]))
        out.append(_op("C12", {"leaves": ls, "searches": _searches(v, leaves, 6, allow_gt=0.15) + lopsided + [rng.choice(ls)] + junk_searches,
                               "probes": probes, "list_junk": list_junk}))
    return out


def _c15_alphabet(v):
    """the small alphabet of the quantifier: a file, its extension sibling (same sidecar), a sibling
    with another stem, their folder, a parent, a path-less Sid, an untyped string"""
    rng = v.rng
    for _ in range(50):
        leaves = families.tree_universe(v, nleaf=1)
        label, fields = leaves[0]
        parts = [val for _, val in fields]
        if any("." in p for p in parts[:-1]):
            continue
        lk = fields[-1][0]
        exts = [w for w in (v.closed.get(lk) or []) if w not in v.aliases and w != parts[-1]]
        r = dict(v.tdict[label])[lk]
        from gen import re_words
        same_group = [w for w in re_words(r, rng) if w in exts]
        if not same_group:
            continue
        a = "/".join(parts)
        b = "/".join(parts[:-1] + [rng.choice(same_group)])
        keys = [k for k, _ in fields]
        c_parts = list(parts)
        for key in ("state", "version"):
            if key in keys:
                i = keys.index(key)
                alt = [w for w in re_words(dict(v.tdict[label])[key], rng) if w not in ("*", ">") and w != parts[i]]
                if alt:
                    c_parts[i] = rng.choice(alt)
                    break
        c = "/".join(c_parts)
        folder = "/".join(parts[:-2])
        parent = "/".join(parts[:-3]) if len(parts) > 4 else "/".join(parts[:2])
        return [a, b, c, folder, parent, "/".join(parts[:-1]), "junk"]
    return None


def gen_C15(v, n):
    import itertools
    rng = v.rng
    out = []
    for u in range(n):
        alpha = _c15_alphabet(v)
        if not alpha:
            continue

        def mk(kind, s):
            if kind == "create+":
                return {"do": "create", "sid": s, "data": families._attr_data(rng)}
            if kind in ("update", "set"):
                d = families._attr_data(rng)
                if kind == "set":
                    d = [kv for kv in d if " " not in kv[0] and kv[0] != "sid"]
                return {"do": kind, "sid": s, "data": d}
            return {"do": kind, "sid": s}
        def searches():
            res = []
            for s in alpha[:3]:
                segs = s.split("/")
                if len(segs) > 3 and not any(ch in s for ch in "*[]?,>"):
                    res.append("/".join(segs[:-1] + ["*"]))
                    res.append("/".join(segs[:-2] + ["*", "*"]))
                    res.append("/".join(segs[:-3] + ["*", segs[-2], "*"]))
            return res
        srch = searches()
        if u % 3 == 0:
            # exhaustive: every ordered pair of write operations over the alphabet, each followed by reads
            writes = [(k, s) for k in ("create", "create+", "update") for s in alpha[:5]]
            pairs = list(itertools.product(writes, repeat=2))
            rng.shuffle(pairs)
            for (k1, s1), (k2, s2) in pairs[:60]:
                ops = [mk(k1, s1), mk(k2, s2)] + [{"do": "get_data", "sid": s} for s in alpha[:3]] + [{"do": "exists", "sid": s} for s in alpha[:4]]
                if srch:
                    ops.append({"do": "get_search", "s": rng.choice(srch)})
                out.append(_op("C15", {"ops": ops}))
        else:
            ops = []
            for _ in range(rng.randint(3, 40) if rng.random() < 0.6 else rng.randint(2, 6)):
                s = rng.choice(alpha)
                x = rng.random()
                if x < 0.3:
                    ops.append(mk(rng.choice(["create", "create+"]), s))
                elif x < 0.55:
                    ops.append(mk(rng.choice(["update", "set"]), s))
                elif x < 0.75:
                    ops.append({"do": "get_data", "sid": s})
                elif x < 0.85 and srch:
                    ops.append({"do": "get_search", "s": rng.choice(srch)})
                else:
                    ops.append({"do": "exists", "sid": s})
            out.append(_op("C15", {"ops": ops}))
    return out


def gen_C16(v, n):
    rng = v.rng
    out = []
    for _ in range(n):
        leaves = families.tree_universe(v)
        ls = _leaf_strings(leaves)
        data = []
        for s in ls:
            if rng.random() < 0.6:
                data.append([s, [kv for kv in families._attr_data(rng) if kv[0] != "sid"]])
        queries = []
        multi = []
        for label, fields in leaves[:3]:
            # several leaf types in one query: '>' / '*' on the version level with an open or or-listed leaf
            keys = [k for k, _ in fields]
            segs = [val for _, val in fields]
            exts = sorted({f[-1][1] for _, f in leaves})
            for vk in [k for k in keys[:-1] if any(ch.isdigit() for ch in dict(fields)[k])][-1:]:
                i = keys.index(vk)
                for last in ("*", ",".join(exts[:3]), ",".join(reversed(exts[:3]))):
                    multi.append("/".join(segs[:i] + [rng.choice([">", "*"])] + segs[i + 1:-1] + [last]))
        # SHORT searches whose unfolded forms span several basetypes and levels: some of their types have a Getter,
        # some have none (which is which is the configuration's business)
        short = []
        for label, fields in leaves[:2]:
            segs = [val for _, val in fields]
            for depth in range(1, min(5, len(segs)) + 1):
                stars = ["*"] * depth
                short.append("/".join(segs[:1] + stars[1:]))
                short.append("/".join(stars))
            types = sorted({f[1][1] for _, f in leaves if len(f) > 1})
            if types:
                short.append("/".join([segs[0], ",".join(types + ["zz"]), "*"]))
        short = rng.sample(sorted(set(short)), min(4, len(set(short))))
        for s in _searches(v, leaves, 6, allow_gt=0.1) + [rng.choice(ls)] + multi + short:
            q = {"s": s, "enc": rng.choice(["str", "uri", "none"])}
            if rng.random() < 0.5:
                q["attributes"] = rng.sample(["comment", "frames", "status", "sid", "nope"], rng.randint(1, 3))
            queries.append(q)
        out.append(_op("C16", {"leaves": ls, "data": data, "queries": queries}))
    return out


def gen_C18(v, n):
    rng = v.rng
    out = []
    for _ in range(n):
        leaves = families.tree_universe(v, nleaf=1)
        label, fields = leaves[0]
        keys = [k for k, _ in fields]
        if "version" not in keys:
            continue
        i = keys.index("version")
        task = "/".join(val for _, val in fields[:i])
        tail = rng.choice(["", "/" + "/".join(val for _, val in fields[i + 1:])])
        kind = rng.random()
        if kind < 0.2:
            versions = []
        elif kind < 0.5:
            versions = sorted(rng.sample(range(1, 30), rng.randint(1, 5)))
        elif kind < 0.7:
            versions = sorted(rng.sample(range(1, 999), rng.randint(1, 6)))
        elif kind < 0.85:
            versions = sorted(set(rng.sample(range(990, 1000), rng.randint(1, 4)) + [999]))
        else:
            versions = [rng.choice([1, 998, 999])]
        others = []
        if tail and rng.random() < 0.5:
            # newer (and older) versions that lack this state / file: same type, another state or extension
            sk = keys.index("state") if "state" in keys else None
            f2 = list(fields)
            if sk is not None:
                alt = [w for w in (v.closed.get("state") or []) if w != fields[sk][1]]
                if alt:
                    f2[sk] = ("state", rng.choice(alt))
                    tail2 = "/" + "/".join(val for _, val in f2[i + 1:])
                    top = max(versions) if versions else 0
                    for n in sorted(set(rng.sample(range(1, min(999, top + 6) + 1), min(3, min(999, top + 6))) + ([top + 1] if top < 999 else []))):
                        if n not in versions:
                            others.append([n, tail2])
        rest = [val for _, val in fields[i + 1:]]
        probe_tails = ["/" + "/".join(rest[:j]) for j in range(1, len(rest))] if tail else []
        out.append(_op("C18", {"task": task, "tail": tail, "versions": versions, "others": others, "publish": rng.choice([0, 3, 8]),
                               "probe_tails": probe_tails}))
    return out


def gen_C10(v, n):
    """pairs (search, derived search) by the five rewrite rules"""
    rng = v.rng
    out = []
    for _ in range(n):
        leaves = families.tree_universe(v)
        ls = _leaf_strings(leaves)
        rules = []
        for _ in range(6):
            label, fields = rng.choice(leaves)
            segs = [val for _, val in fields]
            keys = [k for k, _ in fields]
            # a base search: some '*'
            for j in range(len(segs)):
                if rng.random() < 0.3:
                    segs[j] = "*"
            kind = rng.choice(["or", "alias", "starstar", "filter", "literal"])
            if kind == "or":
                i = rng.randrange(len(segs))
                pool = [w for w in (v.closed.get(keys[i]) or ["a", "b", "ophelia", "a-b"]) if w not in v.aliases]
                alts = rng.sample(pool, min(len(pool), rng.randint(2, 3)))
                if fields[i][1] not in alts and rng.random() < 0.7:
                    alts[0] = fields[i][1]
                if rng.random() < 0.3:      # overlapping alternatives: the union must still hold each result once
                    alts.insert(rng.randrange(len(alts) + 1), rng.choice(["*", alts[0]]))
                if rng.random() < 0.3:      # ... and on a short search, ending on a level that constants may back
                    cut = rng.randint(i + 1, len(segs))
                    segs, keys = segs[:cut], keys[:cut]
                s = "/".join(segs[:i] + [",".join(alts)] + segs[i + 1:])
                rules.append({"kind": "or", "s": s, "alts": ["/".join(segs[:i] + [a] + segs[i + 1:]) for a in alts]})
            elif kind == "alias" and v.aliases and keys[-1] == v.leaf_keys.get(label.split(v.sep)[0]):
                al = rng.choice(list(v.aliases.keys()))
                s = "/".join(segs[:-1] + [al])
                rules.append({"kind": "alias", "s": s, "alts": ["/".join(segs[:-1] + [m]) for m in v.aliases[al]]})
            if rng.random() < 0.25:      # the same two rules for a ',' list / an alias in a FILTER value
                k = rng.choice(keys)
                pool = [w for w in (v.closed.get(k) or ["a", "b", "ophelia", "a-b"]) if w not in v.aliases and not any(ch in w for ch in " +%#~,")]
                alts = rng.sample(pool, min(len(pool), 2))
                if dict(fields)[k] not in alts and not any(ch in dict(fields)[k] for ch in " +%#~,"):
                    alts[0] = dict(fields)[k]
                base_s = "/".join(segs[:keys.index(k)] + ["*"] + segs[keys.index(k) + 1:])
                rules.append({"kind": "or", "s": base_s + "?" + k + "=" + ",".join(alts), "alts": [base_s + "?" + k + "=" + a for a in alts]})
                lk = v.leaf_keys.get(label.split(v.sep)[0])
                if v.aliases and keys[-1] == lk:
                    al = rng.choice(list(v.aliases.keys()))
                    b2 = "/".join(segs[:-1] + ["*"])
                    rules.append({"kind": "alias", "s": b2 + "?" + lk + "=" + al, "alts": [b2 + "?" + lk + "=" + m for m in v.aliases[al]]})
            elif kind == "starstar" and len(segs) >= 3:
                i = rng.randrange(2, len(segs))
                j = rng.randrange(i, len(segs) + 1)
                s = "/".join(segs[:i] + ["**"] + segs[j:])
                rules.append({"kind": "starstar", "s": s,
                              "alts": ["/".join(segs[:i] + ["*"] * k + segs[j:]) for k in range(0, 9 - len(segs[:i]) - len(segs[j:]) + 1)]})
            elif kind == "filter":
                k = rng.choice(keys)
                val = dict(fields)[k] if rng.random() < 0.7 else rng.choice(v.closed.get(k) or ["ophelia"])
                if val in v.aliases or any(ch in val for ch in " +%#~,"):
                    continue
                rules.append({"kind": "filter", "s": "/".join(segs), "k": k, "v": val})
            elif kind == "literal":
                stars = [j for j, x in enumerate(segs) if x == "*"]
                if not stars:
                    continue
                i = rng.choice(stars)
                val = fields[i][1] if rng.random() < 0.7 else rng.choice(v.closed.get(keys[i]) or ["ophelia"])
                if val in v.aliases:
                    continue
                rules.append({"kind": "literal", "s": "/".join(segs), "i": i, "v": val,
                              "lit": "/".join(segs[:i] + [val] + segs[i + 1:])})
        for label, fields in leaves[:2]:
            cs = families.confusable_sibling(v, label, fields, with_or=True)
            if cs:
                sib_s = "/".join(val for _, val in cs[0])
                if sib_s not in ls:
                    ls.append(sib_s)
                for s_or in cs[2]:
                    segs_or = s_or.split("/")
                    i_or = next(i for i, x in enumerate(segs_or) if "," in x)
                    rules.append({"kind": "or", "s": s_or, "alts": ["/".join(segs_or[:i_or] + [a] + segs_or[i_or + 1:]) for a in segs_or[i_or].split(",")]})
        out.append(_op("C10", {"leaves": ls, "rules": rules}))
    return out


def gen_C17(v, n):
    rng = v.rng
    out = []
    tries = 0
    while len(out) < n and tries < 8 * n:
        tries += 1
        leaves = families.tree_universe(v, nleaf=2)
        ls = _leaf_strings(leaves)
        if len(ls) < 2 or any("." in seg for s in ls for seg in s.split("/")[:-1]):
            continue
        if ls[0].rsplit("/", 1)[0] == ls[1].rsplit("/", 1)[0]:
            continue    # files differing only by extension share one sidecar (the statement's carve-out)
        def attrs():
            return [kv for kv in families._attr_data(rng) if kv[0] not in ("sid", "a b")] or [["comment", '"x"']]
        forms = ["kw", "attr+kw", "update", "attr"]
        form = forms[len(out) % len(forms)]
        new = attrs()
        if form == "attr+kw":      # an explicit attribute AND keywords in one call
            new = (new + [[k, val] for k, val in [["frames", "25"], ["reviewer", '"Ann"']] if k not in dict(new)])[:max(2, len(new))]
        elif form == "attr":
            new = new[:1]
        out.append(_op("C17", {"sid": ls[0], "other": ls[1], "old": None if rng.random() < 0.4 else attrs(), "new": new, "form": form}))
    return out


GENERATORS = {name[4:]: fn for name, fn in list(globals().items()) if name.startswith("gen_")}
