"""Input generators for the property oracles (harness/oracles.py): each returns a list of
{"op": "oracle", "prop": <id>, "input": {...}} operations for the implementation server."""
from gen import SearchGen, universe
import families


def _op(prop, inp):
    return {"op": "oracle", "prop": prop, "input": inp}


def gen_C01(v, n):
    out = [_op("C01", {"s": v.c01_string()}) for _ in range(n)]
    for s in ["", ":", "a:b:c", "hamlet\n", "hamlet/a/char\n", "hamlet/s/sq001/sh0010/anim/v001/w/ma\n", "project:hamlet",
              "nope:hamlet", ":hamlet", "asset__file:hamlet/a/char/x/model/v001/w/ma", "hamlet/s/sq٠٠١"]:
        out.append(_op("C01", {"s": s}))
    return out


def gen_C02(v, n):
    rng = v.rng
    out = []
    for _ in range(n):
        l, s, f = v.typed_sid(search=0.25)
        l2, s2, f2 = v.typed_sid(search=0.25)
        out.append(_op("C02", {"s": s, "s2": rng.choice([s2, s]), "seed": rng.randrange(10 ** 6)}))
    return out


def gen_C03(v, n):
    rng = v.rng
    out = []
    for _ in range(n):
        l, s, f = v.typed_sid(search=0.25)
        out.append(_op("C03", {"s": rng.choice([s, s, l + ":" + s, v.c01_string()])}))
    return out


def gen_C04(v, n):
    rng = v.rng
    out = []
    for _ in range(n):
        l, s, f = v.typed_sid(search=0.2)
        pairs = v.query_pairs(l, f)
        q = v.query_string(pairs)
        out.append(_op("C04", {"s": rng.choice([s, s, l + ":" + s]), "q": q, "via": rng.choice(["get_with", "sid"])}))
        kw = []
        seen = set()
        for k, val in v.query_pairs(l, f):
            if k in seen or not k or " " in k:
                continue
            seen.add(k)
            kw.append([k, None if rng.random() < 0.2 else val])
        if kw:
            inp = {"s": s, "kw": kw}
            if len(kw) == 1 and rng.random() < 0.4:
                inp["kv"] = True
            out.append(_op("C04", inp))
    out.append(_op("C04", {"s": "hamlet/a/char", "kw": [["foo", None]]}))
    return out


def gen_C14(v, n):
    rng = v.rng
    out = []
    for _ in range(n):
        l, s, f = v.typed_sid(search=0.25)
        l2, s2, f2 = v.typed_sid(search=0.25)
        out.append(_op("C14", {"a": rng.choice([s, l + ":" + s, v.c01_string()]),
                               "b": rng.choice([s, s2, l + ":" + s, l2 + ":" + s, rng.choice(v.labels) + ":" + s]),
                               "more": [s2, v.c01_string().replace("?", "")]}))
    return out


def gen_C19(v, n):
    rng = v.rng
    out = []
    for _ in range(n):
        t, ex, sep = families._mk_templates(rng)
        inp = {"sep": sep, "templates": [list(p) for p in t], "to_extrapolate": ex}
        kp = []
        for sel in rng.sample(["__", "t", "asset", "shot__", "a", "zz", t[0][0]], rng.randint(1, 3)):
            reps = {}
            for _ in range(rng.randint(1, 3)):
                k = rng.choice(["project", "type", "state", "ext", "version", "task"])
                reps["{%s}" % k] = "{%s:(%s|\\*|\\>)}" % (k, rng.choice(["a|b", "v\\d\\d\\d", "w|p"]))
            kp.append([sel, [[a, b] for a, b in reps.items()]])
        inp["key_patterns"] = kp
        out.append(_op("C19", inp))
    out.append(_op("C19", {"sep": "__", "templates": [["shot__shot", "{project}/{type:s}/{sequence}/{shot}"]],
                           "to_extrapolate": ["shot__shot"]}))
    out.append(_op("C19", {"sep": "__", "templates": v.d["raw"]["sid_templates"], "to_extrapolate": v.d["raw"]["to_extrapolate"],
                           "key_patterns": v.d["raw"]["key_patterns"]}))
    return out


def gen_C08(v, n):
    rng = v.rng
    sg = SearchGen(v)
    out = []
    for _ in range(max(1, n // 6)):
        L, leaves = universe(v)
        for _ in range(6):
            base = rng.choice(leaves) if rng.random() < 0.8 else None
            s = sg.search(base=base, allow_gt=False, malformed=0.02)
            out.append(_op("C08", {"l": L, "s": s}))
        out.append(_op("C08", {"l": L, "s": rng.choice(L)}))
    out.append(_op("C08", {"l": ["hamlet/a/char/x/model/v001/w/ma", "hamlet/a/char/x/model/v001/w/mb"],
                           "s": "hamlet/a/char/x/model/v001/w/maya"}))
    return out


def gen_C09(v, n):
    rng = v.rng
    sg = SearchGen(v)
    out = []
    for _ in range(max(1, n // 6)):
        L, leaves = universe(v, with_junk=False)
        for _ in range(6):
            label, fields = rng.choice(leaves)
            fields = list(fields)
            i = rng.randrange(1, len(fields))
            # '>' at position i, optionally a second one further right; '*' / aliases elsewhere
            segs = [val for _, val in fields]
            segs[i] = ">"
            for j in range(len(segs)):
                if j != i and rng.random() < 0.35:
                    segs[j] = "*" if (j < i or rng.random() < 0.8) else ">"
            if v.aliases and rng.random() < 0.2 and i != len(segs) - 1:
                segs[-1] = rng.choice(list(v.aliases.keys()))
            out.append(_op("C09", {"l": L, "s": "/".join(segs), "index": i}))
    out.append(_op("C09", {"l": ["hamlet/a/char/a/model/v001/w/ma", "hamlet/a/char/a-b/model/v001/w/ma"],
                           "s": "hamlet/a/char/>/model/*/w/*", "index": 3}))
    return out


GENERATORS = {name[4:]: fn for name, fn in list(globals().items()) if name.startswith("gen_")}
