"""Generator of complete Spil configuration packages for the C20 family: configurations derived
from the shape of the demo configuration by renaming keys, basetypes, type codes and the leaf key,
inserting / removing hierarchy levels, changing file-name separators and fixed folders, swapping
closed vocabularies and digit patterns, adding a third basetype and a third path configuration.

write_package(spec, directory) writes spil_sid_conf.py, spil_fs_conf.py, spil_fs_<n>_conf.py,
spil_data_conf.py into `directory`; the real Spil then loads it like any user configuration.
"""
import os, random, json

KEY_POOL = ["seq", "shot", "kind", "item", "dept", "step", "take", "rev", "stage", "part", "cut", "unit", "elem", "pass"]
WORDS = ["alpha", "beta", "gamma", "delta", "omega", "red", "blue", "green", "north", "south", "east", "west",
         "lay", "rig", "fx", "comp", "art", "cam", "geo", "tex", "lgt", "sim"]
# (group names of DIFFERENT lengths: a leaf type's name suffix '<group>_file' is then not as long as every leaf key)
EXTS = {"scenes": ["ma", "mb", "hip", "blend", "nk", "psd"], "cache": ["abc", "vdb", "fur", "json"], "movie_clips": ["mp4", "mov", "avi"]}
DIGIT_PATTERNS = [("v", 3), ("r", 2), ("t", 4), ("n", 2)]


def make_spec(rng, idx=0, unmodelled=False):
    used = set()

    def feature(p=0.5):
        """optional shapes are switched systematically over the configurations of one run (all on in the
        first, all off in the second, drawn at random from the third on): which shapes a run covers does
        not depend on the random stream"""
        r = rng.random()
        return True if idx % 3 == 0 else (False if idx % 3 == 1 else r < p)

    def fresh(pool):
        c = [x for x in pool if x not in used]
        x = rng.choice(c)
        used.add(x)
        return x

    spec = {"idx": idx}
    spec["project_key"] = rng.choice(["project", "prj", "show"])
    spec["type_key"] = rng.choice(["type", "kind0", "cls"])
    used.update([spec["project_key"], spec["type_key"]])
    spec["projects"] = rng.sample(["hamlet", "macbeth", "lear", "othello"], rng.randint(1, 2))
    spec["leaf_key"] = rng.choice(["ext", "fmt", "suffix0"])
    # a leaf key NAMED like the suffix of a leaf type ('<basetype>__scenes_file' is the type of scene files,
    # not "the type named after the key scenes_file"): type names carry no meaning
    if feature(0.3):
        spec["leaf_key"] = "scenes_file"
    used.add(spec["leaf_key"])
    spec["version_key"] = rng.choice(["version", "rev0", "iter"])
    spec["state_key"] = rng.choice(["state", "status0"])
    used.update([spec["version_key"], spec["state_key"]])
    spec["file_sep"] = rng.choice(["_", "-", "__"])
    spec["folders"] = {"prod": rng.choice(["PROD", "WORK", "data"]), "out": rng.choice(["OUTPUT", "EXPORT", "out"])}
    vp, vd = rng.choice(DIGIT_PATTERNS)
    spec["version_pattern"] = (vp, vd)
    spec["states"] = rng.choice([{"w": "WORK", "p": "PUBLISH"}, {"wip": "WIP", "pub": "PUB", "old": "ARCHIVE"}])
    nbt = rng.choice([2, 2, 3])
    names = rng.sample(["asset", "shot", "lib", "prop", "episode"], nbt)
    codes = rng.sample(["a", "s", "l", "e", "x", "k"], nbt)
    spec["basetypes"] = []
    for name, code in zip(names, codes):
        nlev = rng.randint(1, 4)          # levels between type and version
        levels = []
        free_used = False
        for i in range(nlev):
            k = fresh(KEY_POOL)
            kind = rng.random()
            if kind < 0.35 and not free_used:
                levels.append({"key": k, "free": True})
                free_used = True
            elif kind < 0.7:
                levels.append({"key": k, "free": False, "vocab": rng.sample(WORDS, rng.randint(2, 5))})
            else:
                p, n = rng.choice([("sq", 3), ("sh", 4), ("ep", 2), ("c", 3)])
                levels.append({"key": k, "free": False, "digits": (p + name[0], n)})
        groups = rng.sample(list(EXTS.keys()), rng.randint(1, 3))
        spec["basetypes"].append({"name": name, "code": code, "folder": name.upper() + "S", "levels": levels, "groups": groups})
    # a basetype that ends on the VERSION level (no states, no files): its leaf key is an intermediate key
    # of the other basetypes ("a leaf key per basetype": nothing may assume that all basetypes share one)
    if feature():
        name = rng.choice([x for x in ["edit", "reel", "board"] if x not in names])
        code = rng.choice([c for c in ["d", "r", "b", "q"] if c not in codes])
        levels = []
        for i in range(rng.randint(1, 2)):
            k = fresh(KEY_POOL)
            if rng.random() < 0.5:
                levels.append({"key": k, "free": False, "vocab": rng.sample(WORDS, rng.randint(2, 4))})
            else:
                levels.append({"key": k, "free": False, "digits": (rng.choice(["cut", "rl"]), 2)})
        spec["basetypes"].append({"name": name, "code": code, "folder": name.upper() + "S", "levels": levels, "groups": [], "short": True})
    spec["aliases"] = {"cache": ["abc", "vdb", "fur", "json"], "movie": ["mp4", "mov", "avi"]}
    spec["exts"] = {k: list(v) for k, v in EXTS.items()}
    if feature(0.4):      # the leaf vocabulary (extensions AND alias names) in upper / mixed case
        spec["exts"] = {k: [x.upper() for x in v] for k, v in EXTS.items()}
        spec["aliases"] = {"CACHE": [x.upper() for x in spec["aliases"]["cache"]], "Movie": [x.upper() for x in spec["aliases"]["movie"]]}
    spec["third_path_config"] = feature(0.7)
    spec["default_not_first"] = feature()
    # an explicitly declared MID-CHAIN level (with undeclared levels above it): extrapolation skips it and goes on
    spec["declared_mid_level"] = feature()
    # configuration features the demo leaves (almost) unused: a TYPED search narrowing, path defaults
    spec["typed_narrowing"] = feature()
    # a value mapping that lists only the values that ARE renamed on disk (unlisted values pass through unchanged)
    spec["partial_mapping"] = feature()
    # two words on disk for ONE sid value ("if the value exists multiple times, the first one is returned"): the
    # second word is accepted by the path patterns and read as the value, but is never the path of the Sid
    spec["mapping_synonym"] = feature()
    # the third path configuration accepts fewer values than the Sid configuration (publish area: one state only)
    spec["narrow_third"] = feature()
    # a path default for a FREE Sid key (an entity level): an empty value is rendered with the default on disk
    spec["free_key_default"] = feature()
    # features the Lean model does not have (oracle-only runs): extra path keys computed from a sid key, and a value
    # mapping that holds for ONE type only
    spec["extra_keys"] = bool(unmodelled)
    spec["typed_mapping"] = bool(unmodelled)
    # a folder level that exists only on disk: a path-template key that is NO Sid key, filled by path_defaults
    spec["template_default_key"] = feature()
    if spec["partial_mapping"] and len(spec["projects"]) < 2:
        spec["projects"] = (spec["projects"] + [p for p in ["hamlet", "macbeth", "lear", "othello"] if p not in spec["projects"]])[:2]
    spec["path_defaults"] = feature()
    # documented usage: intermediate types extrapolated from a LEAF type (its name suffix is not its last key)
    spec["extrapolate_from_leaf"] = feature()
    return spec


def _closed(words):
    return "(" + "|".join(words) + r"|\*|\>)"


def _digits(prefix, n):
    return "(" + prefix + r"\d" * n + r"|\*|\>)"


def write_package(spec, directory):
    os.makedirs(directory, exist_ok=True)
    P, T, E, V, S = spec["project_key"], spec["type_key"], spec["leaf_key"], spec["version_key"], spec["state_key"]
    sid_templates = []
    key_patterns = {"project": {"{%s}" % P: "{%s:%s}" % (P, _closed(spec["projects"]))}}
    key_types = {"project": [P]}
    to_extrapolate = []
    leaf_keys = {"project": E, None: E}
    narrowing = {}
    path_templates = []
    sep = spec["file_sep"]
    vp, vd = spec["version_pattern"]
    states = list(spec["states"].keys())
    for bt in spec["basetypes"]:
        b = bt["name"]
        keys = [P, T] + [l["key"] for l in bt["levels"]] + [V, S]
        head = "{%s}/{%s:%s}" % (P, T, bt["code"])
        mid = "/".join("{%s}" % l["key"] for l in bt["levels"])
        full = head + "/" + mid + "/{%s}/{%s}" % (V, S)
        if bt.get("short"):
            sid_templates.append(("%s__%s" % (b, V), head + "/" + mid + "/{%s}" % V))
            to_extrapolate.append("%s__%s" % (b, V))
            sid_templates.append((b, head))
            key_types[b] = [P, T] + [l["key"] for l in bt["levels"]] + [V]
            leaf_keys[b] = V
            narrowing[b] = "%s=~%s" % (T, bt["code"])
            kp = {"{%s}" % P: "{%s:%s}" % (P, _closed(spec["projects"])),
                  "{%s:%s}" % (T, bt["code"]): "{%s:%s}" % (T, _closed([bt["code"]])),
                  "{%s}" % V: "{%s:%s}" % (V, _digits(vp, vd))}
            for l in bt["levels"]:
                if l.get("vocab"):
                    kp["{%s}" % l["key"]] = "{%s:%s}" % (l["key"], _closed(l["vocab"]))
                elif l.get("digits"):
                    kp["{%s}" % l["key"]] = "{%s:%s}" % (l["key"], _digits(*l["digits"]))
            key_patterns[b] = kp
            root = "{@root}/{%s}/%s%s/{%s:%s}" % (P, "{tdisk}/" if spec.get("extra_keys") else "", spec["folders"]["prod"], T, bt["folder"])
            dirs = root
            lvl_dirs = []
            for l in bt["levels"]:
                dirs += "/{%s}" % l["key"]
                lvl_dirs.append(dirs)
            path_templates.append(("%s__%s" % (b, V), dirs + "/{%s}" % V))
            for l, dpath in reversed(list(zip(bt["levels"], lvl_dirs))):
                path_templates.append(("%s__%s" % (b, l["key"]), dpath))
            path_templates.append((b, root))
            continue
        for g in bt["groups"]:
            sid_templates.append(("%s__%s_file" % (b, g), full + "/{%s:%s}" % (E, g)))
        if spec.get("extrapolate_from_leaf"):
            # (from a leaf type whose name suffix is NOT the leaf key, when the basetype has one)
            gx = [g for g in bt["groups"] if g + "_file" != E]
            to_extrapolate.append("%s__%s_file" % (b, (gx or bt["groups"])[-1]))
        else:
            sid_templates.append(("%s__%s" % (b, S), full))
            to_extrapolate.append("%s__%s" % (b, S))
        if spec.get("declared_mid_level") and len(bt["levels"]) >= 2:
            j = len(bt["levels"]) - 1          # the deepest level key: the levels above it stay undeclared
            sid_templates.append(("%s__%s" % (b, bt["levels"][j]["key"]),
                                  head + "/" + "/".join("{%s}" % l["key"] for l in bt["levels"][:j + 1])))
        sid_templates.append((b, head))
        key_types[b] = keys + [E]
        leaf_keys[b] = E
        narrowing[b] = "%s=~%s" % (T, bt["code"])
        kp = {"{%s}" % P: "{%s:%s}" % (P, _closed(spec["projects"])),
              "{%s:%s}" % (T, bt["code"]): "{%s:%s}" % (T, _closed([bt["code"]])),
              "{%s}" % V: "{%s:%s}" % (V, _digits(vp, vd)),
              "{%s}" % S: "{%s:%s}" % (S, _closed(states))}
        for l in bt["levels"]:
            if l.get("vocab"):
                kp["{%s}" % l["key"]] = "{%s:%s}" % (l["key"], _closed(l["vocab"]))
            elif l.get("digits"):
                kp["{%s}" % l["key"]] = "{%s:%s}" % (l["key"], _digits(*l["digits"]))
        for g in bt["groups"]:
            exts = (spec.get("exts") or EXTS)[g]
            kp["{%s:%s}" % (E, g)] = "{%s:%s}" % (E, _closed(exts + [a for a in spec["aliases"] if set(spec["aliases"][a]) <= set(exts)]))
        key_patterns[b] = kp
        # path templates
        root = "{@root}/{%s}/%s%s%s/{%s:%s}" % (P, "{tdisk}/" if spec.get("extra_keys") else "", "{dept0}/" if spec.get("template_default_key") else "", spec["folders"]["prod"], T, bt["folder"])
        dirs = root
        lvl_dirs = []
        for l in bt["levels"]:
            dirs += "/{%s}" % l["key"]
            lvl_dirs.append(dirs)
        vdir = dirs + "/{%s}" % V
        fname = sep.join("{%s}" % l["key"] for l in bt["levels"]) + sep + "{%s}" % S + sep + "{%s}" % V
        for i, g in enumerate(bt["groups"]):
            sub = "" if i == 0 else "/" + spec["folders"]["out"] + str(i)
            path_templates.append(("%s__%s_file" % (b, g), vdir + sub + "/" + fname + ".{%s:%s}" % (E, g)))
        path_templates.append(("%s__%s" % (b, V), vdir))
        for l, dpath in reversed(list(zip(bt["levels"], lvl_dirs))):
            path_templates.append(("%s__%s" % (b, l["key"]), dpath))
        path_templates.append((b, root))
    sid_templates.append(("project", "{%s}" % P))
    path_templates.append(("project", "{@root}/{%s}" % P))

    def pdict(pairs):
        return "{\n" + "".join("    %r: %r,\n" % (k, v) for k, v in pairs) + "}"

    with open(os.path.join(directory, "spil_sid_conf.py"), "w") as f:
        f.write("# generated configuration %d (C20 family)\n" % spec["idx"])
        f.write("sip = '/'\n")
        f.write("projects = %r\n" % spec["projects"])
        f.write("sid_templates = %s\n" % pdict(sid_templates))
        f.write("to_extrapolate = %r\n" % to_extrapolate)
        f.write("extension_alias = %r\n" % spec["aliases"])
        f.write("key_patterns = %r\n" % key_patterns)
        f.write("key_types = %r\n" % key_types)
        f.write("leaf_keys = %r\n" % leaf_keys)
        f.write("basetyped_search_narrowing = %r\n" % narrowing)
        tn = {}
        if spec.get("typed_narrowing"):
            bt0 = next((bt for bt in spec["basetypes"] if bt["groups"]), None)
            if bt0:      # searches of ONE leaf type are narrowed to the first project
                tn["%s__%s_file" % (bt0["name"], bt0["groups"][0])] = "%s=~%s" % (P, spec["projects"][0])
        f.write("typed_search_narrowing = %r\n" % tn)
    renamed = spec["projects"][:1] if spec.get("partial_mapping") else spec["projects"]
    disk_projects = [p.upper() if p in renamed else p for p in spec["projects"]]
    mapping = {P: {p.upper(): p for p in renamed},
               T: {bt["folder"]: bt["code"] for bt in spec["basetypes"]},
               S: {v: k for k, v in spec["states"].items()}}
    state_words = list(spec["states"].values()) + (["FINAL"] if spec.get("typed_mapping") else [])
    if spec.get("mapping_synonym"):
        k0, v0 = list(spec["states"].items())[0]
        mapping[S][v0 + "2"] = k0
        mapping[T][spec["basetypes"][0]["folder"] + "_BIS"] = spec["basetypes"][0]["code"]
        state_words.append(v0 + "2")
    fs_kp = {}
    for bt in spec["basetypes"]:
        fs_kp[bt["name"]] = {
            "{%s}" % P: "{%s:%s}" % (P, _closed(disk_projects)),
            "{%s:%s}" % (T, bt["folder"]): "{%s:%s}" % (T, _closed([bt["folder"]] + ([bt["folder"] + "_BIS"] if spec.get("mapping_synonym") and bt is spec["basetypes"][0] else []))),
            "{%s}" % S: "{%s:%s}" % (S, _closed(state_words)),
        }
    fs_kp["project"] = {"{%s}" % P: "{%s:%s}" % (P, _closed(disk_projects))}

    # the third path configuration has its OWN value vocabulary on disk (other folder names)
    mapping_alt = {P: {p.upper() + "_ARCHIVE": p for p in spec["projects"]},
                   T: {bt["folder"] + "_LIB": bt["code"] for bt in spec["basetypes"]},
                   S: {v + "_OLD": k for k, v in spec["states"].items()}}
    fs_kp_alt = {}
    for bt in spec["basetypes"]:
        fs_kp_alt[bt["name"]] = {
            "{%s}" % P: "{%s:%s}" % (P, _closed(list(mapping_alt[P].keys()))),
            "{%s:%s}" % (T, bt["folder"]): "{%s:%s}" % (T, _closed([bt["folder"] + "_LIB"])),
            "{%s}" % S: "{%s:%s}" % (S, _closed(list(mapping_alt[S].keys()) + (["FINAL"] if spec.get("typed_mapping") else []))),
        }
    fs_kp_alt["project"] = {"{%s}" % P: "{%s:%s}" % (P, _closed(list(mapping_alt[P].keys())))}
    if spec.get("narrow_third"):      # the third configuration hosts the LAST state only: the other states have no path there
        last_word = list(mapping_alt[S].keys())[-1]
        for bt in spec["basetypes"]:
            fs_kp_alt[bt["name"]]["{%s}" % S] = "{%s:%s}" % (S, _closed([last_word]))

    def fs_conf(fname, sub, mapping=mapping, fs_kp=fs_kp):
        with open(os.path.join(directory, fname), "w") as f:
            f.write("from pathlib import Path\nimport copy\nfrom spil_sid_conf import key_patterns as _kp\n")
            f.write("project_root_path = Path(__file__).parent / 'data' / 'testing' / 'SPIL_PROJECTS' / %r / 'PROJECTS'\n" % sub)
            f.write("path_templates = %s\n" % pdict(path_templates))
            f.write("path_templates = {k: v.replace('{@root}', project_root_path.as_posix()) for k, v in path_templates.items()}\n")
            pdef = {S: list(mapping[S].keys())[0]} if spec.get("path_defaults") else {}
            if spec.get("template_default_key"):
                pdef["dept0"] = "3D"
            if spec.get("free_key_default"):
                for bt_ in spec["basetypes"]:
                    for l_ in bt_["levels"]:
                        if not l_.get("vocab") and not l_.get("digits"):
                            pdef.setdefault(l_["key"], "unnamed")
                            break
            s2e, e2s = {}, {}
            if spec.get("extra_keys"):      # the (mapped) type folder also decides a disk folder
                words = list(mapping[T].items())
                s2e = {T: {"tdisk": {disk: "DISK_" + code.upper() for disk, code in words}}}
                e2s = {"tdisk": {T: {"DISK_" + code.upper(): code for disk, code in words}}}
            f.write("path_defaults = %r\nsidkeys_to_extrakeys = %r\nextrakeys_to_sidkeys = %r\nsearch_path_mapping = {}\n" % (pdef, s2e, e2s))
            mp = dict(mapping)
            if spec.get("typed_mapping"):   # ONE leaf type spells its first state differently on disk
                bt0 = next((bt for bt in spec["basetypes"] if bt.get("groups")), None)
                if bt0:
                    # (a typed mapping REPLACES the global one for its type: it lists every value, as the code reads it)
                    k0 = list(spec["states"].keys())[-1]
                    tm = {"FINAL": k0}
                    tm.update({disk: k for disk, k in mapping[S].items() if k != k0})
                    mp[(S, "%s__%s_file" % (bt0["name"], bt0["groups"][0]))] = tm
            f.write("path_mapping = %r\n" % mp)
            f.write("key_patterns = copy.deepcopy(_kp)\n")
            f.write("for _sel, _d in %r.items():\n    key_patterns.setdefault(_sel, {}).update(_d)\n" % fs_kp)
    fs_conf("spil_fs_conf.py", "LOCAL")
    fs_conf("spil_fs_server_conf.py", "SERVER")
    configs = {"local": "spil_fs_conf", "server": "spil_fs_server_conf"}
    if spec.get("default_not_first"):      # the default path configuration is NAMED, not "the first one"
        configs = {"server": "spil_fs_server_conf", "local": "spil_fs_conf"}
    if spec["third_path_config"]:
        fs_conf("spil_fs_cloud_conf.py", "CLOUD", mapping_alt, fs_kp_alt)
        configs["cloud"] = "spil_fs_cloud_conf"
    with open(os.path.join(directory, "spil_data_conf.py"), "w") as f:
        f.write("from pathlib import Path\n")
        f.write("path_configs = %r\ndefault_path_config = 'local'\n" % configs)
        f.write("_finder = {}\n")
        f.write("def get_finder_for(search_sid, config=None):\n    from spil import FindInPaths\n"
                "    if 'f' not in _finder:\n        _finder['f'] = FindInPaths()\n    return _finder['f']\n")
        f.write("def get_getter_for(sid, attribute=None, config=None):\n    from spil import GetFromPaths\n    return GetFromPaths()\n")
        f.write("def get_writer_for(sid):\n    raise NotImplementedError()\n")
        f.write("path_data_suffix = '.data.json'\ncreate_file_using_template = {}\ncreate_file_using_touch = True\n")
        f.write("def get_data_json_path(sid_path):\n    return sid_path.with_name('.' + sid_path.name).with_suffix(path_data_suffix)\n")
    json.dump(spec, open(os.path.join(directory, "spec.json"), "w"), indent=1, default=str)
    return directory


if __name__ == "__main__":
    import sys
    rng = random.Random(int(sys.argv[1]) if len(sys.argv) > 1 else 1)
    print(write_package(make_spec(rng), sys.argv[2] if len(sys.argv) > 2 else "/tmp/genconf"))
