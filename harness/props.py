"""Per-property wiring: which Lean modules / theorems decide it, which correspondence families tie
the functions those theorems talk about to the real code, which oracle searches for failing inputs.

families: name -> (quick n, thorough n)
oracles : name of an input generator in oracle_inputs.py -> (quick n, thorough n)
"""

TIE_THEOREMS = [
    "Tie.compile_ok_sid", "Tie.compile_ok_local", "Tie.compile_ok_server",
    "Tie.format_ok_sid", "Tie.format_ok_local", "Tie.format_ok_server",
    "Tie.keys_ok_sid", "Tie.keys_ok_local", "Tie.keys_ok_server",
    "Tie.checkdup_ok", "Tie.extrapolate_ok", "Tie.patterns_ok", "Tie.demo_wf",
]

BASE_TRUST = [
    "Lean 4.33 kernel (axioms allowed: propext, Classical.choice, Quot.sound; no sorry / native_decide / bv_decide / own axioms: audited on every run)",
    "translator harness/extract_conf.py + gen_lean.py (configuration, compiled regexes parsed with CPython's own re parser); cross-checked in Lean by the Tie.* obligations",
    "hand-written Lean model of the algorithms (lean/Spil/Model/*.lean), tied to /repo by the differential correspondence families listed under coverage.families",
    "CPython re / urllib.parse / pathlib semantics as modelled (Re.run priority semantics, '$' before a final newline, \\d = Unicode Nd table dumped from the interpreter)",
    "resolva (third party, site-packages) enters through the translated tables and the modelled resolve_* / format_* functions",
]

PROPS = {
    "C01": {
        "modules": ["Spil.Props.C01"],
        "theorems": ["C01.c01_plain", "C01.c01_forced", "C01.c01_empty_prefix", "C01.c01_total",
                     "C01.c01_untyped_obs", "C01.c01_typed_fields"],
        "families": {"sid_strings": (6000, 60000), "resolver": (2500, 25000)},
        "oracles": {"C01": (5000, 80000)},
        "design_ref": "DESIGN.md §7 C01",
        "text": "Theorems c01_plain / c01_forced / c01_empty_prefix / c01_total prove, for every string and every well-formed template table (Spec.sidTableOk, proved for the shipped configuration by Tie.demo_wf), that the operational model of Sid(string) (regex compilation, CPython-priority search with anchors, group dictionary, render-back guard, fall-back) equals the declarative reading of the statement (first template, in order, with as many placeholders as segments and every expression accepting its whole segment; forced template after 'type:'; untyped otherwise) and never fails.",
        "note": "Strings containing '?' are C04's. The model is tied to the code by the sid_strings and resolver families (model vs real Sid()/resolva on generated strings incl. junk, control characters, uri prefixes) and by the Tie.* obligations (model of resolva's compilation reproduces the regexes resolva built).",
    },
    "C02": {
        "modules": ["Spil.Props.C02"],
        "theorems": ["C02.c02_canonical", "C02.c02_uri", "C02.c02_copy", "C02.c02_fields", "C02.c02_eq", "C02.c02_repr"],
        "families": {"sid_forms": (700, 8000), "resolver": (1500, 15000)},
        "oracles": {"C02": (2500, 40000)},
        "design_ref": "DESIGN.md §7 C02",
        "text": "For every configuration satisfying the documented conventions (Spec.sidHierOk: well-formed templates, same key set ⇒ same key order, every level has a type, plain labels; proved for the shipped configuration by Tie.demo_wf) and every naturally typed Sid (search Sids included): c02_uri / c02_copy (rebuilding from the uri / copy() is the identity), c02_fields (rebuilding from the field dictionary in ANY key order — every List.Perm — is the identity), c02_canonical (the string is the '/'-join of the field values in template order), c02_eq (equal iff type and fields equal), c02_repr (the uri is read back verbatim from repr).",
        "note": "Hypotheses forced by the proofs and probed on the real code: strings that are non-empty and do not end in a newline ('renderable': resolva's format never renders an empty string, and its reverse check tolerates a final newline). The query round trip (c02_query) is proved with C04. Tied by the sid_forms family (every form, shuffled dictionaries, colliding key sets) and the C02 oracle.",
    },
    "C03": {
        "modules": ["Spil.Props.C02"],
        "theorems": ["C03.natural_wellTyped", "C03.c03_get_as", "C03.c03_parent", "C03.c03_root", "C03.c03_walk",
                     "C03.c03_meta", "C03.c03_untyped"],
        "families": {"sid_forms": (700, 8000)},
        "oracles": {"C03": (2500, 40000)},
        "design_ref": "DESIGN.md §7 C03",
        "text": "For every conventional configuration and every WELL-TYPED Sid (typed by any accepting template: natural, uri-forced, built from fields or a query): c03_get_as (get_as of the i-th key is a well-typed Sid with exactly the first i+1 fields and the corresponding '/'-prefix string), c03_parent (parent = get_as of the second-to-last key, one field less, parent / last value re-resolves the original string and gives back a naturally typed Sid), c03_root, c03_walk (len-1 parents reach the one-field Sid), c03_meta (keytype / basetype / len), c03_untyped (navigations on an untyped Sid return the empty Sid / None, never fail).",
        "note": "parent / value == sid needs natural typing (a uri-forced type on a string an earlier template also accepts re-resolves to the earlier type: '/' is string concatenation re-resolved, by construction); prefixes must be renderable (non-empty, no trailing newline). Tied by the sid_forms family and the C03 oracle.",
    },
    "C08": {
        "modules": ["Spil.Props.C08"],
        "theorems": ["C08.c08_glob2re", "C08.c08_segments", "C08.c08_literal", "C08.c08_star_search",
                     "C08.c08_star_search_mem"],
        "families": {"listfind": (2500, 30000), "unfold": (1500, 15000)},
        "oracles": {"C08": (600, 8000)},
        "design_ref": "DESIGN.md §7 C08",
        "text": "c08_glob2re proves that glob2re + re.match decide exactly the glob relation of the statement ('*' = any run without '/', every other character itself, segment counts agree: c08_segments) for every '['-free pattern and every item; c08_star_search proves that the list scan returns exactly the matching entries, each once, in first-match order, for every list and every set of patterns. The non-search shortcut and alias expansion are tied by correspondence (find_list family).",
        "note": "Patterns containing '[' are outside the theorem (known finding K2: glob2re reads '[x]' as a character class). Which patterns a search unfolds to is C07's business; the listfind family compares the complete FindInList.find / find_one / exists / Sid.match with the model.",
    },
    "C09": {
        "modules": ["Spil.Props.C08"],
        "theorems": ["C09.c09_pick_mem", "C09.c09_pick_unique", "C09.c09_pick_max", "C09.c09_pick_set"],
        "families": {"listfind": (2500, 30000)},
        "oracles": {"C09": (500, 6000)},
        "design_ref": "DESIGN.md §7 C09",
        "text": "c09_pick_mem / c09_pick_unique / c09_pick_max prove that sorted_search's selection returns exactly one entry per distinct combination of the segments before '>' and that it is the greatest of its group when compared segment by segment as strings, for every list of found entries and every position; c09_pick_set proves that the answer depends only on the SET of matching entries, hence neither on the Finder that collected them nor on how many typed searches the expression unfolded into.",
        "note": "Premise of the statement: all unfolded forms carry '>' at the same position (otherwise the code takes the position from the first search; modelled, outside the theorem). FindInPaths / FindInAll serve the same selection function (FindByGlob.sorted_search) over their own star_search; their agreement on the matching set is C11's.",
    },
    "C13": {
        "disabled": True,
        "modules": ["Spil.Props.C13"],
        "theorems": ["C13.c13_transparent_lru", "C13.c13_transparent_hit", "C13.c13_popitem_sub", "C13.c13_newkey_inj",
                     "C13.c13_newkey_bind", "C13.c13_fresh", "C13.c13_oldkey_not_congruent", "C13.c13_oldkey_wrong_answer"],
        "families": {},
        "oracles": {"C13": (150, 1500)},
        "design_ref": "DESIGN.md §7 C13",
        "text": "c13_transparent_lru / c13_transparent_hit prove by invariant over the whole call history that, for every capacity and every eviction choice, each call through the memoising wrappers returns what the wrapped function returns, provided equal keys imply equal answers; c13_newkey_inj / c13_newkey_bind prove that the (repaired) key function satisfies that for every function seeing its arguments through Python's parameter binding, positional or keyword; c13_fresh combines them. c13_oldkey_* are the kernel-checked regression witnesses for the original key (keyword names only).",
        "note": "PARTIAL for what lives in the interpreter: import order of the configuration modules, hash-seed dependent set iteration and the shared dictionaries of resolva's functools.lru_cache are not in the state machine; they are covered by the C13 oracle, which replays call sequences (default and tiny cache capacity, positional and keyword spellings, both path configurations) against fresh interpreters started with several PYTHONHASHSEED values.",
    },
    "C17": {
        "disabled": True,
        "modules": ["Spil.Props.C17"],
        "theorems": ["C17.c17_atomic", "C17.c17_complete", "C17.c17_read", "C17.c17_tmp_harmless", "C17.c17_next_ok",
                     "C17.c17_inplace_breaks", "C17.toyCodec"],
        "families": {},
        "oracles": {"C17": (6, 40)},
        "design_ref": "DESIGN.md §7 C17",
        "text": "c17_atomic / c17_read prove that after ANY prefix of the primitive effects of the (repaired) sidecar write the sidecar holds exactly the old or exactly the new bytes, for every old content, new content and codec satisfying decode(encode d) = d; c17_next_ok proves that the next set after a crash at any point succeeds and stores the overlay; c17_tmp_harmless that a leftover temporary file never matters; c17_inplace_breaks is the kernel-checked witness that the original in-place protocol has a crash point leaving undecodable data.",
        "note": "PARTIAL for the operating system: atomicity of os.replace with respect to process death is assumed (not power loss). The C17 oracle traces the primitive effects of a real WriteToPaths.set (patched pathlib / os / io), compares them with the model's effect list, and kills the write after every prefix (every written byte, the replace), then reads, reads other Sids, searches and writes again; it also plants truncated / empty / directory / unreadable sidecars.",
    },
    "C19": {
        "modules": ["Spil.Props.C19"],
        "theorems": ["C19.c19_keeps", "C19.c19_nodup_names", "C19.c19_nodup_templates", "C19.c19_blocks", "C19.c19_complete",
                     "C19.c19_replace_names", "C19.c19_replace_scoped", "C19.c19_replace_pointwise"],
        "families": {"confutil": (1500, 20000)},
        "oracles": {"C19": (1500, 20000)},
        "design_ref": "DESIGN.md §7 C19",
        "text": "c19_keeps, c19_blocks, c19_complete, c19_nodup_names, c19_nodup_templates prove every clause of the statement for the model of extrapolate_templates over ALL template tables with distinct names, all extrapolation lists and separators; c19_replace_* prove that pattern_replacing keeps names and order and rewrites only templates whose type name contains a selector. Tie.extrapolate_ok re-computes the shipped configuration's effective templates with the model in the kernel.",
        "note": "The model of the two conf.util functions is tied to the code by the confutil family (generated configurations of the quantifier's grammar, incl. shot__shot / asset__asset) and by Tie.extrapolate_ok on the shipped configuration.",
    },
}
