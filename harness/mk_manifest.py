"""Regenerate MANIFEST.json from harness/props.py (run from /verif)."""
import json, os, sys
sys.path.insert(0, os.path.dirname(os.path.abspath(__file__)))
import props

ALL = [json.loads(l)["id"] for l in open("properties.jsonl")]
NOT_YET = {
}
checks = []
for cid in ALL:
    if cid not in props.PROPS or cid in props.PROPS and props.PROPS[cid].get("disabled"):
        continue
    p = props.PROPS[cid]
    checks.append({
        "property_id": cid,
        "quick_cmd": "./check %s --tier quick" % cid,
        "thorough_cmd": "./check %s --tier thorough" % cid,
        "evidence_file": "evidence/%s.json" % cid,
        "replay_cmd_template": "./check %s --replay {path}" % cid,
        "engine": "lean4-model+correspondence",
        "level_claimed": {"category": "proof", "text": p["text"], "design_ref": p["design_ref"]},
        "level_note": p["note"] + " Trusted base: Lean 4.33 kernel; axioms per theorem printed by the audit on every run (only propext, Classical.choice, Quot.sound accepted; no sorry / native_decide / own axioms); the translator (extract_conf.py, gen_lean.py) cross-checked by the Tie.* obligations; the hand-written model tied to the code by differential correspondence; CPython re / urllib / pathlib semantics as modelled.",
        "technique": "Lean 4 machine-checked proof over an executable model; translation validation of configuration and regexes in the kernel; differential correspondence model vs implementation; property oracle for failing-input search",
    })
claimed = [c["property_id"] for c in checks]
m = {
    "version": 1,
    "setup_cmd": "./setup.sh",
    "hooks": {
        "guard": "SPIL_VERIF",
        "enable": "none needed: crash injection, cache capacity and scratch roots are harness-side; the harness exports SPIL_VERIF=1 but no source line of /repo reads it",
        "baseline_off_cmd": "cd /repo && /venv/bin/python -m pytest -ra -q -p no:cacheprovider --timeout=900 --continue-on-collection-errors",
        "source_commits": [],
        "add_only": True,
    },
    "engines": [{
        "name": "lean4-model+correspondence", "path": "lean/ , harness/ , check",
        "serves_properties": claimed,
        "kind_free_text": "hand-written executable Lean 4 model of Spil with kernel-checked theorems (lean/Spil/Props); configuration and compiled regexes translated from the live objects on every run and validated in Lean (Spil/Props/Tie.lean); differential correspondence harness and property oracles against the real code (harness/)",
    }],
    "checks": checks,
    "notes": "See DESIGN.md. Repairs of genuine defects are 'fix:' commits in /repo, listed as 'fixed:' lines in KNOWN_FINDINGS.txt; no hooks were added to /repo.",
    "not_applicable": [{"property_id": p, "reason": NOT_YET.get(p, "not claimed yet: model and theorems for this property are still being built (DESIGN.md §11); nothing about the technique prevents it")}
                       for p in ALL if p not in claimed],
}
json.dump(m, open("MANIFEST.json", "w"), indent=1)
print("claimed:", claimed)
