"""Translator, part 1: dump the live Spil configuration as JSON.

Runs under the real interpreter inside a staged environment (see stage.py).  Everything is read
from live objects: spil.conf, the resolva.Resolver instances, the PathConfig objects.
"""
import sys, os, json, re, unicodedata
import re._parser as sre_parse
import re._constants as sre_c

import spil  # noqa
from spil import conf
from resolva import Resolver
from resolva import template as rtemplate
from spil.sid.pathops.pathconfig import get_path_config


class OutOfSubset(Exception):
    pass


def _cls(op, av):
    if op is sre_c.LITERAL:
        return {"lit": chr(av)}
    if op is sre_c.NOT_LITERAL and av == ord("/"):
        return "notSlash"
    if op is sre_c.ANY:
        return "dot"
    if op is sre_c.IN:
        if av == [(sre_c.CATEGORY, sre_c.CATEGORY_DIGIT)]:
            return "digit"
        if av == [(sre_c.NEGATE, None), (sre_c.LITERAL, ord("/"))]:
            return "notSlash"
    return None


def mk_seq(items):
    if not items:
        return {"t": "eps"}
    if len(items) == 1:
        return items[0]
    return {"t": "seq", "a": items[0], "b": mk_seq(items[1:])}


def mk_alt(items):
    if not items:
        return {"t": "eps"}
    if len(items) == 1:
        return items[0]
    return {"t": "alt", "a": items[0], "b": mk_alt(items[1:])}


def conv_items(sub, names):
    return [conv_item(op, av, names) for op, av in sub]


def conv_item(op, av, names):
    k = _cls(op, av)
    if k is not None:
        return {"t": "cls", "k": k}
    if op is sre_c.IN and all(o is sre_c.LITERAL for o, _ in av):
        # '(a|\*|\>)' : the parser folds single-character branches into a set; order kept
        return mk_alt([{"t": "cls", "k": {"lit": chr(a)}} for _, a in av])
    if op is sre_c.MAX_REPEAT:
        lo, hi, sub = av
        sub = list(sub)
        if lo == 0 and hi == sre_c.MAXREPEAT and len(sub) == 1:
            k = _cls(*sub[0])
            if k is not None:
                return {"t": "star", "k": k}
        raise OutOfSubset("repeat %r" % (av,))
    if op is sre_c.BRANCH:
        _, branches = av
        return mk_alt([mk_seq(conv_items(b, names)) for b in branches])
    if op is sre_c.SUBPATTERN:
        group, add, dele, sub = av
        inner = mk_seq(conv_items(sub, names))
        if add or dele:
            raise OutOfSubset("flags in group")
        if group is None:
            raise OutOfSubset("non capturing group")
        if group in names:
            return {"t": "grp", "n": names[group], "r": inner}
        return {"t": "cgrp", "r": inner}
    raise OutOfSubset("regex item %r %r" % (op, av))


def parse_regex(pattern, anchored):
    """pattern -> Re AST (JSON).  anchored: expect ^...$ and strip them."""
    p = sre_parse.parse(pattern)
    names = {v: k for k, v in p.state.groupdict.items()}
    items = list(p)
    if anchored:
        if not items or items[0] != (sre_c.AT, sre_c.AT_BEGINNING) or items[-1] != (sre_c.AT, sre_c.AT_END):
            raise OutOfSubset("anchors")
        items = items[1:-1]
    return mk_seq(conv_items(items, names))


_PH = re.compile(r'{(?P<placeholder>.+?)(:(?P<expression>(\\}|.)+?))?}')
_LIT_BAD = set("\\^$*+?{}[]()|")


def tokenize(template):
    """Effective template string -> tokens, mirroring resolva.template._convert."""
    toks = []
    pos = 0
    for m in _PH.finditer(template):
        if m.start() > pos:
            toks.append({"lit": template[pos:m.start()]})
        expr = m.group("expression")
        if expr is None:
            expr = rtemplate._default_placeholder_expression
        expr = expr.replace("\\{", "{").replace("\\}", "}")
        toks.append({"ph": m.group("placeholder"), "re": parse_regex(expr, False)})
        pos = m.end()
    if pos < len(template):
        toks.append({"lit": template[pos:]})
    for t in toks:
        if "lit" in t and (set(t["lit"]) & _LIT_BAD):
            raise OutOfSubset("regex operator in literal template text: %r" % t["lit"])
    return toks


CONF_DIR = None   # the staged configuration directory; replaced by the canonical '/R'


def canon(s):
    return s.replace(CONF_DIR, "/R") if CONF_DIR else s


def resolver_dump(rid):
    r = Resolver.get(rid)
    out = {"id": rid, "check_dup": bool(r.check_duplicate_placeholders), "labels": []}
    for label in r.get_labels():
        pat = canon(r.get_pattern_for(label))
        out["labels"].append({
            "label": label,
            "pattern": pat,
            "regex": canon(r.get_regex_for(label).pattern),
            "regex_ast": parse_regex(canon(r.get_regex_for(label).pattern), True),
            "format": canon(r.get_format_for(label)),
            "keys": sorted(r.get_keys_for(label)),
            "tokens": tokenize(pat),
        })
    return out


def digit_ranges():
    ranges = []
    start = prev = None
    for cp in range(sys.maxunicode + 1):
        if 0xD800 <= cp <= 0xDFFF:
            continue
        if chr(cp).isdecimal() and unicodedata.category(chr(cp)) == "Nd":
            if start is None:
                start = prev = cp
            elif cp == prev + 1:
                prev = cp
            else:
                ranges.append([start, prev]); start = prev = cp
    if start is not None:
        ranges.append([start, prev])
    return ranges


def probe_data_conf(sid_res):
    """finder / getter tables of spil_data_conf, obtained by probing get_finder_for / get_getter_for"""
    from spil import Sid, FindInPaths, FindInConstants, GetFromPaths
    finders = []      # descriptors, index = identity
    ids = {}

    def describe(f):
        if f is None:
            return None
        if id(f) in ids:
            return ids[id(f)]
        if isinstance(f, FindInConstants):
            parent = describe(f.parent_source)
            d = {"kind": "constants", "key": f.key, "values": list(f.values), "parent": parent}
        elif isinstance(f, FindInPaths):
            d = {"kind": "paths", "config": f.config_name if f.config_name != conf.default_path_config else None}
        else:
            raise OutOfSubset("finder %r" % (f,))
        finders.append(d)
        ids[id(f)] = len(finders) - 1
        return ids[id(f)]

    class Probe:
        def __init__(self, t):
            self.type = t

    by_type = []
    no_getter = []
    for l in [x["label"] for x in sid_res["labels"]]:
        f1 = conf.get_finder_for(Probe(l), None)
        f2 = conf.get_finder_for(Probe(l), None)
        if f1 is not f2:
            raise OutOfSubset("get_finder_for returns a new Finder per call for %s" % l)
        by_type.append([l, describe(f1)])
        g = conf.get_getter_for(Probe(l))
        if g is None:
            no_getter.append(l)
        elif not isinstance(g, GetFromPaths):
            raise OutOfSubset("getter %r" % (g,))
    fd = conf.get_finder_for(Probe("__no_such_type__"), None)
    gd = conf.get_getter_for(Probe("__no_such_type__"))
    g_next = conf.get_getter_for(Probe("__no_such_type__"), attribute="next.version")
    return {
        "finders": finders,
        "finder_by_type": [[l, i] for l, i in by_type if i is not None],
        "finder_default": describe(fd),
        "no_getter_types": no_getter,
        "has_default_getter": isinstance(gd, GetFromPaths),
        "next_getter": type(g_next).__name__,
    }


def pairs(d):
    return [[k, v] for k, v in d.items()]


def main():
    import importlib, os
    global CONF_DIR
    raw = importlib.import_module("spil_sid_conf")
    CONF_DIR = os.path.dirname(os.path.abspath(raw.__file__)).replace(os.sep, "/")
    out = {}
    out["digit_ranges"] = digit_ranges()
    out["raw"] = {
        "sid_templates": pairs(raw.sid_templates),
        "to_extrapolate": list(raw.to_extrapolate),
        # pristine here: no path configuration has been loaded yet (spil_fs_conf updates the
        # inner dictionaries of spil_sid_conf.key_patterns when it is imported)
        "key_patterns": [[m, pairs(v)] for m, v in raw.key_patterns.items()],
        "effective": pairs(conf.sid_templates),
    }
    sid_res = resolver_dump("sid")
    if conf.sip != "/" or conf.ors != ",":
        raise OutOfSubset("sip / ors")
    out["sid_resolver"] = sid_res
    out["conf"] = {
        "sid": {
            "sep": conf.sidtype_keytype_sep,
            "search_symbols": list(conf.search_symbols),
            "templates": [[l["label"], l["tokens"]] for l in sid_res["labels"]],
            "key_types": [[k, list(v)] for k, v in conf.key_types.items()],
            "leaf_keys": [[k, v] for k, v in conf.leaf_keys.items()],
            "extension_alias": [[k, list(v)] for k, v in conf.extension_alias.items()],
            "basetyped_narrowing": pairs(conf.basetyped_search_narrowing),
            "typed_narrowing": pairs(conf.typed_search_narrowing),
        },
        "paths": [],
        "default_path": conf.default_path_config or "",
        "data_suffix": conf.path_data_suffix,
    }
    out["path_resolvers"] = []
    out["roots"] = {}
    order = sys.argv[2].split(",") if len(sys.argv) > 2 and sys.argv[2] else list(conf.path_configs.keys())
    loaded = {}
    for name in order:
        loaded[name] = get_path_config(name)
    for name in conf.path_configs.keys():
        pc = loaded.get(name) or get_path_config(name)
        pr = resolver_dump(pc.name)
        pr["id"] = name          # identified by the CONFIGURED name; pc.name is checked against it (path_config_names)
        out.setdefault("path_config_names", []).append([name, pc.name])
        out["path_resolvers"].append(pr)
        mapping, typed_mapping = [], []
        # a typed mapping / extra keys: modelled for path_to_dict / dict_to_path (Spil.Model.PathX), NOT for the file
        # searches; such a configuration is read only for the runs that stay within that part of the model
        allow = os.environ.get("SPIL_VERIF_ALLOW_UNMODELLED") == "1"
        for k, v in pc.path_mapping.items():
            if not isinstance(k, str):
                if allow and isinstance(k, tuple) and len(k) == 2 and all(isinstance(x, str) for x in k):
                    out.setdefault("unmodelled", []).append("typed path_mapping key %r in %s" % (k, name))
                    typed_mapping.append([[k[0], k[1]], pairs(v)])
                    continue
                raise OutOfSubset("typed path_mapping key %r" % (k,))
            mapping.append([k, pairs(v)])
        sid_to_extra, extra_to_sid = [], []
        if pc.sidkeys_to_extrakeys or pc.extrakeys_to_sidkeys:
            if not allow:
                raise OutOfSubset("extra keys")
            out.setdefault("unmodelled", []).append("extra keys in %s" % name)
            sid_to_extra = [[k, [[nk, pairs(m)] for nk, m in v.items()]] for k, v in pc.sidkeys_to_extrakeys.items()]
            extra_to_sid = [[k, [[sk, pairs(m)] for sk, m in v.items()]] for k, v in pc.extrakeys_to_sidkeys.items()]
        out["conf"]["paths"].append({
            "name": name,
            "templates": [[l["label"], l["tokens"]] for l in pr["labels"]],
            "mapping": mapping,
            "defaults": pairs(pc.path_defaults),
            "search_mapping": pairs(pc.search_path_mapping),
            "typed_mapping": typed_mapping,
            "sid_to_extra": sid_to_extra,
            "extra_to_sid": extra_to_sid,
        })
        root = getattr(pc, "project_server_root_path", None) if name != "local" else None
        out["roots"][name] = canon(str(root or getattr(pc, "project_root_path", "")).replace(os.sep, "/"))
    out["conf_dir"] = CONF_DIR
    # key_patterns of the sid conf as they were when sid_conf_load applied them is not observable
    # any more (spil_fs_conf updates the shared inner dicts); the raw module value is dumped from a
    # pristine import in extract_raw_patterns().
    out["conf"]["data"] = probe_data_conf(sid_res)
    out["create_file_using_touch"] = bool(conf.create_file_using_touch)
    out["create_file_using_template"] = pairs(conf.create_file_using_template)
    from spil.util import caching
    out["max_size"] = caching._max_size
    json.dump(out, open(sys.argv[1], "w"), ensure_ascii=False)


if __name__ == "__main__":
    main()
