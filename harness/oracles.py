"""Property oracles: direct Python transcriptions of the property statements, evaluated against the
real implementation only (never against the model).  They do not decide a property (the theorems
do); they are the failing-input search and give concrete replays.

Each oracle takes a JSON input and returns a list of failure descriptions ([] = holds here).
They are imported by impl_server.py and therefore run inside a staged environment.
"""
import re, itertools, random

from spil import Sid, conf, SpilException
from resolva import Resolver
from spil.conf import util as conf_util

_PH = re.compile(r'{(?P<placeholder>.+?)(:(?P<expression>(\\}|.)+?))?}')


def template_fields(template):
    """[(key, expression)] of a sid template string (effective, after pattern replacing)"""
    out = []
    for m in _PH.finditer(template):
        expr = m.group("expression")
        if expr is None:
            expr = "[^/]*"
        expr = expr.replace("\\{", "{").replace("\\}", "}")
        out.append((m.group("placeholder"), expr))
    return out


_TPL_CACHE = {}


def templates():
    key = id(conf.sid_templates)
    if key not in _TPL_CACHE:
        _TPL_CACHE.clear()
        _TPL_CACHE[key] = [(label, template_fields(t)) for label, t in conf.sid_templates.items()]
    return _TPL_CACHE[key]


def accepts(fields, segs):
    return len(fields) == len(segs) and all(_full(e, seg) for (_, e), seg in zip(fields, segs))


def _full(expr, s):
    # "the placeholder pattern accepts its whole segment": the expression, nothing else, all of s
    return re.fullmatch(expr, s) is not None


def first_accepting(s):
    segs = s.split("/")
    for label, fields in templates():
        if accepts(fields, segs):
            return label, dict(zip([k for k, _ in fields], segs))
    return None, None


def observe(x):
    return {"type": x.type, "fields": list(x.fields.items()), "string": str(x), "bool": bool(x), "len": len(x)}


def expect_obs(ty, fields, string):
    return {"type": ty or "", "fields": list((fields or {}).items()), "string": string,
            "bool": bool(fields), "len": len(fields or {})}


# ------------------------------------------------------------------------------------------ C01

def oracle_C01(inp):
    s = inp["s"]
    if "?" in s:
        return []
    for pre in inp.get("pre", []):      # earlier calls must not matter: Sid objects handed to the factory
        try:
            Sid(Sid(pre))
        except BaseException as e:  # noqa
            return ["Sid(Sid(%r)) raised %s: %s" % (pre, type(e).__name__, e)]
    try:
        x = Sid(s)
    except BaseException as e:  # noqa
        return ["Sid(%r) raised %s: %s" % (s, type(e).__name__, e)]
    if s == "":
        exp = expect_obs("", {}, "")
    elif ":" in s:
        ty, rest = s.split(":", 1)
        if ty == "":
            t, f = first_accepting(rest) if rest else (None, None)
            exp = expect_obs(t, f, rest)
        else:
            tf = dict(templates()).get(ty)
            if tf is not None and rest and accepts(tf, rest.split("/")):
                exp = expect_obs(ty, dict(zip([k for k, _ in tf], rest.split("/"))), rest)
            else:
                exp = expect_obs("", {}, rest)
    else:
        t, f = first_accepting(s)
        exp = expect_obs(t, f, s)
    got = observe(x)
    if got != exp:
        return ["Sid(%r): expected %r, got %r" % (s, exp, got)]
    # the typing is a function of the string: a caller who edits the dictionary `fields` handed out
    # and asks again gets the same answer
    try:
        f = x.fields
        f.clear()
        f["project"] = "edited"
        got2 = observe(Sid(s))
    except BaseException as e:  # noqa
        return ["Sid(%r) a second time raised %s: %s" % (s, type(e).__name__, e)]
    if got2 != exp:
        return ["Sid(%r) created again after the caller edited the dictionary returned by .fields: expected %r, got %r" % (s, exp, got2)]
    return []


# ------------------------------------------------------------------------------------------ C02

_URL_META = set("&=#?%+;~ \t\r\n")


def natural(x):
    if not x:
        return False
    t, _ = first_accepting(str(x))
    return t == x.type


def same(a, b):
    return a == b and a.type == b.type and str(a) == str(b) and list(a.fields.items()) == list(b.fields.items())


def oracle_C02(inp):
    s = inp["s"]
    rng = random.Random(inp.get("seed", 0))
    out = []
    for pre in inp.get("pre", []):      # Sid OBJECTS of other types of the same string handed to Sid() before
        try:
            Sid(Sid(pre))
        except BaseException as e:  # noqa
            return ["Sid(Sid(%r)) raised %s: %s" % (pre, type(e).__name__, e)]
    x = Sid(s)
    try:      # whatever a caller does to the dictionary `fields` hands out is the caller's business
        f0 = x.fields
        for k0 in list(f0)[-1:]:
            f0[k0] = "edited"
        f0["injected"] = "x"
        if len(f0) > 2:
            f0[list(f0)[0]] = f0.pop(list(f0)[0])      # re-ordered in place
    except BaseException as e:  # noqa
        return ["editing the dictionary returned by .fields raised %s" % type(e).__name__]
    x = Sid(s)
    if inp.get("pre") and x and ":" not in s and "?" not in s and not natural(x):
        return ["after Sid(Sid(%r)), the plain string %r is typed %r, not by its first accepting template" % (inp["pre"], s, x.type)]
    if not x or ":" in s or "?" in s or not natural(x):
        return []
    for pre in inp.get("pre", []):      # and a typed Sid object keeps its type when it goes through Sid()
        z = Sid(pre)
        if z and Sid(z).type != z.type:
            out.append("Sid(Sid(%r)) has type %r, the Sid had %r" % (pre, Sid(z).type, z.type))
    # asking a Sid for its other forms does not change it: it stays equal to a Sid of the same string
    o0 = observe(x)
    forms0 = (x.uri, x.as_query(), repr(x), x.as_query(), x.uri)
    if observe(x) != o0 or not same(x, Sid(s)) or forms0[0] != forms0[4] or forms0[1] != forms0[3]:
        out.append("Sid(%r) after uri / as_query() / repr(): %r, before %r; forms %r" % (s, observe(x), o0, forms0))
        x = Sid(s)
    y = Sid(x.uri)
    if not same(x, y):
        out.append("Sid(uri) differs for %r: %r vs %r" % (s, observe(x), observe(y)))
    items = list(x.fields.items())
    perms = [items[::-1], items[1:] + items[:1]]
    for _ in range(2):
        p = list(items)
        rng.shuffle(p)
        perms.append(p)
    for p in perms:
        y = Sid(fields=dict(p))
        if not same(x, y):
            out.append("Sid(fields=%r) differs from Sid(%r): %r" % (p, s, observe(y)))
            break
    if all(v and not (set(v) & _URL_META) for v in x.fields.values()):
        y = Sid(query=x.as_query())
        if not same(x, y):
            out.append("Sid(query=as_query()) differs for %r: %r" % (s, observe(y)))
    if not (set(x.uri) & set("'\\\n\r")):
        y = eval(repr(x), {"Sid": Sid})
        if not same(x, y):
            out.append("eval(repr()) differs for %r" % s)
    if not same(x, x.copy()):
        out.append("copy() differs for %r" % s)
    canon = Resolver.get("sid").get_format_for(x.type).format(**x.fields)
    if str(x) != canon:
        out.append("string of %r is not the canonical rendering %r" % (s, canon))
    # equality exactly when type and fields are equal
    s2 = inp.get("s2")
    if s2 is not None:
        z = Sid(s2)
        if z and natural(z):
            eq_tf = (x.type == z.type and x.fields == z.fields)
            if (x == z) != eq_tf:
                out.append("%r == %r is %r but type/fields equality is %r" % (s, s2, x == z, eq_tf))
    return out


# ------------------------------------------------------------------------------------------ C03

def oracle_C03(inp):
    s = inp["s"]
    out = []
    x = Sid(s)
    if inp.get("via_path"):      # the same Sid as Finders build it: from its path in a path configuration
        p0 = x.path(inp["via_path"]) if x else None
        if p0 is None:
            return []
        x = Sid(path=p0, config=inp["via_path"])
        if not x:
            return []
    if "?" in s:
        return []
    if not x:
        try:
            checks = [("parent", x.parent), ("get_as", x.get_as("project")), ("get_with", x.get_with(project="hamlet"))]
            for name, y in checks:
                if not (isinstance(y, Sid) and not y and str(y) == "" and y.type == ""):
                    if str(x) != "" or name != "get_with":
                        out.append("untyped %r: %s returned %r instead of the empty Sid" % (s, name, y))
            if x.keytype is not None or x.basetype is not None or len(x) != 0:
                out.append("untyped %r: keytype/basetype/len not None/None/0" % s)
            y = x / "v"
            if not isinstance(y, Sid):
                out.append("untyped / did not return a Sid")
        except BaseException as e:  # noqa
            out.append("navigation on untyped %r raised %s: %s" % (s, type(e).__name__, e))
        return out
    keys = list(x.fields.keys())
    vals = list(x.fields.values())
    segs = str(x).split("/")
    # a caller may do what it likes with the dictionary `fields` hands out (build a variant, drop a level):
    # navigation of the Sid itself is a function of the Sid
    try:
        f = x.fields
        if len(f) > 1:
            f.pop(list(f)[-1])
        f[list(f)[0]] = "edited"
    except BaseException as e:  # noqa
        out.append("editing the dictionary returned by .fields raised %s" % type(e).__name__)
    if list(x.fields.items()) != list(zip(keys, vals)):
        out.append("%r: editing the dictionary returned by .fields changed the Sid: %r" % (s, list(x.fields.items())))
    for i, k in enumerate(keys):
        y = x.get_as(k)
        if not y:
            out.append("%r.get_as(%r) is untyped" % (x.uri, k))
            continue
        if list(y.fields.items()) != list(zip(keys[:i + 1], vals[:i + 1])):
            out.append("%r.get_as(%r) fields %r" % (x.uri, k, y.fields))
        if str(y) != "/".join(segs[:i + 1]):
            out.append("%r.get_as(%r) string %r" % (x.uri, k, str(y)))
        # ... and it is THE Sid of those fields (C02: type and fields decide identity): typed as its string
        # is typed, and for the last key of a naturally typed Sid it is the Sid itself
        tf = dict(templates()).get(y.type)
        if tf is None or [kk for kk, _ in tf] != keys[:i + 1] or not accepts(tf, segs[:i + 1]):
            out.append("%r.get_as(%r) has type %r, whose template does not accept the fields up to %r" % (x.uri, k, y.type, k))
        elif ":" not in s and natural(x) and i == len(keys) - 1 and not same(y, x):
            out.append("%r.get_as(its last key %r) = %r is not the Sid itself" % (x.uri, k, y.uri))
    if len(x) >= 2:
        p = x.parent
        g = x.get_as(keys[-2])
        if not same(p, g) or len(p) != len(x) - 1:
            out.append("%r.parent = %r, get_as(second-to-last) = %r" % (x.uri, p.uri, g.uri))
        back = p / vals[-1]
        if ":" in str(x):
            pass      # '/' re-reads the concatenated STRING, and a string containing ':' is by syntax a uri ('type:string'):
                      # a value with ':' only exists in a uri-forced Sid and is outside the '/' clause (premise made visible)
        elif natural(x) and ":" not in s:
            if not same(back, x):
                out.append("%r: parent / last = %r" % (x.uri, back.uri))
        elif str(back) != str(x):
            out.append("%r: parent / last has another string: %r" % (x.uri, observe(back)))
    else:
        if not same(x.parent, x):
            out.append("one-field %r is not its own parent" % x.uri)
    y = x
    for _ in range(len(x) - 1):
        y = y.parent
    if len(y) != 1:
        out.append("%r: walking parents len-1 times gives %r" % (x.uri, y.uri))
    if x.keytype != keys[-1] or x.basetype != x.type.split(conf.sidtype_keytype_sep)[0] or len(x) != len(keys):
        out.append("%r: keytype/basetype/len incoherent" % x.uri)
    return out


# ------------------------------------------------------------------------------------------ C04

def types_of(fields):
    """all templates whose key set is the key set of `fields` and which accept every value"""
    out = []
    for label, tf in templates():
        keys = [k for k, _ in tf]
        if set(keys) == set(fields.keys()) and len(keys) == len(set(keys)):
            if all(_full(e, fields[k]) for k, e in tf):
                s = "/".join(fields[k] for k in keys)
                out.append((label, s, [(k, fields[k]) for k in keys]))
    return out


def parse_query(q):
    """the statement's reading of a query text: '&' (or '?') separated key=value pairs"""
    pairs = []
    for piece in q.replace("?", "&").split("&"):
        if "=" not in piece:
            continue
        k, v = piece.split("=", 1)
        if v == "":
            continue
        pairs.append((k, v))
    return pairs


def oracle_C04(inp):
    out = []
    s = inp["s"]
    x = Sid(s)
    if not x:
        return []
    if "q" in inp:
        q = inp["q"]
        if set(q) & set("%+#\t\r\n") or not q:
            return []
        pairs = dict(parse_query(q))   # a query is a mapping: the last value of a repeated key counts
        overlay = dict(x.fields)
        for k, v in pairs.items():
            optional = v.startswith("~")
            if optional:
                v = v.replace("~", "")
            if k in overlay or not optional:
                overlay[k] = v
        try:
            y = x.get_with(query=q) if inp.get("via") == "get_with" else Sid(x.uri + "?" + q)
        except BaseException as e:  # noqa
            return ["query %r on %r raised %s: %s" % (q, x.uri, type(e).__name__, e)]
        ts = types_of(overlay)
        is_search = any(sym in (str(x) + "?" + q) for sym in conf.search_symbols)
        if not ts:
            chosen = None
        elif len(ts) == 1:
            chosen = ts[0]
        elif x.type in [t for t, _, _ in ts]:
            chosen = [t for t in ts if t[0] == x.type][0]
        elif is_search:
            chosen = ts[0]
        else:
            chosen = None
        if chosen is None:
            exp = {"type": x.type, "fields": list(x.fields.items()), "string": str(x) + "?" + q}
        else:
            exp = {"type": chosen[0], "fields": chosen[2], "string": chosen[1]}
        got = {"type": y.type, "fields": list(y.fields.items()), "string": str(y)}
        if got != exp:
            out.append("%r ? %r: expected %r, got %r" % (x.uri, q, exp, got))
    if "kw" in inp:
        kw = {k: v for k, v in inp["kw"]}
        try:
            if inp.get("kv") and len(kw) == 1:
                (k, v), = kw.items()
                y = x.get_with(key=k, value=v)
            else:
                y = x.get_with(**kw)
        except BaseException as e:  # noqa
            return out + ["get_with(%r) on %r raised %s: %s" % (kw, x.uri, type(e).__name__, e)]
        overlay = {k: v for k, v in x.fields.items() if not (k in kw and kw[k] is None)}
        overlay.update({k: v for k, v in kw.items() if v is not None})
        if y and dict(y.fields) != overlay:
            out.append("%r.get_with(%r) is typed with fields %r, requested overlay %r" % (x.uri, kw, dict(y.fields), overlay))
        if not y and (str(y) != "" or y.type != ""):
            out.append("%r.get_with(%r) untyped but not the empty Sid: %r" % (x.uri, kw, observe(y)))
    return out


# ------------------------------------------------------------------------------------------ C14

_ELSEWHERE = r'''
import sys, json, pickle, base64, copy
from spil import Sid
uris = json.loads(sys.stdin.read())
sids = [Sid(u) for u in uris]
seen = set(sids)                       # hashed, compared, used as a key: as any producer would have
[s == t for s in sids[:5] for t in sids[:5]]
[repr(s) for s in sids]
for s in sids:
    try:
        s.path()
    except BaseException:
        pass
sys.stdout.write("@@" + base64.b64encode(pickle.dumps(sids)).decode() + "\n")
'''


def _pickled_elsewhere(uris):
    """the Sids of `uris` built, hashed and pickled by ANOTHER interpreter (another hash seed), loaded here"""
    import subprocess, sys, os, json, pickle, base64
    seed = os.environ.get("PYTHONHASHSEED", "")
    env = dict(os.environ, PYTHONHASHSEED="7" if seed != "7" else "8")
    p = subprocess.run([sys.executable, "-W", "ignore", "-c", _ELSEWHERE], input=json.dumps(uris), env=env,
                       capture_output=True, text=True, timeout=120)
    for line in p.stdout.splitlines():
        if line.startswith("@@"):
            return pickle.loads(base64.b64decode(line[2:]))
    raise RuntimeError("no answer from the other interpreter: %s" % (p.stderr or p.stdout)[-300:])


def oracle_C14_elsewhere(inp):
    uris = inp["pickled_elsewhere"]
    out = []
    loaded = _pickled_elsewhere(uris)
    for u, x in zip(uris, loaded):
        y = Sid(u)
        if x.uri != y.uri:
            continue      # (not the subject here: the uri of a Sid read back)
        if x != y or hash(x) != hash(y) or x not in {y} or {y: 1}.get(x) != 1 or len({x, y}) != 1:
            out.append("Sid(%r) hashed and pickled by another interpreter, loaded here: == %r, hash equal %r, found in a set of the equal Sid %r"
                       % (u, x == y, hash(x) == hash(y), x in {y}))
        if (str(x), x.type, list(x.fields.items())) != (str(y), y.type, list(y.fields.items())):
            out.append("Sid(%r) read back from a pickle: %r / %r / %r" % (u, str(x), x.type, list(x.fields.items())))
    return out


def oracle_C14(inp):
    if "pickled_elsewhere" in inp:
        return oracle_C14_elsewhere(inp)
    out = []
    a, b = Sid(inp["a"]), Sid(inp["b"])
    if (a == b) != (a.uri == b.uri):
        out.append("%r == %r is %r but uris are %r / %r" % (inp["a"], inp["b"], a == b, a.uri, b.uri))
    if a == b and hash(a) != hash(b):
        out.append("equal Sids hash differently: %r %r" % (a.uri, b.uri))
    if a == b and len({a, b}) != 1:
        out.append("set of two equal Sids has 2 elements")
    if (a == inp["b"]) != (str(a) == inp["b"]):
        out.append("Sid == str disagrees with string equality: %r %r" % (a.uri, inp["b"]))
    lst = [Sid(t) for t in inp.get("more", [])] + [a, b]
    srt = sorted(lst)
    if [str(t) for t in srt] != sorted(str(t) for t in lst):
        out.append("sorted(Sids) is not ordered by string")
    # immutability: mutate every returned container, re-observe
    before = (str(a), a.type, list(a.fields.items()), a.uri, hash(a))
    f = a.fields
    f["zz"] = "1"
    f.clear()
    try:
        a.get_with(project="x")
        a.get_with(query="project=x")
        if a:      # removal-only overlays (a None value removes the key), in both spellings
            ks = list(a.fields.keys())
            a.get_with(**{ks[-1]: None})
            a.get_with(key=ks[0], value=None)
            a.get_with(**{ks[-1]: None, "nosuchkey": None})
        if a:      # optional ('~') values for keys the Sid holds, through every way of building the Sid
            ks = list(a.fields.keys())
            for k in (ks[0], ks[-1], ks[len(ks) // 2]):
                for x in (a, Sid(a.uri), Sid(fields=a.fields)):
                    x.get_with(query="%s=~zz9" % k)
                    x.get_with(query="%s=~*" % k)
                    Sid(x.uri + "?%s=~zz9" % k)
        p = a.parent
        pf = p.fields
        pf.clear()
        for cfg_ in [None] + list(conf.path_configs.keys()):      # asking for its path changes no Sid
            try:
                a.path(cfg_) if cfg_ else a.path()
            except SpilException:
                pass
        a.get_as("project")
        (a / "x")
        a.copy().fields.clear()
        c = Sid(inp["a"])
        cf = c.fields
        cf["project"] = "mutated"
    except SpilException:
        pass
    # Python's own copy / pickle protocols are public operations too: they give equal Sids and change nothing
    try:
        import copy as _copy, pickle as _pickle
        empty_before = (str(Sid()), Sid().type, bool(Sid()))
        for how, z in (("copy.copy", _copy.copy(a)), ("copy.deepcopy", _copy.deepcopy(a)), ("pickle", _pickle.loads(_pickle.dumps(a))),
                       ("deepcopy of a list", _copy.deepcopy([a, b])[0])):
            if (str(z), z.type, list(z.fields.items())) != (before[0], before[1], before[2]):
                out.append("%s of %r gives %r" % (how, inp["a"], (str(z), z.type, list(z.fields.items()))))
        if (str(Sid()), Sid().type, bool(Sid())) != empty_before or str(Sid()) != "":
            out.append("after copying %r the empty Sid is %r" % (inp["a"], (str(Sid()), Sid().type, bool(Sid()))))
    except BaseException as e:  # noqa
        out.append("copy / pickle of %r raised %s: %s" % (inp["a"], type(e).__name__, e))
    # a dictionary handed to Sid(fields=...) stays the caller's: changing it later changes no Sid
    if a and a.type:
        for order in ("template", "reversed"):
            items = list(a.fields.items())
            given = dict(items if order == "template" else reversed(items))
            made = Sid(fields=given)
            obs = (str(made), made.type, list(made.fields.items()), made.uri, hash(made), made.as_query(), str(made.parent))
            ks = list(given.keys())
            given[ks[-1]] = "mutated"
            given["injected"] = "x"
            del given[ks[0]]
            obs2 = (str(made), made.type, list(made.fields.items()), made.uri, hash(made), made.as_query(), str(made.parent))
            if obs != obs2:
                out.append("Sid(fields=d) built from %s-ordered fields of %r changed when the caller changed d afterwards: %r -> %r"
                           % (order, inp["a"], obs, obs2))
    after = (str(a), a.type, list(a.fields.items()), a.uri, hash(a))
    again = Sid(inp["a"])
    after2 = (str(again), again.type, list(again.fields.items()), again.uri, hash(again))
    if before != after or before != after2:
        out.append("Sid %r changed after operations: %r -> %r / %r" % (inp["a"], before, after, after2))
    if a:      # ... and the same through its uri and its fields (other cache entries, same Sid)
        z = Sid(a.uri)
        obs = (str(z), z.type, list(z.fields.items()), z.uri)
        if obs != (before[0], before[1], before[2], before[3]):
            out.append("Sid %r rebuilt from its uri after the operations is %r, was %r" % (inp["a"], obs, before[:4]))
        z = Sid(fields=dict(before[2]))      # (from fields the type is re-detected: string and fields are what must hold)
        if z and (str(z), list(z.fields.items())) != (before[0], before[2]):
            out.append("Sid %r rebuilt from its fields after the operations is %r, was %r" % (inp["a"], (str(z), list(z.fields.items())), (before[0], before[2])))
    return out


# ------------------------------------------------------------------------------------------ C19

def oracle_C19(inp):
    out = []
    sep = inp.get("sep", "__")
    old = conf_util.sidtype_keytype_sep
    conf_util.sidtype_keytype_sep = sep
    try:
        if "templates" in inp and "to_extrapolate" in inp:
            ts = dict(inp["templates"])
            ex = list(inp["to_extrapolate"])
            res = conf_util.extrapolate_templates(dict(ts), ex)
            names = list(res.keys())
            kept = [(k, v) for k, v in res.items() if k in ts]
            if kept != list(ts.items()):
                out.append("explicit entries not kept in order: %r" % kept)
            added = [(k, v) for k, v in res.items() if k not in ts]
            if len(set(v for _, v in added)) != len(added) or any(v in ts.values() for _, v in added):
                out.append("duplicate templates among added entries: %r" % added)
            # blocks
            cur = None
            blocks = {}
            for k in names:
                if k in ts:
                    cur = k
                    blocks[cur] = []
                else:
                    blocks[cur].append(k)
            for k, blk in blocks.items():
                if k not in ex and blk:
                    out.append("entries %r added after non-extrapolated type %r" % (blk, k))
                parts = ts[k].split("/")
                prefixes = ["/".join(parts[:n]) for n in range(len(parts) - 1, 0, -1)]
                keytype = k.split(sep)[-1]
                base = k[:len(k) - len(keytype)]
                pos = -1
                for name in blk:
                    t = res[name]
                    if t not in prefixes or prefixes.index(t) <= pos:
                        out.append("added %r -> %r is not a proper prefix of %r in longest-first order" % (name, t, ts[k]))
                        continue
                    pos = prefixes.index(t)
                    lastkey = t.split("/")[-1].split(":")[0].replace("{", "").replace("}", "")
                    if name != base + lastkey:
                        out.append("added type for %r is named %r, expected %r" % (t, name, base + lastkey))
                if k in ex:
                    for t in prefixes:
                        lastkey = t.split("/")[-1].split(":")[0].replace("{", "").replace("}", "")
                        if t not in res.values() and (base + lastkey) not in res:
                            out.append("prefix %r of extrapolated %r got no type" % (t, k))
        if "key_patterns" in inp:
            ts = dict(inp["templates"])
            kp = {k: dict(v) for k, v in inp["key_patterns"]}
            res = dict(ts)
            conf_util.pattern_replacing(res, {k: dict(v) for k, v in kp.items()})
            if list(res.keys()) != list(ts.keys()):
                out.append("pattern_replacing changed the type names")
            for k, v in ts.items():
                if not any(m in k for m in kp) and res[k] != v:
                    out.append("pattern_replacing rewrote %r which no selector matches" % k)
    finally:
        conf_util.sidtype_keytype_sep = old
    return out


# ------------------------------------------------------------------------------------------ C08

def seg_glob(pat, item):
    """the glob relation of the statement: '*' = any run of characters other than '/', every other
    character matches itself, segment counts agree"""
    ps, it = pat.split("/"), item.split("/")
    if len(ps) != len(it):
        return False
    for p, x in zip(ps, it):
        rx = "[^/]*".join(re.escape(piece) for piece in p.split("*"))
        if re.fullmatch(rx, x, re.DOTALL) is None:
            return False
    return True


def oracle_C08(inp):
    from spil import FindInList
    from spil.sid.read.tools import unfold_search
    L, s = inp["l"], inp["s"]
    if ">" in s or ((any("[" in x for x in L) or "[" in s) and not inp.get("allow_bracket")):
        return []     # '[' : known finding K2 (replayed by its exact input only)
    out = []
    try:
        got = list(FindInList(list(L)).find(s, as_sid=False))
    except SpilException:
        return []   # error cases are C07's
    except BaseException as e:  # noqa
        return ["FindInList.find(%r) raised %s: %s" % (s, type(e).__name__, e)]
    x = Sid(s)
    alias_last = str(x).split("/")[-1] in conf.extension_alias
    if x and not x.is_search() and not alias_last:
        expected = {str(x)} if str(x) in L else set()
    else:
        try:
            unfolded = [str(u) for u in unfold_search(s)]
        except SpilException:
            return []
        if any("?" in u for u in unfolded):
            return []
        expected = {e for e in L if any(seg_glob(u, e) for u in unfolded)}
    if len(got) != len(set(got)):
        out.append("find(%r) yields duplicates: %r" % (s, got))
    if set(got) != expected:
        out.append("find(%r) over %r: expected %r, got %r" % (s, L, sorted(expected), sorted(got)))
    # match: found by s in a list containing only itself
    for item in L[:6]:
        y = Sid(item)
        if y:
            try:
                m = y.match(s)
                # "a list containing only itself": the Sid's string (an entry spelled with a uri prefix,
                # ':hamlet/a', is not the string of the Sid it denotes)
                alone = list(FindInList([str(y)]).find(s, as_sid=False))
                if m != (alone == [str(y)] or Sid(s) == y):
                    out.append("%r.match(%r) = %r but find in [itself] gives %r" % (item, s, m, alone))
            except SpilException:
                pass
    return out


# ------------------------------------------------------------------------------------------ C09

def oracle_C09(inp):
    from spil import FindInList
    from spil.sid.read.tools import unfold_search
    if inp.get("tree"):
        return _oracle_C09_tree(inp)
    L, s, index = inp["l"], inp["s"], inp["index"]
    if any("[" in x for x in L) or "[" in s:
        return []
    try:
        unfolded = [str(u) for u in unfold_search(s)]
    except SpilException:
        return []
    if not unfolded:
        return []
    for u in unfolded:   # premise: '>' at one position in every unfolded form
        segs = u.split("/")
        if ">" not in segs or segs.index(">") != index:
            return []
    try:
        got = list(FindInList(list(L)).find(s, as_sid=False))
        for _ in range(inp.get("repeat", 1)):     # asking again (same or another Finder instance) changes nothing
            again = list(FindInList(list(L)).find(s, as_sid=False))
            if again != got:
                return ["find(%r) answered %r, then %r when asked again" % (s, got, again)]
        matching = list(FindInList(list(L)).find(s.replace(">", "*"), as_sid=False))
    except BaseException as e:  # noqa
        return ["find(%r) raised %s: %s" % (s, type(e).__name__, e)]
    groups = {}
    for e in matching:
        segs = e.split("/")
        groups.setdefault(tuple(segs[:index]), []).append(segs)
    expected = {"/".join(max(g)) for g in groups.values()}
    out = []
    if len(got) != len(set(got)):
        out.append("find(%r) yields duplicates" % s)
    if set(got) != expected:
        out.append("find(%r) over %r: expected %r, got %r" % (s, L, sorted(expected), sorted(got)))
    return out


def _oracle_C09_tree(inp):
    """'the answer does not depend on which Finder serves it': the universe built as a tree, the
    greatest entry of each group computed from the list of existing Sids"""
    from spil import FindInList, FindInPaths, FindInAll
    out = []
    leaves, s, index = inp["leaves"], inp["s"], inp["index"]
    wipe()
    build(leaves, None)
    G = [g for g in closure(leaves) if Sid(g).path() is not None]
    try:
        us = unfolded(s)
    except SpilException:
        return []
    if not us or any((str(u).split("/") + [""] * (index + 1))[index] != ">" or str(u).count(">") != 1 for u in us):
        return []
    if not all(has_path_type(u.type) for u in us):
        return []
    types = {u.type for u in us}
    matching = [e for e in G if Sid(e).type in types and any(seg_glob(str(u).replace(">", "*"), e) for u in us)]
    groups = {}
    for e in matching:
        segs = e.split("/")
        groups.setdefault(tuple(segs[:index]), []).append(segs)
    expected = {"/".join(max(g)) for g in groups.values()}
    for kind, cfgname, bs in inp.get("before", []):      # calls made earlier in the session must not matter
        try:
            list((FindInAll(cfgname) if kind == "all" else FindInPaths(cfgname)).find(bs, as_sid=False))
        except BaseException:  # noqa
            pass
    finders = [("FindInList", lambda: FindInList([e for e in G if Sid(e).type in types])), ("FindInPaths", FindInPaths)]
    if all(uses_paths_finder(u) for u in us):
        finders.append(("FindInAll", FindInAll))
    for name, mk in finders:
        try:
            got = list(mk().find(s, as_sid=False))
            one = mk().find_one(s, as_sid=False)
        except BaseException as e:  # noqa
            out.append("%s.find(%r) raised %s: %s" % (name, s, type(e).__name__, e))
            continue
        if set(got) != expected or len(got) != len(set(got)):
            out.append("%s.find(%r) over the tree of %r: expected %r, got %r" % (name, s, leaves, sorted(expected), sorted(got)))
        if (one is None) != (not expected) or (one is not None and one not in expected):
            out.append("%s.find_one(%r) = %r, expected one of %r" % (name, s, one, sorted(expected)))
    return out


# ------------------------------------------------------------------------------------------ C07

class Raises(Exception):
    pass


def _handle_ext(x):
    if not x:
        return ""
    exts = [e.strip() for e in x.split(",")] if "," in x else [x]
    res = []
    for e in exts:
        res.extend(conf.extension_alias.get(e, [e]))
    return ",".join(sorted(set(res)))


def _apply(ty, string, fields, q):
    """the decision table of C04 on a typed search; None = the query does not fit (dropped)"""
    pairs = dict(parse_query(q))
    overlay = dict(fields)
    for k, v in pairs.items():
        optional = v.startswith("~")
        if optional:
            v = v.replace("~", "")
        if k in overlay or not optional:
            overlay[k] = v.replace(" ", "") if False else v
    ts = types_of(overlay)
    is_search = any(sym in (string + "?" + q) for sym in conf.search_symbols)
    if not ts:
        return None
    if len(ts) == 1:
        c = ts[0]
    elif ty in [t for t, _, _ in ts]:
        c = [t for t in ts if t[0] == ty][0]
    elif is_search:
        c = ts[0]
    else:
        return None
    return c[0], c[1], dict(c[2])


def denotes(s):
    """the set of typed searches (type, string) the search expression denotes"""
    import itertools
    body, q = s.split("?", 1) if "?" in s else (s, "")
    parts = body.split("/")
    parts[-1] = _handle_ext(parts[-1])
    qd = None
    if q:
        qd = dict(parse_query(q))
        for lk in set(conf.leaf_keys.values()):
            if qd.get(lk):
                qd[lk] = _handle_ext(qd[lk])
    alts = [[a.strip() for a in p.split(",")] if "," in p else [p] for p in parts]
    bodies = ["/".join(c) for c in itertools.product(*alts)]
    queries = [None]
    if qd is not None and "," in ("/".join(parts) + "?" + "&".join("%s=%s" % kv for kv in qd.items())):
        keys = list(qd.keys())
        vals = [qd[k].split(",") if "," in qd[k] else [qd[k]] for k in keys]
        queries = [dict(zip(keys, c)) for c in itertools.product(*vals)]
    elif qd is not None:
        queries = [qd]
    out = set()
    tpls = templates()
    for b in bodies:
        typed = []
        n = b.count("/**")
        if n > 1:
            raise Raises()
        if n == 1:
            root = b.split("/**")[0]
            rt, _ = first_accepting(root) if root else (None, None)
            if not rt:
                raise Raises()
            lk = conf.leaf_keys.get(rt.split(conf.sidtype_keytype_sep)[0])
            if not lk:
                raise Raises()
            for label, tf in tpls:
                if tf and tf[-1][0] == lk:
                    k = len(tf) - (b.count("/") - 1) - 0
                    # the filled string must have exactly len(tf) segments
                    need = len(tf) - 1 - b.count("/") + 1
                    if need < 0:
                        continue
                    filled = b.replace("/**", "/*" * need)
                    if accepts(tf, filled.split("/")):
                        typed.append((label, filled, dict(zip([x for x, _ in tf], filled.split("/")))))
        else:
            for label, tf in tpls:
                if b and accepts(tf, b.split("/")):
                    typed.append((label, b, dict(zip([x for x, _ in tf], b.split("/")))))
        for qq in queries:
            for ty, st, fl in typed:
                cur = (ty, st, fl)
                if qq is not None and qq:
                    qs = "&".join("%s=%s" % (k, v) for k, v in qq.items())
                    cur = _apply(ty, st, fl, qs)
                    if cur is None:
                        continue
                nq = conf.basetyped_search_narrowing.get(cur[0].split(conf.sidtype_keytype_sep)[0], "")
                if nq:
                    cur = _apply(cur[0], cur[1], cur[2], nq)
                    if cur is None:
                        continue
                nq = conf.typed_search_narrowing.get(cur[0], "")
                if nq:
                    cur = _apply(cur[0], cur[1], cur[2], nq)
                    if cur is None:
                        continue
                out.add((cur[0], cur[1]))
    return out


def oracle_C07(inp):
    from spil.sid.read.tools import unfold_search
    s = inp["s"]
    if set(s) & set("%+#\t\r\n") or "--start--" in s:
        return []
    q = s.split("?", 1)[1] if "?" in s else ""
    if q and any(("=" not in piece and piece) for piece in q.replace("?", "&").split("&")):
        pass
    if s.split("?")[0] == "":
        return []     # '?query' alone is the Sid(query=...) form, not a search expression
    out = []
    try:
        exp = denotes(s)
        exp_raises = False
    except Raises:
        exp, exp_raises = None, True
    try:
        got = unfold_search(s)
    except SpilException:
        if not exp_raises:
            out.append("unfold_search(%r) raised SpilException, expected %r" % (s, sorted(exp)))
        return out
    except BaseException as e:  # noqa
        return ["unfold_search(%r) raised %s: %s" % (s, type(e).__name__, e)]
    if exp_raises:
        return ["unfold_search(%r) returned %r, expected SpilException" % (s, [x.uri for x in got])]
    pairs = [(x.type, str(x)) for x in got]
    if len(pairs) != len(set(pairs)):
        out.append("unfold_search(%r) has duplicates" % s)
    if any((not x) or "?" in str(x) for x in got):
        out.append("unfold_search(%r) returned an untyped Sid or an un-applied query" % s)
    if set(pairs) != exp:
        out.append("unfold_search(%r): expected %r, got %r" % (s, sorted(exp), sorted(pairs)))
    return out


# ------------------------------------------------------------------------------------------ C05 / C06

def _path_values_accepted(x, pc):
    """does the path template of x's type accept the values of x as this configuration writes them on disk?  The
    statement's own reading of a path configuration (defaults for empty values, the FIRST disk word of a mapped value,
    defaults for template-only keys), rendered with the template's format and matched against its pattern.
    None when this reading does not apply (extra keys, typed mappings)."""
    import re as _re
    r = Resolver.get(pc.name)
    fmt, pat, keys = r.get_format_for(x.type), r.get_regex_for(x.type), r.get_keys_for(x.type)
    if fmt is None or pat is None or getattr(pc, "sidkeys_to_extrakeys", None) or any(not isinstance(k, str) for k in pc.path_mapping):
        return None
    data = dict(x.fields)
    for k in list(data):
        if not data[k] and pc.path_defaults.get(k):
            data[k] = pc.path_defaults[k]
    for k, val in list(data.items()):
        m = pc.path_mapping.get(k)
        if val and m:
            data[k] = next((disk for disk, sidv in m.items() if sidv == val), val)
    for k in keys or []:
        if k not in data and pc.path_defaults.get(k):
            data[k] = pc.path_defaults[k]
    if set(data) != set(keys or []):
        return None
    try:
        rendered = fmt.format(**data)
    except (KeyError, IndexError):
        return None
    return pat.match(rendered) is not None


def _declared_reject(x, pc):
    """does the configuration's OWN key_patterns (the module attribute, as written) rule out a value of x as it is
    written on disk?  Read from the declaration, not from the loaded resolver."""
    import re as _re
    kp = getattr(pc, "key_patterns", None) or {}
    data = dict(x.fields)
    for k, val in list(data.items()):
        m = pc.path_mapping.get(k) if isinstance(pc.path_mapping.get(k), dict) else None
        if val and m:
            data[k] = next((disk for disk, sidv in m.items() if sidv == val), val)
    for k, w in data.items():
        decl = [rep for sel, d in kp.items() if sel in x.type for src, rep in d.items()
                if src.startswith("{%s}" % k) or src.startswith("{%s:" % k)]
        alts = []
        for rep in decl:
            m2 = _re.match(r"^\{%s:\((.*)\)\}$" % _re.escape(k), rep)
            if m2:
                alts.append([a.replace("\\", "") for a in m2.group(1).split("|")])
        if alts and all(w not in a for a in alts):
            return True
    return False


def oracle_C05(inp):
    """Sid -> path -> Sid for a concrete typed Sid with values outside {'', '.'}"""
    from spil.sid.pathops.pathconfig import get_path_config
    s = inp["s"]
    out = []
    for pre in inp.get("pre", []):      # earlier path() calls on same-string Sids of other types must not matter
        y = Sid(pre)
        for cfg in conf.path_configs.keys():
            try:
                py = y.path(cfg)
                if py is not None and not has_path_type(y.type, cfg):
                    out.append("%r has no path template in %r but path %r" % (y.uri, cfg, str(py)))
            except BaseException as e:  # noqa
                out.append("%r.path(%r) raised %s: %s" % (pre, cfg, type(e).__name__, e))
    x = Sid(s)
    if not x or x.is_search():
        return out
    for pre in inp.get("pre", []):      # … and the other way round: after x's own path was asked
        y = Sid(pre)
        for cfg in conf.path_configs.keys():
            x.path(cfg)
            py = y.path(cfg)
            if py is not None and not has_path_type(y.type, cfg):
                out.append("%r has no path template in %r but path %r (after %r.path)" % (y.uri, cfg, str(py), x.uri))
    if any(v in ("", ".") or "/" in v for v in x.fields.values()) and not inp.get("allow_empty"):
        return []     # known finding K1 (replayed by its exact input only)
    paths = {}
    for cfg in conf.path_configs.keys():
        try:
            p = x.path(cfg)
            p2 = x.path(cfg)
        except BaseException as e:  # noqa
            out.append("%r.path(%r) raised %s: %s" % (x.uri, cfg, type(e).__name__, e))
            continue
        if p != p2:
            out.append("path() is not a function: %r %r" % (p, p2))
        pc = get_path_config(cfg)
        has_tpl = Resolver.get(pc.name).get_pattern_for(x.type) is not None
        if not has_tpl:
            if p is not None:
                out.append("%r has no path template in %r but path %r" % (x.uri, cfg, p))
            continue
        acc = _path_values_accepted(x, pc)
        if p is None:
            if acc is True or (acc is False and not _declared_reject(x, pc)):
                out.append("%r.path(%r) is None although its type has a path template%s" % (
                    x.uri, cfg, "" if acc else " and the key_patterns this configuration DECLARES accept its values"))
            continue      # (a value the patterns this configuration declares do not accept: no path, by design)
        if acc is False:
            out.append("%r.path(%r) = %r although the path patterns of this configuration do not accept its values" % (x.uri, cfg, str(p)))
            continue
        paths[cfg] = str(p)
        y = Sid(path=str(p), config=cfg)
        if not same(x, y) and natural(x):
            out.append("Sid(path=%r, config=%r) = %r, expected %r" % (str(p), cfg, y.uri, x.uri))
        elif not natural(x) and (str(y) != str(x) or y.type != x.type):
            out.append("Sid(path=%r, config=%r) = %r, expected %r" % (str(p), cfg, y.uri, x.uri))
    roots = _roots()
    if len(set(roots.values())) == len(roots) and len(paths) > 1 and len(set(paths.values())) != len(paths):
        out.append("%r has the same path under configurations with different roots: %r" % (x.uri, paths))
    rel = {cfg: p[len(roots[cfg]):] for cfg, p in paths.items() if p.startswith(roots[cfg])}
    if len(rel) != len(paths):
        out.append("a path of %r is not under the root of its configuration: %r (roots %r)" % (x.uri, paths, roots))
    # "differ only by the configured root": for configurations that are the same up to the root
    groups = {}
    for cfg in rel:
        pc = get_path_config(cfg)
        r = Resolver.get(pc.name)
        sig = (repr(sorted((k, sorted(v.items())) for k, v in pc.path_mapping.items() if isinstance(k, str))),
               repr([(l, r.get_pattern_for(l).replace(roots[cfg], "<root>")) for l in r.get_labels()]))
        groups.setdefault(sig, []).append(cfg)
    for cfgs in groups.values():
        if len({rel[c] for c in cfgs}) > 1:
            out.append("paths of %r differ by more than the root: %r" % (x.uri, {c: paths[c] for c in cfgs}))
    s2 = inp.get("s2")
    if s2:
        z = Sid(s2)
        if z and not z.is_search() and (inp.get("allow_empty") or not any(v in ("", ".") for v in z.fields.values())):
            for cfg in paths:
                pz = z.path(cfg)
                if pz is not None and str(pz) == paths[cfg] and not (z.type == x.type and z.fields == x.fields):
                    out.append("different Sids %r and %r share the path %r" % (x.uri, z.uri, paths[cfg]))
    return out


def oracle_C06(inp):
    p, cfg = _real(inp["path"]), inp.get("config")
    try:
        x = Sid(path=p, config=cfg)
    except BaseException as e:  # noqa
        return ["Sid(path=%r, config=%r) raised %s: %s" % (inp["path"], cfg, type(e).__name__, e)]
    if x:
        q = x.path(cfg) if cfg else x.path()
        if str(q) != p:
            return ["Sid(path=%r, config=%r) = %r whose path is %r" % (inp["path"], cfg, x.uri, str(q))]
    elif str(x) != "" or x.type != "":
        return ["untyped result is not the empty Sid: %r" % observe(x)]
    return []


# ------------------------------------------------------------------------------------------ worlds

def _roots():
    from spil.sid.pathops.pathconfig import get_path_config
    out = {}
    for name in conf.path_configs.keys():
        pc = get_path_config(name)
        root = getattr(pc, "project_server_root_path", None) if name != "local" else None
        out[name] = str(root or pc.project_root_path)
    return out


def _conf_dir():
    import spil_sid_conf, os
    return os.path.dirname(os.path.abspath(spil_sid_conf.__file__)).replace(os.sep, "/")


def _real(p):
    return p.replace("/R/", _conf_dir() + "/")


def wipe():
    import shutil
    for r in _roots().values():
        shutil.rmtree(r, ignore_errors=True)
        shutil.rmtree(str(r) + "_volume", ignore_errors=True)


def closure(leaves):
    out = []
    for s in leaves:
        parts = s.split("/")
        for i in range(1, len(parts) + 1):
            x = "/".join(parts[:i])
            if x not in out:
                out.append(x)
    return out


def build(leaves, config=None, data=None):
    from spil import WriteToPaths
    w = WriteToPaths(config)
    for s in leaves:
        try:
            w.create(s, (data or {}).get(s))
        except SpilException:
            pass


def has_path_type(t, config="local"):
    from spil.sid.pathops.pathconfig import get_path_config
    pc = get_path_config(config)
    return Resolver.get(pc.name).get_pattern_for(t) is not None


def uses_paths_finder(x):
    from spil import FindInPaths
    return isinstance(conf.get_finder_for(x, None), FindInPaths)


def unfolded(s):
    from spil.sid.read.tools import unfold_search
    x = Sid(s)
    if x and not x.is_search() and str(x).split("/")[-1] not in conf.extension_alias:
        return [x]
    return list(unfold_search(s))


def oracle_C11(inp):
    """all Finders agree; local = server; junk never matters"""
    from spil import FindInPaths, FindInList, FindInAll
    from pathlib import Path
    out = []
    leaves = inp["leaves"]
    wipe()
    build(leaves, "local")
    build(leaves, "server")
    G = closure(leaves)
    before = {}
    for s in inp["searches"]:
        try:
            us = unfolded(s)
        except SpilException:
            continue
        if not us:
            continue
        gt_positions = set()
        for u in us:
            segs = str(u).split("/")
            gt_positions.add(segs.index(">") if ">" in segs else -1)
        if len(gt_positions) > 1 or any(">" in seg and seg != ">" for u in us for seg in str(u).split("/")):
            continue   # outside the premise of the sorted search
        try:
            a = list(FindInPaths("local").find(s, as_sid=False))
            b = list(FindInPaths("server").find(s, as_sid=False))
        except BaseException as e:  # noqa
            out.append("FindInPaths.find(%r) raised %s: %s" % (s, type(e).__name__, e))
            continue
        before[s] = set(a)
        if len(a) != len(set(a)):
            out.append("FindInPaths(local).find(%r) yields duplicates" % s)
        if set(a) != set(b):
            out.append("local and server trees answer differently for %r: %r vs %r" % (s, sorted(a), sorted(b)))
        if all(has_path_type(u.type) for u in us):
            types = {u.type for u in us}
            # FindInList matches strings and ignores the type of a typed search (known finding K6): the
            # "corresponding list" holds the entities of the searched types, unless the input says otherwise
            Gs = list(G) if inp.get("allow_type_blind") else [e for e in G if Sid(e).type in types]
            c = list(FindInList(Gs).find(s, as_sid=False))
            if set(c) != set(a):
                out.append("FindInList %r vs FindInPaths %r for %r over %r" % (sorted(c), sorted(a), s, leaves))
            # ... whatever the options the list Finder was built with (they are about speed and order, not about the answer)
            for opts in ({"do_pre_sort": True}, {"do_strip": True}):
                c2 = list(FindInList(list(Gs), **opts).find(s, as_sid=False))
                if set(c2) != set(c):
                    out.append("FindInList(%r) finds %r, FindInList() %r for %r" % (opts, sorted(c2), sorted(c), s))
        if all(uses_paths_finder(u) for u in us):
            try:
                dd = list(FindInAll().find(s, as_sid=False))
                if set(dd) != set(a):
                    out.append("FindInAll %r vs FindInPaths %r for %r" % (sorted(dd), sorted(a), s))
            except BaseException as e:  # noqa
                out.append("FindInAll.find(%r) raised %s: %s" % (s, type(e).__name__, e))
    # levels answered from constants: FindInAll(parent search) x the constant values the last segment admits
    for s in inp.get("const_searches", []):
        try:
            us = unfolded(s)
            fs = [conf.get_finder_for(u, None) for u in us]
            if not us or not all(type(f).__name__ == "FindInConstants" for f in fs) or len({id(f) for f in fs}) != 1:
                continue
            values = list(fs[0].values)
            if "/" not in s:
                continue
            head, last = s.rsplit("/", 1)
            alts = last.split(",")
            admitted = [val for val in values if any(seg_glob(a, val) for a in alts)]
            types = {u.type for u in us}
            expected = set()
            for p in FindInAll().find(head, as_sid=False):
                for val in admitted:
                    x = Sid(p + "/" + val)
                    if x and x.type in types:
                        expected.add(str(x))
            first = list(FindInAll().find(s, as_sid=False))
            for cname in ("local", "server"):      # the path Finders asked about a level they do not serve
                try:
                    list(FindInPaths(cname).find(s, as_sid=False))
                except SpilException:
                    pass
            got = list(FindInAll().find(s, as_sid=False))
            if sorted(first) != sorted(got):
                out.append("FindInAll.find(%r) answered %r, then %r after FindInPaths was asked the same search" % (s, sorted(first), sorted(got)))
            if len(got) != len(set(got)):
                out.append("FindInAll.find(%r) yields duplicates: %r" % (s, sorted(got)))
            if set(got) != expected:
                out.append("FindInAll.find(%r) = %r, but the parents found by %r combined with the constants %r give %r"
                           % (s, sorted(got), head, admitted, sorted(expected)))
            if len(alts) > 1:
                union = set()
                for a in alts:
                    union |= set(FindInAll().find(head + "/" + a, as_sid=False))
                if set(got) != union:
                    out.append("FindInAll.find(%r) = %r is not the union %r of its alternatives" % (s, sorted(got), sorted(union)))
        except BaseException as e:  # noqa
            out.append("FindInAll.find(%r) raised %s: %s" % (s, type(e).__name__, e))
    for j in inp.get("junk", []):
        p = Path(_real(j["path"]))
        try:
            if j["kind"] == "dir":
                p.mkdir(parents=True, exist_ok=True)
            else:
                p.parent.mkdir(parents=True, exist_ok=True)
                p.touch()
        except OSError:
            pass
    for s, a in before.items():
        try:
            a2 = set(FindInPaths("local").find(s, as_sid=False))
            if a2 != a:
                out.append("junk %r changed the result of %r: %r -> %r" % (inp.get("junk"), s, sorted(a), sorted(a2)))
        except BaseException as e:  # noqa
            out.append("with junk %r, find(%r) raised %s: %s" % (inp.get("junk"), s, type(e).__name__, e))
    return out


def oracle_C12(inp):
    from spil import FindInPaths, FindInList, FindInAll
    out = []
    leaves = inp["leaves"]
    wipe()
    build(leaves, None)
    G = closure(leaves)
    LJ = list(inp.get("list_junk", [])) + list(G)      # entries the configuration does not know come first
    finders = [("paths", lambda: FindInPaths()), ("list", lambda: FindInList(list(G))), ("all", lambda: FindInAll()),
               ("list+junk", lambda: FindInList(list(LJ)))]
    for s in inp["searches"]:
        for name, mk in finders:
            try:
                lst = list(mk().find(s, as_sid=False))
            except SpilException:
                continue
            except BaseException as e:  # noqa
                if isinstance(e, ValueError) and ">" in s:
                    continue   # '>' not at one position: outside the statement
                out.append("%s.find(%r) raised %s: %s" % (name, s, type(e).__name__, e))
                continue
            try:
                ex = mk().exists(s)
                one = mk().find_one(s, as_sid=False)
                sids = [str(x) for x in mk().find(s, as_sid=True)]
            except BaseException as e:  # noqa
                out.append("%s exists/find_one(%r) raised %s: %s" % (name, s, type(e).__name__, e))
                continue
            if ex != bool(lst and lst[0]):
                out.append("%s.exists(%r) = %r but find yields %r" % (name, s, ex, lst))
            if one != (lst[0] if lst else None):
                out.append("%s.find_one(%r) = %r but find yields %r" % (name, s, one, lst))
            if sids != lst:
                out.append("%s: as_sid=True yields %r, as_sid=False yields %r for %r" % (name, sids, lst, s))
    gset = set(G)
    for p in inp.get("probes", []):
        x = Sid(p)
        if not x or not uses_paths_finder(x):
            continue
        if x.path() is None:
            # a level without a path of its own (e.g. the node of a cache file): it never "exists", but the
            # entities below it do, and children() must list them
            kids = [g for g in G if g.rsplit("/", 1)[0] == p and "/" in g and Sid(g).path() is not None]
            if kids and not x.is_leaf() and (x / "*") and all(uses_paths_finder(Sid(k)) for k in kids):
                got = sorted(str(c) for c in x.children())
                if got != sorted(kids):
                    out.append("Sid(%r).children() = %r, ground truth %r (the Sid itself has no path)" % (p, got, sorted(kids)))
            continue
        if x.exists() != (p in gset):
            out.append("Sid(%r).exists() = %r, ground truth %r" % (p, x.exists(), p in gset))
        kids = [g for g in G if g.rsplit("/", 1)[0] == p and "/" in g and Sid(g).path() is not None]
        if x.is_leaf():
            if list(x.children()):
                out.append("leaf %r has children" % p)
        elif kids and all(uses_paths_finder(Sid(k)) for k in kids) or (not kids and uses_paths_finder(x / "*")):
            got = sorted(str(c) for c in x.children())
            if (x / "*") and got != sorted(kids):
                out.append("Sid(%r).children() = %r, ground truth %r" % (p, got, sorted(kids)))
        if "/" in p:
            par = p.rsplit("/", 1)[0]
            sibs = sorted(g for g in G if "/" in g and g.rsplit("/", 1)[0] == par and Sid(g).path() is not None)
            got = sorted(str(c) for c in x.siblings())
            if got != sibs:
                out.append("Sid(%r).siblings() = %r, ground truth %r" % (p, got, sibs))
        if p in gset and len(x) > 1 and x.parent.path() is not None and not x.parent.exists():
            out.append("%r exists but its parent does not" % p)
    return out


def _sidecar_key(path):
    import os
    d, n = os.path.split(str(path))
    stem = n.rsplit(".", 1)[0] if ("." in n[1:] and not n.endswith(".")) else n
    return (d, stem)


def oracle_C15(inp):
    """abstract machine: set of existing entities + overlay per sidecar; compare every outcome"""
    import json as _json
    from spil import WriteToPaths, GetFromPaths
    out = []
    wipe()
    E = set()
    data = {}
    for k, op in enumerate(inp["ops"]):
        kind = op["do"]
        if kind == "get_search":
            # reading through a search: one record per existing matching entity, each with ITS data and 'sid'
            srch = op["s"]
            try:
                recs = [dict(r) for r in list(GetFromPaths().get(srch))]
            except BaseException as e:  # noqa
                out.append("step %d get(%r) raised %s: %s" % (k, srch, type(e).__name__, e))
                break
            want = []
            for e in sorted(E):
                if seg_glob(srch, e):
                    dd = dict(data.get(_sidecar_key(Sid(e).path()), {}))
                    dd["sid"] = e
                    want.append(dd)
            key = lambda r: _json.dumps(r, sort_keys=True, default=str)
            if sorted(map(key, recs)) != sorted(map(key, want)):
                out.append("step %d get(%r): expected the records %r, got %r" % (k, srch, want, recs))
                break
            continue
        s = op["sid"]
        x = Sid(s)
        path = x.path() if x else None
        attrs = None if op.get("data") is None else {a: _json.loads(b) for a, b in op["data"]}
        try:
            if kind == "create":
                r = WriteToPaths().create(s, attrs)
                got = ("ok", bool(r))
            elif kind == "update":
                r = WriteToPaths().update(s, attrs or {})
                got = ("ok", bool(r))
            elif kind == "set":
                r = WriteToPaths().set(s, **(attrs or {}))
                got = ("ok", bool(r))
            elif kind == "get_data":
                got = ("ok", dict(GetFromPaths().get_data(s)))
            elif kind == "exists":
                got = ("ok", bool(x.exists()) if x else False)
            else:
                continue
        except SpilException:
            got = ("spil", None)
        except BaseException as e:  # noqa
            got = ("raise", "%s: %s" % (type(e).__name__, e))
        if kind == "create":
            if not x or path is None or s in E:
                exp = ("spil", None)
            else:
                exp = ("ok", True)
                for g in closure([s]):
                    if Sid(g).path() is not None:
                        E.add(g)
                if attrs:
                    data.setdefault(_sidecar_key(path), {}).update(attrs)
        elif kind in ("update", "set"):
            if not x or path is None or s not in E:
                exp = ("spil", None)
            else:
                exp = ("ok", True)
                data.setdefault(_sidecar_key(path), {}).update(attrs or {})
        elif kind == "get_data":
            if not x or path is None:
                exp = ("ok", {})
            else:
                dd = dict(data.get(_sidecar_key(path), {}))
                dd["sid"] = str(x)
                exp = ("ok", dd)
        elif kind == "exists":
            if not x or not uses_paths_finder(x):
                continue
            exp = ("ok", s in E)
        if got != exp:
            out.append("step %d %r: expected %r, got %r" % (k, op, exp, got))
            break
    return out


def oracle_C16(inp):
    import json as _json
    from spil import FindInPaths, GetFromPaths, GetFromAll
    out = []
    leaves = inp["leaves"]
    wipe()
    attrs_of = {s: {a: _json.loads(b) for a, b in kv} for s, kv in inp.get("data", [])}
    build(leaves, None, attrs_of)
    encs = {"str": str, "uri": (lambda x: x.uri), "none": (lambda x: None)}
    for q in inp["queries"]:
        s, attributes, enc = q["s"], q.get("attributes") or None, encs[q.get("enc", "str")]
        try:
            F = list(FindInPaths().find(s, as_sid=True))
            R = list(GetFromPaths().get(s, attributes=attributes, sid_encode=enc))
        except SpilException:
            continue
        except BaseException as e:  # noqa
            if isinstance(e, ValueError) and ">" in s:
                continue
            out.append("get(%r) raised %s: %s" % (s, type(e).__name__, e))
            continue
        if len(F) != len(R):
            out.append("get(%r) yields %d records for %d found Sids" % (s, len(R), len(F)))
            continue
        by_sidecar = {}
        for leaf in leaves:
            lp = Sid(leaf).path()
            if lp is not None and leaf in attrs_of:
                by_sidecar.setdefault(_sidecar_key(lp), {}).update(attrs_of[leaf])
        for x, rec in zip(F, R):
            stored = dict(by_sidecar.get(_sidecar_key(x.path()), {})) if x.path() is not None else {}
            e = enc(x)
            if e:
                stored["sid"] = e
            else:
                stored.pop("sid", None)      # "omitted when it returns None"
            exp = {k: stored.get(k) for k in attributes} if attributes else stored
            if dict(rec) != exp:
                out.append("record of %r for get(%r, %r): expected %r, got %r" % (x.uri, s, attributes, exp, dict(rec)))
                break
        us = unfolded(s)
        if us and all(conf.get_getter_for(u) is not None for u in us):
            try:
                A = list(GetFromAll().get(s, attributes=attributes, sid_encode=enc))
                key = lambda r: _json.dumps(r, sort_keys=True, default=str)
                # one record per Sid the Finder yields, IN THE SAME ORDER
                if list(map(key, A)) != list(map(key, R)):
                    out.append("GetFromAll.get(%r) differs from GetFromPaths.get (records / order): %r vs %r" % (s, A, R))
                one_all = GetFromAll().get_one(s, attributes=attributes, sid_encode=enc)
                if dict(one_all) != (dict(A[0]) if A else {}):
                    out.append("GetFromAll.get_one(%r) = %r is not the first record of GetFromAll.get: %r" % (s, dict(one_all), A[:1]))
            except BaseException as e:  # noqa
                out.append("GetFromAll.get(%r) raised %s: %s" % (s, type(e).__name__, e))
        elif us and all(conf.get_getter_for(u) is None for u in us):
            try:
                A = list(GetFromAll().get(s, attributes=attributes, sid_encode=enc))
                if A:
                    out.append("GetFromAll.get(%r) yields records for types configured without Getter" % s)
            except BaseException as e:  # noqa
                out.append("GetFromAll.get(%r) raised %s: %s" % (s, type(e).__name__, e))
        elif us:
            # some types of the search have a Getter, some have none: exactly the records of the former
            try:
                A = list(GetFromAll().get(s, attributes=attributes, sid_encode=enc))
                key = lambda r: _json.dumps(r, sort_keys=True, default=str)
                keep = [rec for x, rec in zip(F, R) if conf.get_getter_for(x) is not None]
                got, want = list(map(key, A)), list(map(key, keep))
                if ">" in s:
                    got, want = sorted(got), sorted(want)
                if got != want:
                    out.append("GetFromAll.get(%r): the search unfolds into types with a Getter %r and without %r; expected the records of the former %r, got %r"
                               % (s, [u.type for u in us if conf.get_getter_for(u) is not None],
                                  [u.type for u in us if conf.get_getter_for(u) is None], keep, A))
            except BaseException as e:  # noqa
                out.append("GetFromAll.get(%r) raised %s: %s" % (s, type(e).__name__, e))
        if R:
            one = GetFromPaths().get_one(s, attributes=attributes, sid_encode=enc)
            if dict(one) != dict(R[0]):
                out.append("get_one(%r) is not the first record" % s)
    merged = {}
    for leaf in leaves:
        lp = Sid(leaf).path()
        if lp is not None and leaf in attrs_of:
            merged.setdefault(_sidecar_key(lp), {}).update(attrs_of[leaf])
    for sidstr, kv in inp.get("data", []):
        x = Sid(sidstr)
        for a, b in kv:
            want = merged.get(_sidecar_key(x.path()), {}).get(a)
            if a != "sid" and x.get_attr(a) != want:
                out.append("%r.get_attr(%r) = %r, stored %r" % (sidstr, a, x.get_attr(a), want))
    return out


def oracle_C18(inp):
    """version workflow over a set of existing versions of one task"""
    from spil import WriteToPaths
    out = []
    wipe()
    task = inp["task"]              # e.g. hamlet/a/char/x/model
    tail = inp.get("tail", "")      # e.g. "/w/ma" or "" : what follows the version
    versions = inp["versions"]
    def vs(n):
        return "v%03d" % n
    for n in versions:
        build([task + "/" + vs(n) + tail])
    for n, t2 in inp.get("others", []):     # versions that exist without this state / file
        build([task + "/" + vs(n) + t2])
    full_tail = tail
    for tail in [full_tail] + [pt for pt in inp.get("probe_tails", []) if pt != full_tail]:      # the same data asked at a higher level
        # the versions that exist: for the full tail, the ones that were built; for a higher level of the same data,
        # the built versions whose Sid at that level exists() (a level may be served by constants: C12's notion of existing)
        existing = sorted(set(versions))
        if tail != full_tail:
            built = sorted(set(list(versions) + [n for n, _ in inp.get("others", [])]))
            existing = [n for n in built if Sid(task + "/" + vs(n) + tail).exists()]
        last = max(existing) if existing else None
        probes = [task] if not tail else []
        beyond = [n for n in ((last or 0) + 1, (last or 0) + 4) if n <= 999]      # versions that do not exist, above the last
        probes += [task + "/" + vs(n) + tail for n in (existing[:2] + [5, 998, 999] + beyond)]
        probes += [task + "/*" + tail, task + "/>" + tail]
        for p in probes:
            x = Sid(p)
            if not x:
                continue
            try:
                gl, gn, gw = x.get_last("version"), x.get_next("version"), x.get_new("version")
            except BaseException as e:  # noqa
                out.append("%r: version call raised %s: %s" % (p, type(e).__name__, e))
                continue
            cur = x.get("version")
            exp_last = (task + "/" + vs(last) + tail) if last is not None else ""
            if str(gl) != exp_last:
                out.append("%r.get_last('version') = %r, expected %r (existing %r)" % (p, str(gl), exp_last, existing))
            if cur in ("*", ">"):
                n = (last or 0) + 1
            elif cur:
                n = int(cur[1:]) + 1
            else:
                n = 1
            exp_next = (task + "/" + vs(n) + tail) if n <= 999 else ""
            if cur is None and tail == "":
                exp_next = task + "/" + vs(1)
            if str(gn) != exp_next:
                out.append("%r.get_next('version') = %r, expected %r" % (p, str(gn), exp_next))
            n = (last or 0) + 1
            exp_new = (task + "/" + vs(n) + tail) if n <= 999 else ""
            if last is None and cur not in (None, "*", ">"):
                exp_new = str(gw)      # nothing exists: "successor of the last existing version" is undefined
            if str(gw) != exp_new:
                out.append("%r.get_new('version') = %r, expected %r" % (p, str(gw), exp_new))
            if gw and (gw.exists() if tail == full_tail else (last is not None and Sid(task + "/" + gw.get("version")).exists())):
                out.append("%r.get_new('version') = %r already exists" % (p, str(gw)))
            for y in (gl, gn, gw):
                if y:
                    fx, fy = dict(x.fields), dict(y.fields)
                    fx.pop("version", None); fy.pop("version", None)
                    if fx != fy or (y.type != x.type and cur):
                        out.append("%r: version call changed other fields / type: %r" % (p, y.uri))
    tail = full_tail
    # publishing get_new repeatedly
    x = Sid(task + "/*" + tail)
    seen = []
    for _ in range(inp.get("publish", 0)):
        nw = x.get_new("version")
        if not nw:
            break
        if seen and not (nw.get("version") > seen[-1]):
            out.append("published versions not strictly increasing: %r then %r" % (seen[-1], nw.get("version")))
        if nw.get("version") in seen or int(nw.get("version")[1:]) in versions:
            out.append("version %r reused" % nw.get("version"))
        seen.append(nw.get("version"))
        WriteToPaths().create(nw)
        now_last = x.get_last("version")
        if str(now_last) != str(nw):
            out.append("after creating %r, get_last('version') still answers %r" % (str(nw), str(now_last)))
    return out


# ------------------------------------------------------------------------------------------ C10

def oracle_C10(inp):
    """the algebra of the search syntax: (search, derived search) pairs on FindInList and on the
    Finders over a built tree"""
    from spil import FindInList, FindInPaths, FindInAll
    from spil.sid.read.tools import unfold_search
    out = []
    leaves = inp["leaves"]
    wipe()
    build(leaves, None)
    G = closure(leaves)
    finders = [("list", lambda: FindInList(list(G))), ("paths", lambda: FindInPaths()), ("all", lambda: FindInAll())]

    def find(mk, s):
        return list(mk().find(s, as_sid=False))

    for rule in inp["rules"]:
        kind, s = rule["kind"], rule["s"]
        for name, mk in finders:
            try:
                base = find(mk, s)
                if len(base) != len(set(base)):
                    out.append("%s.find(%r) has duplicates" % (name, s))
                if kind in ("or", "alias"):
                    union = set()
                    for alt in rule["alts"]:
                        union |= set(find(mk, alt))
                    if set(base) != union:
                        out.append("%s: %s rule: find(%r) = %r, union over %r = %r" % (name, kind, s, sorted(base), rule["alts"], sorted(union)))
                elif kind == "starstar":
                    union = set()
                    leaf_tpls = [tf for _, tf in templates() if tf and tf[-1][0] in set(conf.leaf_keys.values())]
                    for alt in rule["alts"]:
                        # only the numbers of levels that complete the string to a LEAF type count
                        if not any(accepts(tf, alt.split("/")) for tf in leaf_tpls):
                            continue
                        for r in find(mk, alt):
                            # a list is searched by string: its entries carry no type to restrict
                            if name == "list" or Sid(r).is_leaf():
                                union.add(r)
                    if set(base) != union:
                        out.append("%s: ** rule: find(%r) = %r, union of leaf results over %r = %r" % (name, s, sorted(base), rule["alts"], sorted(union)))
                elif kind == "filter":
                    k, val = rule["k"], rule["v"]
                    us = unfold_search(s)
                    if not us or not all(k in u.fields for u in us):
                        continue
                    if not rule.get("allow_override") and any(u.fields[k] not in ("*", val) for u in us):
                        continue   # the filter contradicts a concrete value of the search: known finding K5
                    filt = find(mk, s + "?" + k + "=" + val)
                    exp = {r for r in base if Sid(r).get(k) == val}
                    if set(filt) != exp:
                        out.append("%s: filter rule: find(%r?%s=%s) = %r, expected %r" % (name, s, k, val, sorted(filt), sorted(exp)))
                elif kind == "literal":
                    i, val = rule["i"], rule["v"]
                    lit = find(mk, rule["lit"])
                    exp = {r for r in base if r.split("/")[i] == val}
                    if set(lit) != exp:
                        out.append("%s: literal rule: find(%r) = %r, expected %r" % (name, rule["lit"], sorted(lit), sorted(exp)))
                for r in base[:3]:
                    x = Sid(r)
                    if not x:
                        if name != "list":
                            out.append("%s.find(%r) returned the untyped %r" % (name, s, r))
                    elif name != "all" and not x.match(s):
                        out.append("%s: result %r does not match %r" % (name, r, s))
            except SpilException:
                continue
            except BaseException as e:  # noqa
                out.append("%s: %s rule on %r raised %s: %s" % (name, kind, s, type(e).__name__, e))
    return out


# ------------------------------------------------------------------------------------------ C17

class _Crash(BaseException):
    """simulated process death"""


class _FileProxy:
    def __init__(self, f, hook, name):
        self._f, self._hook, self._name = f, hook, name

    def write(self, data):
        return self._hook.on_write(self, data)

    def __enter__(self):
        return self

    def __exit__(self, *a):
        try:
            self._f.close()
        finally:
            self._hook.trace.append(("close", self._name))
        return False

    def close(self):
        self._f.close()
        self._hook.trace.append(("close", self._name))

    def __getattr__(self, k):
        return getattr(self._f, k)


class _CrashHook:
    """intercepts the primitive file effects of a sidecar write; dies after `budget` effects
    (an effect = open-for-write, each written character, the replace)"""

    def __init__(self, budget, suffix):
        import io, os
        self.budget = budget
        self.suffix = suffix
        self.trace = []
        self.count = 0
        self._io_open, self._os_replace, self._os_rename = io.open, os.replace, os.rename

    def _tick(self):
        if self.budget is not None and self.count >= self.budget:
            raise _Crash()
        self.count += 1

    def _interesting(self, name):
        n = str(name)
        return n.endswith(self.suffix) or n.endswith(self.suffix + ".tmp") or ".tmp" in n.rsplit("/", 1)[-1]

    def open(self, file, mode="r", *a, **kw):
        if self._interesting(file) and any(m in mode for m in "wax+"):
            self._tick()
            f = self._io_open(file, mode, *a, **kw)
            self.trace.append(("open", str(file), mode))
            return _FileProxy(f, self, str(file))
        return self._io_open(file, mode, *a, **kw)

    def on_write(self, proxy, data):
        n = 0
        for ch in data:
            try:
                self._tick()
            except _Crash:
                proxy._f.flush()
                self.trace.append(("write", proxy._name, n))
                raise
            proxy._f.write(ch)
            n += 1
        proxy._f.flush()
        self.trace.append(("write", proxy._name, n))
        return n

    def replace(self, src, dst, *a, **kw):
        self._tick()
        r = self._os_replace(src, dst, *a, **kw)
        self.trace.append(("replace", str(src), str(dst)))
        return r

    def __enter__(self):
        import io, os, pathlib
        io.open = self.open
        os.replace = self.replace
        os.rename = self.replace
        self._pl_open = getattr(pathlib, "io", None)
        import builtins
        self._b_open = builtins.open
        builtins.open = self.open
        return self

    def __exit__(self, *a):
        import io, os, builtins
        io.open, os.replace, os.rename = self._io_open, self._os_replace, self._os_rename
        builtins.open = self._b_open
        return False


def oracle_C17(inp):
    """kill a sidecar write after every prefix of its primitive effects; plant damaged sidecars"""
    import json as _json
    from spil import WriteToPaths, GetFromPaths, FindInPaths
    out = []
    sid, other = inp["sid"], inp["other"]
    old = None if inp.get("old") is None else {k: _json.loads(v) for k, v in inp["old"]}
    new = {k: _json.loads(v) for k, v in inp["new"]}
    suffix = conf.path_data_suffix

    def setup():
        wipe()
        w = WriteToPaths()
        w.create(sid)
        w.create(other, {"keep": "me"})
        if old is not None:
            w.set(sid, **old)

    def read(s):
        d = dict(GetFromPaths().get_data(s))
        d.pop("sid", None)
        return d

    merged = dict(old or {})
    merged.update(new)
    form = inp.get("form", "kw")

    def do_write():
        """ONE write of `new`, in the spelling under test: all of them are a single atomic update"""
        w = WriteToPaths()
        items = list(new.items())
        if form == "attr+kw" and len(items) >= 1:
            (k0, v0), rest = items[0], dict(items[1:])
            return w.set(sid, k0, v0, **rest)
        if form == "attr" and len(items) == 1:
            return w.set(sid, attribute=items[0][0], value=items[0][1])
        if form == "update":
            return w.update(sid, dict(new))
        return w.set(sid, **new)
    # 1. trace of an uninterrupted write, compared with the model's effect list
    setup()
    with _CrashHook(None, suffix) as h:
        do_write()
    total = h.count
    kinds = [t[0] for t in h.trace]
    data_path = str(conf.get_data_json_path(Sid(sid).path()))
    opens = [t for t in h.trace if t[0] == "open"]
    reps = [t for t in h.trace if t[0] == "replace"]
    if not (len(opens) == 1 and opens[0][1] != data_path and kinds[-1] == "replace" and len(reps) == 1
            and reps[0][1] == opens[0][1] and reps[0][2] == data_path):
        out.append("primitive effects of set() are not [create tmp, write..., close, replace tmp -> sidecar]: %r" % (h.trace,))
    if read(sid) != merged:
        out.append("uninterrupted set: read %r, expected %r" % (read(sid), merged))
    # 2. death after every prefix of the effects
    for k in range(0, total + 1):
        setup()
        try:
            with _CrashHook(k, suffix):
                do_write()
            crashed = False
        except _Crash:
            crashed = True
        except BaseException as e:  # noqa
            out.append("crash point %d: set raised %s: %s" % (k, type(e).__name__, e))
            continue
        try:
            got = read(sid)
            if got != (old or {}) and got != merged:
                out.append("after death at effect %d/%d the data is neither old nor new: %r (old %r, new %r)" % (k, total, got, old, merged))
            if read(other) != {"keep": "me"}:
                out.append("after death at effect %d another Sid's data changed: %r" % (k, read(other)))
            found = list(FindInPaths().find(sid.rsplit("/", 1)[0] + "/*", as_sid=False))
            if sid not in found:
                out.append("after death at effect %d a search no longer finds %r: %r" % (k, sid, found))
            WriteToPaths().set(sid, z=1)
            exp = dict(got)
            exp["z"] = 1
            if read(sid) != exp:
                out.append("after death at effect %d the next set gives %r, expected %r" % (k, read(sid), exp))
        except BaseException as e:  # noqa
            out.append("after death at effect %d/%d: %s: %s" % (k, total, type(e).__name__, e))
        if len(out) > 3:
            return out
    # 3. damaged sidecars
    setup()
    WriteToPaths().set(sid, **new)
    from pathlib import Path
    dp = Path(data_path)
    text = dp.read_text()
    cases = [("truncated at %d" % i, text[:i]) for i in range(0, len(text), max(1, len(text) // 25))] + [("emptied", "")]
    raw = text.encode("utf-8")
    # not valid JSON because not even valid UTF-8 text (re-saved in another encoding, binary garbage, cut inside a character)
    cases += [("re-saved as UTF-16", b"\xff\xfe" + text.encode("utf-16-le")), ("binary garbage", b"\x80\x81\xfe\xff\x00{}"),
              ("latin-1 bytes", '{"comment": "caf\xe9"}'.encode("latin-1")), ("NUL bytes", b"\x00" * 8),
              ("cut inside a character", '{"comment": "\u00e9"}'.encode("utf-8")[:14])]
    for name, content in cases + [("directory", None)]:
        if content is None:
            dp.unlink()
            dp.mkdir()
        elif isinstance(content, bytes):
            dp.write_bytes(content)
        else:
            dp.write_text(content)
        try:
            got = dict(GetFromPaths().get_data(sid))
            valid = None
            if content:
                try:
                    valid = _json.loads(content if isinstance(content, str) else content.decode("utf-8"))
                except ValueError:
                    valid = None
            if valid is None and got != {"sid": sid}:
                out.append("sidecar %s: get_data returns %r, expected only the sid entry" % (name, got))
            if read(other) != {"keep": "me"}:
                out.append("sidecar %s: another Sid's data is affected" % name)
            found = list(FindInPaths().find(sid.rsplit("/", 1)[0] + "/*", as_sid=False))
            if sid not in found:
                out.append("sidecar %s: search no longer finds %r" % (name, sid))
            recs = [dict(r) for r in GetFromPaths().get(sid.rsplit("/", 1)[0] + "/*")]
            if valid is None and {"sid": sid} not in recs:
                out.append("sidecar %s: reading through a search gives %r, expected a record holding only the sid entry of %r" % (name, recs, sid))
        except BaseException as e:  # noqa
            out.append("sidecar %s: %s: %s" % (name, type(e).__name__, e))
        if content is None:
            dp.rmdir()
        if len(out) > 3:
            break
    # 4. TWO ruined sidecars in one process: each read is its own answer (and stays it after the other read)
    try:
        setup()
        WriteToPaths().set(sid, **new)
        dp.write_text(text[:max(1, len(text) // 2)])
        op = Path(str(conf.get_data_json_path(Sid(other).path())))
        op.write_text("{ not json")
        r1 = GetFromPaths().get_data(sid)
        r2 = GetFromPaths().get_data(other)
        r1["mine"] = 1      # what a caller does with its own result is its own business
        r3 = GetFromPaths().get_data(other)
        r4 = GetFromPaths().get_data(sid, sid_encode=lambda x: None)
        if dict(r2) != {"sid": other} or dict(r3) != {"sid": other} or {k: v0 for k, v0 in r1.items() if k != "mine"} != {"sid": sid} or dict(r4) != {}:
            out.append("two ruined sidecars: reads give %r / %r / %r / %r, expected only each Sid's own 'sid' entry (and {} without it)" % (dict(r1), dict(r2), dict(r3), dict(r4)))
        par = sid.rsplit("/", 1)[0]
        rows = [dict(r) for r in GetFromPaths().get(par + "/*")]
        if len({r.get("sid") for r in rows}) != len(rows):
            out.append("two ruined sidecars: the records of a search repeat a Sid: %r" % rows)
    except BaseException as e:  # noqa
        out.append("two ruined sidecars: %s: %s" % (type(e).__name__, e))
    return {"failures": out, "evaluations": total + 1 + len(cases) + 2}


ORACLES = {name[7:]: fn for name, fn in list(globals().items()) if name.startswith("oracle_")}
