"""Input generators for the correspondence families and the property oracles.

Everything is derived from the extracted configuration (so it follows the configuration under
test) and from one random.Random instance.
"""
import random, itertools, json

FREE_POOL = ["ophelia", "a", "b1", "x_y", "a.b", "a-b", "A", "0", "café", "cafe\u0301", "ophe\u0301lia", "Łucja", "王", "we\\ird", "x\\model", "my asset", "v001", "char",
             "hamlet", "model_WORK_v001.ma_art", "a+b", "w", "ma", "sq001", "x", "y", "zz", "n_1", "tree.v2",
             "١٢", "a b", "_", "-", "cam", "main"]
JUNK = ["", " ", "junk", "JUNK", "\n", "a\nb", "\x00", "\t", "foo bar", "é", "\U0001F600", "0", "-", ".", "..",
        "%41", "a+b", "#", "a#b", "~", "--start--", "None", "{project}", "(a|b)", "[x]", "a?b", "a=b", "a&b",
        "v1", "v0001", "sq1", "sh001", "٠١٢"]
SEARCH = ["*", ">", "**", "<"]
UNI_DIGITS = "٠١٢٣१२１２"


def re_is_free(r):
    return r["t"] == "star"


def re_words(r, rng, limit=50):
    """words of a closed expression (alternation of literal / digit sequences); digits drawn at random"""
    t = r["t"]
    if t == "eps":
        return [""]
    if t == "cls":
        k = r["k"]
        if isinstance(k, dict):
            return [k["lit"]]
        if k == "digit":
            return [str(rng.randrange(10))]
        if k == "dot":
            return [rng.choice("._xX")]
        if k == "notSlash":
            return [rng.choice("abc")]
    if t == "star":
        return [rng.choice(FREE_POOL)]
    if t == "seq":
        out = [a + b for a in re_words(r["a"], rng, limit) for b in re_words(r["b"], rng, limit)]
        return out[:limit]
    if t == "alt":
        return (re_words(r["a"], rng, limit) + re_words(r["b"], rng, limit))[:limit]
    if t in ("grp", "cgrp"):
        return re_words(r["r"], rng, limit)
    raise ValueError(t)


class Vocab:
    def __init__(self, d, rng):
        self.d = d
        self.rng = rng
        c = d["conf"]
        self.sid = c["sid"]
        self.sep = self.sid["sep"]
        self.templates = []  # (label, [(key, re)])
        for label, toks in self.sid["templates"]:
            self.templates.append((label, [(t["ph"], t["re"]) for t in toks if "ph" in t]))
        self.tdict = dict(self.templates)
        self.labels = [l for l, _ in self.templates]
        self.aliases = {k: v for k, v in self.sid["extension_alias"]}
        self.leaf_keys = {k: v for k, v in self.sid["leaf_keys"]}
        self.paths = {}
        for p in c["paths"]:
            self.paths[p["name"]] = {
                "templates": [(l, toks) for l, toks in p["templates"]],
                "mapping": {k: v for k, v in p["mapping"]},
                "defaults": dict(p["defaults"]),
            }
        self.all_keys = sorted({k for _, ks in self.templates for k, _ in ks})
        # every word a value mapping knows, path side and sid side (synonyms: two path words of one sid value)
        self.path_words = list(dict.fromkeys(w for p in c["paths"] for _, m in p["mapping"] for pair in m for w in pair if w))
        # words that MEAN something in another layer, used as plain values: type names, key names, alias
        # names, mapped path words, Python / format / regex / glob tokens
        words = list(self.labels[:3]) + self.all_keys[:4] + sorted(self.aliases.keys())
        for p in c["paths"]:
            for _, m in p["mapping"]:
                words += [pv for pv, _ in m][:2]
        self.loaded_words = [w for w in dict.fromkeys(words) if w and "/" not in w] + \
            ["None", "True", "{}", "{0}", "{project}", "%s", "\\d", "a|b", "(x)", "x:y", "a=b", "a&b", "~x", "x~", "__", "sid", "type"]
        # closed vocabulary per key (union over templates), without search symbols
        self.closed = {}
        for _, ks in self.templates:
            for k, r in ks:
                if not re_is_free(r):
                    ws = [w for w in re_words(r, rng) if w not in ("*", ">")]
                    self.closed.setdefault(k, [])
                    for w in ws:
                        if w not in self.closed[k]:
                            self.closed[k].append(w)

    # -- values ---------------------------------------------------------------------------------
    def value(self, key_re, search=0.0, concrete_only=False):
        rng = self.rng
        key, r = key_re
        if not concrete_only and rng.random() < search:
            return rng.choice(["*", ">", "*", "*"])
        if re_is_free(r):
            if not concrete_only and rng.random() < 0.04:   # a free field accepts the EMPTY value
                return ""
            if self.aliases and rng.random() < 0.07:      # an entity NAMED like an extension alias
                return rng.choice(sorted(self.aliases.keys()))
            if not concrete_only and rng.random() < 0.06:  # ... or like anything that has a meaning elsewhere
                return rng.choice(self.loaded_words)
            return rng.choice(FREE_POOL)
        ws = [w for w in re_words(r, rng) if w not in ("*", ">")]
        if concrete_only:
            # an extension alias name ('maya', 'cache', ...) is search syntax, not the value of an entity
            ws = [w for w in ws if w not in self.aliases] or ws
        return rng.choice(ws) if ws else rng.choice(FREE_POOL)

    def near_miss(self, v):
        rng = self.rng
        if not v:
            return "x"
        kind = rng.randrange(7)
        i = rng.randrange(len(v))
        if kind == 0:
            return v[:i] + rng.choice("xX0_") + v[i + 1:]
        if kind == 1:
            return v.swapcase() if v.swapcase() != v else v + "x"
        if kind == 2:
            return v + rng.choice("0x\n ")
        if kind == 3:
            return v[:-1]
        if kind == 4:
            return rng.choice(" \n") + v
        if kind == 5 and any(ch.isdigit() for ch in v):
            j = [k for k, ch in enumerate(v) if ch.isdigit()]
            k = rng.choice(j)
            return v[:k] + rng.choice(UNI_DIGITS) + v[k + 1:]
        return v + v

    def fields_for(self, label, search=0.0):
        return [(k, self.value((k, r), search)) for k, r in self.tdict[label]]

    def sid_string(self, label=None, search=0.0):
        label = label or self.rng.choice(self.labels)
        return label, "/".join(v for _, v in self.fields_for(label, search))

    def segment(self):
        """one segment for the C01 string family"""
        rng = self.rng
        x = rng.random()
        if x < 0.45:
            k = rng.choice(list(self.closed.keys()))
            return rng.choice(self.closed[k])
        if x < 0.60:
            return rng.choice(FREE_POOL)
        if x < 0.72:
            k = rng.choice(list(self.closed.keys()))
            return self.near_miss(rng.choice(self.closed[k]))
        if x < 0.82:
            return rng.choice(SEARCH)
        if x < 0.86:
            return rng.choice(list(self.aliases.keys()) or ["maya"])
        if x < 0.88:
            return rng.choice(self.loaded_words)
        if x < 0.92:
            k = rng.choice(list(self.closed.keys()))
            return ",".join(rng.sample(self.closed[k], min(len(self.closed[k]), rng.randint(1, 3))))
        return rng.choice(JUNK)

    def c01_string(self):
        """a string of the C01 family"""
        rng = self.rng
        x = rng.random()
        if x < 0.55:
            # start from a valid sid, mutate 0-2 segments
            label, s = self.sid_string(search=0.15)
            parts = s.split("/")
            for _ in range(rng.choice([0, 0, 1, 1, 2])):
                i = rng.randrange(len(parts))
                parts[i] = rng.choice([self.near_miss(parts[i]), self.segment(), ""])
            y = rng.random()
            if y < 0.08:
                parts = parts[:rng.randrange(len(parts) + 1)]
            elif y < 0.16:
                parts = parts + [self.segment() for _ in range(rng.randint(1, 3))]
            s = "/".join(parts)
        else:
            s = "/".join(self.segment() for _ in range(rng.choice([0, 1, 1, 2, 3, 4, 5, 6, 7, 8, 9, 10, 12])))
        y = rng.random()
        if y < 0.12:
            s = rng.choice(self.labels) + ":" + s
        elif y < 0.16:
            s = ":" + s
        elif y < 0.20:
            s = rng.choice(["nope", "asset__", "Asset__file", ""]) + ":" + s
        elif y < 0.24:
            s = rng.choice(self.labels) + ":" + rng.choice(self.labels + ["x", ""]) + ":" + s
        elif y < 0.26:
            s = "a:b:c:" + s
        if rng.random() < 0.04:
            s = s + rng.choice(["\n", "/", " ", "\n\n", "/\n"])
        return s

    # -- typed sids (C02 ...) -------------------------------------------------------------------
    def typed_sid(self, search=0.2, alias=0.1):
        """(label used, string, fields) of a string that resolves under some template"""
        rng = self.rng
        label = rng.choice(self.labels)
        fields = self.fields_for(label, search)
        if rng.random() < alias and self.aliases:
            k, v = fields[-1]
            lk = self.leaf_keys.get(label.split(self.sep)[0])
            if k == lk:
                fields[-1] = (k, rng.choice(list(self.aliases.keys())))
        return label, "/".join(v for _, v in fields), fields

    # -- queries (C04) --------------------------------------------------------------------------
    def query_pairs(self, label, fields, n=None):
        rng = self.rng
        n = n or rng.randint(1, 3)
        keys_here = [k for k, _ in fields]
        pairs = []
        for _ in range(n):
            x = rng.random()
            if x < 0.45:
                k = rng.choice(keys_here)
            elif x < 0.75:
                # a deeper key of the same basetype
                bt = label.split(self.sep)[0]
                deeper = [kk for l, ks in self.templates if l.split(self.sep)[0] == bt for kk, _ in ks if kk not in keys_here]
                k = rng.choice(deeper) if deeper else rng.choice(self.all_keys)
            elif x < 0.9:
                k = rng.choice(self.all_keys)
            else:
                k = rng.choice(["foo", "", "Project", "sid", " project"])
            y = rng.random()
            if k in self.closed and y < 0.55:
                v = rng.choice(self.closed[k])
            elif y < 0.65:
                v = rng.choice(["*", ">", "**"])
            elif y < 0.8:
                v = rng.choice(FREE_POOL)
            elif y < 0.9:
                v = self.near_miss(rng.choice(self.closed.get(k) or FREE_POOL))
            else:
                v = rng.choice(["", " ", "~", "a b", "x,y", "a#b", "a\tb", "~~x", "x~", "ns:node", "a:b", "x~y", ":x"])
            if rng.random() < 0.2:
                v = "~" + v
            pairs.append((k, v))
        return pairs

    def query_string(self, pairs):
        rng = self.rng
        sep = "&" if rng.random() < 0.85 else "?"
        q = sep.join("%s=%s" % (k, v) for k, v in pairs)
        x = rng.random()
        if x < 0.05:
            q = "&" + q
        elif x < 0.10:
            q = q + "&"
        elif x < 0.13:
            q = q + "&novalue"
        elif x < 0.16:
            q = q + "&blank="
        return q


def shuffled(rng, xs):
    xs = list(xs)
    rng.shuffle(xs)
    return xs


# ---------------------------------------------------------------------------------------------
# searches (C07 family) and universes (C08-C12 families)

NAMES = ["ophelia", "a", "a-b", "a.b", "a+b", "b", "yorick", "x_y", "main", "cam", "A", "Łucja", "王", "череп"]


class SearchGen:
    def __init__(self, v):
        self.v = v
        self.rng = v.rng

    def comma_list(self, key, r, current):
        rng = self.rng
        v = self.v
        pool = [w for w in (v.closed.get(key) or NAMES)]
        alts = rng.sample(pool, min(len(pool), rng.randint(1, 3)))
        if current not in alts and rng.random() < 0.6:
            alts.append(current)
        rng.shuffle(alts)
        x = rng.random()
        if x < 0.15:
            alts.append(alts[0])           # duplicate
        elif x < 0.25:
            alts.insert(rng.randrange(len(alts) + 1), "")   # empty alternative
        elif x < 0.40:
            alts.insert(rng.randrange(len(alts) + 1), "*")  # overlapping alternatives: '*' next to a literal
        elif x < 0.47 and len(current) > 2:
            alts += [current[:2] + "*", "*" + current[-2:]]  # two partial globs matching the same entry
        sep = ", " if rng.random() < 0.2 else ","
        return sep.join(alts)

    def search(self, base=None, allow_gt=False, malformed=0.08):
        """a search string of the C07 family built from a valid sid"""
        rng = self.rng
        v = self.v
        if rng.random() < malformed:
            return rng.choice(["hamlet/**/**", "hamlet/***", "hamlet/**x", "hamlet/a/", "junk/**", "junk?a=b", "/**",
                               "hamlet/a/**/ma/**", "x:y:z", "hamlet/*/*?type=s", "**", "*", "hamlet/a/char/**?ext=ma",
                               "hamlet/**/maya", "hamlet/s/**/cache", "hamlet/a/*/*/**/>/*/maya", ",", "hamlet/a,s",
                               "hamlet/a/char/x/model/v001/w/ma?", "hamlet?type=a", "?project=hamlet", "hamlet/a/**?"])
        if base is None:
            label = rng.choice(v.labels)
            fields = [(k, v.value((k, r), concrete_only=True)) for k, r in v.tdict[label]]
        else:
            label, fields = base
        keyres = dict(v.tdict[label])
        segs = [val for _, val in fields]
        keys = [k for k, _ in fields]
        n = len(segs)
        # replace a subset of segments
        for i in range(n):
            x = rng.random()
            if x < 0.22:
                segs[i] = "*"
            elif x < 0.26 and allow_gt:
                segs[i] = ">"
            elif x < 0.34:
                segs[i] = self.comma_list(keys[i], keyres[keys[i]], segs[i])
        if v.aliases and keys[-1] == v.leaf_keys.get(label.split(v.sep)[0]) and rng.random() < 0.3:
            segs[-1] = rng.choice(list(v.aliases.keys()))
        # collapse a contiguous span into '**'
        if rng.random() < 0.3 and n >= 2:
            i = rng.randrange(1, n)
            j = rng.randrange(i, n + 1)
            segs = segs[:i] + ["**"] + segs[j:]
        s = "/".join(segs)
        # filters
        nf = rng.choice([0, 0, 0, 1, 1, 2])
        if nf:
            pairs = []
            for _ in range(nf):
                x = rng.random()
                if x < 0.5:
                    k = rng.choice(keys)
                elif x < 0.8:
                    bt = label.split(v.sep)[0]
                    deeper = [kk for l, ks in v.templates if l.split(v.sep)[0] == bt for kk, _ in ks]
                    k = rng.choice(deeper)
                else:
                    k = rng.choice(v.all_keys + ["foo"])
                y = rng.random()
                pool = v.closed.get(k) or NAMES
                if y < 0.5:
                    val = rng.choice(pool)
                elif y < 0.65:
                    val = ",".join(rng.sample(pool, min(len(pool), 2)))
                elif y < 0.75 and v.aliases:
                    val = rng.choice(list(v.aliases.keys()))
                elif y < 0.85:
                    val = "*"
                else:
                    val = rng.choice(["zzz", "", "v1", ">"]) if allow_gt else rng.choice(["zzz", "", "v1"])
                if rng.random() < 0.2:
                    val = "~" + val
                pairs.append("%s=%s" % (k, val))
            # '?' is also accepted as the separator of query pairs (a second query appended to a pending one)
            s += "?" + ("?" if rng.random() < 0.15 else "&").join(pairs)
        return s


def universe(v, nleaf=None, with_junk=True):
    """a list of sid strings: a few leaf entities sharing prefixes, their ancestors, plus near-miss /
    untyped entries"""
    rng = v.rng
    nleaf = nleaf or rng.randint(2, 7)
    leaf_labels = [l for l, ks in v.templates if ks and ks[-1][0] == v.leaf_keys.get(l.split(v.sep)[0])]
    base = None
    leaves = []
    for _ in range(nleaf):
        if base is not None and rng.random() < 0.7:
            label, fields = base
            fields = list(fields)
            # vary one or two fields
            for _ in range(rng.randint(1, 2)):
                i = rng.randrange(2, len(fields))
                k = fields[i][0]
                r = dict(v.tdict[label])[k]
                if re_is_free(r):
                    fields[i] = (k, rng.choice(NAMES + sorted(v.aliases.keys())[:2]))
                else:
                    fields[i] = (k, v.value((k, r), concrete_only=True))
        else:
            label = rng.choice(leaf_labels)
            fields = [(k, (rng.choice(NAMES + sorted(v.aliases.keys())[:2]) if re_is_free(r) else v.value((k, r), concrete_only=True))) for k, r in v.tdict[label]]
            base = (label, fields)
        leaves.append((label, fields))
    strings = []
    x = rng.random()
    for label, fields in leaves:
        vals = [val for _, val in fields]
        if x < 0.6:   # complete hierarchy
            for i in range(1, len(vals) + 1):
                strings.append("/".join(vals[:i]))
        else:         # leaf only
            strings.append("/".join(vals))
    out = []
    for s in strings:
        if s not in out:
            out.append(s)
    if with_junk and rng.random() < 0.5:
        for _ in range(rng.randint(1, 4)):
            y = rng.random()
            if y < 0.4:
                out.insert(rng.randrange(len(out) + 1), v.near_miss(rng.choice(out)))
            elif y < 0.7:
                out.insert(rng.randrange(len(out) + 1), v.c01_string().split("?")[0])
            else:
                out.insert(rng.randrange(len(out) + 1), rng.choice(out))   # duplicate entry
    rng.shuffle(out) if rng.random() < 0.3 else None
    return out, leaves
