"""Shared machinery of the checks: translate, build, run model / implementation, compare."""
import os, sys, json, subprocess, time, hashlib, shutil

HERE = os.path.dirname(os.path.abspath(__file__))
VERIF = os.path.dirname(HERE)
LEAN = os.path.join(VERIF, "lean")
sys.path.insert(0, HERE)
import stage  # noqa

DRIVER = os.path.join(LEAN, ".lake", "build", "bin", "spil_model")
GENERATED = os.path.join(LEAN, "Spil", "Generated", "DemoConf.lean")


class Internal(Exception):
    """machinery failure (exit 2), never a violation"""


def run(cmd, **kw):
    return subprocess.run(cmd, capture_output=True, text=True, **kw)


# ---------------------------------------------------------------------------------------------
# translation + build


def extract(st=None, order=""):
    st = st or stage.stage(tag="x")
    out = os.path.join(st["dir"], "conf.json")
    r = run([stage.PY, os.path.join(HERE, "extract_conf.py"), out, order], env=st["env"])
    if r.returncode != 0 or not os.path.exists(out):
        return None, r.stderr[-4000:]
    return json.load(open(out)), None


def translate():
    """Regenerate Spil/Generated/DemoConf.lean from /repo's working tree.
    Returns (conf_json, error_text)."""
    import gen_lean
    d, err = extract()
    if d is None:
        return None, "extract_conf failed:\n" + err
    text = gen_lean.render(d)
    old = open(GENERATED).read() if os.path.exists(GENERATED) else None
    if old != text:
        os.makedirs(os.path.dirname(GENERATED), exist_ok=True)
        tmp = GENERATED + ".tmp%d" % os.getpid()
        open(tmp, "w").write(text)
        os.replace(tmp, GENERATED)
    return d, None


def lake_build(targets=()):
    """lake build (serialised by a lock file: several checks may run at once)."""
    import fcntl
    lock = open(os.path.join(LEAN, ".build.lock"), "w")
    fcntl.flock(lock, fcntl.LOCK_EX)
    try:
        r = run(["lake", "build"] + list(targets), cwd=LEAN)
        return r.returncode == 0, (r.stdout + r.stderr)
    finally:
        fcntl.flock(lock, fcntl.LOCK_UN)
        lock.close()


# ---------------------------------------------------------------------------------------------
# running both sides


def conf_line(d):
    return json.dumps({"conf": d["conf"], "digit_ranges": d["digit_ranges"]}, ensure_ascii=False)


def run_model(d, ops, timeout=1800):
    global ROOTS
    ROOTS = list(d.get("roots", {}).values())
    if not ops:
        return []
    inp = conf_line(d) + "\n" + "\n".join(json.dumps(o, ensure_ascii=False) for o in ops) + "\n"
    r = subprocess.run([DRIVER], input=inp.encode("utf-8"), capture_output=True, timeout=timeout)
    if r.returncode != 0:
        raise Internal("model driver failed: " + r.stderr.decode("utf-8", "replace")[-2000:])
    lines = r.stdout.decode("utf-8").split("\n")
    if lines and lines[-1] == "":
        lines.pop()
    if len(lines) != len(ops) + 1:
        raise Internal("model driver answered %d lines for %d ops" % (len(lines) - 1, len(ops)))
    return [json.loads(l) for l in lines[1:]]


def run_impl(ops, st=None, hashseed="0", timeout=1800, extra_env=None, server="impl_server.py"):
    if not ops:
        return []
    st = st or stage.stage(tag="i")
    env = dict(st["env"])
    env["PYTHONHASHSEED"] = str(hashseed)
    if extra_env:
        env.update(extra_env)
    inp = "\n".join(json.dumps(o, ensure_ascii=False) for o in ops) + "\n"
    r = subprocess.run([stage.PY, os.path.join(HERE, server)], input=inp.encode("utf-8"),
                       capture_output=True, env=env, timeout=timeout, cwd=st["dir"])
    if r.returncode != 0:
        raise Internal("implementation server failed: " + r.stderr.decode("utf-8", "replace")[-3000:])
    lines = [l for l in r.stdout.decode("utf-8").split("\n") if l]
    if len(lines) != len(ops):
        raise Internal("implementation server answered %d lines for %d ops\n%s" % (
            len(lines), len(ops), r.stderr.decode("utf-8", "replace")[-2000:]))
    return [json.loads(l) for l in lines]


# ---------------------------------------------------------------------------------------------
# comparison

UNORDERED_OPS = {"simple_typing", "expand"}


ROOTS = []


def _under_roots(path):
    return any(path == r or path.startswith(r + "/") for r in ROOTS)


def canon_value(op, v):
    if op.get("op") == "world" and op.get("do") == "dump" and isinstance(v, dict):
        # the model's mkdir -p also records the ancestors of the project roots; only what lives under
        # a project root is observable (and compared)
        nodes = sorted([n for n in v["nodes"] if _under_roots(n[0])])
        sides = [[p, (sorted(map(list, c)) if isinstance(c, list) else c)] for p, c in v["sidecars"]]
        return {"nodes": [list(n) for n in nodes], "sidecars": sorted(sides, key=lambda x: x[0])}
    if op.get("op") == "world" and op.get("do") in ("getter_paths", "getter_all") and isinstance(v, list):
        return sorted(v, key=lambda x: json.dumps(x, ensure_ascii=False))
    if op.get("op") in UNORDERED_OPS and isinstance(v, list):
        return sorted(v, key=lambda x: json.dumps(x, sort_keys=True, ensure_ascii=False))
    return v


def agree(op, m, i):
    """None when model and implementation agree (or the model is out of its subset), else text."""
    if "bad" in m:
        raise Internal("model rejected op %r: %s" % (op, m["bad"]))
    if "bad" in i:
        raise Internal("implementation server rejected op %r: %s" % (op, i["bad"]))
    if m.get("oom"):
        return None
    if "err" in m or "err" in i:
        if m.get("err") != i.get("err"):
            return "model %s / implementation %s" % (json.dumps(m, ensure_ascii=False), json.dumps(i, ensure_ascii=False))
        return None
    a = canon_value(op, m.get("ok"))
    b = canon_value(op, i.get("ok"))
    if a != b:
        return "model %s / implementation %s" % (json.dumps(a, ensure_ascii=False), json.dumps(b, ensure_ascii=False))
    return None


def digest(obj):
    return hashlib.sha1(json.dumps(obj, sort_keys=True, ensure_ascii=False).encode("utf-8")).hexdigest()[:12]
