"""Correspondence families: each returns a list of protocol operations (see Driver.lean)."""
import json
from gen import Vocab, shuffled, FREE_POOL, JUNK


def fam_resolver(v, n):
    """resolva level: resolve_* / format_* on the 'sid' resolver"""
    rng = v.rng
    ops = []
    for _ in range(n):
        x = rng.random()
        if x < 0.5:
            s = v.c01_string().split(":")[-1]
            y = rng.random()
            if y < 0.4:
                ops.append({"op": "resolve_first", "r": "sid", "s": s})
            elif y < 0.7:
                ops.append({"op": "resolve_all", "r": "sid", "s": s})
            else:
                ops.append({"op": "resolve_one", "r": "sid", "s": s, "label": rng.choice(v.labels + ["nope"])})
        else:
            label, s, fields = v.typed_sid(search=0.2)
            data = shuffled(rng, fields) if rng.random() < 0.5 else list(fields)
            z = rng.random()
            if z < 0.15 and data:
                data = data[:-1]
            elif z < 0.25:
                data = data + [["foo", "bar"]]
            elif z < 0.35 and data:
                i = rng.randrange(len(data))
                data[i] = [data[i][0], v.near_miss(data[i][1])]
            data = [list(p) for p in data]
            y = rng.random()
            if y < 0.4:
                ops.append({"op": "format_all", "r": "sid", "data": data})
            elif y < 0.7:
                ops.append({"op": "format_first", "r": "sid", "data": data})
            else:
                ops.append({"op": "format_one", "r": "sid", "data": data, "label": rng.choice([label, rng.choice(v.labels), "nope"])})
    return ops


def fam_sid_strings(v, n):
    """C01: Sid(string) on the string family of the quantifier"""
    ops = []
    for _ in range(n):
        s = v.c01_string()
        ops.append({"op": "sid", "s": s})
        if v.rng.random() < 0.15:
            ops.append({"op": "sid_call", "from": {"s": s}, "m": v.rng.choice(["typed", "len", "uri", "repr"])})
    for s in ["", ":", "::", "?", "a:b:c", "hamlet\n", "hamlet", "hamlet/a/char\n", "x:y:z?a=b", "asset:hamlet/a",
              "hamlet/s/sq001/sh0010/anim/v001/w/ma\n", "hamlet/s/sq٠٠١", ":hamlet", "project:", "project:hamlet:x"]:
        ops.append({"op": "sid", "s": s})
    return ops


def fam_sid_forms(v, n):
    """C02 / C03 / C14: the forms of typed Sids and navigation"""
    rng = v.rng
    ops = []
    for _ in range(n):
        label, s, fields = v.typed_sid(search=0.25)
        src = {"s": s}
        x = rng.random()
        if x < 0.12:
            src = {"s": label + ":" + s}
        ops.append({"op": "sid", **src})
        for m in rng.sample(["copy", "uri", "repr", "as_query", "parent", "keytype", "basetype", "len", "is_search",
                             "is_leaf", "typed"], 4):
            ops.append({"op": "sid_call", "from": src, "m": m})
        # fields in any order
        data = [list(p) for p in shuffled(rng, fields)]
        ops.append({"op": "sid", "fields": data})
        ops.append({"op": "sid", "query": "&".join("%s=%s" % (k, val) for k, val in shuffled(rng, fields))})
        # navigation
        k = rng.choice([k for k, _ in fields] + ["nokey"])
        ops.append({"op": "sid_call", "from": src, "m": "get_as", "k": k})
        ops.append({"op": "sid_call", "from": src, "m": "get", "k": k})
        ops.append({"op": "sid_call", "from": src, "m": "div", "v": rng.choice([fields[-1][1], "*", "x", "", "a/b", v.segment()])})
        # comparisons
        label2, s2, _ = v.typed_sid(search=0.25)
        other = rng.choice([{"s": s2}, {"s": s}, {"s": label + ":" + s}, {"s": rng.choice(v.labels) + ":" + s}, {"s": "junk"}])
        ops.append({"op": "sid_call", "from": src, "m": rng.choice(["eq", "lt", "hash_eq"]), "other": other})
        ops.append({"op": "sid_call", "from": src, "m": "eq_str", "str": rng.choice([s, s2, label + ":" + s])})
    # untyped navigation
    for s in ["junk", "a/b/c", "", "hamlet/x", "nope:hamlet"]:
        for m in ["parent", "copy", "keytype", "basetype", "len", "uri", "is_leaf", "as_query"]:
            ops.append({"op": "sid_call", "from": {"s": s}, "m": m})
        ops.append({"op": "sid_call", "from": {"s": s}, "m": "get_as", "k": "project"})
        ops.append({"op": "sid_call", "from": {"s": s}, "m": "div", "v": "x"})
        ops.append({"op": "sid_call", "from": {"s": s}, "m": "get_with_kw", "kw": [["project", "hamlet"]]})
        ops.append({"op": "sid_call", "from": {"s": s}, "m": "get_with_q", "q": "project=hamlet"})
    return ops


def fam_query(v, n):
    """C04: query_helper functions, Sid(s?q), get_with"""
    rng = v.rng
    ops = []
    for _ in range(n):
        label, s, fields = v.typed_sid(search=0.2)
        pairs = v.query_pairs(label, fields)
        q = v.query_string(pairs)
        x = rng.random()
        if x < 0.15:
            ops.append({"op": "to_dict", "q": q})
            ops.append({"op": "update", "d": [list(p) for p in fields], "q": q})
        elif x < 0.22:
            ops.append({"op": "to_string", "d": [[k, val] for k, val in dict(pairs).items()]})
        if rng.random() < 0.5:
            ops.append({"op": "sid", "s": s + "?" + q})
        else:
            src = {"s": s} if rng.random() < 0.8 else {"s": label + ":" + s}
            ops.append({"op": "sid_call", "from": src, "m": "get_with_q", "q": q})
        # keyword overlay
        kw = []
        seen = set()
        for k, val in v.query_pairs(label, fields):
            if k in seen or not k or " " in k:
                continue
            seen.add(k)
            kw.append([k, None if rng.random() < 0.2 else val])
        if kw:
            op = {"op": "sid_call", "from": {"s": s}, "m": "get_with_kw", "kw": kw}
            if len(kw) == 1 and rng.random() < 0.4:
                op["kv"] = True
            ops.append(op)
        if rng.random() < 0.1:
            ops.append({"op": "apply_query", "string": s, "q": q, "type": label, "fields": [list(p) for p in fields]})
    ops.append({"op": "sid_call", "from": {"s": "hamlet/a/char"}, "m": "get_with_kw", "kw": [["foo", None]]})
    ops.append({"op": "sid", "s": "hamlet/a/char?"})
    ops.append({"op": "sid", "s": "?project=hamlet"})
    ops.append({"op": "sid", "s": "junk?project=hamlet"})
    ops.append({"op": "sid", "query": "project=hamlet&type=a"})
    return ops


def _mk_templates(rng):
    """a configuration of the C19 grammar: (templates, to_extrapolate, sep)"""
    sep = "__"
    nbt = rng.randint(1, 4)
    keypool = ["project", "type", "sequence", "shot", "asset", "task", "version", "state", "ext", "node", "cat", "dept"]
    templates = []
    to_ex = []
    shared = rng.sample(keypool, 2)
    basetypes = rng.sample(["asset", "shot", "render", "lib", "project", "task"], nbt)
    for bt in basetypes:
        depth = rng.randint(2, 9)
        own = [k for k in rng.sample(keypool, min(len(keypool), depth)) if k not in shared]
        keys = (shared if rng.random() < 0.7 else []) + own
        keys = keys[:depth] if len(keys) >= 2 else (keys + ["ext", "frame"])[:max(2, depth)]

        def tpl(ks):
            parts = []
            for k in ks:
                if k == "type":
                    parts.append("{type:%s}" % bt[0])
                elif rng.random() < 0.15:
                    parts.append("{%s:%s}" % (k, rng.choice(["x", "scenes", "a|b"])))
                else:
                    parts.append("{%s}" % k)
            return "/".join(parts)
        leafname = rng.choice([bt + sep + keys[-1], bt + sep + "file", bt + sep + bt, bt + sep + keys[-1]])
        entries = [(leafname, tpl(keys))]
        # explicit intermediates at arbitrary levels
        for lvl in range(1, len(keys)):
            if rng.random() < 0.25:
                nm = rng.choice([bt + sep + keys[lvl - 1], bt if lvl == 2 else bt + sep + keys[lvl - 1], "x" + sep + keys[lvl - 1]])
                entries.append((nm, tpl(keys[:lvl])))
        if rng.random() < 0.5:
            rng.shuffle(entries)
        for nm, t in entries:
            if nm not in [a for a, _ in templates]:
                templates.append((nm, t))
        if rng.random() < 0.8:
            to_ex.append(leafname)
        if rng.random() < 0.2 and len(entries) > 1:
            to_ex.append(entries[-1][0])
    return templates, to_ex, sep


def fam_confutil(v, n):
    """C19: extrapolate_templates / pattern_replacing on generated configurations"""
    rng = v.rng
    ops = []
    for _ in range(n):
        templates, to_ex, sep = _mk_templates(rng)
        ops.append({"op": "extrapolate_templates", "sep": sep, "templates": [list(p) for p in templates], "to_extrapolate": to_ex})
        kp = []
        for sel in rng.sample(["__", "t", "asset", "shot__", "a", "zz", templates[0][0]], rng.randint(1, 3)):
            reps = []
            for _ in range(rng.randint(1, 3)):
                k = rng.choice(["project", "type", "state", "ext", "version", "task"])
                reps.append(["{%s}" % k, "{%s:(%s|\\*|\\>)}" % (k, rng.choice(["a|b", "v\\d\\d\\d", "w|p"]))])
            kp.append([sel, [[k, val] for k, val in dict(reps).items()]])
        ops.append({"op": "pattern_replacing", "templates": [list(p) for p in templates], "key_patterns": kp})
    # the shipped configuration itself, and the documented corner
    ops.append({"op": "extrapolate_templates", "sep": "__", "templates": v.d["raw"]["sid_templates"], "to_extrapolate": v.d["raw"]["to_extrapolate"]})
    ops.append({"op": "extrapolate_templates", "sep": "__", "templates": [["shot__shot", "{project}/{type:s}/{sequence}/{shot}"]], "to_extrapolate": ["shot__shot"]})
    ops.append({"op": "pattern_replacing", "templates": v.d["raw"]["sid_templates"], "key_patterns": v.d["raw"]["key_patterns"]})
    return ops


FAMILIES = {
    "resolver": fam_resolver,
    "sid_strings": fam_sid_strings,
    "sid_forms": fam_sid_forms,
    "query": fam_query,
    "confutil": fam_confutil,
}
