"""Correspondence families: each returns a list of protocol operations (see Driver.lean)."""
import re
import random
import json
from gen import Vocab, shuffled, FREE_POOL, JUNK, SearchGen, universe


def fam_resolver(v, n):
    """resolva level: resolve_* / format_* on the 'sid' resolver"""
    rng = v.rng
    ops = []
    for _ in range(n):
        x = rng.random()
        if x < 0.5:
            s = v.c01_string().split(":")[-1]
            y = rng.random()
            if y < 0.4:
                ops.append({"op": "resolve_first", "r": "sid", "s": s})
            elif y < 0.7:
                ops.append({"op": "resolve_all", "r": "sid", "s": s})
            else:
                ops.append({"op": "resolve_one", "r": "sid", "s": s, "label": rng.choice(v.labels + ["nope"])})
        else:
            label, s, fields = v.typed_sid(search=0.2)
            data = shuffled(rng, fields) if rng.random() < 0.5 else list(fields)
            z = rng.random()
            if z < 0.15 and data:
                data = data[:-1]
            elif z < 0.25:
                data = data + [["foo", "bar"]]
            elif z < 0.35 and data:
                i = rng.randrange(len(data))
                data[i] = [data[i][0], v.near_miss(data[i][1])]
            data = [list(p) for p in data]
            y = rng.random()
            if y < 0.4:
                ops.append({"op": "format_all", "r": "sid", "data": data})
            elif y < 0.7:
                ops.append({"op": "format_first", "r": "sid", "data": data})
            else:
                ops.append({"op": "format_one", "r": "sid", "data": data, "label": rng.choice([label, rng.choice(v.labels), "nope"])})
    return ops


def fam_sid_strings(v, n):
    """C01: Sid(string) on the string family of the quantifier"""
    ops = []
    for _ in range(n):
        s = v.c01_string()
        ops.append({"op": "sid", "s": s})
        if v.rng.random() < 0.15:
            ops.append({"op": "sid_call", "from": {"s": s}, "m": v.rng.choice(["typed", "len", "uri", "repr"])})
    # every type forced on a typed string, with and without a trailing newline
    for _ in range(max(3, n // 60)):
        label, s, fields = v.typed_sid(search=0.4)
        for l2 in [l for l in v.labels if len(v.tdict[l]) == len(fields)]:
            ops.append({"op": "sid", "s": l2 + ":" + s + v.rng.choice(["", "\n", "\n"])})
    # Sid objects handed to the factory (as Finders and Getters do), then the plain string again
    for _ in range(max(3, n // 40)):
        label, s, fields = v.typed_sid(search=0.5)
        others = [l for l in v.labels if len(v.tdict[l]) == len(fields)]
        forced = v.rng.choice(others + [label])
        ops.append({"op": "sid", "obj": {"s": forced + ":" + s}})
        ops.append({"op": "sid", "s": s})
        ops.append({"op": "sid", "obj": {"s": s}})
    for s in ["", ":", "::", "?", "a:b:c", "hamlet\n", "hamlet", "hamlet/a/char\n", "x:y:z?a=b", "asset:hamlet/a",
              "hamlet/s/sq001/sh0010/anim/v001/w/ma\n", "hamlet/s/sq٠٠١", ":hamlet", "project:", "project:hamlet:x"]:
        ops.append({"op": "sid", "s": s})
    return ops


def fam_sid_forms(v, n):
    """C02 / C03 / C14: the forms of typed Sids and navigation"""
    rng = v.rng
    ops = []
    for _ in range(n):
        label, s, fields = v.typed_sid(search=0.25)
        src = {"s": s}
        x = rng.random()
        if x < 0.12:
            src = {"s": label + ":" + s}
        ops.append({"op": "sid", **src})
        for m in rng.sample(["copy", "uri", "repr", "as_query", "parent", "keytype", "basetype", "len", "is_search",
                             "is_leaf", "typed"], 4):
            ops.append({"op": "sid_call", "from": src, "m": m})
        # fields in any order
        data = [list(p) for p in shuffled(rng, fields)]
        ops.append({"op": "sid", "fields": data})
        ops.append({"op": "sid", "query": "&".join("%s=%s" % (k, val) for k, val in shuffled(rng, fields))})
        # navigation
        k = rng.choice([k for k, _ in fields] + ["nokey"])
        ops.append({"op": "sid_call", "from": src, "m": "get_as", "k": k})
        ops.append({"op": "sid_call", "from": src, "m": "get", "k": k})
        ops.append({"op": "sid_call", "from": src, "m": "div", "v": rng.choice([fields[-1][1], "*", "x", "", "a/b", v.segment()])})
        # comparisons
        label2, s2, _ = v.typed_sid(search=0.25)
        other = rng.choice([{"s": s2}, {"s": s}, {"s": label + ":" + s}, {"s": rng.choice(v.labels) + ":" + s}, {"s": "junk"}])
        ops.append({"op": "sid_call", "from": src, "m": rng.choice(["eq", "lt", "hash_eq"]), "other": other})
        ops.append({"op": "sid_call", "from": src, "m": "eq_str", "str": rng.choice([s, s2, label + ":" + s])})
    # untyped navigation
    for s in ["junk", "a/b/c", "", "hamlet/x", "nope:hamlet"]:
        for m in ["parent", "copy", "keytype", "basetype", "len", "uri", "is_leaf", "as_query"]:
            ops.append({"op": "sid_call", "from": {"s": s}, "m": m})
        ops.append({"op": "sid_call", "from": {"s": s}, "m": "get_as", "k": "project"})
        ops.append({"op": "sid_call", "from": {"s": s}, "m": "div", "v": "x"})
        ops.append({"op": "sid_call", "from": {"s": s}, "m": "get_with_kw", "kw": [["project", "hamlet"]]})
        ops.append({"op": "sid_call", "from": {"s": s}, "m": "get_with_q", "q": "project=hamlet"})
    return ops


def fam_query(v, n):
    """C04: query_helper functions, Sid(s?q), get_with"""
    rng = v.rng
    ops = []
    for _ in range(n):
        label, s, fields = v.typed_sid(search=0.2)
        pairs = v.query_pairs(label, fields)
        q = v.query_string(pairs)
        x = rng.random()
        if x < 0.15:
            ops.append({"op": "to_dict", "q": q})
            ops.append({"op": "update", "d": [list(p) for p in fields], "q": q})
        elif x < 0.22:
            ops.append({"op": "to_string", "d": [[k, val] for k, val in dict(pairs).items()]})
        if rng.random() < 0.5:
            ops.append({"op": "sid", "s": s + "?" + q})
        else:
            src = {"s": s} if rng.random() < 0.8 else {"s": label + ":" + s}
            ops.append({"op": "sid_call", "from": src, "m": "get_with_q", "q": q})
        # keyword overlay
        kw = []
        seen = set()
        for k, val in v.query_pairs(label, fields):
            if k in seen or not k or " " in k:
                continue
            seen.add(k)
            kw.append([k, None if rng.random() < 0.2 else val])
        if kw:
            op = {"op": "sid_call", "from": {"s": s}, "m": "get_with_kw", "kw": kw}
            if len(kw) == 1 and rng.random() < 0.4:
                op["kv"] = True
            ops.append(op)
        if rng.random() < 0.1:
            ops.append({"op": "apply_query", "string": s, "q": q, "type": label, "fields": [list(p) for p in fields]})
    from gen import re_is_free as _free
    for _ in range(max(4, n // 60)):
        label = rng.choice(v.labels)
        ks = v.tdict[label]
        free = [i for i, (k, r) in enumerate(ks) if _free(r)]
        if not free:
            continue
        i = rng.choice(free)
        vals = [v.value((k, r), concrete_only=True) for k, r in ks]
        vals[i] = ""
        s_empty = "/".join(vals)
        k = ks[i][0]
        for q in ("%s=~ophelia" % k, "%s=~" % k, "%s=~*" % k, "%s=~ophelia&%s=~zz" % (k, ks[-1][0]), "%s=ophelia" % k):
            ops.append({"op": "sid", "s": s_empty + "?" + q})
            ops.append({"op": "sid_call", "from": {"s": rng.choice([s_empty, label + ":" + s_empty])}, "m": "get_with_q", "q": q})
        ops.append({"op": "update", "d": [[kk, vv] for (kk, _), vv in zip(ks, vals)], "q": "%s=~ophelia" % k})
    # the same query TEXT read by a search first (the unfolding rewrites its own copy of the query: aliases,
    # ',' lists), then applied to a Sid, then parsed on its own
    leaf_labels = [l for l in v.labels if v.tdict[l] and v.tdict[l][-1][0] == v.leaf_keys.get(l.split(v.sep)[0])]
    for a in sorted(v.aliases)[:4]:
        for label in rng.sample(leaf_labels, min(2, len(leaf_labels))):
            ks = v.tdict[label]
            vals = [v.value((k, r), concrete_only=True) for k, r in ks[:-1]]
            base = "/".join(vals)
            for q in ("%s=%s" % (ks[-1][0], a), "%s=%s,%s" % (ks[-1][0], a, v.aliases[a][0]), "%s=~%s" % (ks[-1][0], a)):
                ops.append({"op": "unfold_search", "s": "/".join(vals[:-1] + ["*", "*"]) + "?" + q})
                ops.append({"op": "extensions", "s": base + "/*?" + q})
                ops.append({"op": "sid", "s": base + "?" + q})
                ops.append({"op": "sid_call", "from": {"s": base}, "m": "get_with_q", "q": q})
                ops.append({"op": "to_dict", "q": q})
                ops.append({"op": "or_on_query", "q": q})
                ops.append({"op": "to_dict", "q": q})
    ops.append({"op": "sid_call", "from": {"s": "hamlet/a/char"}, "m": "get_with_kw", "kw": [["foo", None]]})
    ops.append({"op": "sid", "s": "hamlet/a/char?"})
    ops.append({"op": "sid", "s": "?project=hamlet"})
    ops.append({"op": "sid", "s": "junk?project=hamlet"})
    ops.append({"op": "sid", "query": "project=hamlet&type=a"})
    return ops


def _mk_templates(rng):
    """a configuration of the C19 grammar: (templates, to_extrapolate, sep)"""
    sep = "__"
    nbt = rng.randint(1, 4)
    keypool = ["project", "type", "sequence", "shot", "asset", "task", "version", "state", "ext", "node", "cat", "dept"]
    templates = []
    to_ex = []
    shared = rng.sample(keypool, 2)
    basetypes = rng.sample(["asset", "shot", "render", "lib", "project", "task"], nbt)
    for bt in basetypes:
        depth = rng.randint(2, 9)
        own = [k for k in rng.sample(keypool, min(len(keypool), depth)) if k not in shared]
        keys = (shared if rng.random() < 0.7 else []) + own
        keys = keys[:depth] if len(keys) >= 2 else (keys + ["ext", "frame"])[:max(2, depth)]

        def tpl(ks):
            parts = []
            for k in ks:
                if k == "type":
                    parts.append("{type:%s}" % bt[0])
                elif rng.random() < 0.15:
                    parts.append("{%s:%s}" % (k, rng.choice(["x", "scenes", "a|b"])))
                else:
                    parts.append("{%s}" % k)
            return "/".join(parts)
        leafname = rng.choice([bt + sep + keys[-1], bt + sep + "file", bt + sep + bt, bt + sep + keys[-1]])
        # type-name suffixes that contain the character of the separator ('<basetype>__movie_file',
        # '<basetype>__cache_node' exist in the shipped configuration); chosen without a further random draw
        if leafname == bt + sep + "file" and len(keys) % 2 == 0:
            leafname = bt + sep + "movie_file"
        elif leafname == bt + sep + bt and len(keys) % 3 == 0:
            leafname = bt + sep + "cache_node"
        entries = [(leafname, tpl(keys))]
        # explicit intermediates at arbitrary levels
        for lvl in range(1, len(keys)):
            if rng.random() < 0.25:
                nm = rng.choice([bt + sep + keys[lvl - 1], bt if lvl == 2 else bt + sep + keys[lvl - 1], "x" + sep + keys[lvl - 1]])
                entries.append((nm, tpl(keys[:lvl])))
        if rng.random() < 0.5:
            rng.shuffle(entries)
        for nm, t in entries:
            if nm not in [a for a, _ in templates]:
                templates.append((nm, t))
        if rng.random() < 0.8:
            to_ex.append(leafname)
        if rng.random() < 0.2 and len(entries) > 1:
            to_ex.append(entries[-1][0])
    return templates, to_ex, sep


def fam_confutil(v, n):
    """C19: extrapolate_templates / pattern_replacing on generated configurations"""
    rng = v.rng
    ops = []
    for _ in range(n):
        templates, to_ex, sep = _mk_templates(rng)
        ops.append({"op": "extrapolate_templates", "sep": sep, "templates": [list(p) for p in templates], "to_extrapolate": to_ex})
        kp = []
        for sel in rng.sample(["__", "t", "asset", "shot__", "a", "zz", templates[0][0]], rng.randint(1, 3)):
            reps = []
            for _ in range(rng.randint(1, 3)):
                k = rng.choice(["project", "type", "state", "ext", "version", "task"])
                reps.append(["{%s}" % k, "{%s:(%s|\\*|\\>)}" % (k, rng.choice(["a|b", "v\\d\\d\\d", "w|p"]))])
            kp.append([sel, [[k, val] for k, val in dict(reps).items()]])
        kp = [[k, val] for k, val in dict((a, b) for a, b in kp).items()]      # a dict: selectors are unique
        ops.append({"op": "pattern_replacing", "templates": [list(p) for p in templates], "key_patterns": kp})
    # the shipped configuration itself, and the documented corner
    ops.append({"op": "extrapolate_templates", "sep": "__", "templates": v.d["raw"]["sid_templates"], "to_extrapolate": v.d["raw"]["to_extrapolate"]})
    ops.append({"op": "extrapolate_templates", "sep": "__", "templates": [["shot__shot", "{project}/{type:s}/{sequence}/{shot}"]], "to_extrapolate": ["shot__shot"]})
    ops.append({"op": "pattern_replacing", "templates": v.d["raw"]["sid_templates"], "key_patterns": v.d["raw"]["key_patterns"]})
    return ops


def path_labels(v, config):
    return [l for l, _ in v.paths[config]["templates"]]


def concrete_path_sids(v, n, backed_only=True):
    """concrete typed sids of types having a path template (values may need path mapping)"""
    rng = v.rng
    cfg = sorted(v.paths.keys())[0]
    labels = [l for l in path_labels(v, cfg) if l in v.tdict] if backed_only else v.labels
    out = []
    for _ in range(n):
        label = rng.choice(labels)
        fields = [(k, v.value((k, r), concrete_only=True)) for k, r in v.tdict[label]]
        out.append((label, "/".join(val for _, val in fields), fields))
    return out


def mutate_path(v, p):
    """one mutation of the C06 grammar applied to a valid path"""
    rng = v.rng
    comps = p.split("/")
    kind = rng.randrange(17)
    if kind >= 15 and v.path_words:         # a word of a value mapping (path side or sid side, synonyms) in place of a value
        w = rng.choice(v.path_words)
        if rng.random() < 0.5 and len(comps) > 3:
            known = [i for i, cpt in enumerate(comps) if cpt in v.path_words]
            i = rng.choice(known) if known and rng.random() < 0.8 else rng.randrange(2, len(comps))
            comps[i] = w
        else:
            toks = re.split(r"([_.])", comps[-1])
            known = [i for i, tk in enumerate(toks) if tk in v.path_words]
            i = rng.choice(known) if known and rng.random() < 0.8 else rng.randrange(len(toks))
            toks[i] = w
            comps[-1] = "".join(toks)
        return "/".join(comps)
    if kind == 14 and rng.random() < 0.4:   # the same name in another unicode normal form / with a combining mark
        import unicodedata
        i = rng.randrange(max(1, len(comps) - 4), len(comps))
        c0 = comps[i]
        cands = [unicodedata.normalize("NFD", c0), unicodedata.normalize("NFC", c0), c0[:1] + "\u0301" + c0[1:], c0.replace("e", "e\u0301", 1), c0.replace("a", "\u00e4", 1)]
        cands = [c for c in cands if c != c0] or [c0 + "\u0301"]
        comps[i] = rng.choice(cands)
    elif kind == 14:                        # characters of format strings / regexes / globs in a name
        i = rng.randrange(max(1, len(comps) - 4), len(comps))
        comps[i] = rng.choice(["{" + comps[i] + "}", comps[i] + "{", "{}{}", "{0}", "%s", comps[i] + "}", "{x}_" + comps[i], "\\d+", "(" + comps[i]])
    elif kind == 0 and len(comps) > 3:      # substitute a directory value
        i = rng.randrange(2, len(comps))
        comps[i] = rng.choice([v.segment(), v.near_miss(comps[i])])
    elif kind == 1:                        # drop trailing components
        comps = comps[:-rng.randint(1, 2)]
    elif kind == 2:                        # add trailing components
        comps = comps + [rng.choice([v.segment(), "OUTPUT", "x.ma", comps[-1]]) for _ in range(rng.randint(1, 2))]
    elif kind == 3:                        # desynchronise a repeated field inside the file name
        name = comps[-1]
        toks = name.replace(".", "_").split("_")
        if len(toks) > 1:
            i = rng.randrange(len(toks))
            old = toks[i]
            new = rng.choice([v.segment(), v.near_miss(old), "x"])
            name = name.replace(old, new, 1)
        comps[-1] = name
    elif kind == 4:                        # change a separator
        comps[-1] = comps[-1].replace("_", rng.choice(["-", "__", ".", ""]), 1)
    elif kind == 5:                        # the extension dot
        if "." in comps[-1]:
            i = comps[-1].rindex(".")
            comps[-1] = comps[-1][:i] + rng.choice(["X", "/", "_", "..", ""]) + comps[-1][i + 1:]
    elif kind == 6:                        # a fixed folder
        for i, cpt in enumerate(comps):
            if cpt in ("PROD", "ASSETS", "SHOTS", "OUTPUT", "EXPORT", "PROJECTS") and rng.random() < 0.5:
                comps[i] = rng.choice(["prod", "ASSET", "X", "OUTPUTS", ""])
                break
    elif kind == 7:
        return p + rng.choice(["\n", "/", "/.", " ", "\n\n"]).encode().decode("unicode_escape")
    elif kind == 8:                        # switch root between configurations
        return p.replace("/LOCAL/", "/SERVER/") if "/LOCAL/" in p else p.replace("/SERVER/", "/LOCAL/")
    elif kind == 9:
        return p.replace("/", "//", 1) if rng.random() < 0.5 else p.replace("/R/", "/R/./", 1)
    elif kind == 10 and len(comps) > 4:   # duplicate a component
        i = rng.randrange(3, len(comps))
        comps.insert(i, comps[i])
    elif kind == 11:                       # substitute a token of the file name by a valid word of another key
        name = comps[-1]
        toks = name.split("_")
        if len(toks) > 1:
            i = rng.randrange(len(toks))
            k = rng.choice(list(v.closed.keys()))
            toks[i] = rng.choice(v.closed[k])
            comps[-1] = "_".join(toks)
    elif kind == 12:
        return rng.choice(["", "/", "relative/path", "None", "/R", p.lower(), p.upper()])
    else:
        i = rng.randrange(len(comps))
        comps[i] = comps[i][::-1] if rng.random() < 0.5 else comps[i] + "x"
    return "/".join(comps)


def fam_paths(v, n, model):
    """C05 / C06: Sid -> path -> Sid in every configuration, and mutated / foreign paths"""
    rng = v.rng
    configs = sorted(v.paths.keys())
    sids = concrete_path_sids(v, n)
    # a few search sids, untyped and path-less ones as well
    extra = [v.typed_sid(search=0.4) for _ in range(max(5, n // 10))]
    ops = []
    ask = []
    for label, s, fields in sids:
        for cfg in configs:
            ask.append({"op": "sid_call", "from": {"s": s}, "m": "path", "config": cfg})
    answers = model(ask)
    k = 0
    for label, s, fields in sids:
        for cfg in configs:
            a = answers[k]; k += 1
            ops.append({"op": "sid_call", "from": {"s": s}, "m": "path", "config": cfg})
            p = a.get("ok")
            if not p:
                continue
            ops.append({"op": "sid", "path": p, "config": cfg})
            if rng.random() < 0.3:
                ops.append({"op": "path_to_dict", "path": p, "config": cfg})
            if rng.random() < 0.2:
                ops.append({"op": "resolve_first", "r": cfg, "s": p})
            for _ in range(2):
                mp = mutate_path(v, p)
                ops.append({"op": "sid", "path": mp, "config": rng.choice([cfg, cfg, None] + configs)})
                if rng.random() < 0.15:
                    ops.append({"op": "resolve_all", "r": cfg, "s": mp})
        if rng.random() < 0.3:      # same string, other types: their paths (or None) must not interfere
            for l2 in [l for l in v.labels if l != label and len(v.tdict[l]) == len(fields)]:
                ops.append({"op": "sid_call", "from": {"s": l2 + ":" + s}, "m": "path", "config": rng.choice(configs)})
            ops.append({"op": "sid_call", "from": {"s": s}, "m": "path", "config": rng.choice(configs)})
        if rng.random() < 0.3:
            ops.append({"op": "sid_call", "from": {"s": s}, "m": "path"})
            ops.append({"op": "sid_call", "from": {"s": label + ":" + s}, "m": "path", "config": rng.choice(configs)})
    for label, s, fields in extra:
        ops.append({"op": "sid_call", "from": {"s": s}, "m": "path", "config": rng.choice(configs)})
    for s in ["junk", "", "hamlet/a/char//model", "hamlet/a/char/./model", "hamlet/a/char/x/model/v001/w", "hamlet/a"]:
        ops.append({"op": "sid_call", "from": {"s": s}, "m": "path", "config": configs[0]})
    return ops


def fam_unfold(v, n):
    """C07: each unfolder and the pipeline"""
    rng = v.rng
    sg = SearchGen(v)
    ops = []
    for _ in range(n):
        s = sg.search(allow_gt=rng.random() < 0.3)
        x = rng.random()
        flags = {}
        if x < 0.25:
            flags = {"u": rng.random() < 0.5, "x": rng.random() < 0.5}
            if rng.random() < 0.5:
                flags["positional"] = True
        ops.append({"op": "unfold_search", "s": s, **flags})
        y = rng.random()
        if y < 0.08:
            ops.append({"op": "extensions", "s": s})
        elif y < 0.16:
            ops.append({"op": "or_op", "s": s})
        elif y < 0.22:
            ops.append({"op": "or_on_path", "s": s.split("?")[0]})
        elif y < 0.28 and "?" in s:
            ops.append({"op": "or_on_query", "q": s.split("?", 1)[1]})
        elif y < 0.36 and "," not in s:
            ops.append({"op": "expand", "s": s, "x": rng.random() < 0.3})
        elif y < 0.42 and "," not in s and "**" not in s:
            ops.append({"op": "simple_typing", "s": s})
        elif y < 0.47:
            ops.append({"op": "handle_extension", "s": s.split("?")[0].split("/")[-1]})
        elif y < 0.52:
            label, st, _ = v.typed_sid(search=0.5)
            ops.append({"op": "type_narrow", "from": {"s": rng.choice([st, label + ":" + st, st + "?foo=bar"])}})
    # a CONCRETE Sid whose only search symbol sits in the value of a trailing filter on a DEEPER key (the key of the
    # next level, shared by several templates): the overlay is a search that fits several types
    r2 = random.Random("unfold-deeper/%d" % n)
    for label in v.labels:
        ks = v.tdict[label]
        deeper = sorted({v.tdict[l2][len(ks)][0] for l2 in v.labels if len(v.tdict[l2]) > len(ks)
                         and [k for k, _ in v.tdict[l2][:len(ks)]] == [k for k, _ in ks]})
        if not deeper:
            continue
        vals = [v.value((k, r), concrete_only=True) for k, r in ks]
        s0 = "/".join(vals)
        for k2 in deeper[:2]:
            for sym in ("*", ">"):
                ops.append({"op": "unfold_search", "s": "%s?%s=%s" % (s0, k2, sym)})
            ops.append({"op": "unfold_search", "s": "%s?%s=%s&%s=*" % (s0, ks[-1][0], v.value(ks[-1], concrete_only=True), k2)})
            ops.append({"op": "sid", "s": "%s?%s=*" % (s0, k2)})
            ops.append({"op": "sid_call", "from": {"s": s0}, "m": "get_with_q", "q": "%s=%s" % (k2, r2.choice(["*", ">"]))})
    for s in ["bla?foo=bar", "hamlet/*/*?type=s", "x:y:z", "hamlet/a/**", "hamlet/**", "hamlet/s/**/ma", "", "hamlet/a/char/**/maya",
              "hamlet/a,s/*", "hamlet/a/char/x/model/v001/w/maya", "hamlet/a/char/x/**/movie?state=p", "hamlet/s/sq001/**/cache"]:
        ops.append({"op": "unfold_search", "s": s})
        ops.append({"op": "unfold_search", "s": s, "x": True})
    ops.append({"op": "extrapolate", "l": ["a/b/c", "a/b/d", "a/x", "", "/a", "a//b"]})
    return ops


def fam_listfind(v, n):
    """C08 / C09 / C10 / C12: FindInList over generated universes"""
    rng = v.rng
    sg = SearchGen(v)
    ops = []
    nu = max(1, n // 12)
    for _ in range(nu):
        L, leaves = universe(v)
        flags = {}
        x = rng.random()
        if x < 0.15:
            flags["x"] = True
        elif x < 0.25:
            flags["ps"] = True
        elif x < 0.3:
            flags["st"] = True
            L = [rng.choice([" ", ""]) + s for s in L]
        if rng.random() < 0.5:      # ONE FindInList instance serves every search on this list (as a long-lived tool would)
            flags["reuse"] = "u%d" % len(ops)
            if "ps" not in flags:     # ... on a list that is NOT in sorted order: the order of the answers is the list's
                L = list(L)
                rng.shuffle(L)
        for _ in range(12):
            base = rng.choice(leaves) if rng.random() < 0.8 else None
            if base is not None and rng.random() < 0.3:
                label, fields = base
                i = rng.randint(1, len(fields))
                pl = [l for l, ks in v.templates if [k for k, _ in ks] == [k for k, _ in fields[:i]]]
                base = (pl[0], fields[:i]) if pl else base
            s = sg.search(base=base, allow_gt=rng.random() < 0.35, malformed=0.03)
            m = rng.choice(["find", "find", "find", "find_one", "exists"])
            ops.append({"op": "find_list", "l": L, "s": s, "m": m, **flags})
            if ">" in s and rng.random() < 0.5:      # the same expression asked again
                ops.append({"op": "find_list", "l": L, "s": s, "m": "find", **flags})
            if rng.random() < 0.1:
                item = rng.choice(L)
                ops.append({"op": "sid_call", "from": {"s": item}, "m": "match", "search": s})
            if rng.random() < 0.08:
                ops.append({"op": "glob_match", "pat": s.split("?")[0], "item": rng.choice(L)})
        # a BROAD search (several answers, in list order), a '>' search on the same (possibly long-lived) instance,
        # the broad search again: a sorted search must not leave the instance's list sorted
        if leaves:
            label, fields = rng.choice(leaves)
            segs = [val for _, val in fields]
            if len(segs) > 3:
                broad = "/".join(segs[:2] + ["*"] * (len(segs) - 2))
                gt = "/".join(segs[:2] + [">"] + ["*"] * (len(segs) - 3))
                for s_b, m_b in ((broad, "find"), (gt, "find"), (broad, "find"), (broad, "find_one"), (gt, "find_one"), (broad, "find")):
                    ops.append({"op": "find_list", "l": L, "s": s_b, "m": m_b, **flags})
        # an entry the configuration does not know (a closed-vocabulary segment replaced), placed BEFORE
        # the entry it was made from, and the star search that matches both: the first result is untyped
        typed_entries = [e for e in L if e.count("/") >= 2]
        if typed_entries:
            e = rng.choice(typed_entries)
            segs = e.strip().split("/")
            i = rng.randrange(1, len(segs))
            junk_entry = "/".join(segs[:i] + [rng.choice(["zzjunk", "vehicle", segs[i] + "\n", "x:y"])] + segs[i + 1:])
            L2 = list(L)
            L2.insert(L2.index(e), junk_entry)
            star = "/".join(segs[:i] + ["*"] + segs[i + 1:])
            for m in ("exists", "find_one", "find"):
                ops.append({"op": "find_list", "l": L2, "s": star, "m": m, **flags})
        # match of entries against star searches built from themselves (any segment, the type code too)
        for label, fields in leaves[:3]:
            segs = [val for _, val in fields]
            for _ in range(2):
                ss = [("*" if rng.random() < 0.45 else x) for x in segs]
                ops.append({"op": "sid_call", "from": {"s": "/".join(segs)}, "m": "match", "search": "/".join(ss)})
            # PARTIAL stars inside one segment (constrained and free keys alike): the glob matches the string, whether
            # the search has a typed form at all is the configuration's business; the one-element list says the same
            for _ in range(3):
                i = rng.randrange(len(segs))
                sg_ = segs[i]
                part = rng.choice([sg_[:max(1, len(sg_) // 2)] + "*", "*" + sg_[-1:], sg_[:1] + "*" + sg_[-1:], sg_ + "*", "*" + sg_])
                ss = segs[:i] + [part] + [("*" if rng.random() < 0.3 else x) for x in segs[i + 1:]]
                ops.append({"op": "sid_call", "from": {"s": "/".join(segs)}, "m": "match", "search": "/".join(ss)})
                ops.append({"op": "find_list", "l": ["/".join(segs)], "s": "/".join(ss), "m": "find"})
        # concrete lookups: present and absent; and every PREFIX of an entry whose last segment is an alias
        # name in a position that is not the leaf key (it still expands: "an alias in its last segment")
        for e in L:
            segs = e.strip().split("/")
            for i in range(2, len(segs)):
                if segs[i - 1] in v.aliases:
                    pre = "/".join(segs[:i])
                    L3 = L + [pre] + ["/".join(segs[:i - 1] + [m]) for m in v.aliases[segs[i - 1]][:2]]
                    ops.append({"op": "find_list", "l": L3, "s": pre, "m": "find", **flags})
                    ops.append({"op": "sid_call", "from": {"s": L3[-1]}, "m": "match", "search": pre})
                    break
        ops.append({"op": "find_list", "l": L, "s": rng.choice(L), "m": "find", **flags})
        ops.append({"op": "find_list", "l": L, "s": v.typed_sid(search=0)[1], "m": "find", **flags})
    # PRE-SORTED lists holding '<name>' and '<name>-2' at a free level ('-' sorts below '/': the order of the
    # whole strings and the order of the segments disagree), searched with a literal head ending at <name>
    for _ in range(max(2, nu // 3)):
        L, leaves = universe(v, with_junk=False)
        for label, fields in leaves[:2]:
            pp = prefix_pair(v, label, fields)
            if not pp:
                continue
            L2 = list(L)
            for _, f in pp[0]:
                vals = [val for _, val in f]
                L2 += ["/".join(vals[:i]) for i in range(1, len(vals) + 1)]
            L2 = sorted(set(L2))
            segs = [val for _, val in fields]
            fa, fb = fields, pp[0][0][1]
            i = [j for j in range(min(len(fa), len(fb))) if fa[j][1] != fb[j][1]][0]
            head = segs[:i + 1]
            rest = len(segs) - i - 1
            for s in ["/".join(head + ["*"] * k) for k in range(1, rest + 1)] + ["/".join(head + ["**"])] + pp[1]:
                for fl in ({"ps": True}, {}):
                    ops.append({"op": "find_list", "l": L2, "s": s, "m": "find", **fl})
            break
    ops.append({"op": "find_list", "l": ["hamlet/a/char/a/model/v001/w/ma", "hamlet/a/char/a-b/model/v001/w/ma"], "s": "hamlet/a/char/>/model/*/w/*", "m": "find"})
    ops.append({"op": "find_list", "l": ["hamlet/a/char/x/model/v001/w/ma", "hamlet/a/char/x/model/v001/w/mb"], "s": "hamlet/a/char/x/model/v001/w/maya", "m": "find"})
    ops.append({"op": "find_list", "l": ["hamlet/a/char/[x]"], "s": "hamlet/a/char/[x]", "m": "find"})
    return ops


def _attr_data(rng):
    keys = ["comment", "frames", "status", "user", "sid", "a b"]
    out = []
    for k in rng.sample(keys[:5], rng.randint(1, 3)):
        v = rng.choice(['"ok"', "12", "null", "true", "[1, 2]", '{"a": 1}', '"é"', "1.5", '""'])
        out.append([k, v])
    return out


def materialise(v, wid, leaves, config, junk=False):
    """operations creating the entities of a universe in world `wid` (leaves first: parents are
    created on the way, as WriteToPaths does)"""
    rng = v.rng
    ops = [{"op": "world", "w": wid, "do": "new"}]
    for label, fields in leaves:
        s = "/".join(val for _, val in fields)
        op = {"op": "world", "w": wid, "do": "create", "sid": s, "config": config}
        if rng.random() < 0.4:
            op["data"] = _attr_data(rng)
        ops.append(op)
    return ops


def tree_universe(v, nleaf=None, leaf_words=False):
    """leaves of path-backed leaf types, free values without glob metacharacters"""
    from gen import NAMES, re_is_free
    rng = v.rng
    cfg = sorted(v.paths.keys())[0]
    backed = [l for l, _ in v.paths[cfg]["templates"] if l in v.tdict]
    leaf_labels = [l for l in backed if v.tdict[l] and v.tdict[l][-1][0] == v.leaf_keys.get(l.split(v.sep)[0])]
    names = [n for n in NAMES if not any(ch in n for ch in "[]?*")]
    leaves = []
    base = None
    for _ in range(nleaf or rng.randint(2, 6)):
        if base is not None and rng.random() < 0.75:
            label, fields = base
            fields = list(fields)
            for _ in range(rng.randint(1, 2)):
                i = rng.randrange(2, len(fields))
                k = fields[i][0]
                r = dict(v.tdict[label])[k]
                fields[i] = (k, rng.choice(names) if re_is_free(r) else v.value((k, r), concrete_only=True))
        else:
            label = rng.choice(leaf_labels)
            lk0 = v.tdict[label][-1][0]
            # (only for the model-vs-code families: the ground-truth oracles type an ancestor STRING naturally, and a
            #  node named like an extension reads as a file there)
            leaf_vocab = [w for w in (v.closed.get(lk0) or []) if w not in v.aliases]
            fields = [(k, ((rng.choice(leaf_vocab) if (leaf_words and leaf_vocab and rng.random() < 0.15) else rng.choice(names)) if re_is_free(r)
                           else v.value((k, r), concrete_only=True))) for k, r in v.tdict[label]]
            base = (label, fields)
        if (label, fields) not in leaves:
            leaves.append((label, fields))
        if rng.random() < 0.4:
            # a "type sibling": another leaf type of the same basetype with the same keys (file / movie /
            # cache next to each other in one state folder), sharing every value but the leaf
            bt = label.split(v.sep)[0]
            keyl = [k for k, _ in fields]
            same = [l for l in leaf_labels if l != label and l.split(v.sep)[0] == bt and [k for k, _ in v.tdict[l]] == keyl]
            if same:
                l2 = rng.choice(same)
                lk, lr = v.tdict[l2][-1]
                f2 = list(fields[:-1]) + [(lk, v.value((lk, lr), concrete_only=True))]
                if (l2, f2) not in leaves:
                    leaves.append((l2, f2))
        if rng.random() < 0.4:
            # a "depth sibling": a leaf type of the same basetype with another number of levels,
            # sharing every common key value (e.g. .../p/abc and .../p/<node>/abc)
            bt = label.split(v.sep)[0]
            others = [l for l in leaf_labels if l.split(v.sep)[0] == bt and len(v.tdict[l]) != len(fields)]
            if others:
                l2 = rng.choice(others)
                have = dict(fields)
                f2 = []
                ok = True
                for k, r in v.tdict[l2]:
                    if k in have and (re_is_free(r) or have[k] in [w for w in __import__("gen").re_words(r, rng)]):
                        f2.append((k, have[k]))
                    elif re_is_free(r):
                        f2.append((k, rng.choice(names)))
                    else:
                        f2.append((k, v.value((k, r), concrete_only=True)))
                if (l2, f2) not in leaves:
                    leaves.append((l2, f2))
    return leaves


def prefix_pair(v, label, fields):
    """two entities whose names at a FREE level are '<name>' and '<name>-2' ('-' sorts below '/': whole-string order
    and segment order disagree), the second of ANOTHER leaf type when the configuration has one with the same keys
    (so that a search over both unfolds into several typed searches).  Returns ([leaves], ['>' searches at that
    level]) or None."""
    from gen import re_is_free
    rng = v.rng
    keys = [k for k, _ in fields]
    free = [i for i, k in enumerate(keys) if re_is_free(dict(v.tdict[label])[k]) and 1 < i < len(keys) - 1]
    if not free:
        return None
    i = free[0]
    name = fields[i][1]
    if any(ch in name for ch in "[]?*>,") or not name:
        return None
    bt = label.split(v.sep)[0]
    same = [l for l in v.labels if l != label and l.split(v.sep)[0] == bt and [k for k, _ in v.tdict[l]] == keys
            and v.tdict[l][-1][0] == v.leaf_keys.get(bt)]
    l2 = rng.choice(same) if same else label
    lk, lr = v.tdict[l2][-1]
    f2 = [(k, (name + rng.choice(["-2", ".b", "+x"]) if j == i else val)) for j, (k, val) in enumerate(fields[:-1])] + \
         [(lk, v.value((lk, lr), concrete_only=True))]
    segs = [val for _, val in fields]
    searches = ["/".join(segs[:i] + [">", "**"]),
                "/".join(segs[:i] + [">"] + ["*"] * (len(segs) - i - 1)),
                "/".join(segs[:i - 1] + ["*", ">"] + ["*"] * (len(segs) - i - 1))]
    return [(l2, f2)], searches


def confusable_sibling(v, label, fields, cfg=None, with_or=False):
    """an entity whose FILE NAME is matched by the name pattern of a search it does not match: in a
    name like {assettype}_{asset}_{task}_{state}_{version}.{ext} the free field takes the value
    '<name>_<task>_<STATE>' and the state the other value; the search stars the free field and the
    field after the state.  Returns (sibling fields, search string) or None."""
    from gen import re_is_free, re_words
    rng = v.rng
    cfg = cfg or sorted(v.paths.keys())[0]
    toks = dict(v.paths[cfg]["templates"]).get(label)
    if not toks:
        return None
    # components of the template; the last one is the file name stretch
    comps = [[]]
    for t in toks:
        if "lit" in t:
            parts = t["lit"].split("/")
            for i, part in enumerate(parts):
                if i > 0:
                    comps.append([])
                if part:
                    comps[-1].append({"lit": part})
        else:
            comps[-1].append(t)
    name = comps[-1]
    pinned = {c[0]["ph"] for c in comps[:-1] if len(c) == 1 and "ph" in c[0]}
    have = dict(fields)
    mapping = v.paths[cfg]["mapping"]

    def pathval(k, val):
        for pv, sv in mapping.get(k, []):
            if sv == val:
                return pv
        return val
    for i, t in enumerate(name):
        if "ph" in t and re_is_free(t["re"]) and t["ph"] in have:
            kf = t["ph"]
            text = have[kf]
            j = i + 1
            while j + 1 < len(name) and "lit" in name[j] and "ph" in name[j + 1] and not re_is_free(name[j + 1]["re"]):
                k = name[j + 1]["ph"]
                if k not in have:
                    break
                text += name[j]["lit"] + pathval(k, have[k])
                words = [w for w in re_words(name[j + 1]["re"], rng) if w not in ("*", ">")]
                others = [w for w in words if w != pathval(k, have[k])]
                if k not in pinned and others and j + 3 < len(name) and "ph" in name[j + 3] and name[j + 3]["ph"] in have:
                    other_path = rng.choice(others)
                    other_sid = dict((pv, sv) for pv, sv in mapping.get(k, [])).get(other_path, other_path)
                    sib = [(kk, text if kk == kf else (other_sid if kk == k else vv)) for kk, vv in fields]
                    star = name[j + 3]["ph"]
                    search = "/".join("*" if kk in (kf, star) else vv for kk, vv in fields)
                    if any(ch in text for ch in "[]?*"):
                        return None
                    if with_or:
                        # the same search with an or-list over both values of the differing key, in both orders: one
                        # alternative's name pattern matches the OTHER entity's file, which it must reject
                        both = [dict(fields)[k], other_sid]
                        ors = ["/".join("*" if kk in (kf, star) else (",".join(o) if kk == k else vv) for kk, vv in fields)
                               for o in (sorted(both), sorted(both, reverse=True))]
                        return sib, search, ors
                    return sib, search
                j += 2
    return None


def constant_searches(v, leaves, k):
    """searches ending on a level the data configuration answers from constants (state, assettype,
    type ...): the last segment is one value, an or-list of values or '*', levels above are starred"""
    rng = v.rng
    data = v.d["conf"].get("data") or {}
    finders = data.get("finders", [])
    const = {l: finders[i] for l, i in data.get("finder_by_type", []) if finders[i]["kind"] == "constants"}
    out = []
    base = []
    extra = []
    v.const_extra = extra
    if not const or not leaves:
        return out
    for _ in range(k):
        label, fields = rng.choice(leaves)
        cands = [l for l in const if l in v.tdict and [kk for kk, _ in v.tdict[l]] == [kk for kk, _ in fields[:len(v.tdict[l])]]]
        if not cands:
            continue
        l = rng.choice(cands)
        n = len(v.tdict[l])
        segs = [val for _, val in fields[:n]]
        values = list(const[l]["values"])
        x = rng.random()
        if x < 0.55 and len(values) > 1:
            alts = rng.sample(values, rng.randint(2, min(3, len(values))))
            y = rng.random()
            if y < 0.25:        # overlapping alternatives: '*' next to a value, or a value twice
                alts.insert(rng.randrange(len(alts) + 1), "*")
            elif y < 0.4:
                alts.append(alts[0])
            segs[-1] = ",".join(alts)
        elif x < 0.75:
            segs[-1] = "*"
        else:
            segs[-1] = rng.choice(values)
        stars = [i for i in range(1, n - 1) if rng.random() < 0.35]
        if not stars and n > 2 and rng.random() < 0.8:
            stars = [rng.randrange(max(1, n - 3), n - 1)]
        for i in stars:
            segs[i] = "*"
        if rng.random() < 0.15:
            segs[0] = "*"
        out.append("/".join(segs))
        base.append(([val for _, val in fields[:n]], segs[-1]))
    # systematic (no random draw, so the stream above is unchanged): the same searches with ONLY a partial glob
    # in the parent, no whole-segment '*' anywhere above the constant level (seeded change C11k: FindInConstants
    # deciding "the parent is a search" on whole segments only)
    for vals, last in base[:3]:
        for i in range(1, len(vals) - 1):       # constrained keys do not type with a partial glob (both sides answer []); free keys do
            if len(vals[i]) > 1 and "*" not in vals[i]:
                for part in (vals[i][0] + "*", "*" + vals[i][-1]):
                    extra.append("/".join(vals[:i] + [part] + vals[i + 1:-1] + [last]))
    v.const_extra = extra
    return out


def fam_tree(v, n, model):
    """C09-C12, C16, C18: a generated universe materialised as a tree; Finders, Getters and Sid data
    calls compared in lock-step"""
    rng = v.rng
    sg = SearchGen(v)
    configs = sorted(v.paths.keys())
    default = v.d["conf"]["default_path"] or configs[0]
    ops = []
    for u in range(max(1, n // 25)):
        wid = "t%d" % u
        leaves = tree_universe(v, leaf_words=True)
        # the default configuration is what FindInAll / DataSid calls read
        cfg = default if rng.random() < 0.7 else rng.choice(configs)
        confusing = []
        for label, fields in list(leaves)[:2]:
            cs = confusable_sibling(v, label, fields, cfg, with_or=True) if rng.random() < 0.6 else None
            if cs and (label, cs[0]) not in leaves:
                leaves.append((label, cs[0]))
                confusing.append(cs[1])
                confusing.extend(cs[2])
        prefix_searches = []
        for label, fields in list(leaves)[:2]:
            pp = prefix_pair(v, label, fields)
            if pp:
                for lf in pp[0]:
                    if lf not in leaves:
                        leaves.append(lf)
                prefix_searches += pp[1]
        import oracle_inputs as _oi
        extra_l, pairs = _oi.lopsided(v, leaves, tuples=True)
        for lf in extra_l:
            if lf not in leaves:
                leaves.append(lf)
        ops += materialise(v, wid, leaves, cfg)
        if rng.random() < 0.5:   # junk
            ask = [{"op": "sid_call", "from": {"s": "/".join(val for _, val in f)}, "m": "path", "config": cfg} for _, f in leaves]
            for a in model(ask):
                p = a.get("ok")
                if p and rng.random() < 0.6:
                    mp = mutate_path(v, p)
                    if mp.startswith("/R/") and "\n" not in mp and "\x00" not in mp and "//" not in mp and not mp.endswith("/") and "/." not in mp:
                        ops.append({"op": "world", "w": wid, "do": "plant", "path": mp, "kind": rng.choice(["file", "dir"])})
        ops.append({"op": "world", "w": wid, "do": "dump"})
        for _ in range(20):
            base = rng.choice(leaves)
            if rng.random() < 0.35:
                label, fields = base
                i = rng.randint(1, len(fields))
                pl = [l for l, ks in v.templates if [k for k, _ in ks] == [k for k, _ in fields[:i]]]
                base = (pl[0], fields[:i]) if pl else base
            s = sg.search(base=base, allow_gt=rng.random() < 0.3, malformed=0.02)
            x = rng.random()
            if x < 0.12:
                op = {"op": "world", "w": wid, "do": "getter_paths", "s": s, "config": cfg, "enc": rng.choice(["str", "uri", "none"])}
                if rng.random() < 0.5:
                    op["attributes"] = rng.sample(["comment", "frames", "sid", "nope"], rng.randint(1, 3))
                if cfg == default and rng.random() < 0.5:     # the same query routed by GetFromAll
                    op = dict(op, do="getter_all")
                    del op["config"]
                ops.append(op)
            elif x < 0.45:
                ops.append({"op": "world", "w": wid, "do": "find_paths", "s": s, "config": cfg})
            elif x < 0.8:
                ops.append({"op": "world", "w": wid, "do": "find_all", "s": s})
            else:
                ops.append({"op": "world", "w": wid, "do": "find_paths", "s": s, "config": rng.choice(configs)})
        for label, fields in leaves[:3]:      # '>' followed by '**': unfolded forms of several depths, '>' at one position
            segs = [val for _, val in fields]
            if len(segs) > 4:
                i = rng.randrange(2, len(segs) - 1)
                s_gt = "/".join(segs[:i] + [">", "**"])
                ops.append({"op": "world", "w": wid, "do": "find_all", "s": s_gt})
                ops.append({"op": "world", "w": wid, "do": "find_paths", "s": s_gt, "config": cfg})
        for s in prefix_searches:
            ops.append({"op": "world", "w": wid, "do": "find_paths", "s": s, "config": cfg})
            ops.append({"op": "world", "w": wid, "do": "find_all", "s": s})
        # hidden files next to the folder of a FREE level (the library writes such sidecars itself): a '*' at
        # that level must not see them
        for label, fields in rng.sample(leaves, min(2, len(leaves))):
            from gen import re_is_free as _free
            free_at = [i for i, (k, _) in enumerate(fields) if _free(dict(v.tdict[label])[k]) and i + 1 < len(fields)]
            if free_at and cfg == default:
                i = free_at[0]
                anc = "/".join(val for _, val in fields[:i + 1])
                ops.append({"op": "world", "w": wid, "do": "update", "sid": anc, "config": cfg, "data": [["comment", '"sidecar at a free level"']]})
                star = "/".join([val for _, val in fields[:i]] + ["*"])
                ops.append({"op": "world", "w": wid, "do": "find_paths", "s": star, "config": cfg})
                ops.append({"op": "world", "w": wid, "do": "find_all", "s": star})
                ops.append({"op": "world", "w": wid, "do": "children", "sid": "/".join(val for _, val in fields[:i])})
        for s in constant_searches(v, leaves, 6):
            if rng.random() < 0.5:      # the path Finder asked first about a level it does not serve
                ops.append({"op": "world", "w": wid, "do": "find_paths", "s": s, "config": cfg})
            ops.append({"op": "world", "w": wid, "do": "find_all", "s": s})
        for s in getattr(v, "const_extra", []):     # partial glob only in the parent of a constant level (no draw)
            ops.append({"op": "world", "w": wid, "do": "find_all", "s": s})
        # '>' with a concrete extension, a FindInAll of another configuration name, then '>' with the alias
        for s1, s2, _i in pairs:
            ops.append({"op": "world", "w": wid, "do": "find_all", "s": s1})
            ops.append({"op": "world", "w": wid, "do": "find_all", "s": rng.choice([s1, "*"]), "all_config": rng.choice(["review", "x"])})
            ops.append({"op": "world", "w": wid, "do": "find_all", "s": s2})
        # an EXISTING concrete Sid with a filter that cannot be applied (foreign key, deeper key): the
        # query stays un-applied, the expression denotes nothing, no Finder may answer through a shortcut
        for label, fields in rng.sample(leaves, min(2, len(leaves))):
            i = rng.randint(2, len(fields))
            s0 = "/".join(val for _, val in fields[:i])
            for q in ("foo=bar", "%s=%s" % (fields[-1][0], fields[-1][1]) if i < len(fields) else "nokey=x"):
                ops.append({"op": "world", "w": wid, "do": rng.choice(["find_paths", "find_all"]), "s": s0 + "?" + q, **({"config": cfg})})
        for s in confusing:     # a file whose NAME fits the name pattern of a search it does not match
            ops.append({"op": "world", "w": wid, "do": "find_paths", "s": s, "config": cfg})
            ops.append({"op": "world", "w": wid, "do": "find_all", "s": s})
        for _ in range(8):
            label, fields = rng.choice(leaves)
            i = rng.randint(1, len(fields))
            s = "/".join(val for _, val in fields[:i])
            if rng.random() < 0.2:
                s = v.typed_sid(search=0)[1]
            do = rng.choice(["sid_exists", "children", "siblings", "get_last", "get_next", "get_new", "get_data"])
            op = {"op": "world", "w": wid, "do": do, "sid": s}
            if do == "get_last":
                op["key"] = rng.choice([None, "version", fields[i - 1][0], "task"])
            if do == "get_data" and cfg == default and rng.random() < 0.4:
                do = op["do"] = "get_data_all"
                op["enc"] = rng.choice(["str", "uri", "none"])
                if rng.random() < 0.5:
                    op["attributes"] = rng.sample(["comment", "frames", "sid", "nope"], rng.randint(1, 3))
            if do == "get_data":
                op["config"] = cfg
                op["enc"] = rng.choice(["str", "uri", "none"])
                if rng.random() < 0.5:
                    op["attributes"] = rng.sample(["comment", "frames", "sid", "nope"], rng.randint(1, 3))
            ops.append(op)
        ops += link_block(v, wid, leaves, cfg, default, model, random.Random("links/%s/%d" % (n, u)))
    return ops


def link_block(v, wid, leaves, cfg, default, model, rng):
    """symbolic links in the tree, then reads only (a link to a directory READS as a copy of it, a dangling link or a
    link to a file as a file; a directory moved to another volume with a link left in its place changes nothing):
    the asset-level folder of one entity is relocated, a sibling name links to it, a dangling link and a link to a
    file stand where another version's file would be; searches around all of them"""
    from gen import re_is_free
    ops = []
    cands = [(l, f) for l, f in leaves if len(f) >= 4 and any(re_is_free(dict(v.tdict[l])[k]) for k, _ in f[2:-1])]
    if not cands:
        return ops
    label, fields = cands[0]
    keys = [k for k, _ in fields]
    i = [j for j in range(2, len(fields) - 1) if re_is_free(dict(v.tdict[label])[keys[j]])][0]
    name = fields[i][1]
    if not name or any(ch in name for ch in "[]?*>,\\{}") or name in (".", ".."):
        return ops
    pre = "/".join(val for _, val in fields[:i + 1])
    gold = "/".join([val for _, val in fields[:i]] + [name + "_gold"])
    # the leaf with another leaf value / version, as a dangling link and as a link to a file
    variants = []
    for tag in ("dng", "lnk"):
        f2 = list(fields)
        f2[i] = (keys[i], name + tag)
        variants.append(f2)
    ask = [{"op": "sid_call", "from": {"s": s}, "m": "path", "config": cfg} for s in
           [pre, gold] + ["/".join(val for _, val in f2) for f2 in variants]]
    ans = [a.get("ok") for a in model(ask)]
    if not all(isinstance(a, str) and a.startswith("/R/") for a in ans):
        return ops
    p_pre, p_gold, p_dng, p_lnk = ans
    ops.append({"op": "world", "w": wid, "do": "plant", "path": p_pre, "kind": "relocate"})
    ops.append({"op": "world", "w": wid, "do": "plant", "path": p_gold, "kind": "linkdir", "target": p_pre})
    ops.append({"op": "world", "w": wid, "do": "plant", "path": p_dng, "kind": "dangling"})
    ops.append({"op": "world", "w": wid, "do": "plant", "path": p_lnk, "kind": "linkfile"})
    ops.append({"op": "world", "w": wid, "do": "dump"})
    up = "/".join(val for _, val in fields[:i])
    segs = [val for _, val in fields]
    searches = [up + "/*", up + "/*/*", pre, gold, pre + "/*", gold + "/*", up + "/*?%s=%s" % (keys[i], name + "_gold"),
                up + "/*?%s=%s" % (keys[i], name), "/".join(segs[:i] + ["*"] + segs[i + 1:]), "/".join(segs[:i] + ["*"] * (len(segs) - i)),
                "/".join(segs[:i] + [">"] + ["*"] * (len(segs) - i - 1))]
    for f2 in variants:
        s2 = "/".join(val for _, val in f2)
        searches += [s2, "/".join([val for _, val in f2[:-1]] + ["*"]), "/".join(segs[:i] + ["*"] + [val for _, val in f2[i + 1:]]),
                     "/".join([val for _, val in f2[:-1]]) + "/*?%s=%s" % (keys[-1], f2[-1][1])]
    for s in searches:
        ops.append({"op": "world", "w": wid, "do": "find_paths", "s": s, "config": cfg})
        if cfg == default:
            ops.append({"op": "world", "w": wid, "do": "find_all", "s": s})
    for sid in [up, pre, gold] + ["/".join(val for _, val in f2) for f2 in variants]:
        for do in ("sid_exists", "children", "siblings"):
            ops.append({"op": "world", "w": wid, "do": do, "sid": sid})
        ops.append({"op": "world", "w": wid, "do": "get_data", "sid": sid, "config": cfg, "enc": "str"})
    ops.append({"op": "world", "w": wid, "do": "getter_paths", "s": up + "/*", "config": cfg, "enc": "uri"})
    ops.append({"op": "world", "w": wid, "do": "getter_paths", "s": "/".join([val for _, val in variants[0][:-1]] + ["*"]), "config": cfg, "enc": "str",
                "attributes": ["comment", "sid"]})
    return ops


def fam_history(v, n, model):
    """C12 / C15 / C18: sequences of create / update / read operations on one tree"""
    rng = v.rng
    configs = sorted(v.paths.keys())
    default = v.d["conf"]["default_path"] or configs[0]
    ops = []
    for u in range(max(1, n // 30)):
        wid = "h%d" % u
        leaves = tree_universe(v, nleaf=rng.randint(2, 4), leaf_words=True)
        pool = []
        for label, fields in leaves:
            for i in range(1, len(fields) + 1):
                pool.append("/".join(val for _, val in fields[:i]))
        # extension siblings: same directory and stem, another extension (they share one sidecar)
        from gen import re_words
        for label, fields in leaves:
            lk, lv = fields[-1]
            alts = [w for w in re_words(dict(v.tdict[label])[lk], rng) if w not in ("*", ">") and w not in v.aliases and w != lv]
            if alts:
                pool.append("/".join([val for _, val in fields[:-1]] + [rng.choice(alts)]))
        pool = sorted(set(pool)) + ["junk", "hamlet/a/char/x/model/v001/w"]   # untyped, path-less (state level)
        ops.append({"op": "world", "w": wid, "do": "new"})
        for _ in range(rng.randint(10, 30)):
            s = rng.choice(pool)
            x = rng.random()
            if x < 0.3:
                op = {"op": "world", "w": wid, "do": "create", "sid": s, "config": default}
                y = rng.random()
                if y < 0.3:
                    op["data"] = _attr_data(rng)
                elif y < 0.4:
                    op["data"] = []
                ops.append(op)
            elif x < 0.5:
                op_u = {"op": "world", "w": wid, "do": "update", "sid": s, "config": default, "data": _attr_data(rng) if rng.random() < 0.9 else []}
                if op_u["data"] and rng.random() < 0.5:      # the same write spelled through set()
                    op_u["via"] = rng.choice(["set_kw", "set_attr"])
                ops.append(op_u)
            elif x < 0.65:
                ops.append({"op": "world", "w": wid, "do": "get_data", "sid": s, "config": default, "enc": rng.choice(["str", "uri", "none"]), "reuse": rng.random() < 0.5})
            elif x < 0.75:
                ops.append({"op": "world", "w": wid, "do": "sid_exists", "sid": s})
            elif x < 0.85:
                ops.append({"op": "world", "w": wid, "do": rng.choice(["children", "siblings", "get_new", "get_last"]), "sid": s})
            else:
                ops.append({"op": "world", "w": wid, "do": "find_all", "s": s.rsplit("/", 1)[0] + "/*" if "/" in s else s, "reuse": rng.random() < 0.5})
            if rng.random() < 0.1:
                ops.append({"op": "world", "w": wid, "do": "dump"})
        # the same READS before and after each write, through instances kept for the whole session: an answer
        # remembered from before the write is a wrong answer after it
        label, fields = rng.choice(leaves)
        keys = [k for k, _ in fields]
        vals0 = [val for _, val in fields]
        from gen import re_words as _rw
        for _rep in range(2):
            vals = list(vals0)
            for kk in ("version", "state"):      # a sibling that does not exist yet
                if kk in keys and rng.random() < 0.7:
                    i0 = keys.index(kk)
                    alt = [w for w in _rw(dict(v.tdict[label])[kk], rng) if w not in ("*", ">") and w != vals[i0]]
                    if alt:
                        vals[i0] = rng.choice(alt)
            target = "/".join(vals)
            parent = "/".join(vals[:-1])
            star_v = None
            if "version" in keys:
                vi = keys.index("version")
                star_v = "/".join(vals[:vi] + [rng.choice(["*", ">"])] + vals[vi + 1:])
            reads = [{"op": "world", "w": wid, "do": "sid_exists", "sid": target},
                     {"op": "world", "w": wid, "do": "children", "sid": parent},
                     {"op": "world", "w": wid, "do": "siblings", "sid": target},
                     {"op": "world", "w": wid, "do": "get_last", "sid": target, "key": "version" if "version" in keys else None},
                     {"op": "world", "w": wid, "do": "get_new", "sid": target},
                     {"op": "world", "w": wid, "do": "find_all", "s": parent + "/*", "reuse": True},
                     {"op": "world", "w": wid, "do": "find_paths", "s": parent + "/*", "config": default, "reuse": True},
                     {"op": "world", "w": wid, "do": "get_data", "sid": target, "config": default, "enc": "str", "reuse": True},
                     {"op": "world", "w": wid, "do": "get_data_all", "sid": target, "enc": "str", "reuse": True},
                     {"op": "world", "w": wid, "do": "get_data_all", "sid": target, "enc": "str", "attributes": ["comment", "status"], "via": "sid_get_attr"},
                     {"op": "world", "w": wid, "do": "getter_all", "s": parent + "/*", "enc": "str", "reuse": True},
                     {"op": "world", "w": wid, "do": "find_all", "s": target, "reuse": True, "via": "exists"},
                     {"op": "world", "w": wid, "do": "find_paths", "s": parent + "/*", "config": default, "reuse": True, "via": "find_one"},
                     {"op": "world", "w": wid, "do": "find_paths", "s": target, "config": default, "reuse": True, "via": "exists"},
                     {"op": "world", "w": wid, "do": "get_data_all", "sid": target, "enc": "str", "attributes": ["comment", "status"], "via": "getter_get_attr", "reuse": True},
                     {"op": "world", "w": wid, "do": "get_data", "sid": target, "config": default, "enc": "str", "attributes": ["status", "comment"], "via": "getter_get_attr", "reuse": True}]
            if star_v:
                reads.append({"op": "world", "w": wid, "do": "get_next", "sid": star_v})
            ops += [dict(r) for r in reads]
            ops.append({"op": "world", "w": wid, "do": "create", "sid": target, "config": default, "data": [["comment", '"first"']]})
            ops += [dict(r) for r in reads]
            ops.append({"op": "world", "w": wid, "do": "update", "sid": target, "config": default, "data": [["comment", '"second"'], ["status", "1"]],
                        "via": rng.choice(["set_attr", "set_kw", "update"])})
            ops += [dict(r) for r in reads]
            # a NEW key written with null next to unchanged keys; a value replaced by an equal-looking one (1 -> true)
            ops.append({"op": "world", "w": wid, "do": "update", "sid": target, "config": default, "data": [["comment", '"second"'], ["approved", "null"]]})
            ops.append({"op": "world", "w": wid, "do": "get_data", "sid": target, "config": default, "enc": "str"})
            ops.append({"op": "world", "w": wid, "do": "update", "sid": target, "config": default, "data": [["status", "true"]]})
            ops.append({"op": "world", "w": wid, "do": "get_data", "sid": target, "config": default, "enc": "str", "reuse": True})
            ops.append({"op": "world", "w": wid, "do": "update", "sid": target, "config": default, "data": [["status", "1.0"], ["frames", "0"]]})
            ops.append({"op": "world", "w": wid, "do": "get_data_all", "sid": target, "enc": "str"})
        # a version workflow on one leaf: ask for the last, create a greater one, ask again
        label, fields = leaves[0]
        keys = [k for k, _ in fields]
        if "version" in keys:
            vi = keys.index("version")
            vals = [val for _, val in fields]
            for n in sorted(rng.sample(range(1, 60), 3)):
                vals2 = list(vals)
                vals2[vi] = "v%03d" % n
                sv = "/".join(vals2)
                ops.append({"op": "world", "w": wid, "do": "create", "sid": sv, "config": default})
                for probe in (sv, "/".join(vals2[:vi + 1]), "/".join(vals2[:vi])):
                    ops.append({"op": "world", "w": wid, "do": "get_last", "sid": probe, "key": "version"})
                ops.append({"op": "world", "w": wid, "do": "get_new", "sid": sv})
        ops.append({"op": "world", "w": wid, "do": "dump"})
    return ops


def fam_cache(v, n):
    """C13: the key function and the memoising wrappers of spil/util/caching.py against Model/Cache.lean:
    keys of generated call spellings, and call histories through lru_cache / hit_cache with small
    capacities (per call: served from the cache or not, and the answer)"""
    rng = v.rng
    vals = ["", "a", "b", "local", "server", "True", "x"]
    names = ["config", "_type", "do_uniquify", "do_extrapolate", "k"]

    def call():
        args = [rng.choice(vals) for _ in range(rng.randint(0, 3))]
        kw = {}
        for nm in rng.sample(names, rng.randint(0, 3)):
            kw[nm] = rng.choice(vals)
        return {"args": args, "kwargs": [[k, val] for k, val in kw.items()]}
    ops = []
    for _ in range(n):
        c = call()
        ops.append({"op": "make_key", "args": c["args"], "kwargs": c["kwargs"]})
    for _ in range(max(2, n // 10)):
        pool = [call() for _ in range(rng.randint(2, 6))]
        # the same values spelled positionally and by keyword, in one or the other parameter slot
        a = rng.choice(vals)
        pool += [{"args": ["s", a], "kwargs": []}, {"args": ["s"], "kwargs": [["do_uniquify", a]]},
                 {"args": ["s"], "kwargs": [["do_extrapolate", a]]},
                 {"args": ["s"], "kwargs": [["do_uniquify", "b"], ["do_extrapolate", a]]}, {"args": ["s", a, "b"], "kwargs": []}]
        calls = [rng.choice(pool) for _ in range(rng.randint(4, 30))]
        kind = rng.choice(["lru", "lru_kw", "hit"])     # lru_cache and lru_kw_cache are one state machine in the model
        ops.append({"op": "cache_history", "calls": calls, "max": rng.choice([1, 2, 3, 4096]), "hit_cache": kind == "hit", "lru_kw": kind == "lru_kw"})
    return ops


FAMILIES = {
    "cache": fam_cache,
    "tree": fam_tree,
    "history": fam_history,
    "unfold": fam_unfold,
    "listfind": fam_listfind,
    "paths": fam_paths,
    "resolver": fam_resolver,
    "sid_strings": fam_sid_strings,
    "sid_forms": fam_sid_forms,
    "query": fam_query,
    "confutil": fam_confutil,
}
