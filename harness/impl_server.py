"""Implementation side of the correspondence check.

Runs inside a staged environment under the real interpreter, reads one JSON operation per line
from stdin, executes it against the real Spil code in-process, and writes one canonical JSON
answer per line.  Mirrors the protocol of lean/Spil/Driver.lean.
"""
import sys, os, json, io, traceback
sys.path.insert(0, os.path.dirname(os.path.abspath(__file__)))

# keep Spil's prints (demo configuration banner, resolva log handler) away from the protocol
_real_stdout = sys.stdout
sys.stdout = io.StringIO()

import logging
import spil  # noqa
from spil import Sid, SpilException, FindInList, conf
from resolva import Resolver
from resolva.utils import ResolvaException
from spil.sid.core import query_helper, sid_resolver
from spil.sid.core import utils as core_utils
from spil.sid.read import tools
from spil.sid.read.unfolders import extensions as u_ext, or_op as u_or, typed_narrow as u_narrow
from spil.sid.read.finders import find_list
from spil.conf import util as conf_util
from spil.sid.pathops.pathconfig import get_path_config

logging.getLogger("resolva").setLevel(logging.ERROR)

if os.environ.get("SPIL_VERIF_MAXSIZE"):      # harness-side: shrink the caches to force eviction
    from spil.util import caching as _caching
    _caching._max_size = int(os.environ["SPIL_VERIF_MAXSIZE"])

if os.environ.get("SPIL_VERIF_FIRST_CONFIG"):     # harness-side: which path configuration the process touches first
    get_path_config(os.environ["SPIL_VERIF_FIRST_CONFIG"])

import spil_sid_conf as _raw
CONF_DIR = os.path.dirname(os.path.abspath(_raw.__file__)).replace(os.sep, "/")


def to_real(s):
    return s.replace("/R/", CONF_DIR + "/") if isinstance(s, str) else s


def to_canon(s):
    return s.replace(CONF_DIR + "/", "/R/") if isinstance(s, str) else s


def err_name(e):
    if isinstance(e, SpilException):
        return "spil"
    if isinstance(e, ResolvaException):
        return "resolva"
    if isinstance(e, json.JSONDecodeError):
        return "json"
    if isinstance(e, NotImplementedError):
        return "notimpl"
    if isinstance(e, KeyError):
        return "key"
    if isinstance(e, ValueError):
        return "value"
    if isinstance(e, TypeError):
        return "type"
    if isinstance(e, OSError):
        return "os"
    return "other"


def jsid(x):
    return {"string": str(x), "type": x.type, "fields": [[k, v] for k, v in x.fields.items()]}


def jdict(d):
    return [[k, v] for k, v in d.items()]


def sid_from(j):
    if j.get("obj") is not None:
        return Sid(sid_from(j["obj"]))
    if j.get("s") is not None:
        return Sid(j["s"])
    if j.get("fields") is not None:
        return Sid(fields=dict(j["fields"]))
    if j.get("query") is not None:
        return Sid(query=j["query"])
    if j.get("path") is not None:
        return Sid(path=to_real(j["path"]), config=j.get("config"))
    raise ProtocolError("sid source expected")


def resolver_of(name):
    if name != "sid":
        get_path_config(name)
    return Resolver.get(name)


def sid_call(j):
    x = sid_from(j["from"])
    m = j["m"]
    if m == "self":
        return jsid(x)
    if m == "uri":
        return x.uri
    if m == "typed":
        return bool(x)
    if m == "len":
        return len(x)
    if m == "repr":
        return repr(x)
    if m == "keytype":
        return x.keytype
    if m == "basetype":
        return x.basetype
    if m == "is_search":
        return x.is_search()
    if m == "is_leaf":
        return x.is_leaf()
    if m == "as_query":
        return x.as_query()
    if m == "copy":
        return jsid(x.copy())
    if m == "parent":
        return jsid(x.parent)
    if m == "get":
        return x.get(j["k"])
    if m == "get_as":
        return jsid(x.get_as(j["k"]))
    if m == "div":
        return jsid(x / j["v"])
    if m == "get_with_q":
        return jsid(x.get_with(query=j["q"]))
    if m == "get_with_kw":
        kw = {k: v for k, v in j["kw"]}
        if j.get("kv"):  # spelled get_with(key=, value=)
            (k, v), = kw.items()
            return jsid(x.get_with(key=k, value=v))
        return jsid(x.get_with(**kw))
    if m == "path":
        if j.get("kw"):
            p = x.path(config=j.get("config"))
        else:
            p = x.path(j["config"]) if j.get("config") is not None else x.path()
        return None if p is None else to_canon(str(p))
    if m == "match":
        return x.match(j["search"])
    if m in ("eq", "lt", "hash_eq"):
        y = sid_from(j["other"])
        if m == "eq":
            return x == y
        if m == "lt":
            return x < y
        return hash(x) == hash(y)
    if m == "eq_str":
        return x == j["str"]
    raise ProtocolError("unknown sid method " + m)


def _roots():
    out = {}
    for name in conf.path_configs.keys():
        pc = get_path_config(name)
        root = getattr(pc, "project_server_root_path", None) if name != "local" else None
        out[name] = str(root or pc.project_root_path)
    return out


def _enc(name):
    if name == "uri":
        return lambda x: x.uri
    if name == "none":
        return lambda x: None
    return str


def _jtext(v):
    return json.dumps(v, sort_keys=True, ensure_ascii=False)


_REUSED = {}


def _inst(cls, *args, reuse=False):
    """a Finder / Getter: a fresh instance per call, or (reuse) ONE instance kept for the whole session, as a
    long-lived tool would hold it: what it answers must still follow the data"""
    if not reuse:
        return cls(*args)
    key = (cls.__name__,) + tuple(args)
    if key not in _REUSED:
        _REUSED[key] = cls(*args)
    return _REUSED[key]


def world_op(j):
    import shutil
    from pathlib import Path
    from spil import WriteToPaths, GetFromPaths, FindInPaths, FindInAll, GetFromAll
    do = j["do"]
    config = j.get("config")
    reuse = bool(j.get("reuse"))
    if do == "new":
        for r in _roots().values():
            if os.path.islink(r):
                os.unlink(r)
            shutil.rmtree(r, ignore_errors=True)
            shutil.rmtree(str(r) + "_volume", ignore_errors=True)
        return True
    if do == "dump":
        nodes, sides = [], []
        suffix = conf.path_data_suffix
        for r in sorted(set(_roots().values())):
            if not os.path.exists(r):
                continue
            for base, dirs, files in os.walk(r, followlinks=True):
                nodes.append([to_canon(base.replace(os.sep, "/")), "dir"])
                for f in files:
                    full = os.path.join(base, f).replace(os.sep, "/")
                    if f.startswith(".") and f.endswith(suffix):
                        try:
                            with open(full) as fh:
                                dd = json.load(fh)
                            sides.append([to_canon(full), sorted([k, _jtext(v)] for k, v in dd.items())])
                        except Exception:
                            sides.append([to_canon(full), "corrupt"])
                    elif f.startswith(".") and f.endswith(".tmp"):
                        continue
                    else:
                        nodes.append([to_canon(full), "file"])
                for dn in list(dirs):
                    if dn.startswith(".") and dn.endswith(suffix):   # a planted directory in place of a sidecar
                        sides.append([to_canon(os.path.join(base, dn).replace(os.sep, "/")), "corrupt"])
                        dirs.remove(dn)
        return {"nodes": sorted(nodes), "sidecars": sorted(sides, key=lambda x: x[0])}
    if do in ("create", "update"):
        data = None if j.get("data") is None else {k: json.loads(v) for k, v in j["data"]}
        w = WriteToPaths(config)
        if do == "create":
            return bool(w.create(j["sid"], data))
        if j.get("via") in ("set_kw", "set_attr") and data and set(data) & {"sid", "attribute", "value", "self"}:
            return bool(w.update(j["sid"], data))      # such names cannot be spelled as keywords of set()
        if j.get("via") == "set_kw" and data:
            return bool(w.set(j["sid"], **data))
        if j.get("via") == "set_attr" and data:      # an explicit attribute AND keywords in one call
            # the LAST pair as the explicit attribute: set() appends it after the keywords, so the order of a
            # first write is the order of the pairs
            (k0, v0), rest = list(data.items())[-1], dict(list(data.items())[:-1])
            return bool(w.set(j["sid"], k0, v0, **rest))
        return bool(w.update(j["sid"], data or {}))
    if do == "plant":
        p = Path(to_real(j["path"]))
        if j["kind"] == "file":
            p.parent.mkdir(parents=True, exist_ok=True)
            p.touch()
        elif j["kind"] == "dir":
            p.mkdir(parents=True, exist_ok=True)
        elif j["kind"] == "dangling":       # a link whose target does not exist
            p.parent.mkdir(parents=True, exist_ok=True)
            os.symlink(os.path.join(os.path.dirname(str(p)), ".no_such_target_" + p.name), str(p))
        elif j["kind"] == "linkfile":       # a link to an existing file elsewhere
            p.parent.mkdir(parents=True, exist_ok=True)
            vol = Path(str(list(_roots().values())[0]) + "_volume")
            vol.mkdir(parents=True, exist_ok=True)
            tgt = vol / ("f%d_" % len(list(vol.iterdir())) + p.name)
            tgt.touch()
            os.symlink(str(tgt), str(p))
        elif j["kind"] == "linkdir":        # a link to an existing directory of the tree
            if p.exists() or p.is_symlink():
                raise OSError("exists")
            p.parent.mkdir(parents=True, exist_ok=True)
            os.symlink(to_real(j["target"]), str(p), target_is_directory=True)
        elif j["kind"] == "relocate":       # the directory lives on another volume, a link stands in its place
            if p.is_dir() and not p.is_symlink():
                vol = Path(str(list(_roots().values())[0]) + "_volume")
                vol.mkdir(parents=True, exist_ok=True)
                tgt = vol / ("d%d_" % len(list(vol.iterdir())) + p.name)
                shutil.move(str(p), str(tgt))
                os.symlink(str(tgt), str(p), target_is_directory=True)
        else:
            p.parent.mkdir(parents=True, exist_ok=True)
            how = j.get("how", "garbage")
            if p.is_dir():
                shutil.rmtree(p)
            if how == "dir":
                if p.exists():
                    p.unlink()
                p.mkdir()
            elif how == "empty":
                p.write_text("")
            elif how == "truncate" and p.exists():
                t = p.read_text()
                p.write_text(t[:max(0, j.get("at", len(t) // 2))])
            else:
                p.write_text("{ this is not json")
        return True
    if do == "get_data" or do == "get_data_all":
        g = _inst(GetFromPaths, config, reuse=reuse) if do == "get_data" else _inst(GetFromAll, reuse=reuse)
        if j.get("via") == "sid_get_attr":      # the same values read one by one through Sid.get_attr
            x0 = Sid(j["sid"])
            r = {a: x0.get_attr(a) for a in j["attributes"]}
        elif j.get("via") == "getter_get_attr":  # ... or through get_attr of the (long-lived) Getter
            r = {a: g.get_attr(j["sid"], a) for a in j["attributes"]}
        else:
            r = g.get_data(j["sid"], attributes=j.get("attributes") or None, sid_encode=_enc(j.get("enc", "str")))
        out = []
        for k, v in r.items():
            if k == "sid" and j.get("enc", "str") != "none" and isinstance(v, str):
                out.append([k, v])
            else:
                out.append([k, None if (v is None and j.get("attributes")) else _jtext(v)])
        return out
    if do == "getter_paths" or do == "getter_all":
        g = _inst(GetFromPaths, config, reuse=reuse) if do == "getter_paths" else _inst(GetFromAll, reuse=reuse)
        recs = []
        enc = j.get("enc", "str")
        for r in g.get(j["s"], attributes=j.get("attributes") or None, sid_encode=_enc(enc)):
            out = []
            for k, v in r.items():
                if k == "sid" and enc != "none" and isinstance(v, str):
                    out.append([k, v])
                else:
                    out.append([k, None if (v is None and j.get("attributes")) else _jtext(v)])
            recs.append(out)
        return recs
    if do in ("find_paths", "find_all") and j.get("via") in ("exists", "find_one"):
        # the same Finder (possibly the long-lived one) asked through exists() / find_one(): C12 says they are
        # "find yields something" / "the first element of find"; the answer compared with the model is find's
        f = _inst(FindInPaths, config, reuse=reuse) if do == "find_paths" else _inst(FindInAll, j.get("all_config"), reuse=reuse)
        found = list(f.find(j["s"], as_sid=False))
        if j["via"] == "exists":
            e = f.exists(j["s"])
            if bool(e) != bool(found):
                return ["<exists() = %r but find() yields %r>" % (e, found)]
        else:
            one = f.find_one(j["s"], as_sid=False)
            if one != (found[0] if found else None):
                return ["<find_one() = %r but find() yields %r>" % (one, found)]
        return sorted(found)
    if do == "find_paths":
        return sorted(_inst(FindInPaths, config, reuse=reuse).find(j["s"], as_sid=False))
    if do == "find_all":
        # "all_config": the name handed to get_finder_for (it selects a SET of Finders; the shipped data
        # configuration builds the same set for every name)
        return sorted(_inst(FindInAll, j.get("all_config"), reuse=reuse).find(j["s"], as_sid=False))
    x = Sid(j["sid"])
    if do == "sid_exists":
        return bool(x.exists())
    if do == "children":
        return sorted(str(y) for y in x.children())
    if do == "siblings":
        return sorted(str(y) for y in x.siblings())
    if do == "get_last":
        return jsid(x.get_last(j.get("key")))
    if do == "get_next":
        return jsid(x.get_next("version"))
    if do == "get_new":
        return jsid(x.get_new("version"))
    raise ProtocolError("unknown world op " + do)


def step(j):
    op = j["op"]
    if op == "world":
        return world_op(j)
    if op == "resolve_first":
        label, data = resolver_of(j["r"]).resolve_first(to_real(j["s"]))
        return None if not label else [label, jdict(data)]
    if op == "resolve_one":
        data = resolver_of(j["r"]).resolve_one(to_real(j["s"]), j["label"])
        return jdict(data) if data else None
    if op == "resolve_all":
        return [[k, jdict(v)] for k, v in resolver_of(j["r"]).resolve_all(to_real(j["s"])).items()]
    if op == "format_one":
        return to_canon(resolver_of(j["r"]).format_one(dict(j["data"]), j["label"]))
    if op == "format_first":
        label, s = resolver_of(j["r"]).format_first(dict(j["data"]))
        return None if not label else [label, to_canon(s)]
    if op == "format_all":
        return [[k, to_canon(v)] for k, v in resolver_of(j["r"]).format_all(dict(j["data"])).items()]
    if op == "sid":
        return jsid(sid_from(j))
    if op == "sid_call":
        return sid_call(j)
    if op == "path_to_dict":
        from spil.sid.pathops import fs_resolver
        if j.get("kw") == "all":
            t, data = fs_resolver.path_to_dict(path=to_real(j["path"]), _type=j.get("type"), config=j.get("config"))
        elif j.get("kw") == "none":
            t, data = fs_resolver.path_to_dict(to_real(j["path"]), j.get("type"), j.get("config"))
        elif j.get("kw") == "cfgonly":
            t, data = fs_resolver.path_to_dict(to_real(j["path"]), config=j.get("config"))
        elif j.get("kw") == "typeonly":
            t, data = fs_resolver.path_to_dict(to_real(j["path"]), j.get("type"))
        else:
            t, data = fs_resolver.path_to_dict(to_real(j["path"]), j.get("type"), config=j.get("config"))
        return None if not t else [t, jdict(data)]
    if op == "sid_to_dict":
        if j.get("kw"):
            t, data = sid_resolver.sid_to_dict(j["s"], _type=j.get("type"))
        elif j.get("type") is not None:
            t, data = sid_resolver.sid_to_dict(j["s"], j.get("type"))
        else:
            t, data = sid_resolver.sid_to_dict(j["s"])
        return None if not t else [t, jdict(data)]
    if op == "find_partial":
        f = FindInList(list(j["l"]))
        g = f.find(j["s"], as_sid=False)
        first = next(g, None)
        return first
    if op == "to_dict":
        return jdict(query_helper.to_dict(j["q"]))
    if op == "to_string":
        return query_helper.to_string(dict(j["d"]))
    if op == "update":
        return jdict(query_helper.update(dict(j["d"]), j["q"]))
    if op == "apply_query":
        s, t, f = query_helper.apply_query(j["string"], query=j["q"], type=j["type"] or None,
                                           fields=dict(j["fields"]) or None)
        return {"string": s or "", "type": t or "", "fields": jdict(f or {})}
    if op == "handle_extension":
        return u_ext.handle_extension(j["s"])
    if op == "extensions":
        return u_ext.extensions(j["s"])
    if op == "or_on_path":
        return u_or.or_on_path(j["s"])
    if op == "or_on_query":
        return u_or.or_on_query(j["q"])
    if op == "or_op":
        return u_or.or_op(j["s"])
    if op == "expand":
        return [jsid(x) for x in core_utils.expand(j["s"], do_extrapolate=bool(j.get("x")))]
    if op == "simple_typing":
        return [jsid(x) for x in core_utils.simple_typing(j["s"])]
    if op == "type_narrow":
        return jsid(u_narrow.type_narrow(sid_from(j["from"])))
    if op == "extrapolate":
        return list(core_utils.extrapolate(j["l"]))
    if op == "unfold_search":
        kw = {}
        if j.get("u") is not None:
            kw["do_uniquify"] = bool(j["u"])
        if j.get("x") is not None:
            kw["do_extrapolate"] = bool(j["x"])
        if j.get("positional") == "first":
            res = tools.unfold_search(j["s"], bool(j.get("u")))
        elif j.get("positional"):
            res = tools.unfold_search(j["s"], bool(j.get("u")), bool(j.get("x")))
        else:
            res = tools.unfold_search(j["s"], **kw)
        return [jsid(x) for x in res]
    if op == "make_key":
        from spil.util import caching
        key = caching._make_key(tuple(j["args"]), dict(j["kwargs"]))
        out = []
        after_mark = False
        for part in key:
            if isinstance(part, str) and not after_mark:
                out.append(["v", part])
            elif isinstance(part, str):
                out.append(["n", part])
            elif isinstance(part, tuple) and len(part) == 2:
                out.append(["i", part[0], part[1]])
            else:
                out.append(["mark"])
                after_mark = True
        return out
    if op == "cache_history":
        from spil.util import caching
        log = []

        def fn(*args, **kwargs):
            log.append(1)
            if args and args[0] == "":
                return ""
            return ",".join(args) + "|" + ",".join("%s=%s" % kv for kv in sorted(kwargs.items()))
        old = caching._max_size
        caching._max_size = int(j["max"])
        try:
            wrapped = (caching.hit_cache if j.get("hit_cache") else
                       (caching.lru_kw_cache if j.get("lru_kw") else caching.lru_cache))(fn)
            out = []
            for c in j["calls"]:
                n = len(log)
                r = wrapped(*c["args"], **dict(c["kwargs"]))
                out.append([len(log) == n, r])
        finally:
            caching._max_size = old
        return out
    if op == "glob_match":
        import re
        return bool(re.match(find_list.glob2re(j["pat"]), j["item"]))
    if op == "find_list":
        def _mk():
            return FindInList(list(j["l"]), do_extrapolate=bool(j.get("x")), do_pre_sort=bool(j.get("ps")),
                              do_strip=bool(j.get("st")))
        if j.get("reuse"):      # one instance for every search tagged alike on the same list
            key = ("FindInList", j["reuse"], tuple(j["l"]), bool(j.get("x")), bool(j.get("ps")), bool(j.get("st")))
            if key not in _REUSED:
                _REUSED[key] = _mk()
            f = _REUSED[key]
        else:
            f = _mk()
        m = j["m"]
        if m == "find":
            return list(f.find(j["s"], as_sid=False))
        if m == "find_sid":
            return [jsid(x) for x in f.find(j["s"], as_sid=True)]
        if m == "find_one":
            return f.find_one(j["s"], as_sid=False)
        if m == "exists":
            return f.exists(j["s"])
    if op == "oracle":
        import oracles
        return oracles.ORACLES[j["prop"]](j["input"])
    if op == "extrapolate_templates":
        old = conf_util.sidtype_keytype_sep
        conf_util.sidtype_keytype_sep = j["sep"]
        try:
            return jdict(conf_util.extrapolate_templates(dict(j["templates"]), list(j["to_extrapolate"])))
        finally:
            conf_util.sidtype_keytype_sep = old
    if op == "pattern_replacing":
        t = dict(j["templates"])
        conf_util.pattern_replacing(t, {k: dict(v) for k, v in j["key_patterns"]})
        return jdict(t)
    raise ProtocolError("unknown op " + op)


class ProtocolError(Exception):
    """an operation this server does not know (a RuntimeError of the implementation is an ANSWER)"""


def main():
    out = _real_stdout
    for line in sys.stdin:
        line = line.strip()
        if not line:
            continue
        j = json.loads(line)
        try:
            r = {"ok": step(j)}
        except ProtocolError as e:      # the harness' own mistake (unknown operation): not an answer
            r = {"bad": str(e)}
        except RecursionError as e:
            r = {"err": "recursion", "msg": "RecursionError"}
        except BaseException as e:  # noqa
            r = {"err": err_name(e), "msg": "%s: %s" % (type(e).__name__, str(e)[:200])}
        out.write(json.dumps(r, ensure_ascii=False) + "\n")
    out.flush()


if __name__ == "__main__":
    main()
