"""Oracles that need more than one interpreter: C13 (answers never depend on what was asked before).

A random history of read-only calls is run in ONE interpreter (default and tiny cache capacity,
several PYTHONHASHSEED values) and every answer is compared with the answer the same single call
gets in a FRESH interpreter.
"""
import json, random, concurrent.futures as cf
import core, gen, families


def _alphabet(v, d, model):
    same_uri = []
    rng = v.rng
    configs = sorted(v.paths.keys())
    ops = []
    sids = families.concrete_path_sids(v, 6)
    ask = [{"op": "sid_call", "from": {"s": s}, "m": "path", "config": c} for _, s, _ in sids for c in configs]
    paths = [a.get("ok") for a in model(ask)]
    k = 0
    for label, s, fields in sids:
        ops.append({"op": "sid", "s": s})
        ops.append({"op": "sid", "s": label + ":" + s})
        ops.append({"op": "sid", "fields": [list(p) for p in fields]})
        ops.append({"op": "sid_to_dict", "s": s})
        # same string, other forced types, positional and keyword
        for t in rng.sample(v.labels, 2) + [label]:
            ops.append({"op": "sid_to_dict", "s": s, "type": t})
            ops.append({"op": "sid_to_dict", "s": s, "type": t, "kw": True})
        for c in configs:
            p = paths[k]; k += 1
            ops.append({"op": "sid_call", "from": {"s": s}, "m": "path", "config": c})
            ops.append({"op": "sid_call", "from": {"s": s}, "m": "path", "config": c, "kw": True})
            if k % 3 == 1:      # an undefined Sid with the uri of the typed one, and the typed one by its uri
                ops.append({"op": "sid_call", "from": {"s": "nosuchtype:" + label + ":" + s}, "m": "path", "config": c})
                ops.append({"op": "sid_call", "from": {"s": label + ":" + s}, "m": "path", "config": c})
                same_uri.append([[ops[-2]], [ops[-1], ops[-4]]])      # asked in this order in the histories
            if p:
                for c2 in configs:
                    ops.append({"op": "sid", "path": p, "config": c2})
                    ops.append({"op": "path_to_dict", "path": p, "config": c2})
                    ops.append({"op": "path_to_dict", "path": p, "config": c2, "kw": "all"})
                    ops.append({"op": "path_to_dict", "path": p, "config": c2, "kw": "none"})
                # one argument only, spelled by keyword or by position: a key built from VALUES alone would
                # confuse path_to_dict(p, config='local') with path_to_dict(p, 'local') (= _type)
                ops.append({"op": "path_to_dict", "path": p, "config": c, "kw": "cfgonly"})
                ops.append({"op": "path_to_dict", "path": p, "type": c, "kw": "typeonly"})
                ops.append({"op": "path_to_dict", "path": p, "type": label, "kw": "typeonly"})
                ops.append({"op": "path_to_dict", "path": p, "type": label, "config": c})
                ops.append({"op": "path_to_dict", "path": p, "type": rng.choice(v.labels), "config": c})
        ops.append({"op": "sid_call", "from": {"s": s}, "m": "path"})
    # Sid OBJECTS handed to the cached entry points (as Finders / Getters do), next to their plain strings
    obj_groups = []
    for _ in range(6):
        label, s, fields = v.typed_sid(search=0.6)
        others = [l for l in v.labels if len(v.tdict[l]) == len(fields)]
        forced = rng.choice(others + [label])
        grp = [{"op": "sid", "obj": {"s": forced + ":" + s}}, {"op": "sid", "obj": {"s": s}}, {"op": "sid", "s": s},
               {"op": "sid_call", "from": {"obj": {"s": forced + ":" + s}}, "m": "uri"}]
        ops += grp
        # the object of a forced type first, then the plain string (and the reverse): placed next to each
        # other in the histories, not left to chance
        obj_groups.append([[grp[0]], [grp[2]], [grp[1]]])
        obj_groups.append([[grp[2]], [grp[0]], [grp[3]]])
    sg = gen.SearchGen(v)
    L, leaves = gen.universe(v)
    for it in range(6):
        srch = sg.search(base=rng.choice(leaves), allow_gt=rng.random() < 0.4, malformed=0.0)
        if it < 2:      # '**' below a prefix: the search on which both flags change the answer
            lab, flds = rng.choice(leaves)
            segs = [val for _, val in flds]
            srch = "/".join(segs[:rng.randint(2, max(2, len(segs) - 2))]) + "/**"
        for u in (False, True):
            for x in (False, True):
                ops.append({"op": "unfold_search", "s": srch, "u": u, "x": x})
                ops.append({"op": "unfold_search", "s": srch, "u": u, "x": x, "positional": True})
        ops.append({"op": "unfold_search", "s": srch})
        # a single flag, by keyword or by position (the same VALUE in another parameter's slot)
        ops.append({"op": "unfold_search", "s": srch, "u": True})
        ops.append({"op": "unfold_search", "s": srch, "x": True})
        ops.append({"op": "unfold_search", "s": srch, "u": True, "positional": "first"})
        ops.append({"op": "unfold_search", "s": srch, "u": False, "x": True})
        ops.append({"op": "simple_typing", "s": srch.split("?")[0]}) if "**" not in srch and "," not in srch else None
        ops.append({"op": "find_list", "l": L, "s": srch, "m": "find"})
        ops.append({"op": "find_partial", "l": L, "s": srch})
        ops.append({"op": "sid_call", "from": {"s": L[0]}, "m": "match", "search": srch})
    # an or-search / alias search followed by each of its alternatives alone (results of the unfolders
    # are lists held by caches: extending one in place pollutes the answer for the first alternative)
    related = []
    for _ in range(4):
        label, fields = rng.choice(leaves)
        segs = [val for _, val in fields]
        i = rng.randrange(1, len(segs))
        key = fields[i][0]
        pool = [w for w in (v.closed.get(key) or gen.NAMES) if w != segs[i] and w not in v.aliases]
        alts = [segs[i]] + rng.sample(pool, min(len(pool), rng.randint(1, 2)))
        rng.shuffle(alts)
        for j in range(i + 1, len(segs)):
            if rng.random() < 0.4:
                segs[j] = "*"
        variants = [",".join(alts)] + alts
        if v.aliases and i == len(segs) - 1:
            al = rng.choice(sorted(v.aliases.keys()))
            variants = [al] + list(v.aliases[al])
        group = []
        for val in variants:
            srch = "/".join(segs[:i] + [val] + segs[i + 1:])
            group.append([{"op": "unfold_search", "s": srch},
                          {"op": "unfold_search", "s": srch, "u": True, "x": True},
                          {"op": "find_list", "l": L, "s": srch, "m": "find"},
                          {"op": "sid_call", "from": {"s": rng.choice(L)}, "m": "match", "search": srch}])
        for g in group:
            ops += g
        related.append(group)
    # '>' with open levels after it, over entries that TIE on the '>' level (same version, other state /
    # extension): which of them is the last must not depend on set iteration order (hash seed)
    for _ in range(3):
        lab, flds = rng.choice(leaves)
        segs = [val for _, val in flds]
        if len(segs) < 4:
            continue
        i = rng.randrange(2, len(segs) - 1)
        ties = []
        for _ in range(5):
            t = list(segs)
            for j in range(i + 1, len(segs)):
                pool = [w for w in (v.closed.get(flds[j][0]) or gen.NAMES) if w not in v.aliases]
                t[j] = rng.choice(pool)
            ties.append("/".join(t))
        Lt = sorted(set(ties)) + ["/".join(segs)]
        rng.shuffle(Lt)
        srch = "/".join(segs[:i] + [">"] + ["*"] * (len(segs) - i - 1))
        ops.append({"op": "find_list", "l": Lt, "s": srch, "m": "find"})
        ops.append({"op": "find_list", "l": Lt, "s": srch, "m": "find_one"})
    # one '**' search (both flags change its answer) under every single-flag spelling, next to each other
    for _ in range(2):
        lab, flds = rng.choice(leaves)
        segs = [val for _, val in flds]
        srch = "/".join(segs[:rng.randint(2, max(2, len(segs) - 2))]) + "/**"
        spellings = [{"op": "unfold_search", "s": srch, "u": True}, {"op": "unfold_search", "s": srch, "x": True},
                     {"op": "unfold_search", "s": srch, "u": True, "positional": "first"},
                     {"op": "unfold_search", "s": srch, "u": False, "x": True},
                     {"op": "unfold_search", "s": srch, "u": True, "x": False, "positional": True},
                     {"op": "unfold_search", "s": srch}]
        rng.shuffle(spellings)
        ops += spellings
        related.append([[sp] for sp in spellings[:4]])
    v.c13_related = related + obj_groups + same_uri
    return [o for o in ops if o]


def _fresh_answers(ops, workers=12):
    uniq = {}
    for o in ops:
        uniq.setdefault(core.digest(o), o)
    items = list(uniq.items())

    def one(item):
        dg, o = item
        return dg, core.run_impl([o])[0]
    with cf.ThreadPoolExecutor(max_workers=workers) as ex:
        return dict(ex.map(one, items))


def _norm(r):
    r = dict(r)
    r.pop("msg", None)
    if isinstance(r.get("ok"), list) and r["ok"] and isinstance(r["ok"][0], dict):
        pass
    return r


def _run_history(hist, maxsize, hashseed):
    extra = {"SPIL_VERIF_MAXSIZE": str(maxsize)} if maxsize else {}
    return core.run_impl(hist, hashseed=hashseed, extra_env=extra)


def _check(hist, fresh, maxsize, hashseed):
    res = _run_history(hist, maxsize, hashseed)
    for k, (o, r) in enumerate(zip(hist, res)):
        want = fresh[core.digest(o)]
        if o.get("op") in core.UNORDERED_OPS:
            a = core.canon_value(o, _norm(r).get("ok"))
            b = core.canon_value(o, _norm(want).get("ok"))
            same = (a == b) and (r.get("err") == want.get("err"))
        else:
            same = _norm(r) == _norm(want)
        if not same:
            return k, r, want
    return None


def oracle_C13(run, n):
    d = run.d
    fails = []
    stats = {"histories": 0, "calls": 0, "fresh_calls": 0}
    for h in range(n):
        rng = random.Random("%s/C13/%d" % (run.seed, h))
        v = gen.Vocab(d, rng)
        alpha = _alphabet(v, d, lambda ops: core.run_model(d, ops))
        kind = rng.random()
        if kind < 0.3:       # ordered pairs
            hist = []
            for _ in range(12):
                a, b = rng.choice(alpha), rng.choice(alpha)
                hist += [a, b]
        else:
            hist = [rng.choice(alpha) for _ in range(rng.randint(10, 50))]
        for group in getattr(v, "c13_related", []):    # the or-search first, then its alternatives alone
            if rng.random() < 0.6:
                at = rng.randrange(len(hist) + 1)
                ins = [rng.choice(group[0])] + [rng.choice(g) for g in group[1:]]
                hist[at:at] = ins
        fresh = _fresh_answers(hist)
        stats["histories"] += 1
        stats["calls"] += len(hist)
        stats["fresh_calls"] += len(fresh)
        combos = [(0, "0"), (2, "1"), (3, str(rng.randrange(1000)))]
        if run.tier == "thorough":
            combos += [(8, str(s)) for s in range(2, 7)] + [(0, "random")]
        for maxsize, hs in combos:
            bad = _check(hist, fresh, maxsize, hs)
            run.cov["evaluations"] += len(hist)
            if bad:
                k, got, want = bad
                # shrink to an ordered pair if possible
                small = hist[:k + 1]
                for j in range(k):
                    pair = [hist[j], hist[k]]
                    if _check(pair, fresh, maxsize, hs):
                        small = pair
                        break
                fails.append(("C13", {"history": small, "maxsize": maxsize, "hashseed": hs},
                              ["call %s answered %s after this history, %s in a fresh interpreter" % (
                                  json.dumps(hist[k], ensure_ascii=False), json.dumps(_norm(got), ensure_ascii=False)[:500],
                                  json.dumps(_norm(want), ensure_ascii=False)[:500])]))
                break
            run.nontrivial.add(core.digest([hist, maxsize, hs]))
    run.cov["oracles"]["C13"] = stats
    run.cov["samples"].append({"oracle": "C13", "history_head": hist[:3], "capacities": [c[0] for c in combos]})
    return fails


def replay_C13(d, inp):
    hist = inp["history"]
    fresh = _fresh_answers(hist)
    bad = _check(hist, fresh, inp.get("maxsize", 0), inp.get("hashseed", "0"))
    if bad:
        k, got, want = bad
        return ["call %d: %s vs fresh %s" % (k, json.dumps(_norm(got))[:400], json.dumps(_norm(want))[:400])]
    return []


SPECIAL = {"C13": oracle_C13}
REPLAY = {"C13": replay_C13}


# ------------------------------------------------------------------------------------------ C20

import os, collections
import stage as _stage, gen_conf, gen_lean, oracle_inputs

C20_FAMILIES = [("sid_strings", 600), ("sid_forms", 120), ("query", 400), ("paths", 80), ("unfold", 400), ("listfind", 300)]
C20_ORACLES = [("C01", 500), ("C02", 300), ("C03", 300), ("C04", 300), ("C05", 200), ("C06", 200), ("C07", 300), ("C08", 60), ("C11", 6), ("C14", 150)]


def _alt_conf(seed, idx, unmodelled=False):
    rng = random.Random("C20/%s/%d" % (seed, idx))
    spec = gen_conf.make_spec(rng, idx, unmodelled=unmodelled)
    d = gen_conf.write_package(spec, os.path.join(_stage.scratch_base(), "altconf_%s_%d%s" % (seed, idx, "u" if unmodelled else "")))
    st = _stage.stage(conf_src=d, tag="alt")
    if unmodelled:
        st["env"] = dict(st["env"], SPIL_VERIF_ALLOW_UNMODELLED="1")
    c, err = core.extract(st)
    return spec, st, c, err


def _gen_ops(fam, v, n, d):
    import inspect
    f = families.FAMILIES[fam]
    if len(inspect.signature(f).parameters) == 3:
        return f(v, n, lambda ops: core.run_model(d, ops))
    return f(v, n)


def _gen_oracle_ops(name, v, n, d):
    import inspect
    g = oracle_inputs.GENERATORS[name]
    if len(inspect.signature(g).parameters) == 3:
        return g(v, n, lambda ops: core.run_model(d, ops))
    return g(v, n)


def _c05_examples(confs, seed):
    """one leaf Sid per generated configuration (the longest types first) for which the DRIVER says that every
    hypothesis of C05 holds (Spec.admissibleB) and that the model renders the given path: the kernel then re-checks
    it and applies C05.c05_roundtrip_B — the theorem instantiated on the generated configuration"""
    out = {}
    for i, c in enumerate(confs):
        rng = random.Random("C20/%s/%d/c05ex" % (seed, i))
        v = gen.Vocab(c, rng)
        cfg = c["conf"]["default_path"] or c["conf"]["paths"][0]["name"]
        cands = sorted(families.concrete_path_sids(v, 30), key=lambda x: -len(x[2]))[:12]
        ask = [{"op": "sid_call", "from": {"s": s}, "m": "path", "config": cfg} for _, s, _ in cands]
        paths = [a.get("ok") for a in core.run_model(c, ask)]
        chk = [{"op": "c05_admissible", "from": {"s": s}, "config": cfg, "path": p or ""} for (_, s, _), p in zip(cands, paths)]
        oks = [a.get("ok") for a in core.run_model(c, chk)]
        typed = core.run_model(c, [{"op": "sid", "s": s} for _, s, _ in cands])
        for (label, s, fields), p, ok, ty in zip(cands, paths, oks, typed):
            t_ok = ty.get("ok") or {}
            if ok is True and p and t_ok.get("type") == label:
                out[i] = {"config": cfg, "s": s, "type": label, "fields": [list(f) for f in fields], "path": p}
                break
    return out


def _alt_lean(confs, path_ok=None, examples=None):
    """render the generated configurations as Lean and state their well-formedness obligations"""
    gen_dir = os.path.join(core.LEAN, "Spil", "Generated")
    names = []
    for i, c in enumerate(confs):
        name = "alt%d" % i
        text = gen_lean.render(c, name=name)
        path = os.path.join(gen_dir, "Alt%d.lean" % i)
        if not os.path.exists(path) or open(path).read() != text:
            open(path, "w").write(text)
        names.append(name)
    lines = ["/- GENERATED on every C20 run: kernel-checked conventions of the generated configurations -/"]
    lines += ["import Spil.Generated.Alt%d" % i for i in range(len(confs))]
    lines += ["import Spil.Spec.Sid", "import Spil.Spec.PathWF", "import Spil.Props.Tie", "import Spil.Props.C05c", "open Generated", "namespace AltWF"]
    for i, (n, c) in enumerate(zip(names, confs)):
        lines.append("theorem %s_wf : Spec.sidHierOk %sEnv %sConf.sid.templates = true := by decide +kernel" % (n, n, n))
        lines.append("theorem %s_compile : Tie.compiled %sSidTemplates = %sSidRegexes := by decide +kernel" % (n, n, n))
        lines.append("theorem %s_extrapolate : ConfUtil.patternReplacing (ConfUtil.extrapolateTemplates %sSidConf.sep %sRawTemplates %sToExtrapolate) %sRawKeyPatterns = %sEffectiveTemplates := by decide +kernel" % (n, n, n, n, n, n))
        for pc in c["conf"]["paths"]:
            pn = "%sPath_%s" % (n, pc["name"])
            lines.append("theorem %s_compile : Tie.compiled %sTemplates = %sRegexes := by decide +kernel" % (pn, pn, pn))
            # the conventions C05 / C06 are proved under, for the generated path configurations that follow them
            # (the driver says which do; the kernel re-checks it): the theorems then speak about this configuration
            ok = (path_ok or {}).get((i, pc["name"]))
            if ok and ok[0]:
                lines.append("theorem %s_wf : Spec.pathConfOk %sEnv %s = true := by decide +kernel" % (pn, n, pn))
            if ok and ok[2]:      # the template half: what c05_roundtrip / c05_injective ask (with _exclusive)
                lines.append("theorem %s_tpls : Spec.pathTplsOk %sEnv %s = true := by decide +kernel" % (pn, n, pn))
            if ok and ok[1]:
                lines.append("theorem %s_exclusive : Spec.pathsExclusive %sEnv %sConf.sid.searchSymbols %s = true := by decide +kernel" % (pn, n, n, pn))
        ex = (examples or {}).get(i)
        okp = (path_ok or {}).get((i, ex["config"])) if ex else None
        if ex and okp and okp[1] and okp[2]:
            pn = "%sPath_%s" % (n, ex["config"])
            L = gen_lean
            lines.append("/-- a leaf Sid of the generated configuration and its path (chosen by the driver: Spec.admissibleB holds) -/")
            lines.append("def %s_x : Sid := ⟨%s, %s, %s⟩" % (n, L.lstr(ex["s"]), L.lstr(ex["type"]), L.ldict(ex["fields"])))
            lines.append("def %s_p : Str := %s" % (n, L.lstr(ex["path"])))
            lines.append("theorem %s_c05_example : (Ctx.mk %sConf %sEnv).sidOfPath %s_p (some %s) = .ok %s_x :=" % (n, n, n, n, L.lstr(ex["config"]), n))
            lines.append("  C05.c05_roundtrip_B (Ctx.mk %sConf %sEnv) (some %s) %s (by decide +kernel) %s_tpls %s_exclusive %s_x %s_p (by decide +kernel) (by decide +kernel)"
                         % (n, n, L.lstr(ex["config"]), pn, pn, pn, n, n))
    lines.append("end AltWF")
    path = os.path.join(gen_dir, "AltWF.lean")
    text = "\n".join(lines) + "\n"
    if not os.path.exists(path) or open(path).read() != text:
        open(path, "w").write(text)
    return [l.split()[1] for l in lines if l.startswith("theorem ")]


def oracle_C20(run, n, fams=None, oracles=None, tag="C20", kernel=True):
    fams = C20_FAMILIES if fams is None else fams
    oracles = C20_ORACLES if oracles is None else oracles
    fails = []
    stats = collections.Counter()
    confs, envs, specs = [], [], []
    for idx in range(n):
        spec, st, c, err = _alt_conf(run.seed, idx)
        if c is None:
            stats["outside_translated_subset"] += 1
            run.notes.append("generated configuration %d is outside the translated subset: %s" % (idx, (err or "")[-300:]))
            continue
        # the loaded table is what the statement of C19 makes of the package: one type per level, named
        # basetype + separator + level key (the generator knows the levels it wrote), each with a path
        P, T, E, V, S = spec["project_key"], spec["type_key"], spec["leaf_key"], spec["version_key"], spec["state_key"]
        labels = [l for l, _ in c["conf"]["sid"]["templates"]]
        path_labels = [l for l, _ in c["conf"]["paths"][0]["templates"]]
        missing = []
        for bt in spec["basetypes"]:
            for k in [l["key"] for l in bt["levels"]] + ([V] if bt.get("short") else [V, S]):
                name = "%s__%s" % (bt["name"], k)
                if name not in labels:
                    missing.append(name)
                elif k != S and name not in path_labels:
                    missing.append(name + " (no path template)")
        if missing:
            stats["spec_conformance_failures"] += 1
            fails.append(("C20", {"seed": run.seed, "alt": idx, "spec_levels": missing},
                          ["generated configuration %d (to_extrapolate=%r): the loaded sid templates %r lack a type for the levels %r" % (
                              idx, c["raw"]["to_extrapolate"], labels, missing)]))
            continue
        hier = core.run_model(c, [{"op": "spec_hier_ok"}])[0]
        if hier.get("ok") is not True:
            stats["not_conventional"] += 1
            run.notes.append("generated configuration %d does not satisfy sidHierOk (generator bug): skipped" % idx)
            continue
        e1, e2 = _c19_expected(c, [{"sep": c["conf"]["sid"]["sep"], "templates": c["raw"]["sid_templates"],
                                    "to_extrapolate": c["raw"]["to_extrapolate"], "key_patterns": c["raw"]["key_patterns"]}])[0]
        if e2 != [list(p) for p in c["raw"]["effective"]]:
            stats["loader_disagreements"] += 1
            fails.append(("C20", {"seed": run.seed, "alt": idx, "loader": True},
                          ["generated configuration %d: the loaded sid templates %r are not the model's extrapolation + rewriting %r of the package" % (
                              idx, c["raw"]["effective"], e2)]))
            continue
        confs.append(c); envs.append(st); specs.append(idx)
    # kernel obligations for the first two generated configurations (all of them in the thorough tier)
    k = len(confs) if run.tier == "thorough" else min(2, len(confs))
    path_ok = {}
    for i, c in enumerate(confs):
        a = core.run_model(c, [{"op": "spec_path_ok"}])[0].get("ok") or []
        for name_, wf, excl, tpls in a:
            path_ok[(i, name_)] = (wf, excl, tpls)
            stats["path_configurations"] += 1
            stats["c05_conventions_hold(pathTplsOk+pathsExclusive)"] += int(bool(tpls and excl))
            stats["c06_total_conventions_hold(pathConfOk)"] += int(bool(wf))
        if any(not wf for _, wf, excl, tpls in a):
            run.notes.append("generated configuration %d: path configurations %r do not follow Spec.pathConfOk (two disk words for one "
                             "sid value, or a default for a free template key): c06_total ('never raises') is not PROVED for them — "
                             "correspondence and oracles only; c06_owner needs no convention, and C05 needs the template half only"
                             % (specs[i], [n_ for n_, wf, excl, tpls in a if not wf]))
        if any(not (tpls and excl) for _, wf, excl, tpls in a):
            run.notes.append("generated configuration %d: path configurations %r do not follow pathTplsOk / pathsExclusive: C05 is not PROVED "
                             "for them" % (specs[i], [n_ for n_, wf, excl, tpls in a if not (tpls and excl)]))
    if kernel:
        examples = _c05_examples(confs[:k], run.seed)
        stats["c05_theorem_instances"] = len(examples)
        thms = _alt_lean(confs[:k], path_ok, examples)
        ok, out = core.lake_build(["Spil.Generated.AltWF"])
        run.cov["obligations"] = run.cov.get("obligations", 0) + len(thms)
        if ok:
            run.cov["discharged"] = run.cov.get("discharged", 0) + len(thms)
            stats["kernel_wf_obligations"] = len(thms)
        else:
            fails.append(("C20", {"alt": specs[:k], "obligation": "AltWF"}, ["kernel obligations of the generated configurations do not check: " + out[-800:]]))
    for idx, c, st in zip(specs, confs, envs):
        scale = 1.0 if run.tier == "quick" else 6.0
        for fam, nn in fams:
            rng = random.Random("C20/%s/%d/%s" % (run.seed, idx, fam))
            v = gen.Vocab(c, rng)
            ops = _gen_ops(fam, v, int(nn * scale), c)
            m = core.run_model(c, ops)
            i = core.run_impl(ops, st=st)
            for op, a, b in zip(ops, m, i):
                stats["ops"] += 1
                if a.get("oom"):
                    continue
                r = core.agree(op, a, b)
                if r:
                    stats["disagreements"] += 1
                    fails.append(("C20", {"seed": run.seed, "alt": idx, "family": fam, "op": op}, ["model and implementation disagree under generated configuration %d: %s" % (idx, r)]))
                    break
                run.nontrivial.add(core.digest([idx, op]))
            run.cov["evaluations"] += len(ops)
        for name, nn in oracles:
            rng = random.Random("C20/%s/%d/o/%s" % (run.seed, idx, name))
            v = gen.Vocab(c, rng)
            ops = [o for o in _gen_oracle_ops(name, v, int(nn * scale), c) if "hamlet" not in json.dumps(o["input"])]
            res = core.run_impl(ops, st=st)
            for op, r in zip(ops, res):
                stats["oracle_inputs"] += 1
                f = r.get("ok") if "ok" in r else ["oracle crashed: %s" % r.get("msg", r)]
                if isinstance(f, dict):
                    f = f["failures"]
                if f:
                    stats["oracle_failures"] += 1
                    fails.append(("C20", {"seed": run.seed, "alt": idx, "oracle": name, "input": op["input"]}, f))
                    break
                run.nontrivial.add(core.digest([idx, op["input"]]))
            run.cov["evaluations"] += len(ops)
        stats["configurations"] += 1
    run.cov["oracles"][tag] = dict(stats)
    if confs:
        run.cov["samples"].append({"generated_configuration": specs[0],
                                   "types": [l for l, _ in confs[0]["conf"]["sid"]["templates"]],
                                   "path_configs": [p["name"] for p in confs[0]["conf"]["paths"]]})
    return fails


def replay_C20(d, inp):
    """re-run the recorded operation / oracle input under the regenerated configuration"""
    seed = inp.get("seed", os.environ.get("VERIF_SEED", "1"))
    spec, st, c, err = _alt_conf(int(seed), int(inp["alt"]) if not isinstance(inp["alt"], list) else int(inp["alt"][0]),
                                 unmodelled=bool(inp.get("unmodelled")))
    if c is None:
        return ["configuration could not be regenerated: %s" % err]
    if "op" in inp:
        m = core.run_model(c, [inp["op"]])[0]
        i = core.run_impl([inp["op"]], st=st)[0]
        r = core.agree(inp["op"], m, i)
        return [r] if r else []
    if "spec_levels" in inp:
        labels = [l for l, _ in c["conf"]["sid"]["templates"]] + [l + " (path)" for l, _ in c["conf"]["paths"][0]["templates"]]
        return ["missing level types: %r" % [m for m in inp["spec_levels"] if m.split(" ")[0] not in labels]] \
            if any(m.split(" ")[0] not in labels for m in inp["spec_levels"]) else []
    if "loader" in inp:
        e1, e2 = _c19_expected(c, [{"sep": c["conf"]["sid"]["sep"], "templates": c["raw"]["sid_templates"],
                                    "to_extrapolate": c["raw"]["to_extrapolate"], "key_patterns": c["raw"]["key_patterns"]}])[0]
        return [] if e2 == [list(p) for p in c["raw"]["effective"]] else ["loaded %r vs model %r" % (c["raw"]["effective"], e2)]
    if "oracle" in inp:
        r = core.run_impl([{"op": "oracle", "prop": inp["oracle"], "input": inp["input"]}], st=st)[0]
        f = r.get("ok") if "ok" in r else [str(r)]
        return f["failures"] if isinstance(f, dict) else f
    return ["kernel obligations: rebuild Spil.Generated.AltWF"]


REPLAY["C20"] = replay_C20


SPECIAL["C20"] = oracle_C20


def oracle_ALTP(run, n):
    """the PATH properties under generated configurations (the first `n` of C20's: every optional feature of a
    path configuration switched on in the first one — value synonyms, partial mappings, path defaults,
    template-only keys, a third configuration with its own words — and off in the second): model against
    implementation on the paths family, and the C05 / C06 oracles.  Failures replay as C20's do."""
    fails = oracle_C20(run, n, fams=[("paths", 120)], oracles=[("C05", 250), ("C06", 300)], tag="ALTP", kernel=False)
    return fails + _unmodelled_paths(run)


def oracle_ALTV(run, n):
    """the VALUE properties of Sids (C14: nothing alters a Sid — asking for its path included) under the first `n`
    generated configuration packages: path defaults for a free Sid key, mappings, a third path configuration"""
    return oracle_C20(run, n, fams=[], oracles=[("C14", 300)], tag="ALTV", kernel=False)


SPECIAL["ALTV"] = oracle_ALTV
REPLAY["ALTV"] = lambda d, inp: replay_C20(d, inp)


def _unmodelled_paths(run, idx=0):
    """NO THEOREM: a generated configuration that uses the two path features the shipped ones leave empty — extra
    path keys computed from a sid key (sidkeys_to_extrakeys / extrakeys_to_sidkeys) and a value mapping for one type
    only (path_mapping[(key, type)]).  The whole-code path model (Spil.Model.PathX, proved equal to the model of the
    theorems wherever the features are unused) is run against the implementation on the paths family, and the C05 /
    C06 statements are evaluated on the real code by the property oracles."""
    fails = []
    stats = collections.Counter()
    spec, st, c, err = _alt_conf(run.seed, idx, unmodelled=True)
    if c is None:
        run.notes.append("configuration with unmodelled path features could not be read: %s" % (err or "")[-300:])
        return fails
    stats["unmodelled_features"] = len(c.get("unmodelled") or [])
    # path_to_dict / dict_to_path WITH these features are modelled (Spil.Model.PathX): model against implementation
    rng = random.Random("C20/%s/%d/u/paths" % (run.seed, idx))
    v = gen.Vocab(c, rng)
    ops = _gen_ops("paths", v, 150, c)
    m = core.run_model(c, ops)
    i = core.run_impl(ops, st=st)
    for op, a, b in zip(ops, m, i):
        stats["ops"] += 1
        if a.get("oom"):
            continue
        r = core.agree(op, a, b)
        if r:
            stats["disagreements"] += 1
            fails.append(("C20", {"seed": run.seed, "alt": idx, "unmodelled": True, "family": "paths", "op": op},
                          ["model (PathX) and implementation disagree under the configuration with extra keys / typed mapping: %s" % r]))
            break
        run.nontrivial.add(core.digest(["u", idx, op]))
    run.cov["evaluations"] += len(ops)
    for name, nn in [("C05", 250), ("C06", 300)]:
        rng = random.Random("C20/%s/%d/u/%s" % (run.seed, idx, name))
        v = gen.Vocab(c, rng)
        g = oracle_inputs.GENERATORS[name]
        import inspect
        if len(inspect.signature(g).parameters) == 3:
            # generators that ask the model for paths: ask the implementation instead (no model of these features)
            ops = g(v, nn, lambda ops: core.run_impl(ops, st=st))
        else:
            ops = g(v, nn)
        ops = [o for o in ops if "hamlet" not in json.dumps(o["input"])]
        res = core.run_impl(ops, st=st)
        for op, r in zip(ops, res):
            stats["oracle_inputs"] += 1
            f = r.get("ok") if "ok" in r else ["oracle crashed: %s" % r.get("msg", r)]
            if isinstance(f, dict):
                f = f["failures"]
            if f:
                stats["oracle_failures"] += 1
                fails.append(("C20", {"seed": run.seed, "alt": idx, "unmodelled": True, "oracle": name, "input": op["input"]}, f))
                break
            run.nontrivial.add(core.digest(["u", idx, op["input"]]))
        run.cov["evaluations"] += len(ops)
    run.cov["oracles"]["ALTP_extra_keys_typed_mapping(model PathX + oracles, no theorem)"] = dict(stats)
    return fails


SPECIAL["ALTP"] = oracle_ALTP
REPLAY["ALTP"] = lambda d, inp: replay_C20(d, inp)


# ------------------------------------------------------------------------------------------ C19 (loader)

import subprocess


def _c19_triple(rng):
    """templates / to_extrapolate of the C19 grammar plus selectors that tell an extrapolated type from
    the type it was extrapolated from ('__shot' matches shot__shot but not shot__file, '__file' the reverse)"""
    templates, to_ex, sep = families._mk_templates(rng)
    keys = []
    for _, t in templates:
        for part in t.split("/"):
            k = part.split(":")[0].strip("{}")
            if k not in keys:
                keys.append(k)
    names = [n for n, _ in templates]
    pool = [sep + k for k in keys] + names + [n.split(sep)[0] for n in names] + [sep + "file", "zz"]
    kp = {}
    for sel in rng.sample(pool, min(len(pool), rng.randint(1, 4))):
        reps = {}
        for _ in range(rng.randint(1, 3)):
            k = rng.choice(keys)
            reps["{%s}" % k] = "{%s:(%s|\\*|\\>)}" % (k, rng.choice(["a|b", "v\\d\\d\\d", "w|p", "sh\\d\\d"]))
        kp[sel] = reps
    return {"sep": sep, "templates": [list(p) for p in templates], "to_extrapolate": list(to_ex),
            "key_patterns": [[k, [[a, b] for a, b in val.items()]] for k, val in kp.items()]}


def _c19_load(triple):
    """what the REAL loader (spil.conf.sid_conf_load, imported in a fresh interpreter) makes of the triple"""
    st = _stage.stage(tag="c19")
    with open(os.path.join(st["conf"], "spil_sid_conf.py"), "w") as f:
        f.write("# generated sid configuration (C19 loader check)\nsip = '/'\nprojects = []\n")
        f.write("sid_templates = %r\n" % {k: val for k, val in triple["templates"]})
        f.write("to_extrapolate = %r\n" % triple["to_extrapolate"])
        f.write("key_patterns = %r\n" % {k: {a: b for a, b in val} for k, val in triple["key_patterns"]})
        f.write("extension_alias = {}\nkey_types = {}\nleaf_keys = {}\nbasetyped_search_narrowing = {}\ntyped_search_narrowing = {}\n")
    code = ("import json, sys\nimport spil.conf.sid_conf_load as m\n"
            "sys.stdout.write('@@' + json.dumps([[k, v] for k, v in m.sid_templates.items()]) + '\\n')\n")
    p = subprocess.run([_stage.PY, "-W", "ignore", "-c", code], env=st["env"], capture_output=True, text=True, timeout=120)
    import shutil
    shutil.rmtree(st["dir"], ignore_errors=True)
    for line in p.stdout.splitlines():
        if line.startswith("@@"):
            return json.loads(line[2:]), None
    return None, (p.stderr or p.stdout)[-400:]


def _c19_expected(d, triples):
    ex = core.run_model(d, [{"op": "extrapolate_templates", "sep": t["sep"], "templates": t["templates"],
                             "to_extrapolate": t["to_extrapolate"]} for t in triples])
    rp = core.run_model(d, [{"op": "pattern_replacing", "templates": a.get("ok") or [], "key_patterns": t["key_patterns"]}
                            for a, t in zip(ex, triples)])
    return [(a.get("ok"), b.get("ok")) for a, b in zip(ex, rp)]


def _c19_judge(triple, loaded, extrapolated, expected):
    if loaded is None or expected is None:
        return []
    if [list(p) for p in loaded] == [list(p) for p in expected]:
        return []
    out = []
    sels = [k for k, _ in triple["key_patterns"]]
    got, want, plain = dict(map(tuple, loaded)), dict(map(tuple, expected)), dict(map(tuple, extrapolated or []))
    if list(got.keys()) != list(want.keys()):
        out.append("the loaded configuration has the types %r, extrapolation of the configured templates gives %r" % (list(got.keys()), list(want.keys())))
    for k in want:
        if k in got and got[k] != want[k]:
            matching = [s for s in sels if s in k]
            if not matching:
                out.append("type %r matches no selector of key_patterns, yet its loaded template %r is not the extrapolated %r" % (k, got[k], plain.get(k)))
            else:
                out.append("type %r matches the selectors %r: its loaded template is %r, the rewriting of %r gives %r" % (k, matching, got[k], plain.get(k), want[k]))
    return out or ["loaded templates %r differ from %r" % (loaded, expected)]


def oracle_C19L(run, n):
    """the loader composes the two functions as the statement reads: every type produced by the
    extrapolation (explicit or generated) is rewritten exactly when a selector matches ITS name"""
    fails = []
    stats = collections.Counter()
    rng = random.Random("%s/C19L" % run.seed)
    triples = [_c19_triple(rng) for _ in range(n)]
    with cf.ThreadPoolExecutor(max_workers=12) as ex:
        loaded = list(ex.map(_c19_load, triples))
    expected = _c19_expected(run.d, triples)
    for t, (l, err), (e1, e2) in zip(triples, loaded, expected):
        stats["configurations"] += 1
        if l is None:
            stats["loader_refused"] += 1
            continue
        if any(s in k for s, _ in t["key_patterns"] for k, _ in (e1 or []) if k not in dict(map(tuple, t["templates"]))):
            stats["selector_matches_generated_type"] += 1
        f = _c19_judge(t, l, e1, e2)
        if f:
            stats["failing"] += 1
            fails.append(("C19L", t, f))
        else:
            run.nontrivial.add(core.digest(t))
    run.cov["evaluations"] += len(triples)
    run.cov["oracles"]["C19L"] = dict(stats)
    if triples:
        run.cov["samples"].append({"oracle": "C19L", "input": triples[0], "loaded": loaded[0][0]})
    return fails


def replay_C19L(d, inp):
    l, err = _c19_load(inp)
    if l is None:
        return ["the loader refuses the configuration: %s" % err]
    (e1, e2), = _c19_expected(d, [inp])
    return _c19_judge(inp, l, e1, e2)


SPECIAL["C19L"] = oracle_C19L
REPLAY["C19L"] = replay_C19L


# ------------------------------------------------------------------------------------------ C19 (path configuration loader)

def _c19p_spec(d, rng):
    """a path configuration for the shipped sid configuration: path templates = a root + the RAW sid
    templates (their find-strings are what the sid configuration's key_patterns rewrite), with its OWN
    key_patterns whose selectors differ from the sid configuration's"""
    ex = core.run_model(d, [{"op": "extrapolate_templates", "sep": d["conf"]["sid"]["sep"], "templates": d["raw"]["sid_templates"],
                             "to_extrapolate": d["raw"]["to_extrapolate"]}])[0].get("ok") or d["raw"]["sid_templates"]
    pool = [list(p) for p in ex]
    chosen = rng.sample(pool, min(len(pool), rng.randint(3, 8)))
    templates = [[l, "/gen/root/" + t] for l, t in chosen]
    keys = []
    for _, t in templates:
        for part in t.split("/"):
            if part.startswith("{"):
                k = part.split(":")[0].strip("{}")
                if k not in keys:
                    keys.append(k)
    sep = d["conf"]["sid"]["sep"]
    sels = [sep + l.split(sep)[-1] for l, _ in templates if sep in l] + [l for l, _ in templates] + ["zz", "shot", "asset" + sep]
    kp = {}
    for sel in rng.sample(sels, min(len(sels), rng.randint(1, 3))):
        reps = {}
        for _ in range(rng.randint(1, 2)):
            k = rng.choice(keys)
            reps["{%s}" % k] = "{%s:(%s|\\*|\\>)}" % (k, rng.choice(["A|B", "v\\d\\d\\d", "X"]))
        kp[sel] = reps
    return {"templates": templates, "key_patterns": [[k, [[a, b] for a, b in val.items()]] for k, val in kp.items()]}


def _c19p_load(spec):
    st = _stage.stage(tag="c19p")
    with open(os.path.join(st["conf"], "c19_gen_path_conf.py"), "w") as f:
        f.write("# generated path configuration (C19 path loader check)\n")
        f.write("path_templates = %r\n" % {k: val for k, val in spec["templates"]})
        f.write("key_patterns = %r\n" % {k: {a: b for a, b in val} for k, val in spec["key_patterns"]})
        f.write("path_defaults = {}\npath_mapping = {}\nsearch_path_mapping = {}\nsidkeys_to_extrakeys = {}\nextrakeys_to_sidkeys = {}\n")
    code = ("import json, sys\nimport spil\nfrom spil.sid.pathops.pathconfig import PathConfig\n"
            "pc = PathConfig('c19gen', 'c19_gen_path_conf')\n"
            "sys.stdout.write('@@' + json.dumps([[k, v] for k, v in pc.path_templates.items()]) + '\\n')\n")
    p = subprocess.run([_stage.PY, "-W", "ignore", "-c", code], env=st["env"], capture_output=True, text=True, timeout=120)
    import shutil
    shutil.rmtree(st["dir"], ignore_errors=True)
    for line in p.stdout.splitlines():
        if line.startswith("@@"):
            return json.loads(line[2:]), None
    return None, (p.stderr or p.stdout)[-400:]


def _c19p_judge(spec, loaded, expected):
    if loaded is None or expected is None or [list(p) for p in loaded] == [list(p) for p in expected]:
        return []
    out = []
    sels = [k for k, _ in spec["key_patterns"]]
    got, want, plain = dict(map(tuple, loaded)), dict(map(tuple, expected)), dict(map(tuple, spec["templates"]))
    for k in want:
        if got.get(k) != want[k]:
            matching = [s for s in sels if s in k]
            out.append("path type %r matches %s of the path configuration %r: its loaded template is %r, configured %r, expected %r"
                       % (k, ("the selectors %r" % matching) if matching else "NO selector", sels, got.get(k), plain.get(k), want[k]))
    return out or ["loaded path templates %r differ from %r" % (loaded, expected)]


def oracle_C19P(run, n):
    """PathConfig applies ITS key_patterns, selector by selector, to its path templates and nothing else"""
    fails = []
    stats = collections.Counter()
    rng = random.Random("%s/C19P" % run.seed)
    specs = [_c19p_spec(run.d, rng) for _ in range(n)]
    with cf.ThreadPoolExecutor(max_workers=12) as ex:
        loaded = list(ex.map(_c19p_load, specs))
    exp = core.run_model(run.d, [{"op": "pattern_replacing", "templates": sp["templates"], "key_patterns": sp["key_patterns"]} for sp in specs])
    for sp, (l, err), e in zip(specs, loaded, exp):
        stats["configurations"] += 1
        if l is None:
            stats["loader_refused"] += 1
            run.notes.append("C19P: the path loader refused a generated configuration: %s" % (err or "")[-200:])
            continue
        f = _c19p_judge(sp, l, e.get("ok"))
        if f:
            stats["failing"] += 1
            fails.append(("C19P", sp, f))
        else:
            run.nontrivial.add(core.digest(sp))
    run.cov["evaluations"] += len(specs)
    run.cov["oracles"]["C19P"] = dict(stats)
    return fails


def replay_C19P(d, inp):
    l, err = _c19p_load(inp)
    if l is None:
        return ["the path loader refuses the configuration: %s" % err]
    e = core.run_model(d, [{"op": "pattern_replacing", "templates": inp["templates"], "key_patterns": inp["key_patterns"]}])[0]
    return _c19p_judge(inp, l, e.get("ok"))


SPECIAL["C19P"] = oracle_C19P
REPLAY["C19P"] = replay_C19P
