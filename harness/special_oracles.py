"""Oracles that need more than one interpreter: C13 (answers never depend on what was asked before).

A random history of read-only calls is run in ONE interpreter (default and tiny cache capacity,
several PYTHONHASHSEED values) and every answer is compared with the answer the same single call
gets in a FRESH interpreter.
"""
import json, random, concurrent.futures as cf
import core, gen, families


def _alphabet(v, d, model):
    rng = v.rng
    configs = sorted(v.paths.keys())
    ops = []
    sids = families.concrete_path_sids(v, 6)
    ask = [{"op": "sid_call", "from": {"s": s}, "m": "path", "config": c} for _, s, _ in sids for c in configs]
    paths = [a.get("ok") for a in model(ask)]
    k = 0
    for label, s, fields in sids:
        ops.append({"op": "sid", "s": s})
        ops.append({"op": "sid", "s": label + ":" + s})
        ops.append({"op": "sid", "fields": [list(p) for p in fields]})
        ops.append({"op": "sid_to_dict", "s": s})
        # same string, other forced types, positional and keyword
        for t in rng.sample(v.labels, 2) + [label]:
            ops.append({"op": "sid_to_dict", "s": s, "type": t})
            ops.append({"op": "sid_to_dict", "s": s, "type": t, "kw": True})
        for c in configs:
            p = paths[k]; k += 1
            ops.append({"op": "sid_call", "from": {"s": s}, "m": "path", "config": c})
            ops.append({"op": "sid_call", "from": {"s": s}, "m": "path", "config": c, "kw": True})
            if p:
                for c2 in configs:
                    ops.append({"op": "sid", "path": p, "config": c2})
                    ops.append({"op": "path_to_dict", "path": p, "config": c2})
                    ops.append({"op": "path_to_dict", "path": p, "config": c2, "kw": "all"})
                    ops.append({"op": "path_to_dict", "path": p, "config": c2, "kw": "none"})
                ops.append({"op": "path_to_dict", "path": p, "type": label, "config": c})
                ops.append({"op": "path_to_dict", "path": p, "type": rng.choice(v.labels), "config": c})
        ops.append({"op": "sid_call", "from": {"s": s}, "m": "path"})
    sg = gen.SearchGen(v)
    L, leaves = gen.universe(v)
    for _ in range(6):
        srch = sg.search(base=rng.choice(leaves), allow_gt=False, malformed=0.0)
        for u in (False, True):
            for x in (False, True):
                ops.append({"op": "unfold_search", "s": srch, "u": u, "x": x})
                ops.append({"op": "unfold_search", "s": srch, "u": u, "x": x, "positional": True})
        ops.append({"op": "unfold_search", "s": srch})
        ops.append({"op": "simple_typing", "s": srch.split("?")[0]}) if "**" not in srch and "," not in srch else None
        ops.append({"op": "find_list", "l": L, "s": srch, "m": "find"})
        ops.append({"op": "find_partial", "l": L, "s": srch})
        ops.append({"op": "sid_call", "from": {"s": L[0]}, "m": "match", "search": srch})
    return [o for o in ops if o]


def _fresh_answers(ops, workers=12):
    uniq = {}
    for o in ops:
        uniq.setdefault(core.digest(o), o)
    items = list(uniq.items())

    def one(item):
        dg, o = item
        return dg, core.run_impl([o])[0]
    with cf.ThreadPoolExecutor(max_workers=workers) as ex:
        return dict(ex.map(one, items))


def _norm(r):
    r = dict(r)
    r.pop("msg", None)
    if isinstance(r.get("ok"), list) and r["ok"] and isinstance(r["ok"][0], dict):
        pass
    return r


def _run_history(hist, maxsize, hashseed):
    extra = {"SPIL_VERIF_MAXSIZE": str(maxsize)} if maxsize else {}
    return core.run_impl(hist, hashseed=hashseed, extra_env=extra)


def _check(hist, fresh, maxsize, hashseed):
    res = _run_history(hist, maxsize, hashseed)
    for k, (o, r) in enumerate(zip(hist, res)):
        want = fresh[core.digest(o)]
        if o.get("op") in core.UNORDERED_OPS:
            a = core.canon_value(o, _norm(r).get("ok"))
            b = core.canon_value(o, _norm(want).get("ok"))
            same = (a == b) and (r.get("err") == want.get("err"))
        else:
            same = _norm(r) == _norm(want)
        if not same:
            return k, r, want
    return None


def oracle_C13(run, n):
    d = run.d
    fails = []
    stats = {"histories": 0, "calls": 0, "fresh_calls": 0}
    for h in range(n):
        rng = random.Random("%s/C13/%d" % (run.seed, h))
        v = gen.Vocab(d, rng)
        alpha = _alphabet(v, d, lambda ops: core.run_model(d, ops))
        kind = rng.random()
        if kind < 0.3:       # ordered pairs
            hist = []
            for _ in range(12):
                a, b = rng.choice(alpha), rng.choice(alpha)
                hist += [a, b]
        else:
            hist = [rng.choice(alpha) for _ in range(rng.randint(10, 50))]
        fresh = _fresh_answers(hist)
        stats["histories"] += 1
        stats["calls"] += len(hist)
        stats["fresh_calls"] += len(fresh)
        combos = [(0, "0"), (2, "1"), (3, str(rng.randrange(1000)))]
        if run.tier == "thorough":
            combos += [(8, str(s)) for s in range(2, 7)] + [(0, "random")]
        for maxsize, hs in combos:
            bad = _check(hist, fresh, maxsize, hs)
            run.cov["evaluations"] += len(hist)
            if bad:
                k, got, want = bad
                # shrink to an ordered pair if possible
                small = hist[:k + 1]
                for j in range(k):
                    pair = [hist[j], hist[k]]
                    if _check(pair, fresh, maxsize, hs):
                        small = pair
                        break
                fails.append(("C13", {"history": small, "maxsize": maxsize, "hashseed": hs},
                              ["call %s answered %s after this history, %s in a fresh interpreter" % (
                                  json.dumps(hist[k], ensure_ascii=False), json.dumps(_norm(got), ensure_ascii=False)[:500],
                                  json.dumps(_norm(want), ensure_ascii=False)[:500])]))
                break
            run.nontrivial.add(core.digest([hist, maxsize, hs]))
    run.cov["oracles"]["C13"] = stats
    run.cov["samples"].append({"oracle": "C13", "history_head": hist[:3], "capacities": [c[0] for c in combos]})
    return fails


def replay_C13(d, inp):
    hist = inp["history"]
    fresh = _fresh_answers(hist)
    bad = _check(hist, fresh, inp.get("maxsize", 0), inp.get("hashseed", "0"))
    if bad:
        k, got, want = bad
        return ["call %d: %s vs fresh %s" % (k, json.dumps(_norm(got))[:400], json.dumps(_norm(want))[:400])]
    return []


SPECIAL = {"C13": oracle_C13}
REPLAY = {"C13": replay_C13}
