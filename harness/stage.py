"""Staging of an isolated Spil environment for harness subprocesses.

The configuration package of /repo (spil_hamlet_conf/*.py + hamlet_plugins) is copied into a
scratch directory that comes first on sys.path; project roots (computed from __file__ in
spil_fs_conf) therefore live inside the scratch directory, never under /repo.  HOME points to an
empty directory so that no ~/.spil/conf/user_conf.json is merged into spil.conf.
"""
import os, shutil, tempfile, atexit, itertools

REPO = os.environ.get("SPIL_REPO", "/repo")
VERIF = os.path.dirname(os.path.dirname(os.path.abspath(__file__)))
PY = os.environ.get("SPIL_PYTHON", "/venv/bin/python")
_counter = itertools.count()
_made = []


def scratch_base():
    base = os.environ.get("SPIL_VERIF_SCRATCH")
    if not base:
        base = tempfile.mkdtemp(prefix="spilverif_", dir="/tmp")
        # only letters, digits, '_' (resolva does not regex-escape the root): re-make if needed
        if not all(ch.isalnum() or ch in "_/" for ch in base):
            shutil.rmtree(base, ignore_errors=True)
            base = "/tmp/spilverif_%d_%d" % (os.getpid(), next(_counter))
            os.makedirs(base)
        os.environ["SPIL_VERIF_SCRATCH"] = base
        _made.append(base)
        atexit.register(cleanup)
    return base


def cleanup():
    for b in _made:
        shutil.rmtree(b, ignore_errors=True)
    _made.clear()


def stage(conf_src=None, tag="env"):
    """Create a staged environment; returns dict(dir=, conf=, home=, env=)."""
    base = scratch_base()
    d = os.path.join(base, "%s%d" % (tag, next(_counter)))
    conf = os.path.join(d, "conf")
    home = os.path.join(d, "home")
    os.makedirs(conf)
    os.makedirs(home)
    src = conf_src or os.path.join(REPO, "spil_hamlet_conf")
    for name in os.listdir(src):
        p = os.path.join(src, name)
        if name.endswith(".py"):
            shutil.copy(p, conf)
    plug = os.path.join(src, "hamlet_plugins")
    if os.path.isdir(plug):
        shutil.copytree(plug, os.path.join(conf, "hamlet_plugins"),
                        ignore=shutil.ignore_patterns("__pycache__"))
    env = dict(os.environ)
    env.update({
        "HOME": home,
        "PYTHONPATH": conf + os.pathsep + REPO + (os.pathsep + os.environ["VERIF_COVSITE"] if os.environ.get("VERIF_COVSITE") else ""),
        "PYTHONDONTWRITEBYTECODE": "1",
        "PYTHONHASHSEED": env.get("SPIL_HASHSEED", "0"),
        "SPIL_VERIF": "1",
    })
    other = other_device_tmp(base)
    if other:      # the system temp folder of the staged processes is on ANOTHER file system than the project trees
        env["TMPDIR"] = other
    return {"dir": d, "conf": conf, "home": home, "env": env}


def other_device_tmp(base):
    """a temp folder on a device other than `base`'s (a tmpfs), or None: code that prepares a file in the system
    temp folder and renames it into the project tree only works when both are on one file system"""
    try:
        for cand in ("/dev/shm", "/run/shm"):
            if os.path.isdir(cand) and os.access(cand, os.W_OK) and os.stat(cand).st_dev != os.stat(base).st_dev:
                d = os.path.join(cand, "spilverif_tmp_%s" % os.path.basename(base))
                os.makedirs(d, exist_ok=True)
                if d not in _made:
                    _made.append(d)
                return d
    except OSError:
        pass
    return None
