#!/usr/bin/env python3
"""Mutation campaign against the checks (development aid; not one of the registered checks).

  tools/mutants.py gen  [file ...]          enumerate mutants of the anchored source files -> /tmp/mut/list.json
  tools/mutants.py run  [--workers N] [--only op,op] [--limit K] [--all-checks]
                                            for each mutant, in a scratch copy of /repo and of /verif:
                                            the pinned suite must give the baseline result (else 'killed-by-tests',
                                            not a candidate: the brief asks for changes that pass the existing tests),
                                            then every check whose property is anchored in the mutated file runs
                                            with SPIL_REPO pointing at the scratch copy
  tools/mutants.py report                   summary + the surviving mutants (-> tools/mutation_report.txt)

Mutation operators are small syntactic edits of the kind a slip or a well-meant clean-up produces:
comparison / boolean operator swaps, dropped `not`, off-by-one constants, dropped `.copy()` /
`list()` / `sorted()` wrappers (aliasing), dropped `continue` / `add()` / `append()` statements,
`strip` / `lstrip`, `split` / `rsplit`, `startswith` / `endswith`, first / last index.
Survivors are either equivalent changes (logging, performance, dead code) or holes in the tie
between model and code; each survivor is triaged by hand in DESIGN.md §14.
"""
import ast, json, os, sys, re, subprocess, shutil, time, hashlib, concurrent.futures as cf

VERIF = os.path.dirname(os.path.dirname(os.path.abspath(__file__)))
REPO = "/repo"
OUT = "/tmp/mut"
PY = "/venv/bin/python"


def anchors():
    files = {}
    for l in open(os.path.join(VERIF, "properties.jsonl")):
        p = json.loads(l)
        for f in p["anchors"]["files"]:
            files.setdefault(f, []).append(p["id"])
    return files


CMP = {ast.Eq: "!=", ast.NotEq: "==", ast.Lt: "<=", ast.LtE: "<", ast.Gt: ">=", ast.GtE: ">",
       ast.In: "not in", ast.NotIn: "in", ast.Is: "is not", ast.IsNot: "is"}
NAME_SWAP = {"strip": "lstrip", "lstrip": "strip", "rstrip": "strip", "split": "rsplit", "rsplit": "split",
             "startswith": "endswith", "endswith": "startswith", "resolve_first": "resolve_one",
             "append": "insert0", "any": "all", "all": "any", "update": None, "add": None, "extend": None,
             "min": "max", "max": "min"}
WRAPPERS = {"list", "sorted", "dict", "set", "tuple", "OrderedDict", "reversed"}


class Src:
    def __init__(self, text):
        self.text = text
        self.lines = text.split("\n")
        self.off = [0]
        for l in self.lines:
            self.off.append(self.off[-1] + len(l.encode("utf-8")) + 1)
        self.bytes = text.encode("utf-8")

    def span(self, node):
        a = self.off[node.lineno - 1] + node.col_offset
        b = self.off[node.end_lineno - 1] + node.end_col_offset
        return a, b

    def get(self, node):
        a, b = self.span(node)
        return self.bytes[a:b].decode("utf-8")

    def replace(self, a, b, new):
        return (self.bytes[:a] + new.encode("utf-8") + self.bytes[b:]).decode("utf-8")


def mutants_of(path, text):
    src = Src(text)
    tree = ast.parse(text)
    main_at = 10 ** 9
    for n in tree.body:
        if isinstance(n, ast.If) and "__name__" in src.get(n.test):
            main_at = n.lineno
    out = []

    def add(op, node, new, a=None, b=None):
        if node.lineno >= main_at:
            return
        if a is None:
            a, b = src.span(node)
        old = src.bytes[a:b].decode("utf-8")
        if old == new:
            return
        line = src.lines[node.lineno - 1]
        if re.match(r"\s*(debug|info|warning|warn|error|log\.\w+|print)\(", line):
            return
        out.append({"file": path, "line": node.lineno, "op": op, "old": old[:120], "new": new[:120], "a": a, "b": b,
                    "src": line.strip()[:160], "new_full": new})

    docstrings = set()
    for n in ast.walk(tree):
        if isinstance(n, (ast.FunctionDef, ast.ClassDef, ast.Module, ast.AsyncFunctionDef)):
            if n.body and isinstance(n.body[0], ast.Expr) and isinstance(n.body[0].value, ast.Constant) and isinstance(n.body[0].value.value, str):
                docstrings.add(id(n.body[0].value))
    parents = {}
    for n in ast.walk(tree):
        for c in ast.iter_child_nodes(n):
            parents[id(c)] = n

    for n in ast.walk(tree):
        if not hasattr(n, "lineno"):
            continue
        if isinstance(n, ast.Compare) and len(n.ops) == 1:
            opn = type(n.ops[0])
            if opn in CMP:
                l, r = n.left, n.comparators[0]
                add("cmp", n, "%s %s %s" % (src.get(l), CMP[opn], src.get(r)))
                if opn in (ast.Lt, ast.LtE, ast.Gt, ast.GtE):
                    flip = {ast.Lt: ">", ast.LtE: ">=", ast.Gt: "<", ast.GtE: "<="}[opn]
                    add("cmp-flip", n, "%s %s %s" % (src.get(l), flip, src.get(r)))
        elif isinstance(n, ast.BoolOp):
            w = " or " if isinstance(n.op, ast.And) else " and "
            add("boolop", n, w.join("(%s)" % src.get(v) for v in n.values))
            for i in range(len(n.values)):      # drop one operand
                rest = [v for j, v in enumerate(n.values) if j != i]
                w0 = " and " if isinstance(n.op, ast.And) else " or "
                add("bool-drop", n, w0.join("(%s)" % src.get(v) for v in rest))
        elif isinstance(n, ast.UnaryOp) and isinstance(n.op, ast.Not):
            add("not-drop", n, "(%s)" % src.get(n.operand))
        elif isinstance(n, (ast.If, ast.While)) and not isinstance(n.test, ast.UnaryOp):
            if "__name__" not in src.get(n.test):
                add("cond-neg", n.test, "not (%s)" % src.get(n.test))
        elif isinstance(n, ast.IfExp):
            add("ifexp-neg", n.test, "not (%s)" % src.get(n.test))
        elif isinstance(n, ast.Constant) and id(n) not in docstrings:
            v = n.value
            if v is True:
                add("const", n, "False")
            elif v is False:
                add("const", n, "True")
            elif isinstance(v, int) and not isinstance(v, bool) and abs(v) <= 4096:
                add("const", n, str(v + 1))
                if v > 0:
                    add("const", n, str(v - 1))
            elif isinstance(v, str) and len(v) == 1 and v in "/?&=,*>~:_.":
                alt = {"/": "_", "?": "&", "&": "?", "=": ":", ",": ";", "*": ">", ">": "*", "~": "-", ":": "=", "_": "-", ".": "_"}[v]
                add("const-str", n, repr(alt))
        elif isinstance(n, ast.Call):
            f = n.func
            if isinstance(f, ast.Attribute):
                if f.attr == "copy" and not n.args:
                    add("copy-drop", n, src.get(f.value))
                elif f.attr in NAME_SWAP and NAME_SWAP[f.attr] and NAME_SWAP[f.attr] != "insert0":
                    a, b = src.span(f)
                    add("name-swap", f, src.get(f.value) + "." + NAME_SWAP[f.attr], a, b)
                if f.attr in ("add", "append", "update", "extend", "pop", "remove", "clear", "sort", "reverse", "insert") \
                        and isinstance(parents.get(id(n)), ast.Expr):
                    add("stmt-drop", parents[id(n)], "pass")
            elif isinstance(f, ast.Name):
                if f.id in WRAPPERS and len(n.args) == 1 and not n.keywords:
                    add("wrap-drop", n, "(%s)" % src.get(n.args[0]))
                elif f.id in NAME_SWAP and NAME_SWAP[f.id]:
                    a, b = src.span(f)
                    add("name-swap", f, NAME_SWAP[f.id], a, b)
                if f.id == "sorted":
                    for k in n.keywords:
                        if k.arg == "reverse":
                            pass
        elif isinstance(n, (ast.Continue, ast.Break)):
            add("stmt-drop", n, "pass")
        elif isinstance(n, ast.Return) and n.value is not None and not isinstance(n.value, ast.Constant):
            pass
        elif isinstance(n, ast.Subscript):
            s = n.slice
            if isinstance(s, ast.UnaryOp) and isinstance(s.op, ast.USub) and isinstance(s.operand, ast.Constant) and s.operand.value == 1:
                add("index", s, "0")
            elif isinstance(s, ast.Constant) and s.value == 0:
                add("index", s, "-1")
        elif isinstance(n, ast.AugAssign):
            pass
        elif isinstance(n, ast.ExceptHandler) and n.type is not None:
            t = src.get(n.type)
            if t not in ("KeyError",):
                add("except-narrow", n.type, "KeyError")
    # memo-add: a memoising decorator put on a function that had none (the '@' line goes before the def /
    # its first decorator; the import is added at the end of the module docstring / __future__ block)
    if not path.endswith("caching.py"):
        imp_at = 0
        body = tree.body
        k = 0
        if body and isinstance(body[0], ast.Expr) and isinstance(body[0].value, ast.Constant) and isinstance(body[0].value.value, str):
            k = 1
        while k < len(body) and ((isinstance(body[k], ast.ImportFrom) and body[k].module == "__future__") or
                                 (isinstance(body[k], ast.Expr) and isinstance(body[k].value, ast.Constant))):
            k += 1
        imp_line = body[k].lineno if k < len(body) else len(src.lines)
        imp_off = src.off[imp_line - 1]
        for n in ast.walk(tree):
            if isinstance(n, ast.FunctionDef) and n.lineno < main_at and not n.name.startswith("__"):
                if any(isinstance(x, (ast.Yield, ast.YieldFrom)) for x in ast.walk(n)):
                    continue
                decos = [src.get(d_) for d_ in n.decorator_list]
                if any("cache" in d_ or "overload" in d_ or "property" in d_ or "staticmethod" in d_ or "classmethod" in d_ for d_ in decos):
                    continue
                first = n.decorator_list[0].lineno if n.decorator_list else n.lineno
                line_off = src.off[first - 1]
                indent = " " * (len(src.lines[first - 1]) - len(src.lines[first - 1].lstrip()))
                for deco in ("lru_kw_cache", "hit_cache"):
                    new_text = (src.bytes[:imp_off] + ("from spil.util.caching import %s as _vmemo\n" % deco).encode() +
                                src.bytes[imp_off:line_off] + (indent + "@_vmemo\n").encode() + src.bytes[line_off:]).decode("utf-8")
                    out.append({"file": path, "line": n.lineno, "op": "memo-add", "old": "def " + n.name, "new": "@%s def %s" % (deco, n.name),
                                "a": 0, "b": len(src.bytes), "src": src.lines[n.lineno - 1].strip()[:160], "new_full": new_text})
    # de-duplicate
    seen, uniq = set(), []
    for m in out:
        k = (m["a"], m["b"], m["new_full"])
        if k not in seen:
            seen.add(k)
            uniq.append(m)
    return uniq


def cmd_gen(argv):
    files = anchors()
    targets = argv or sorted(files)
    allm = []
    for f in targets:
        p = os.path.join(REPO, f)
        if not os.path.exists(p):
            continue
        text = open(p, encoding="utf-8").read()
        ms = mutants_of(f, text)
        for m in ms:
            m["props"] = files.get(f, [])
            try:
                ast.parse(Src(text).replace(m["a"], m["b"], m["new_full"]))
            except SyntaxError:
                continue
            allm.append(m)
    for i, m in enumerate(allm):
        m["id"] = i
    os.makedirs(OUT, exist_ok=True)
    json.dump(allm, open(os.path.join(OUT, "list.json"), "w"), indent=0)
    import collections
    print(len(allm), "mutants", dict(collections.Counter(m["op"] for m in allm)))
    print(dict(collections.Counter(m["file"] for m in allm)))


def sh(cmd, **kw):
    return subprocess.run(cmd, capture_output=True, text=True, **kw)


def prepare_worker(i):
    w = os.path.join(OUT, "w%d" % i)
    shutil.rmtree(w, ignore_errors=True)
    os.makedirs(w)
    sh(["rsync", "-a", OUT + "/pristine/", w + "/repo/"])
    sh(["rsync", "-a", "--exclude", ".git", "--exclude", "replays", "--exclude", "seeded", "--exclude", "evidence", VERIF + "/", w + "/verif/"])
    return w


def suite(repo):
    r = sh([PY, "-m", "pytest", "-q", "-p", "no:cacheprovider", "--timeout=300", "--continue-on-collection-errors", "-x", "--deselect",
            "spil/conf/util.py::spil.conf.util.extrapolate_templates"], cwd=repo,
           env=dict(os.environ, HOME=os.path.join(repo, "..", "home"), PYTHONDONTWRITEBYTECODE="1"))
    tail = (r.stdout.strip().split("\n") or [""])[-1]
    m = re.search(r"(\d+) passed", tail)
    ok = bool(m) and int(m.group(1)) == 46 and "failed" not in tail and "error" not in tail
    return ok, tail


def run_one(args):
    i, m, all_checks = args
    w = os.path.join(OUT, "w%d" % i)
    repo = os.path.join(w, "repo")
    path = os.path.join(repo, m["file"])
    orig = open(os.path.join(OUT, "pristine", m["file"]), encoding="utf-8").read()
    res = {"id": m["id"], "file": m["file"], "line": m["line"], "op": m["op"], "old": m["old"], "new": m["new"], "src": m["src"]}
    t0 = time.time()
    try:
        open(path, "w", encoding="utf-8").write(Src(orig).replace(m["a"], m["b"], m["new_full"]))
        os.makedirs(os.path.join(w, "home"), exist_ok=True)
        ok, tail = suite(repo)
        res["suite"] = tail
        if not ok:
            res["status"] = "killed-by-tests"
            return res
        checks = sorted(set(m["props"])) if not all_checks else ["C%02d" % k for k in range(1, 21)]
        res["checks"] = {}
        caught = False
        for c in checks:
            env = dict(os.environ, SPIL_REPO=repo, VERIF_SEED=os.environ.get("VERIF_SEED", "1"))
            env.pop("SPIL_VERIF_SCRATCH", None)
            try:
                r = sh(["./check", c, "--tier", "quick"], cwd=os.path.join(w, "verif"), env=env, timeout=1500)
                last = [l for l in r.stdout.strip().split("\n") if l.startswith(("VIOLATION", "OK", "INTERNAL", "TIMEOUT"))]
                res["checks"][c] = [r.returncode, (last or [r.stdout[-300:] + r.stderr[-300:]])[0][:200]]
                if r.returncode == 1:
                    caught = True
                    break
            except subprocess.TimeoutExpired:
                res["checks"][c] = [2, "timeout"]
        res["status"] = "caught" if caught else ("survived" if all(v[0] == 0 for v in res["checks"].values()) else "inconclusive")
        return res
    except Exception as e:  # noqa
        res["status"] = "error"
        res["error"] = repr(e)
        return res
    finally:
        open(path, "w", encoding="utf-8").write(orig)
        res["wall"] = round(time.time() - t0, 1)


def cmd_run(argv):
    workers = int(argv[argv.index("--workers") + 1]) if "--workers" in argv else 12
    only = set(argv[argv.index("--only") + 1].split(",")) if "--only" in argv else None
    files = set(argv[argv.index("--files") + 1].split(",")) if "--files" in argv else None
    limit = int(argv[argv.index("--limit") + 1]) if "--limit" in argv else None
    ids = set(int(x) for x in argv[argv.index("--ids") + 1].split(",")) if "--ids" in argv else None
    all_checks = "--all-checks" in argv
    ms = json.load(open(os.path.join(OUT, "list.json")))
    done = set()
    resf = os.path.join(OUT, "results.jsonl")
    if os.path.exists(resf) and ids is None:
        for l in open(resf):
            done.add(json.loads(l)["id"])
    todo = [m for m in ms if (m["id"] not in done) and (not only or m["op"] in only) and (not files or m["file"] in files)
            and (ids is None or m["id"] in ids)]
    import random
    random.Random(7).shuffle(todo)
    if limit:
        todo = todo[:limit]
    print(len(todo), "mutants to run on", workers, "workers", flush=True)
    # one pristine snapshot of /repo's working tree: /repo itself may be patched by other work meanwhile
    shutil.rmtree(OUT + "/pristine", ignore_errors=True)
    sh(["rsync", "-a", "--exclude", ".git", "--exclude", "SPIL_PROJECTS", "--exclude", "__pycache__", REPO + "/", OUT + "/pristine/"])
    for i in range(workers):
        prepare_worker(i)
    import queue, threading
    q = queue.Queue()
    for m in todo:
        q.put(m)
    lock = threading.Lock()
    counts = {}

    def loop(i):
        while True:
            try:
                m = q.get_nowait()
            except queue.Empty:
                return
            r = run_one((i, m, all_checks))
            with lock:
                counts[r["status"]] = counts.get(r["status"], 0) + 1
                open(resf, "a").write(json.dumps(r) + "\n")
                if sum(counts.values()) % 10 == 0:
                    print(time.strftime("%H:%M:%S"), counts, flush=True)
    ts = [threading.Thread(target=loop, args=(i,)) for i in range(workers)]
    [t.start() for t in ts]
    [t.join() for t in ts]
    print("done", counts)
    for i in range(workers):
        shutil.rmtree(os.path.join(OUT, "w%d" % i), ignore_errors=True)


def cmd_report(argv):
    import collections
    rs = {}
    for l in open(os.path.join(OUT, "results.jsonl")):
        r = json.loads(l)
        rs[r["id"]] = r
    c = collections.Counter(r["status"] for r in rs.values())
    lines = ["mutants run: %d  %s" % (len(rs), dict(c))]
    byfile = collections.defaultdict(collections.Counter)
    for r in rs.values():
        byfile[r["file"]][r["status"]] += 1
    for f, cc in sorted(byfile.items()):
        lines.append("  %-50s %s" % (f, dict(cc)))
    lines.append("")
    lines.append("SURVIVORS (pass the pinned suite and every check anchored in the file):")
    for r in sorted(rs.values(), key=lambda r: (r["file"], r["line"])):
        if r["status"] in ("survived", "inconclusive", "error"):
            lines.append("#%d %s:%d [%s] %s   %r -> %r   | %s" % (r["id"], r["file"], r["line"], r["op"], r["status"], r["old"], r["new"], r["src"]))
    txt = "\n".join(lines)
    print(txt)
    open(os.path.join(VERIF, "tools", "mutation_report.txt"), "w").write(txt + "\n")


if __name__ == "__main__":
    {"gen": cmd_gen, "run": cmd_run, "report": cmd_report}[sys.argv[1]](sys.argv[2:])
