#!/usr/bin/env python3
"""print the lines / branches of /repo that the checks never executed (from tools/coverage_run.sh),
skipping `if __name__ == '__main__'` blocks, tests, and logging-only lines"""
import json, sys, re
j = json.load(open(sys.argv[1] if len(sys.argv) > 1 else '/tmp/verifcov/report.json'))
for f, d in sorted(j['files'].items()):
    if '/tests/' in f or f.endswith('__init__.py'):
        continue
    src = open(f).read().split('\n')
    main_at = next((i + 1 for i, l in enumerate(src) if re.match(r"if __name__\s*==", l)), 10**9)
    miss = [n for n in d['missing_lines'] if n < main_at]
    miss = [n for n in miss if not re.match(r"\s*(log\.|logging\.|pass$|print\()", src[n - 1])]
    br = [b for b in d.get('missing_branches', []) if b[0] < main_at and abs(b[1]) < main_at]
    if not miss and not br:
        continue
    print('==', f, 'missing lines', len(miss), 'partial branches', len(br))
    for n in miss:
        print('   %4d: %s' % (n, src[n - 1][:150]))
    for a, b in br:
        if a not in miss and b not in miss:
            print('   branch %d -> %d   | %s' % (a, b, src[a - 1].strip()[:110]))
