#!/bin/sh
# tools/coverage_run.sh [tier] [props...] : line / branch coverage of /repo's spil + configuration
# package under the checks' correspondence families and oracles (development aid, not a check:
# it shows which code the tie never executes, i.e. where a change would be invisible).
# Output: /tmp/verifcov/report.txt (per file: missing lines, partial branches)
TIER=${1:-quick}; [ $# -gt 0 ] && shift
cd "$(dirname "$0")/.."
OUT=/tmp/verifcov; rm -rf $OUT; mkdir -p $OUT/data
cat > $OUT/rc <<EOF
[run]
branch = True
parallel = True
data_file = $OUT/data/.coverage
source =
    /repo/spil
    spil_hamlet_conf
    hamlet_plugins
    spil_sid_conf
    spil_fs_conf
    spil_fs_server_conf
    spil_data_conf
[paths]
conf =
    /repo/spil_hamlet_conf
    /tmp/spilverif_*/*/conf
EOF
export COVERAGE_PROCESS_START=$OUT/rc
export VERIF_COVSITE=$(pwd)/tools/covsite
PROPS=${*:-$(python3 -c "import json; print(' '.join(c['property_id'] for c in json.load(open('MANIFEST.json'))['checks']))")}
for p in $PROPS; do
  ( out=$(./check $p --tier $TIER 2>&1); echo "$p exit=$? $(echo "$out" | tail -1)" ) &
done
wait
cd $OUT && /venv/bin/python -m coverage combine --rcfile=$OUT/rc >/dev/null 2>&1
/venv/bin/python -m coverage report --rcfile=$OUT/rc -m --skip-empty > $OUT/report.txt 2>&1
/venv/bin/python -m coverage json --rcfile=$OUT/rc -o $OUT/report.json >/dev/null 2>&1
tail -5 $OUT/report.txt
