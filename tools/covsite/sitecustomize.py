# loaded only when tools/coverage_run.sh puts this directory on PYTHONPATH: measures which lines and
# branches of /repo the correspondence harness and the oracles execute in their subprocesses
try:
    import coverage
    coverage.process_startup()
except Exception:  # noqa
    pass
