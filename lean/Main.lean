import Spil.Driver
def main : IO Unit := Driver.main
