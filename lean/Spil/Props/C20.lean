/-
  Spil.Props.C20 — "The guarantees hold for any well-formed configuration, not only the demo one".

  C20 is the FORM of the other theorems: each is restated here with the configuration universally
  quantified and the documented conventions (`Spec.sidHierOk`) as the only configuration
  hypothesis, and proved by instantiating the property theorems — none of which mentions the
  shipped configuration.  (The check additionally greps the printed statements for any generated
  constant, and proves `sidHierOk` in the kernel for configurations generated on every run.)
-/
import Spil.Props.C01
import Spil.Props.C02
import Spil.Props.C04
import Spil.Props.C05
import Spil.Props.C07b
import Spil.Props.C08

namespace C20

open Spec

/-- typing (C01) for every configuration whose template table is well formed -/
theorem c20_typing : ∀ (c : Ctx), sidHierOk c.env c.cfg.sid.templates = true →
    ∀ s : Str, s ≠ [] → ':' ∉ s → '?' ∉ s →
      c.sidOfString s = .ok (plainSid c.env c.cfg.sid.templates s) := by
  intro c hwf s hne hc hq
  have h := (HierL.hier_unpack c.env c.cfg.sid.templates hwf).1
  exact C01.c01_plain c h s hne hc hq

/-- round trip through the field dictionary in any order (C02) -/
theorem c20_forms : ∀ (c : Ctx), sidHierOk c.env c.cfg.sid.templates = true →
    ∀ x : Sid, natural c.env c.cfg.sid.templates x → renderable x.string →
      ∀ p : Dict, p.Perm x.fields → c.sidOfFields p = .ok x := by
  intro c hwf x hx hr p hp
  exact C02.c02_fields c x hwf hx hr p hp

/-- hierarchy navigation (C03) -/
theorem c20_hierarchy : ∀ (c : Ctx), sidHierOk c.env c.cfg.sid.templates = true →
    ∀ x : Sid, wellTyped c.env c.cfg.sid.templates x → ∀ i, i < x.fields.length →
      renderable (Str.joinWith '/' ((Str.splitOn '/' x.string).take (i + 1))) →
      ∃ y, c.getAs x (x.fields.map (·.1))[i]! = .ok y ∧ wellTyped c.env c.cfg.sid.templates y ∧
        y.fields = x.fields.take (i + 1) := by
  intro c hwf x hx i hi hr
  obtain ⟨y, h1, h2, h3, _⟩ := C03.c03_get_as c x hwf hx i hi hr
  exact ⟨y, h1, h2, h3⟩

/-- ownership of paths (C06) holds for every configuration, with no hypothesis at all -/
theorem c20_path_owner : ∀ (c : Ctx) (p : Str) (cfg : Option Str) (x : Sid),
    c.sidOfPath p cfg = .ok x → x.typed = true → c.sidPath cfg x = .ok (some p) :=
  fun c p cfg x h ht => C06.c06_owner c p cfg x h ht

/-- '**' completion (C07) -/
theorem c20_expand_errors : ∀ (c : Ctx), sidHierOk c.env c.cfg.sid.templates = true →
    ∀ s : Str, '?' ∉ s → ':' ∉ s → 1 ≤ Str.count s ['/', '*', '*'] →
      (∃ r, c.expand s false = .ok r) ∨ c.expand s false = .error .spil :=
  fun c hwf s hq hc h1 => C07.c07_expand_errors c hwf s hq hc h1

/-- list search (C08) does not depend on the configuration at all -/
theorem c20_glob : ∀ (e : Env) (pat item : Str), '[' ∉ pat → (globB e pat item = true ↔ Glob pat item) :=
  fun e pat item hb => C08.c08_glob2re e pat item hb

end C20
