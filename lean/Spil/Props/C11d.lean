/-
  Spil.Props.C11d — the options of `FindInList` are about speed and order, not about the answer
  (C11: "FindInList over the corresponding list of Sids"; C13: the same answer whatever was done before).

  `FindInList(L, do_pre_sort=True)` searches `sorted(set(L))` instead of `L`.  For star searches the
  answer is the same SET (and without duplicates in both cases); for '>' searches it is the same LIST,
  because `sorted_search` sorts what was found anyway.  Both follow from C08's exact characterisation of
  the list scan for EVERY list (`C08.c08_star_search_mem`).
-/
import Spil.Props.C08
import Spil.Lemmas.Lst

namespace C11

open Spec Find

/-- the list a pre-sorted Finder holds has the same members as the list it was given -/
theorem c11_presort_list_mem (l : List Str) (x : Str) :
    x ∈ (mkListFinder l false true false).searchlist ↔ x ∈ (mkListFinder l false false false).searchlist := by
  simp only [mkListFinder, Bool.false_eq_true, if_false, if_true]
  rw [Lst.mem_sortBy, Lst.mem_dedupBy]

/-- STAR SEARCHES: with and without `do_pre_sort`, the same entries are found, each once -/
theorem c11_presort_same_set (e : Env) (l : List Str) (pats : List Str) (hb : ∀ p ∈ pats, '[' ∉ p)
    (r r' : List Str)
    (hr : starSearch e (mkListFinder l false false false) pats = .ok r)
    (hr' : starSearch e (mkListFinder l false true false) pats = .ok r') :
    r.Nodup ∧ r'.Nodup ∧ ∀ x, x ∈ r' ↔ x ∈ r := by
  have h1 : mkListFinder l false false false = ⟨l, false⟩ := by simp [mkListFinder]
  have h2 : mkListFinder l false true false = ⟨Lst.sortBy Str.lt (Lst.dedupBy (· == ·) l), false⟩ := by
    simp [mkListFinder]
  rw [h1] at hr
  rw [h2] at hr'
  obtain ⟨n1, m1⟩ := C08.c08_star_search_mem e l pats hb r hr
  obtain ⟨n2, m2⟩ := C08.c08_star_search_mem e _ pats hb r' hr'
  refine ⟨n1, n2, fun x => ?_⟩
  rw [m1, m2, Lst.mem_sortBy, Lst.mem_dedupBy]

/-- both Finders succeed on `[`-free patterns (no error can distinguish them) -/
theorem c11_presort_total (e : Env) (l : List Str) (pats : List Str) (hb : ∀ p ∈ pats, '[' ∉ p) :
    (∃ r, starSearch e (mkListFinder l false false false) pats = .ok r) ∧
    (∃ r', starSearch e (mkListFinder l false true false) pats = .ok r') := by
  have h1 : mkListFinder l false false false = ⟨l, false⟩ := by simp [mkListFinder]
  have h2 : mkListFinder l false true false = ⟨Lst.sortBy Str.lt (Lst.dedupBy (· == ·) l), false⟩ := by
    simp [mkListFinder]
  rw [h1, h2]
  exact ⟨⟨_, C08.c08_star_search e l pats hb⟩, ⟨_, C08.c08_star_search e _ pats hb⟩⟩

/-- decidable comparison of an answer with an expected list -/
private def okIsL (x : Except Err (List Str)) (y : List Str) : Bool :=
  match x with | .ok v => v == y | .error _ => false

/-- a concrete instance: an unsorted list with a repeated entry; the plain Finder answers in list order,
    the pre-sorted one in sorted order, the same two entries -/
example : okIsL (starSearch ⟨fun _ => false⟩ (mkListFinder [['b','/','x'], ['a','/','x'], ['b','/','x'], ['c']] false false false) [['*','/','x']])
      [['b','/','x'], ['a','/','x']] = true ∧
    okIsL (starSearch ⟨fun _ => false⟩ (mkListFinder [['b','/','x'], ['a','/','x'], ['b','/','x'], ['c']] false true false) [['*','/','x']])
      [['a','/','x'], ['b','/','x']] = true := by decide

end C11
