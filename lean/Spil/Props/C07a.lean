/-
  Spil.Props.C07a — the ',' (or) operator of search expressions: `or_on_path` and `or_on_query`
  distribute every comma list, i.e. they enumerate exactly the choices of one alternative per
  segment / per query value.  (Part of C07 and of the first rewrite rule of C10.)
-/
import Spil.Spec.Unfold
import Spil.Lemmas.Unfold

namespace C07

open Spec Ctx

/-- `or_on_path` computes the product of the alternatives (as a list, in its own order), for
    every string that does not contain the function's private sentinel `--start--` -/
theorem c07_or_on_path (s : Str) (hm : Str.isInfix startMark s = false) :
    orOnPath s = orProduct (Str.splitOn '/' s) :=
  orOnPath_eq s hm

/-- membership form: the results are exactly the '/'-joins of one choice per segment -/
theorem c07_or_on_path_mem (s : Str) (hm : Str.isInfix startMark s = false) (x : Str) :
    x ∈ orOnPath s ↔ ∃ picks, Choice (Str.splitOn '/' s) picks ∧ x = Str.joinWith '/' picks := by
  rw [orOnPath_eq s hm]
  exact mem_orProduct _ (Str.splitOn_ne_nil '/' s) x

/-- a string without ',' is left alone by `or_op` -/
theorem c07_or_op_plain (s : Str) (h : Str.hasChar ',' s = false) : orOp s = .ok [s] := by
  simp [orOp, h]

/-- `or_on_query` on the items of a query dictionary: every result assigns to each key one of
    the ','-alternatives (unstripped, as the code does) of its value, and all assignments occur -/
theorem c07_or_query_mem (qd : Dict) (hk : (qd.map (·.1)).Nodup) (d : Dict) :
    d ∈ orQueryGo qd [qd] ↔
      (d.map (·.1) = qd.map (·.1) ∧
       ∀ p ∈ qd.zip d, (if Str.hasChar ',' p.1.2 then p.2.2 ∈ Str.splitOn ',' p.1.2 else p.2.2 = p.1.2)) := by
  have := mem_orQueryGo_suffix qd [] (by simpa using hk) d
  simp only [List.nil_append] at this
  rw [this]
  constructor
  · rintro ⟨d', rfl, hkeys, hok⟩
    exact ⟨hkeys, hok⟩
  · rintro ⟨hkeys, hok⟩
    exact ⟨d, rfl, hkeys, hok⟩

/-- `sorted(set(sids), key=(string, type))`: no two results share a uri, and the result has the
    same members (up to Sid equality) as the input -/
theorem c07_sort_nodup (xs : List Sid) :
    (sortSids xs).Pairwise (fun a b => a.uri ≠ b.uri) ∧
    (∀ x ∈ sortSids xs, x ∈ xs) ∧ (∀ x ∈ xs, ∃ y ∈ sortSids xs, y.uri = x.uri) := by
  unfold sortSids
  refine ⟨?_, ?_, ?_⟩
  · refine (List.Perm.pairwise_iff (fun h e => h e.symm) (Lst.sortBy_perm _ _)).2 ?_
    refine List.Pairwise.imp ?_ (Lst.dedupBy_pairwise Sid.eqv xs)
    intro a b hab e
    simp [Sid.eqv, e] at hab
  · intro x hx
    exact Lst.mem_of_mem_dedupBy Sid.eqv ((Lst.mem_sortBy _ _ _).1 hx)
  · intro x hx
    obtain ⟨y, hy, hyx⟩ := Lst.dedupBy_cover Sid.eqv (fun a => by simp [Sid.eqv])
      (fun a b c hab hbc => by simp only [Sid.eqv, beq_iff_eq] at *; exact hab.trans hbc) xs x hx
    exact ⟨y, (Lst.mem_sortBy _ _ _).2 hy, by simpa [Sid.eqv] using hyx⟩

/-- `unfold_search` never returns an untyped Sid nor one with an un-applied query, and the only
    error it can return is the one `expand` / query parsing raised -/
theorem c07_clean (c : Ctx) (s : Str) (u x : Bool) (r : List Sid) (h : c.unfoldSearch s u x = .ok r) :
    ∀ y ∈ r, y.typed = true ∧ Str.hasChar '?' y.string = false := by
  unfold unfoldSearch at h
  split at h
  · simp at h
  · next xs _ =>
    simp only [Except.ok.injEq] at h
    subst h
    intro y hy
    have hy' : y ∈ xs.filter (fun x => x.typed && !Str.hasChar '?' x.string) := by
      split at hy
      · exact Lst.mem_of_mem_dedupBy _ hy
      · exact hy
    simpa using (List.mem_filter.1 hy').2

end C07
