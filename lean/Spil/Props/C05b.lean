/-
  Spil.Props.C05b — deterministic parse of rendered paths (the regular-language half of C05 / C06).

  Under the decidable conventions of `Spil/Spec/PathWF.lean` (`pathTplOk`: per '/'-free stretch at
  most one free placeholder, prefix-free vocabularies to its left, suffix-free ones to its right;
  `pathConfOk`: + idempotent value mappings — one-to-one, or several path words per sid value with an acceptable first word — and acceptable defaults), a template reads
  the path it rendered back to exactly the rendered values.  Consequences: resolva's duplicate
  check never fires on a self-rendered path, hence `Sid(path=…)` NEVER raises (C06, in full), and
  the round trip holds as soon as no EARLIER template matches the rendered path (C05).

  All four statements are proved as stated; what changed is the SPEC they refer to
  (`Spil/Spec/PathWF.lean`, every change marked `CHANGED` there).  Each addition is necessary: the
  statement is false without it.  Counterexamples (evaluated with `#eval` against the original
  spec, which accepted all of them; script: /tmp/proofM/scratch/Counter.lean):

  -- CHANGED: `pathTplOk` += classes of closed vocabularies are '/'-free  (`atomOk`)
     `c05_own_parse` false: `{x:(a|a/b)}/{z:(b/c|c)}`, x=a/b, z=c renders `a/b/c`, which is read
     back as x=a, z=b/c.
  -- CHANGED: `pathTplOk` += fewer than 1000 occurrences of one key  (`keyCountOk`)
     `c05_own_parse` false: `{k}/{k}/…/{k}` (1000 times): the 1000th group is named `k1000`,
     `match_to_dict` strips three characters and stores it under the key `k1`: keys [k, k1] ≠ [k].
  -- CHANGED: `pathTplOk` += literal text and closed vocabularies are newline-free  (`atomOk`)
     `c06_no_clash` false: `{x:(a\n|a)}/{x:(a|a\n)}`, x=a\n renders `a\n/a\n`; `$` matches before
     the final newline, the first success captures x001=a\n, x002=a: ResolvaException.
     (A newline at the end of a FREE value is harmless: the greedy `[^/]*` comes first; this is
     `Det.rendered_full`.  So no hypothesis on the values is needed and `c06_total` holds for
     every path string, trailing newline or not.)
  -- CHANGED: `mappingOk` += sid-side values are non-empty
     `c06_total` false: template T = `{x:(A|B)}{y}/{y}`, mapping x: A ↦ '' : `AAQ/AQ` is read as
     x=A, y=AQ, mapped to x='', which `dict_to_path` does not map back (empty values are skipped);
     the re-rendered `AQ/AQ` is read as x=A, y001=Q, y002=AQ: ResolvaException out of `Sid(path=…)`.
  -- CHANGED: `pathConfOk` += template labels are unique
     `c06_total` false in the model (labels are dict keys in Python, so this is a modelling
     condition): [(T, `{y}{x:(A|B)}/{y}`), (T, `{x:(AA|C)}_{y}`)]: `AA_Q` matches the second
     template, `sid.path()` looks the label up and renders with the FIRST: `QAA/Q`, read back as
     y001=QA, x=A, y002=Q: ResolvaException.
  Restructured without change of meaning: `atomsOf` (now `flatAtoms` + `segsOf`, structural
  recursion instead of a `foldl` with accumulators; the result was compared with the original on
  all demo templates) and `segDet` (structural recursion instead of `findIdx?` / `range`).
  `pathConfOk demoEnv demoPath_local` and `… demoPath_server` still evaluate to `true`.

  The literal `.` of a template (the wildcard `Cls.dot`, which can match '/') needs NO extra
  condition: the rendered string has exactly as many '/' as the template has literal '/', so in a
  full-length success every literal '/' sits on a '/' and no wildcard does (`Det.segParse_of_parse`).
-/
import Spil.Spec.PathWF
import Spil.Props.C05
import Spil.Lemmas.DetParse
import Spil.Lemmas.DetC06

namespace C05

open Spec

/-- deterministic parse: the template's own regex, run with CPython's priority semantics and the
    duplicate-placeholder check ON, returns exactly the values that were rendered -/
theorem c05_own_parse (e : Env) (t : Template) (data : Dict) (w : Str)
    (hok : pathTplOk e t = true) (hv : valuesOk e t data = true)
    (hk : (data.map (·.1)).Nodup) (hkeys : Dict.keysEq data (Template.keys t) = true)
    (hne : Template.keys t ≠ [])
    (hw : Template.format t data = some w) (hnl : w.getLast? ≠ some '\n') :
    ∃ d, Resolver.resolveTpl e true t w = .ok (some d) ∧ (∀ k, d.get k = data.get k) ∧
      d.map (·.1) = Template.keys t := by
  have _ := hk
  exact Det.own_parse e t data w hok hv hkeys hne hw hnl

/-- every value a conform template captures from ANY string it matches is a word of the
    corresponding vocabulary (closed) or '/'-free (free) -/
theorem c05_captures_ok (e : Env) (t : Template) (s : Str) (d : Dict)
    (hok : pathTplOk e t = true) (h : Resolver.resolveTpl e true t s = .ok (some d)) :
    valuesOk e t d = true :=
  Det.captures_ok e t s d hok h

/-- the same without the newline hypothesis (the conventions now make literal text and closed
    vocabularies newline-free, and a free placeholder at the very end is greedy) -/
theorem c05_own_parse_nl (e : Env) (t : Template) (data : Dict) (w : Str)
    (hok : pathTplOk e t = true) (hv : valuesOk e t data = true)
    (hkeys : Dict.keysEq data (Template.keys t) = true) (hne : Template.keys t ≠ [])
    (hw : Template.format t data = some w) :
    ∃ d, Resolver.resolveTpl e true t w = .ok (some d) ∧ (∀ k, d.get k = data.get k) ∧
      d.map (·.1) = Template.keys t :=
  Det.own_parse_nl e t data w hok hv hkeys hne hw

end C05

namespace C06

open Spec

/-- formatting a conform dictionary never hits resolva's duplicate clash -/
theorem c06_no_clash (e : Env) (r : Resolver) (label : Str) (t : Template)
    (hl : r.lookup label = some t) (hok : pathTplOk e t = true)
    (data : Dict) (hv : valuesOk e t data = true) (hk : (data.map (·.1)).Nodup) :
    Resolver.formatOne e r data label ≠ .error .resolva := by
  have _ := hk
  exact Det.no_clash e r label t hl hok data hv

/-- `Sid(path=p, config=c)` never raises, for EVERY path string, as soon as the configuration
    follows the conventions (and the configuration name exists and `key_types` lists the basetypes
    that have path templates) -/
theorem c06_total (c : Ctx) (p : Str) (cfg : Option Str) (pc : PathConf)
    (hpc : c.cfg.pathConf? cfg = some pc) (hwf : pathConfOk c.env pc = true)
    (hkt : ∀ label, (pc.resolver.lookup label).isSome →
       (c.cfg.sid.keyTypes.lookup (((Str.splitStr label c.cfg.sid.sep).head?).getD [])).isSome) :
    ∃ x, c.sidOfPath p cfg = .ok x :=
  Det.sidOfPath_total c p cfg pc hpc hwf hkt

end C06
