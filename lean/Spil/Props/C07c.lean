/-
  Spil.Props.C07c — C07 END TO END for query-free search expressions:
  `unfold_search(s)` returns exactly the narrowed typed searches the syntax denotes
  (`Spec.Denotes`: one per choice of alternative in every ',' list, aliases first replaced by
  their extensions, per template accepting the string once a single "/**" is replaced by 0..n
  levels of "/*" so that the result is a leaf type), without duplicates, and fails only with
  SpilException, exactly on the malformed expressions (`Spec.Malformed`).

  `type_narrow` is kept as the model function in the statements (its behaviour is C04's overlay;
  see `c07_narrow` in `Spil.Props.C07d` for the configured `key=~value` narrowing).

  Hypotheses, all needed (counterexamples in the final report / next to the stage theorems):
  * `hwf`  : the template table is conventional (`sidHierOk`), as in C07b;
  * `hal`  : the alias table is conventional (`aliasOk`);
  * `hnk`  : no narrowing is configured for the empty type name (model artefact: the untyped Sid
             has type `""` in the model and `None` in Python);
  * `hq`   : the expression is query-free;  `hc` : it is not a uri (`type:string`);
  * `hm`   : it does not contain the private sentinel `--start--` of `or_on_path` (C07a);
  * `hr`   : no plain string it stands for starts with "/*" (C07b, `c07_simple_typing_rootless`);
             decidable sufficient condition: `rootedB` (`c07_rooted`).
-/
import Spil.Spec.Denote
import Spil.Lemmas.DenoteMain
import Spil.Props.C07a

namespace C07

open Spec Ctx DenL

variable (c : Ctx)

/-- the decidable condition `rootedB` implies `Rooted` -/
theorem c07_rooted (hal : aliasOk c.cfg.sid = true) (s : Str) (h : rootedB s = true) : Rooted c s :=
  rooted_of_dec c hal s h

/-- a malformed expression (two "/**" in one alternative, or a "/**" whose root has no leaf key)
    raises SpilException -/
theorem c07_unfold_malformed (hwf : sidHierOk c.env c.cfg.sid.templates = true)
    (hal : aliasOk c.cfg.sid = true) (s : Str) (hq : '?' ∉ s) (hc : ':' ∉ s)
    (hm : Str.isInfix startMark s = false) (hr : Rooted c s) (hmal : Malformed c s) :
    c.unfoldSearch s false false = .error .spil :=
  (unfold_core c hwf hal s hq hc hm hr).1 hmal

/-- the ONLY errors: SpilException exactly on malformed expressions; on a well-formed expression
    `unfold_search` fails only if `type_narrow` fails on one of the denoted searches, with that error -/
theorem c07_unfold_errors (hwf : sidHierOk c.env c.cfg.sid.templates = true)
    (hal : aliasOk c.cfg.sid = true) (hnk : c.cfg.sid.typedNarrowing.lookup [] = none)
    (s : Str) (hq : '?' ∉ s) (hc : ':' ∉ s)
    (hm : Str.isInfix startMark s = false) (hr : Rooted c s)
    (e : Err) (h : c.unfoldSearch s false false = .error e) :
    (Malformed c s ∧ e = .spil) ∨
    (¬ Malformed c s ∧ ∃ y, Denotes c s y ∧ c.typeNarrow y = .error e) := by
  obtain ⟨h1, h2⟩ := unfold_core c hwf hal s hq hc hm hr
  by_cases hmal : Malformed c s
  · rw [h1 hmal] at h
    simp only [Except.error.injEq] at h
    exact Or.inl ⟨hmal, h.symm⟩
  · right
    refine ⟨hmal, ?_⟩
    obtain ⟨s3, hs3, _, herr, hok⟩ := h2 hmal
    cases hn : mapE c.typeNarrow s3 with
    | ok s4 => rw [hok s4 hn] at h; cases h
    | error e' =>
      rw [herr e' hn] at h
      simp only [Except.error.injEq] at h
      subst h
      obtain ⟨y, hy, hye⟩ := mapE_error _ _ _ hn
      rcases hs3 y hy with ⟨_, hd⟩ | hl
      · exact ⟨y, hd, hye⟩
      · rw [typeNarrow_leftover c hnk y hl] at hye; cases hye

/-- totality: a well-formed expression on whose denoted searches `type_narrow` succeeds unfolds -/
theorem c07_unfold_ok (hwf : sidHierOk c.env c.cfg.sid.templates = true)
    (hal : aliasOk c.cfg.sid = true) (hnk : c.cfg.sid.typedNarrowing.lookup [] = none)
    (s : Str) (hq : '?' ∉ s) (hc : ':' ∉ s)
    (hm : Str.isInfix startMark s = false) (hr : Rooted c s)
    (hmal : ¬ Malformed c s) (hn : ∀ y, Denotes c s y → ∃ x, c.typeNarrow y = .ok x) :
    ∃ r, c.unfoldSearch s false false = .ok r := by
  obtain ⟨s3, hs3, _, _, hok⟩ := (unfold_core c hwf hal s hq hc hm hr).2 hmal
  obtain ⟨s4, h4⟩ := mapE_total c.typeNarrow s3 (fun y hy => by
    rcases hs3 y hy with ⟨_, hd⟩ | hl
    · exact hn y hd
    · exact ⟨y, typeNarrow_leftover c hnk y hl⟩)
  exact ⟨_, hok s4 h4⟩

/-- a successful `unfold_search` was given a well-formed expression -/
theorem c07_unfold_wellformed (hwf : sidHierOk c.env c.cfg.sid.templates = true)
    (hal : aliasOk c.cfg.sid = true) (s : Str) (hq : '?' ∉ s) (hc : ':' ∉ s)
    (hm : Str.isInfix startMark s = false) (hr : Rooted c s)
    (r : List Sid) (h : c.unfoldSearch s false false = .ok r) : ¬ Malformed c s := by
  intro hmal
  rw [c07_unfold_malformed c hwf hal s hq hc hm hr hmal] at h
  cases h

/-- a successful `unfold_search` narrowed every denoted search successfully -/
theorem c07_unfold_narrows (hwf : sidHierOk c.env c.cfg.sid.templates = true)
    (hal : aliasOk c.cfg.sid = true) (s : Str) (hq : '?' ∉ s) (hc : ':' ∉ s)
    (hm : Str.isInfix startMark s = false) (hr : Rooted c s)
    (r : List Sid) (h : c.unfoldSearch s false false = .ok r) (y : Sid) (hd : Denotes c s y) :
    ∃ x, c.typeNarrow y = .ok x := by
  have hmal := c07_unfold_wellformed c hwf hal s hq hc hm hr r h
  obtain ⟨s3, _, hden, herr, _⟩ := (unfold_core c hwf hal s hq hc hm hr).2 hmal
  cases hn : mapE c.typeNarrow s3 with
  | error e => rw [herr e hn] at h; cases h
  | ok s4 => exact mapE_ok_all _ _ _ hn y (hden y hd)

/-- what the results are, in terms of the stages (used by the theorems below) -/
private theorem unfold_results (hwf : sidHierOk c.env c.cfg.sid.templates = true)
    (hal : aliasOk c.cfg.sid = true) (hnk : c.cfg.sid.typedNarrowing.lookup [] = none)
    (s : Str) (hq : '?' ∉ s) (hc : ':' ∉ s)
    (hm : Str.isInfix startMark s = false) (hr : Rooted c s)
    (r : List Sid) (h : c.unfoldSearch s false false = .ok r) :
    ∃ s4 : List Sid, r = (sortSids s4).filter keep ∧
      (∀ x, x ∈ s4 → keep x = true → ∃ y, Denotes c s y ∧ c.typeNarrow y = .ok x) ∧
      (∀ y x, Denotes c s y → c.typeNarrow y = .ok x → x ∈ s4) ∧
      (∀ x ∈ s4, NarrowOut c x ∨ Leftover x) := by
  have hmal := c07_unfold_wellformed c hwf hal s hq hc hm hr r h
  obtain ⟨s3, hs3, hden, herr, hok⟩ := (unfold_core c hwf hal s hq hc hm hr).2 hmal
  cases hn : mapE c.typeNarrow s3 with
  | error e => rw [herr e hn] at h; cases h
  | ok s4 =>
    rw [hok s4 hn] at h
    simp only [Except.ok.injEq] at h
    have hmem := mapE_ok_mem _ _ _ hn
    refine ⟨s4, h.symm, ?_, ?_, ?_⟩
    · intro x hx hk
      obtain ⟨y, hy, hyx⟩ := (hmem x).1 hx
      rcases hs3 y hy with ⟨_, hd⟩ | hl
      · exact ⟨y, hd, hyx⟩
      · rw [typeNarrow_leftover c hnk y hl] at hyx
        simp only [Except.ok.injEq] at hyx
        subst hyx
        simp [keep, leftover_untyped hl] at hk
    · intro y x hd hyx
      exact (hmem x).2 ⟨y, hden y hd, hyx⟩
    · intro x hx
      obtain ⟨y, hy, hyx⟩ := (hmem x).1 hx
      rcases hs3 y hy with ⟨ht, a, _, hd⟩ | hl
      · rcases typeNarrow_out c y x hyx with rfl | hout
        · left; left
          refine ⟨by simpa [Sid.typed] using ht, ?_⟩
          rcases hd with ⟨_, _, p, hp, _, rfl⟩ | ⟨_, _, _, _, p, hp, _, _, rfl⟩
          · exact ⟨p.2, hp⟩
          · exact ⟨p.2, hp⟩
        · exact Or.inl hout
      · rw [typeNarrow_leftover c hnk y hl] at hyx
        simp only [Except.ok.injEq] at hyx
        subst hyx
        exact Or.inr hl

/-- a kept Sid is typed by a configured type and its uri is `type:string` without '?' -/
private theorem keep_shape (x : Sid)
    (hs : NarrowOut c x ∨ Leftover x) (hk : keep x = true) :
    x.fields ≠ [] ∧ IsLabel c x.type ∧ '?' ∉ x.string := by
  simp only [keep, Bool.and_eq_true, Bool.not_eq_true', hasChar_false_iff] at hk
  rcases hs with (h | h) | h
  · exact ⟨h.1, h.2, hk.2⟩
  · have := hk.1
    simp [Sid.typed, h.1] at this
  · have := leftover_untyped h
    rw [hk.1] at this; cases this

/-- among the narrowed Sids, one that equals (has the uri of) a kept one is kept -/
private theorem keep_of_uri (hwf : sidHierOk c.env c.cfg.sid.templates = true) (x x' : Sid)
    (hs : NarrowOut c x ∨ Leftover x) (hs' : NarrowOut c x' ∨ Leftover x')
    (hk : keep x = true) (hu : x'.uri = x.uri) :
    keep x' = true ∧ x'.type = x.type ∧ x'.string = x.string := by
  obtain ⟨htab, _, _, hlab⟩ := HierL.hier_unpack _ _ hwf
  obtain ⟨hf, ⟨t, ht⟩, hq⟩ := keep_shape c x hs hk
  have hne : x.type ≠ [] := HierL.tableOk_label_ne _ _ htab _ ht
  have hcol := (hlab _ ht).1
  have hqt := (hlab _ ht).2
  have huri : x.uri = x.type ++ ':' :: x.string := by simp [Sid.uri, hne]
  simp only at hcol hqt
  rcases hs' with (⟨hf', ⟨t', ht'⟩⟩ | ⟨hf', hty', hstr⟩) | ⟨u, rfl, _, hcu⟩
  · have hne' : x'.type ≠ [] := HierL.tableOk_label_ne _ _ htab _ ht'
    obtain ⟨hty, hstr⟩ := C14.c14_uri_inj x' x (hlab _ ht').1 hcol (fun e => absurd e hne')
      (fun e => absurd e hne) hu
    refine ⟨?_, hty, hstr⟩
    simp only [keep, Bool.and_eq_true, Bool.not_eq_true', hasChar_false_iff, Sid.typed,
      List.isEmpty_eq_false_iff]
    exact ⟨hf', hstr ▸ hq⟩
  · exfalso
    have hu' : x'.uri = x'.string := by simp [Sid.uri, hty']
    rw [hu', huri] at hu
    rcases hstr with h0 | hqm
    · rw [h0] at hu
      have := congrArg List.length hu
      simp at this
    · rw [hu] at hqm
      simp only [List.mem_append, List.mem_cons] at hqm
      rcases hqm with h | h | h
      · exact hqt h
      · cases h
      · exact hq h
  · exfalso
    have hu' : (Sid.untyped u).uri = u := rfl
    rw [hu', huri] at hu
    apply hcu
    rw [hu]; simp

/-- SOUNDNESS: every result is the narrowing of a denoted typed search, typed and query-free -/
theorem c07_unfold_sound (hwf : sidHierOk c.env c.cfg.sid.templates = true)
    (hal : aliasOk c.cfg.sid = true) (hnk : c.cfg.sid.typedNarrowing.lookup [] = none)
    (s : Str) (hq : '?' ∉ s) (hc : ':' ∉ s)
    (hm : Str.isInfix startMark s = false) (hr : Rooted c s)
    (r : List Sid) (h : c.unfoldSearch s false false = .ok r) (x : Sid) (hx : x ∈ r) :
    ∃ y, Denotes c s y ∧ c.typeNarrow y = .ok x ∧ x.typed = true ∧ '?' ∉ x.string := by
  obtain ⟨s4, rfl, hsound, _, _⟩ := unfold_results c hwf hal hnk s hq hc hm hr r h
  obtain ⟨hx4, hk⟩ := List.mem_filter.1 hx
  obtain ⟨y, hd, hyx⟩ := hsound x (ExpL.mem_sortSids hx4) hk
  simp only [keep, Bool.and_eq_true, Bool.not_eq_true', hasChar_false_iff] at hk
  exact ⟨y, hd, hyx, hk.1, hk.2⟩

/-- COMPLETENESS: the narrowing of every denoted typed search, when typed and query-free, is among
    the results — as a Sid, i.e. up to Sid equality (`__eq__` compares uris; the results went
    through a Python `set`) -/
theorem c07_unfold_complete (hwf : sidHierOk c.env c.cfg.sid.templates = true)
    (hal : aliasOk c.cfg.sid = true) (hnk : c.cfg.sid.typedNarrowing.lookup [] = none)
    (s : Str) (hq : '?' ∉ s) (hc : ':' ∉ s)
    (hm : Str.isInfix startMark s = false) (hr : Rooted c s)
    (r : List Sid) (h : c.unfoldSearch s false false = .ok r)
    (y x : Sid) (hd : Denotes c s y) (hyx : c.typeNarrow y = .ok x)
    (ht : x.typed = true) (hxq : '?' ∉ x.string) :
    ∃ x' ∈ r, x'.uri = x.uri ∧ x'.type = x.type ∧ x'.string = x.string := by
  obtain ⟨s4, rfl, _, hcomp, hshape⟩ := unfold_results c hwf hal hnk s hq hc hm hr r h
  have hx4 := hcomp y x hd hyx
  have hk : keep x = true := by
    simp only [keep, Bool.and_eq_true, Bool.not_eq_true', hasChar_false_iff]
    exact ⟨ht, hxq⟩
  obtain ⟨x', hx', hu⟩ := ExpL.sortSids_cover s4 x hx4
  obtain ⟨hk', hty, hstr⟩ :=
    keep_of_uri c hwf x x' (hshape x hx4) (hshape x' (ExpL.mem_sortSids hx')) hk hu
  exact ⟨x', List.mem_filter.2 ⟨hx', hk'⟩, hu, hty, hstr⟩

/-- C07 END TO END, as a set of Sids (a Python set of Sids is a set of uris): the uris of the
    results are exactly the uris of the typed, query-free narrowings of the denoted searches -/
theorem c07_unfold_uris (hwf : sidHierOk c.env c.cfg.sid.templates = true)
    (hal : aliasOk c.cfg.sid = true) (hnk : c.cfg.sid.typedNarrowing.lookup [] = none)
    (s : Str) (hq : '?' ∉ s) (hc : ':' ∉ s)
    (hm : Str.isInfix startMark s = false) (hr : Rooted c s)
    (r : List Sid) (h : c.unfoldSearch s false false = .ok r) (u : Str) :
    u ∈ r.map Sid.uri ↔
      ∃ y x, Denotes c s y ∧ c.typeNarrow y = .ok x ∧ x.typed = true ∧ '?' ∉ x.string ∧ x.uri = u := by
  rw [List.mem_map]
  constructor
  · rintro ⟨x, hx, rfl⟩
    obtain ⟨y, hd, hyx, ht, hxq⟩ := c07_unfold_sound c hwf hal hnk s hq hc hm hr r h x hx
    exact ⟨y, x, hd, hyx, ht, hxq, rfl⟩
  · rintro ⟨y, x, hd, hyx, ht, hxq, rfl⟩
    obtain ⟨x', hx', hu, _⟩ := c07_unfold_complete c hwf hal hnk s hq hc hm hr r h y x hd hyx ht hxq
    exact ⟨x', hx', hu⟩

/-- the STRINGS of the results (what a Finder's star search is given): exactly the strings of the
    typed, query-free narrowings of the denoted searches -/
theorem c07_unfold_strings (hwf : sidHierOk c.env c.cfg.sid.templates = true)
    (hal : aliasOk c.cfg.sid = true) (hnk : c.cfg.sid.typedNarrowing.lookup [] = none)
    (s : Str) (hq : '?' ∉ s) (hc : ':' ∉ s)
    (hm : Str.isInfix startMark s = false) (hr : Rooted c s)
    (r : List Sid) (h : c.unfoldSearch s false false = .ok r) (p : Str) :
    p ∈ r.map (·.string) ↔
      ∃ y x, Denotes c s y ∧ c.typeNarrow y = .ok x ∧ x.typed = true ∧ '?' ∉ x.string ∧ x.string = p := by
  rw [List.mem_map]
  constructor
  · rintro ⟨x, hx, rfl⟩
    obtain ⟨y, hd, hyx, ht, hxq⟩ := c07_unfold_sound c hwf hal hnk s hq hc hm hr r h x hx
    exact ⟨y, x, hd, hyx, ht, hxq, rfl⟩
  · rintro ⟨y, x, hd, hyx, ht, hxq, rfl⟩
    obtain ⟨x', hx', _, _, hs⟩ := c07_unfold_complete c hwf hal hnk s hq hc hm hr r h y x hd hyx ht hxq
    exact ⟨x', hx', hs⟩

/-- no duplicates: no two results are equal as Sids (share a uri) -/
theorem c07_unfold_nodup (s : Str) (r : List Sid) (h : c.unfoldSearch s false false = .ok r) :
    r.Pairwise (fun a b => a.uri ≠ b.uri) := by
  unfold Ctx.unfoldSearch at h
  split at h
  · cases h
  · next xs hxs =>
    simp only [Bool.false_eq_true, if_false, Except.ok.injEq] at h
    subst h
    refine List.Pairwise.sublist List.filter_sublist ?_
    unfold Ctx.applyUnfolders at hxs
    split at hxs
    · cases hxs
    · split at hxs
      · cases hxs
      · split at hxs
        · cases hxs
        · split at hxs
          · cases hxs
          · simp only [Bool.not_false, if_true, Except.ok.injEq] at hxs
            subst hxs
            exact (c07_sort_nodup _).1

/-- two canonically typed Sids with the same uri are the same value -/
theorem wellTyped_uri_inj (hwf : sidHierOk c.env c.cfg.sid.templates = true) (x x' : Sid)
    (hx : wellTyped c.env c.cfg.sid.templates x) (hx' : wellTyped c.env c.cfg.sid.templates x')
    (hu : x'.uri = x.uri) : x' = x := by
  obtain ⟨htab, _, _, hlab⟩ := HierL.hier_unpack _ _ hwf
  obtain ⟨t, hl, _, _, hf⟩ := hx
  obtain ⟨t', hl', _, _, hf'⟩ := hx'
  have hm := SidL.mem_of_lookup _ _ _ hl
  have hm' := SidL.mem_of_lookup _ _ _ hl'
  have hne := HierL.tableOk_label_ne _ _ htab _ hm
  have hne' := HierL.tableOk_label_ne _ _ htab _ hm'
  obtain ⟨hty, hstr⟩ := C14.c14_uri_inj x' x (hlab _ hm').1 (hlab _ hm).1 (fun e => absurd e hne')
    (fun e => absurd e hne) hu
  rw [hty, hl] at hl'
  simp only [Option.some.injEq] at hl'
  subst hl'
  cases x; cases x'
  simp only at hty hstr hf hf'
  subst hty hstr
  rw [hf, hf']

/-- C07 END TO END, exact membership: when narrowing returns canonically typed Sids
    (`NarrowCanon`, discharged by `c07_narrow_canon` for the configured `key=~value` narrowing),
    `x ∈ unfold_search(s)` iff `x` is the typed, query-free narrowing of a denoted search -/
theorem c07_unfold_mem (hwf : sidHierOk c.env c.cfg.sid.templates = true)
    (hal : aliasOk c.cfg.sid = true) (hnk : c.cfg.sid.typedNarrowing.lookup [] = none)
    (s : Str) (hq : '?' ∉ s) (hc : ':' ∉ s)
    (hm : Str.isInfix startMark s = false) (hr : Rooted c s) (hcan : NarrowCanon c s)
    (r : List Sid) (h : c.unfoldSearch s false false = .ok r) (x : Sid) :
    x ∈ r ↔ ∃ y, Denotes c s y ∧ c.typeNarrow y = .ok x ∧ x.typed = true ∧ '?' ∉ x.string := by
  constructor
  · exact c07_unfold_sound c hwf hal hnk s hq hc hm hr r h x
  · rintro ⟨y, hd, hyx, ht, hxq⟩
    obtain ⟨x', hx', hu, _⟩ := c07_unfold_complete c hwf hal hnk s hq hc hm hr r h y x hd hyx ht hxq
    obtain ⟨y', hd', hyx', ht', hxq'⟩ := c07_unfold_sound c hwf hal hnk s hq hc hm hr r h x' hx'
    rw [← wellTyped_uri_inj c hwf x x' (hcan y x hd hyx ht hxq) (hcan y' x' hd' hyx' ht' hxq') hu]
    exact hx'

end C07
