/-
  Spil.Props.Tie — translation validation: the model's own re-computation of what
  `spil.conf.util`, `sid_conf_load` and `resolva` built must equal what the translator read from
  the live objects.  Re-decided by the kernel on every run against the regenerated DemoConf.
-/
import Spil.Generated.DemoConf
import Spil.Spec.Sid
import Spil.Spec.PathWF
import Spil.Lemmas.PathXL

open Generated

namespace Tie

def compiled (ts : List (Str × Template)) : List (Str × Re) := ts.map (fun p => (p.1, Template.compile p.2))
def formats (ts : List (Str × Template)) : List (Str × Str) := ts.map (fun p => (p.1, Template.formatStr p.2))
def keySetsOk (ts : List (Str × Template)) (ks : List (Str × List Str)) : Bool :=
  ts.length == ks.length &&
  (ts.zip ks).all (fun (t, k) => t.1 == k.1 && k.2.all (fun x => (Template.keys t.2).contains x)
    && (Template.keys t.2).all (fun x => k.2.contains x))

/-- the model of `resolva.template.construct_regular_expression`, run on the translated tokens,
    reproduces the regular expression resolva compiled (parsed from `regex.pattern`) -/
theorem compile_ok_sid : compiled demoSidTemplates = demoSidRegexes := by decide +kernel
theorem compile_ok_local : compiled demoPath_localTemplates = demoPath_localRegexes := by decide +kernel
theorem compile_ok_server : compiled demoPath_serverTemplates = demoPath_serverRegexes := by decide +kernel

/-- likewise for `construct_format_specification` -/
theorem format_ok_sid : formats demoSidTemplates = demoSidFormats := by decide +kernel
theorem format_ok_local : formats demoPath_localTemplates = demoPath_localFormats := by decide +kernel
theorem format_ok_server : formats demoPath_serverTemplates = demoPath_serverFormats := by decide +kernel

/-- and for the key sets -/
theorem keys_ok_sid : keySetsOk demoSidTemplates demoSidKeys = true := by decide +kernel
theorem keys_ok_local : keySetsOk demoPath_localTemplates demoPath_localKeys = true := by decide +kernel
theorem keys_ok_server : keySetsOk demoPath_serverTemplates demoPath_serverKeys = true := by decide +kernel

/-- duplicate-placeholder flags as Spil sets them: off for 'sid', on for path resolvers -/
theorem checkdup_ok : demoSidCheckDup = false ∧ demoPath_localCheckDup = true ∧ demoPath_serverCheckDup = true := by
  decide

/-- the model of `extrapolate_templates` followed by `pattern_replacing`, run on the raw
    `spil_sid_conf` values, reproduces the effective `spil.conf.sid_templates` -/
theorem extrapolate_ok :
    ConfUtil.patternReplacing
      (ConfUtil.extrapolateTemplates demoSidConf.sep demoRawTemplates demoToExtrapolate)
      demoRawKeyPatterns = demoEffectiveTemplates := by decide +kernel

/-- the effective templates are what the 'sid' Resolver was given -/
theorem patterns_ok : demoSidPatterns = demoEffectiveTemplates := by decide +kernel

/-- the shipped sid template table follows the documented conventions the generic theorems assume
    (placeholders separated by '/', slash-free group-free expressions that are free or
    newline-free, distinct keys, distinct non-empty plain labels, same key set ⇒ same key order,
    every level has a type) -/
theorem demo_wf : Spec.sidHierOk demoEnv demoConf.sid.templates = true := by decide +kernel

/-- the shipped path configurations use neither a typed mapping nor extra keys: the whole-code path
    model the driver runs (`Spil.Model.PathX`) is, on this configuration, the model the C05 / C06 /
    C11 theorems are about (`PathXL.sidOfPathX_eq`, `sidPathX_eq`, `pathToDictX_eq`) -/
theorem demo_paths_plain : PathXL.allPlain demoConf = true := by decide +kernel

/-- … so what the driver answers for `Sid(path=p, config=c)` and `sid.path(c)` under the shipped
    configuration is what the theorems speak about, for every path, Sid and configuration name -/
theorem demo_driver_paths (path : Str) (config : Option Str) (x : Sid) :
    (Ctx.mk demoConf demoEnv).sidOfPathX path config = (Ctx.mk demoConf demoEnv).sidOfPath path config ∧
    (Ctx.mk demoConf demoEnv).sidPathX config x = (Ctx.mk demoConf demoEnv).sidPath config x :=
  ⟨PathXL.sidOfPathX_eq _ demo_paths_plain path config, PathXL.sidPathX_eq _ demo_paths_plain config x⟩

/-- the shipped path configurations follow the conventions the deterministic-parse theorems assume
    (per '/'-free stretch at most one free placeholder, prefix-free vocabularies to its left,
    suffix-free ones to its right; '/'- and newline-free vocabularies; idempotent value mappings whose
    first word per sid value is acceptable (they are one-to-one here); acceptable defaults; unique
    labels) -/
theorem demo_path_wf_local : Spec.pathConfOk demoEnv demoPath_local = true := by decide +kernel
theorem demo_path_wf_server : Spec.pathConfOk demoEnv demoPath_server = true := by decide +kernel

/-- the shipped path templates are mutually exclusive in the order `resolve_first` tries them: no
    template matches a path that a LATER template renders from admissible concrete values
    (`Spec.tplExcl`: the pairs with equally many '/' are told apart by the folder `ASSETS` /
    `SHOTS`, by the extension vocabularies read from the right, or by `{task}` / `{state}` after
    the common prefix `{sequence}_{shot}_` of the file name) -/
theorem demo_paths_exclusive_local :
    Spec.pathsExclusive demoEnv demoConf.sid.searchSymbols demoPath_local = true := by decide +kernel
theorem demo_paths_exclusive_server :
    Spec.pathsExclusive demoEnv demoConf.sid.searchSymbols demoPath_server = true := by decide +kernel

/-- they are even exclusive in BOTH directions (the order of the templates does not matter) -/
theorem demo_paths_exclusive_both_local : demoPath_local.templates.all (fun a =>
    demoPath_local.templates.all (fun b =>
      a.1 == b.1 || Spec.tplExcl demoEnv demoConf.sid.searchSymbols a.2 b.2)) = true := by
  decide +kernel
theorem demo_paths_exclusive_both_server : demoPath_server.templates.all (fun a =>
    demoPath_server.templates.all (fun b =>
      a.1 == b.1 || Spec.tplExcl demoEnv demoConf.sid.searchSymbols a.2 b.2)) = true := by
  decide +kernel

/-- concreteness matters: as LANGUAGES the templates overlap (every vocabulary has `\*` and `\>`),
    e.g. `…/HAMLET/PROD/*` is matched by `asset` and by `shot` -/
theorem demo_paths_not_exclusive_with_symbols :
    Spec.pathsExclusive demoEnv [] demoPath_local = false := by decide +kernel

end Tie
