/-
  Spil.Props.C09b — C09 end to end: "for a search whose unfolded forms carry '>' at one position,
  find returns exactly one Sid per distinct combination of the segments before that position among
  the entries matching the search with '>' read as '*': the one whose remaining segments are
  greatest when compared segment by segment as strings.  The answer does not depend on which
  Finder serves it, nor on how many typed searches the expression unfolds into, and
  Sid.get_last(key) is the corresponding single answer (or the empty Sid)."

  `Spil.Props.C08` (namespace C09) proves the SELECTION `sortedPick`.  Here:
  (1) `c09_list`, `c09_find_in_list`: FindInList (no strip, '['-free: K2);
  (2) `c09_paths`, `c09_find_in_paths`: FindInPaths;
  (3) `c09_finder_independent`: on a tree that holds exactly a set of entities both Finders return
      the SAME LIST (the list Finder being given the entities of the searched types: K6);
  (4) `c09_find_in_all`, `c09_get_last`: FindInAll routed to one path Finder, and `Sid.get_last`.
  Vocabulary: `Spil.Spec.Gt` (`gtStar`, `GtAt`, `IsLastOf`, `PicksLast`, `ListMatch`, `PathMatch`,
  `lastKey`, `lastAnswer`).  The code takes the position `idx` of '>' from the FIRST search Sid
  only (`hidx`); the other searches enter through their '>' ↦ '*' reading.  Nothing below needs
  them to carry '>' at the same position: that premise of the property only serves its wording
  ("the segments before THAT position").
-/
import Spil.Lemmas.GtLast

namespace C09

open Spec Find GlobL

/-! ### (1) the list Finder -/

/-- the re-resolution hypothesis `hres` of `c09_list` from conditions on characters: re-resolving
    the uri of a search Sid with '>' ↦ '*' yields — whenever `Sid(...)` answers — a Sid whose
    string is the search's string with '>' ↦ '*'.  No '?' in the uri (`unfold_search` drops
    searches with an un-applied query), no ':' in the type, nor in the string when there is no
    type (a uri splits at its first ':') -/
theorem c09_strOfUri (c : Ctx) (s : Sid) (hq : '?' ∉ s.uri) (ht : ':' ∉ s.type)
    (hs : s.type.isEmpty = true → ':' ∉ s.string) (h : ∃ x, c.sidOfString (gtStar s.uri) = .ok x) :
    c.strOfUri (gtStar s.uri) = .ok (gtStar s.string) :=
  GtL.strOfUri_gtStar c s hq ht hs h

/-- LIST FINDER.  `searches = s0 :: rest` are the typed search Sids `do_find` receives; the first
    carries '>' as a whole segment at position `idx` (`hidx`; hence some search contains '>').
    Hypotheses: `hb` no search string contains '[' (`glob2re` is out of model then: K2);
    `hres` re-resolving each uri with '>' ↦ '*' gives the corresponding string (`c09_strOfUri`;
    without it the star search would run on another pattern, or `Sid(...)` raises).
    Then `do_find` answers `sortedPick idx M`, `M` the star-search matches of the '>' ↦ '*'
    searches, and that answer consists of the last one of each group of `ListMatch l searches`. -/
theorem c09_list (c : Ctx) (l : List Str) (s0 : Sid) (rest : List Sid) (idx : Nat)
    (hidx : GtAt idx s0.string)
    (hb : ∀ s ∈ s0 :: rest, '[' ∉ s.string)
    (hres : ∀ s ∈ s0 :: rest, c.strOfUri (gtStar s.uri) = .ok (gtStar s.string)) :
    ∃ M, starSearch c.env ⟨l, false⟩ ((s0 :: rest).map (fun s => gtStar s.string)) = .ok M ∧
      c.doFindGlob (starSearch c.env ⟨l, false⟩) (s0 :: rest) = .ok (sortedPick idx M) ∧
      PicksLast idx (ListMatch l (s0 :: rest)) (sortedPick idx M) := by
  obtain ⟨M, h1, h2, h3⟩ := GtL.list_gt c l s0 rest idx hidx _
    (GtL.mapE_eq_map _ (fun s => gtStar s.string) _ hres)
    (fun p hp => by
      obtain ⟨s, hs, rfl⟩ := List.mem_map.1 hp
      exact (GtL.bracket_gtStar _).2 (hb s hs))
  refine ⟨M, h1, h2, GtL.picksLast_sortedPick idx _ M (fun x => ?_)⟩
  rw [h3]
  simp only [ListMatch, List.mem_map]
  constructor
  · rintro ⟨hx, _, ⟨s, hs, rfl⟩, hg⟩; exact ⟨hx, s, hs, hg⟩
  · rintro ⟨hx, s, hs, hg⟩; exact ⟨hx, _, ⟨s, hs, rfl⟩, hg⟩

/-- the same for `FindInList(l).find(search)` on a search string, through `findSearches` -/
theorem c09_find_in_list (c : Ctx) (l : List Str) (search : Str) (s0 : Sid) (rest : List Sid)
    (idx : Nat) (hs : c.findSearches search = .ok (s0 :: rest))
    (hidx : GtAt idx s0.string)
    (hb : ∀ s ∈ s0 :: rest, '[' ∉ s.string)
    (hres : ∀ s ∈ s0 :: rest, c.strOfUri (gtStar s.uri) = .ok (gtStar s.string)) :
    ∃ r, c.findInList ⟨l, false⟩ search = .ok r ∧ PicksLast idx (ListMatch l (s0 :: rest)) r := by
  obtain ⟨M, _, h2, h3⟩ := c09_list c l s0 rest idx hidx hb hres
  exact ⟨_, by simp only [Ctx.findInList, hs, h2], h3⟩

/-- premise of the property not met: some search contains the character '>' but the FIRST search
    does not carry it as a whole segment (`hamlet/a/v>`): `segments.index('>')` raises ValueError,
    for every Finder built on `FindByGlob` -/
theorem c09_gt_not_segment (c : Ctx) (star : List Str → Except Err (List Str)) (s0 : Sid)
    (rest : List Sid) (hany : (s0 :: rest).any (fun x => Str.hasChar '>' x.string) = true)
    (hno : indexOfGt (Str.splitOn '/' s0.string) = none) :
    c.doFindGlob star (s0 :: rest) = .error .value := by
  simp only [Ctx.doFindGlob, List.isEmpty_cons, Bool.false_eq_true, if_false, hany, if_true,
    Ctx.sortedSearch, hno]

/-! ### (2) the path Finder -/

/-- the strings of the star searches the path Finder runs are the '>' ↦ '*' readings of the
    search strings (same character conditions as `c09_strOfUri`) -/
theorem c09_star_string (d : DCtx) (searches stars : List Sid)
    (hres : Ctx.mapE (fun x => d.resolveSearch (gtStar x.uri)) searches = .ok stars)
    (hch : ∀ s ∈ searches, '?' ∉ s.uri ∧ ':' ∉ s.type ∧ (s.type.isEmpty = true → ':' ∉ s.string)) :
    ∀ s' ∈ stars, ∃ s ∈ searches, d.resolveSearch (gtStar s.uri) = .ok s' ∧
      s'.string = gtStar s.string := by
  intro s' hs'
  obtain ⟨s, hs, h⟩ := (GtL.mapE_mem _ _ _ hres s').1 hs'
  obtain ⟨h1, h2, h3⟩ := hch s hs
  exact ⟨s, hs, h, GtL.sidOfString_gtStar_string d.ctx s s' h1 h2 h3 h⟩

/-- PATH FINDER.  `stars` are the searches re-resolved with '>' ↦ '*' (`hres`: none raises).
    Hypotheses as for `C11.c11_star_one`: `hsp` every star search has a path pattern (or its
    type has no path template and nothing is globbed by "None": `HasPattern`), `hgm` no '[' in
    its string (K2), `htot` `Sid(path=…)` raises on no node (C06: `C11.c11_total_of_wf`).
    Then `do_find` answers `sortedPick idx` of the strings of the Sids the star searches return
    (`rs`, one star search per re-resolved search), and that answer consists of the last one of
    each group of `PathMatch`: the existing Sids of the searched types matched by the search. -/
theorem c09_paths (d : DCtx) (w : World) (config : Option Str) (s0 : Sid) (rest : List Sid)
    (idx : Nat) (hidx : GtAt idx s0.string) (stars : List Sid)
    (hres : Ctx.mapE (fun x => d.resolveSearch (gtStar x.uri)) (s0 :: rest) = .ok stars)
    (hsp : ∀ s' ∈ stars, HasPattern d w config s')
    (hgm : ∀ s' ∈ stars, '[' ∉ s'.string)
    (htot : ∀ p ∈ w.nodes.map (·.1), ∃ x, d.ctx.sidOfPath p config = .ok x) :
    ∃ rs, Ctx.mapE (fun s' => d.pathsStarSids w config [s']) stars = .ok rs ∧
      d.pathsDoFind w config (s0 :: rest) = .ok (sortedPick idx (rs.flatten.map (·.string))) ∧
      PicksLast idx (PathMatch d w config stars) (sortedPick idx (rs.flatten.map (·.string))) := by
  obtain ⟨rs, h1, h2, h3⟩ := GtL.paths_gt d w config s0 rest idx hidx stars hres hsp hgm htot
  exact ⟨rs, h1, h2, GtL.picksLast_sortedPick idx _ _ h3⟩

/-- NOT ON THE SPLITTING: `sorted_search` runs one star search per re-resolved search; the answer
    is also the pick over what ONE star search over all of them returns (`R`), under the
    hypotheses of `C11.c11_star_list_mem` -/
theorem c09_paths_joint (d : DCtx) (w : World) (config : Option Str) (s0 : Sid) (rest : List Sid)
    (idx : Nat) (hidx : GtAt idx s0.string) (stars : List Sid)
    (hres : Ctx.mapE (fun x => d.resolveSearch (gtStar x.uri)) (s0 :: rest) = .ok stars)
    (hsp : ∀ s' ∈ stars, HasPattern d w config s')
    (hgm : ∀ s' ∈ stars, '[' ∉ s'.string)
    (htot : ∀ p ∈ w.nodes.map (·.1), ∃ x, d.ctx.sidOfPath p config = .ok x) :
    ∃ R, d.pathsStarSids w config stars = .ok R ∧
      d.pathsDoFind w config (s0 :: rest) = .ok (sortedPick idx (R.map (·.string))) := by
  have hsp' : ∀ s ∈ stars, ∃ po, d.ctx.sidPath config s = .ok po := fun s hs => by
    rcases hsp s hs with ⟨pat, h⟩ | ⟨h, _⟩
    · exact ⟨_, h⟩
    · exact ⟨_, h⟩
  obtain ⟨R, hR, _⟩ := C11.c11_star_list_mem d w config stars hsp' hgm htot
  obtain ⟨rs, hrs, h2, _⟩ := GtL.paths_gt d w config s0 rest idx hidx stars hres hsp hgm htot
  refine ⟨R, hR, ?_⟩
  rw [h2]
  congr 1
  apply C09.c09_pick_set
  intro y
  have := GtL.paths_joint d w config stars rs R hsp' hgm htot hrs hR
  simp only [List.mem_map, this]

/-- the same for `FindInPaths(config).find(search)` on a search string -/
theorem c09_find_in_paths (d : DCtx) (w : World) (config : Option Str) (search : Str) (s0 : Sid)
    (rest : List Sid) (idx : Nat) (hs : d.ctx.findSearches search = .ok (s0 :: rest))
    (hidx : GtAt idx s0.string) (stars : List Sid)
    (hres : Ctx.mapE (fun x => d.resolveSearch (gtStar x.uri)) (s0 :: rest) = .ok stars)
    (hsp : ∀ s' ∈ stars, HasPattern d w config s')
    (hgm : ∀ s' ∈ stars, '[' ∉ s'.string)
    (htot : ∀ p ∈ w.nodes.map (·.1), ∃ x, d.ctx.sidOfPath p config = .ok x) :
    ∃ r, d.findInPaths w config search = .ok r ∧ PicksLast idx (PathMatch d w config stars) r := by
  obtain ⟨rs, _, h2, h3⟩ := c09_paths d w config s0 rest idx hidx stars hres hsp hgm htot
  exact ⟨_, by simp only [DCtx.findInPaths, hs, h2], h3⟩

/-! ### (3) Finder independence -/

/-- the list Finder ignores the TYPE of a typed search (known finding K6): an entity of one
    searched type that the string of ANY star search matches is returned.  The path Finder returns
    it only if a star search OF ITS OWN TYPE matches it.  `TypesAgree` says the two coincide. -/
def TypesAgree (stars ents : List Sid) : Prop :=
  ∀ e ∈ ents, ∀ s' ∈ stars, Glob s'.string e.string → (∃ t ∈ stars, e.type = t.type) →
    ∃ t ∈ stars, e.type = t.type ∧ Glob t.string e.string

/-- it holds when all the star searches have the same string (one expression typed in several
    ways; in particular for a single search) -/
theorem typesAgree_of_same_string (stars ents : List Sid)
    (h : ∀ a ∈ stars, ∀ b ∈ stars, a.string = b.string) : TypesAgree stars ents := by
  rintro e _ s' hs' hg ⟨t, ht, hty⟩
  exact ⟨t, ht, hty, by rw [h t ht s' hs']; exact hg⟩

/-- FINDER INDEPENDENCE.  On a tree that holds exactly the entities `ents` plus junk (for every
    searched type: `StarOk`, the hypotheses of `C11.c11_paths_eq_list_whole`; or `NoPath` for a
    searched type without path template, which has no entities), FindInPaths and FindInList over
    the entities of the searched types (`GtL.entStrings`: K6) answer a '>' search with THE SAME
    LIST (same order: the selection sorts), which consists of the last one of each group of
    either reading.  (`StarOk`, `NoPath`: `Spil.Lemmas.GtPath`.) -/
theorem c09_finder_independent (d : DCtx) (w : World) (config : Option Str) (s0 : Sid)
    (rest : List Sid) (idx : Nat) (hidx : GtAt idx s0.string) (stars ents : List Sid)
    (hres : Ctx.mapE (fun x => d.resolveSearch (gtStar x.uri)) (s0 :: rest) = .ok stars)
    (hok : ∀ s' ∈ stars, StarOk d w config ents s' ∨ NoPath d w config ents s')
    (htot : ∀ p ∈ w.nodes.map (·.1), ∃ x, d.ctx.sidOfPath p config = .ok x)
    (hfix : ∀ pc, d.ctx.cfg.pathConf? config = some pc → starFixed pc = true)
    (hty : TypesAgree stars ents) :
    ∃ r, d.pathsDoFind w config (s0 :: rest) = .ok r ∧
      d.ctx.doFindGlob (starSearch d.ctx.env ⟨GtL.entStrings stars ents, false⟩) (s0 :: rest) = .ok r ∧
      PicksLast idx (PathMatch d w config stars) r ∧
      PicksLast idx (fun y => y ∈ GtL.entStrings stars ents ∧ ∃ s' ∈ stars, Glob s'.string y) r := by
  have hsp : ∀ s' ∈ stars, HasPattern d w config s' := fun s' hs' => by
    rcases hok s' hs' with h | h
    · obtain ⟨pat, hp, _⟩ := h.path; exact Or.inl ⟨pat, hp⟩
    · exact Or.inr ⟨h.none, h.noglob⟩
  have hgm : ∀ s' ∈ stars, '[' ∉ s'.string := fun s' hs' => by
    rcases hok s' hs' with h | h
    · exact h.nobracket
    · exact h.nobracket
  obtain ⟨rs, hrs, hp, hpm⟩ := GtL.paths_gt d w config s0 rest idx hidx _ hres hsp hgm htot
  obtain ⟨M, _, hl, hlm⟩ := GtL.list_gt d.ctx (GtL.entStrings stars ents) s0 rest idx hidx _
    (GtL.strOfUri_of_resolve d _ _ hres)
    (fun p hp => by obtain ⟨s', hs', rfl⟩ := List.mem_map.1 hp; exact hgm s' hs')
  have hset := GtL.paths_set d w config stars ents rs hrs hok hfix
  have hlm' : ∀ y, y ∈ M ↔ (y ∈ GtL.entStrings stars ents ∧ ∃ s' ∈ stars, Glob s'.string y) := by
    intro y
    rw [hlm]
    constructor
    · rintro ⟨h1, _, hp, hg⟩
      obtain ⟨s', hs', rfl⟩ := List.mem_map.1 hp
      exact ⟨h1, s', hs', hg⟩
    · rintro ⟨h1, s', hs', hg⟩
      exact ⟨h1, _, List.mem_map.2 ⟨s', hs', rfl⟩, hg⟩
  have heq : sortedPick idx M = sortedPick idx (rs.flatten.map (·.string)) := by
    apply C09.c09_pick_set
    intro y
    rw [hlm', hset, GtL.mem_entStrings]
    constructor
    · rintro ⟨⟨e, he, htt, rfl⟩, s', hs', hg⟩
      obtain ⟨t, ht, h1, h2⟩ := hty e he s' hs' hg htt
      exact ⟨t, ht, e, he, h1, h2, rfl⟩
    · rintro ⟨s', hs', e, he, h1, h2, rfl⟩
      exact ⟨⟨e, he, ⟨s', hs', h1⟩, rfl⟩, s', hs', h2⟩
  refine ⟨_, hp, by rw [hl, heq], GtL.picksLast_sortedPick idx _ _ hpm, ?_⟩
  rw [← heq]
  exact GtL.picksLast_sortedPick idx _ M hlm'

/-! ### (4) `FindInAll` routed to one path Finder, `Sid.get_last` -/

/-- `FindInAll().find(search)` when every typed search that `search` unfolds into is routed
    (`get_finder_for`) to the path Finder with index `i`: the answer of that Finder (`FindInAll`
    removes duplicates; the answer of a '>' search has none) -/
theorem c09_find_in_all (d : DCtx) (w : World) (search : Str) (s0 : Sid) (rest : List Sid)
    (i : Nat) (config : Option Str) (idx : Nat)
    (hu : d.ctx.unfoldSearch search false false = .ok (s0 :: rest))
    (hroute : ∀ s ∈ s0 :: rest, d.finderFor s = some i)
    (hfi : d.data.finders[i]? = some (.paths config))
    (hidx : GtAt idx s0.string) (stars : List Sid)
    (hres : Ctx.mapE (fun x => d.resolveSearch (gtStar x.uri)) (s0 :: rest) = .ok stars)
    (hsp : ∀ s' ∈ stars, HasPattern d w config s')
    (hgm : ∀ s' ∈ stars, '[' ∉ s'.string)
    (htot : ∀ p ∈ w.nodes.map (·.1), ∃ x, d.ctx.sidOfPath p config = .ok x) :
    ∃ r, d.findInAll w search = .ok r ∧ d.pathsDoFind w config (s0 :: rest) = .ok r ∧
      PicksLast idx (PathMatch d w config stars) r := by
  obtain ⟨rs, _, h2, h3⟩ := c09_paths d w config s0 rest idx hidx stars hres hsp hgm htot
  refine ⟨_, ?_, h2, h3⟩
  rw [GtL.findInAll_paths d w search _ i config _ hu hroute hfi h2, Lst.dedupBy_of_nodup _ h3.nodup]

/-- `Sid.get_last(key)`, for a typed Sid `x` (`hx`; for the empty / untyped Sid the answer is the
    empty Sid: `c09_get_last_empty`).  `sk` is the search Sid `x.get_with(key=k, value='>')` with
    `k = lastKey x key`; its string unfolds into `s0 :: rest`, all routed to the path Finder `i`
    (the routing case; otherwise hypotheses as in `c09_paths`).  Then with `r` the answer of that
    path Finder (2): `get_last` is `lastAnswer` of the FIRST element of `r`; `r` is empty iff no
    existing Sid matches; its first element matches and is at least EVERY matching Sid (not only
    those of its group: the picks are listed greatest first). -/
theorem c09_get_last (d : DCtx) (w : World) (x : Sid) (key : Option Str) (sk s0 : Sid)
    (rest : List Sid) (i : Nat) (config : Option Str) (idx : Nat)
    (hx : x.fields.isEmpty = false)
    (hk : d.ctx.getWithKw x [(lastKey x key, some ['>'])] = .ok sk)
    (hu : d.ctx.unfoldSearch sk.string false false = .ok (s0 :: rest))
    (hroute : ∀ s ∈ s0 :: rest, d.finderFor s = some i)
    (hfi : d.data.finders[i]? = some (.paths config))
    (hidx : GtAt idx s0.string) (stars : List Sid)
    (hres : Ctx.mapE (fun x => d.resolveSearch (gtStar x.uri)) (s0 :: rest) = .ok stars)
    (hsp : ∀ s' ∈ stars, HasPattern d w config s')
    (hgm : ∀ s' ∈ stars, '[' ∉ s'.string)
    (htot : ∀ p ∈ w.nodes.map (·.1), ∃ x, d.ctx.sidOfPath p config = .ok x) :
    ∃ r, d.pathsDoFind w config (s0 :: rest) = .ok r ∧
      PicksLast idx (PathMatch d w config stars) r ∧
      d.getLast w x key = lastAnswer d.ctx (lastKey x key) r.head? ∧
      (r = [] ↔ ¬ ∃ y, PathMatch d w config stars y) ∧
      ∀ y, r.head? = some y → PathMatch d w config stars y ∧
        ∀ z, PathMatch d w config stars z → segGe y z := by
  obtain ⟨rs, _, h2, hm⟩ := GtL.paths_gt d w config s0 rest idx hidx stars hres hsp hgm htot
  have h3 := GtL.picksLast_sortedPick idx _ _ hm
  have hall := GtL.findInAll_paths d w sk.string _ i config _ hu hroute hfi h2
  rw [Lst.dedupBy_of_nodup _ h3.nodup] at hall
  refine ⟨_, h2, h3, ?_, ?_, ?_⟩
  · rw [GtL.getLast_eq, hx]
    simp only [Bool.false_eq_true, if_false, hk, hall]
  · constructor
    · intro hr
      have := GtL.sortedPick_eq_nil idx _ hr
      rintro ⟨y, hy⟩
      rw [← hm, this] at hy
      cases hy
    · intro hn
      cases hr : sortedPick idx (rs.flatten.map (·.string)) with
      | nil => rfl
      | cons a t =>
        exact absurd ⟨a, ((h3.mem a).1 (by rw [hr]; simp)).1⟩ hn
  · intro y hy
    cases hr : sortedPick idx (rs.flatten.map (·.string)) with
    | nil => rw [hr] at hy; cases hy
    | cons a t =>
      rw [hr] at hy
      simp only [List.head?_cons, Option.some.injEq] at hy
      subst hy
      obtain ⟨g1, g2⟩ := GtL.head_sortedPick idx _ a t hr
      exact ⟨(hm a).1 g1, fun z hz => g2 z ((hm z).2 hz)⟩

/-- `get_last` of a Sid without fields is the empty Sid -/
theorem c09_get_last_empty (d : DCtx) (w : World) (x : Sid) (key : Option Str)
    (hx : x.fields.isEmpty = true) : d.getLast w x key = .ok Sid.empty := by
  rw [GtL.getLast_eq, hx]; rfl

/-- SINGLE ANSWER.  When the first `idx` segments of every star search are the same literal
    segments `K` (no `*`, `?`, `[`: as for `x.get_with(key='>')` of a Sid `x` that is not itself
    a search, '>' being the only wildcard before which everything is fixed), all matching entries
    form ONE group and the answer of the '>' search has at most one element -/
theorem c09_single_answer (idx : Nat) (stars : List Sid) (K : List Str) (P : Str → Prop)
    (r : List Str) (hr : PicksLast idx P r)
    (hP : ∀ y, P y → ∃ s' ∈ stars, Glob s'.string y)
    (hK : ∀ s' ∈ stars, (Str.splitOn '/' s'.string).take idx = K)
    (hlit : ∀ seg ∈ K, '*' ∉ seg ∧ '?' ∉ seg ∧ '[' ∉ seg) : r.length ≤ 1 := by
  apply GtL.PicksLast.length_le_one hr
  have hkey : ∀ a, P a → groupKey idx a = K := by
    intro a ha
    obtain ⟨s', hs', hg⟩ := hP a ha
    rw [GtL.groupKey_of_glob idx _ a hg (by rw [hK s' hs']; exact hlit), hK s' hs']
  intro a b ha hb
  rw [hkey a ha, hkey b hb]

/-- `PathMatch` entries are matched by the string of a star search (for `c09_single_answer`) -/
theorem c09_pathMatch_glob (d : DCtx) (w : World) (config : Option Str) (stars : List Sid) (y : Str)
    (h : PathMatch d w config stars y) : ∃ s' ∈ stars, Glob s'.string y := by
  obtain ⟨s', hs', _, _, _, _, x, _, _, _, hg, rfl⟩ := h
  exact ⟨s', hs', hg⟩

end C09
