/-
  Spil.Props.C07b — typing of search strings: `simple_typing` takes EVERY template that accepts
  the string; `expand` replaces a single "/**" by exactly the numbers of "/*" levels that complete
  the string to a LEAF type (a template ending in the leaf key of the root's basetype).
  For every well-formed template table and every query-free search string.
-/
import Spil.Spec.Unfold
import Spil.Lemmas.Sid
import Spil.Lemmas.Expand

namespace C07

open Spec

variable (c : Ctx)

/-- a typed plain Sid is the typed search of the (first) template accepting its string -/
private theorem plain_typed (x : Sid) (s : Str) (hx : x ∈ [ExpL.plainOf c s]) (ht : x.typed = true) :
    ∃ p ∈ c.cfg.sid.templates, accepts c.env p.2 s = true ∧ s ≠ [] ∧ x = typedAs p.1 p.2 s := by
  simp only [List.mem_singleton] at hx
  subst hx
  unfold ExpL.plainOf at ht ⊢
  by_cases hs : s = []
  · subst hs; simp [Sid.empty, Sid.typed] at ht
  · have hs' : s.isEmpty = false := by simp [hs]
    simp only [hs', Bool.false_eq_true, if_false] at ht ⊢
    unfold plainSid at ht ⊢
    cases hf : firstAccepting c.env c.cfg.sid.templates s with
    | none => simp [hf, Sid.untyped, Sid.typed] at ht
    | some q =>
      obtain ⟨l, t⟩ := q
      obtain ⟨hmem, hacc⟩ := SidL.firstAccepting_some _ _ _ _ _ hf
      exact ⟨(l, t), hmem, hacc, hs, rfl⟩

/-- `simple_typing`: the typed results are exactly the Sids `type:string` for the templates that
    accept the string (untyped leftovers are removed later by `unfold_search`) -/
-- CHANGED: added `hr` (the string does not START with "/*").  `simple_typing` first types the text
-- before the first "/*"; when that root is empty (`Sid("")` has no basetype) it falls back to
-- `[Sid(s)]`, i.e. only the FIRST accepting template.  Counterexample (evaluated in the model):
-- templates a = `{k1}`, b = `{k1}/{k2}`, c = `{k1}/{k3}` (all `[^/]*`, `sidHierOk` holds), s = "/*":
-- b and c both accept "/*" (empty first segment) but `simpleTyping "/*" = [b:/*]`, so the `←`
-- direction fails for `c:/*`.  What happens for such strings is `c07_simple_typing_rootless` below.
theorem c07_simple_typing (hwf : sidHierOk c.env c.cfg.sid.templates = true)
    (s : Str) (hq : '?' ∉ s) (hc : ':' ∉ s) (hr : ¬ ['/', '*'] <+: s)
    (r : List Sid) (h : c.simpleTyping s = .ok r) (x : Sid) :
    (x ∈ r ∧ x.typed = true) ↔
      ∃ p ∈ c.cfg.sid.templates, accepts c.env p.2 s = true ∧ s ≠ [] ∧ x = typedAs p.1 p.2 s := by
  obtain ⟨htab, _, _, _⟩ := HierL.hier_unpack _ _ hwf
  obtain ⟨a, hs, heq⟩ := ExpL.simpleTyping_eq c hwf s hq hc
  rw [heq] at h
  simp only [Except.ok.injEq] at h
  subst h
  constructor
  · rintro ⟨hx, ht⟩
    cases hb : c.basetype (ExpL.plainOf c a) with
    | none => rw [hb] at hx; exact plain_typed c x s hx ht
    | some bt =>
      rw [hb] at hx
      simp only at hx
      split at hx
      · exact plain_typed c x s hx ht
      · have hx' := ExpL.mem_sortSids hx
        simp only [List.mem_map] at hx'
        obtain ⟨⟨l, d⟩, _, rfl⟩ := hx'
        obtain ⟨t, hmem, hne, hacc, he⟩ := ExpL.forcedSid_typed c l s ht
        exact ⟨(l, t), hmem, hacc, hne, he⟩
  · rintro ⟨p, hp, hacc, hne, rfl⟩
    have htyped : (typedAs p.1 p.2 s).typed = true := by
      have := SidL.fieldsOf_ne_nil p.2 s (SidL.tplOk_unpack _ _ (SidL.tableOk_unpack _ _ htab p hp).1).2.2.1
      simpa [typedAs, Sid.typed] using this
    refine ⟨?_, htyped⟩
    cases hb : c.basetype (ExpL.plainOf c a) with
    | none =>
      exfalso
      rcases hs with rfl | ⟨b, rfl⟩
      · obtain ⟨bt, hbt⟩ := ExpL.plainOf_basetype c htab a hne p hp hacc
        rw [hbt] at hb; exact absurd hb (by simp)
      · have ha : a ≠ [] := by
          rintro rfl
          exact hr ⟨b, by simp⟩
        obtain ⟨p', hp', hacc'⟩ := ExpL.accepts_root c hwf a ('*' :: b) p hp (by simpa using hacc)
        obtain ⟨bt, hbt⟩ := ExpL.plainOf_basetype c htab a ha p' hp' hacc'
        rw [hbt] at hb; exact absurd hb (by simp)
    | some bt =>
      simp only
      have hmem : typedAs p.1 p.2 s ∈
          (ExpL.lenM c s).map (fun q => forcedSid c.env c.cfg.sid.templates q.1 s) := by
        rw [List.mem_map]
        exact ⟨_, ExpL.lenM_of_accepts c htab s hne p hp hacc, ExpL.forcedSid_of_accepts c htab p hp s hne hacc⟩
      split
      · next he =>
        rw [List.isEmpty_iff] at he
        rw [he] at hmem
        simp at hmem
      · apply ExpL.mem_sortSids_of_unique _ _ hmem
        intro y hy huri
        simp only [List.mem_map] at hy
        obtain ⟨⟨l', d'⟩, _, rfl⟩ := hy
        exact ExpL.forced_unique c htab p hp s l' huri

/-- a string that starts with "/*" has an empty root: `simple_typing` returns `[Sid(s)]`, the first
    accepting template only (the case excluded from `c07_simple_typing`) -/
theorem c07_simple_typing_rootless (hwf : sidHierOk c.env c.cfg.sid.templates = true)
    (b : Str) (hq : '?' ∉ b) (hc : ':' ∉ b) :
    c.simpleTyping ('/' :: '*' :: b) = .ok [plainSid c.env c.cfg.sid.templates ('/' :: '*' :: b)] := by
  have hq' : '?' ∉ '/' :: '*' :: b := by simp [hq]
  have hc' : ':' ∉ '/' :: '*' :: b := by simp [hc]
  obtain ⟨htab, _, _, _⟩ := HierL.hier_unpack _ _ hwf
  unfold Ctx.simpleTyping
  simp only [Str.split1_none '?' _ hq']
  have hroot : (Str.splitStr ('/' :: '*' :: b) ['/', '*']).head?.getD [] = [] := by
    simp [Str.splitStr, Str.splitStrGo]
  simp only [hroot]
  have h0 : c.sidOfString [] = .ok Sid.empty := rfl
  have hb : c.basetype Sid.empty = none := rfl
  simp only [h0, hb, C01.c01_plain c htab _ (by simp) hc' hq']
  rfl

/-- `simple_typing` never fails on a query-free string -/
theorem c07_simple_typing_total (hwf : sidHierOk c.env c.cfg.sid.templates = true)
    (s : Str) (hq : '?' ∉ s) (hc : ':' ∉ s) :
    ∃ r, c.simpleTyping s = .ok r := by
  obtain ⟨a, _, heq⟩ := ExpL.simpleTyping_eq c hwf s hq hc
  exact ⟨_, heq⟩

/-- `expand` (soundness): every typed result is `type:filled` for some number `k ≥ 0` of "/*"
    levels and some LEAF template accepting the filled string -/
theorem c07_expand_sound (hwf : sidHierOk c.env c.cfg.sid.templates = true)
    (s : Str) (hq : '?' ∉ s) (hc : ':' ∉ s)
    (h1 : Str.count s ['/', '*', '*'] = 1)
    (r : List Sid) (h : c.expand s false = .ok r) (x : Sid) (hx : x ∈ r) (ht : x.typed = true) :
    ∃ k, ∃ p ∈ c.cfg.sid.templates, ∃ rootSid bt lk,
      c.sidOfString (rootOf s) = .ok rootSid ∧ c.basetype rootSid = some bt ∧
      c.cfg.sid.leafKey (some bt) = some lk ∧ (keysOf p.2).getLast? = some lk ∧
      accepts c.env p.2 (fill s k) = true ∧ x = typedAs p.1 p.2 (fill s k) := by
  obtain ⟨htab, _, _, _⟩ := HierL.hier_unpack _ _ hwf
  obtain ⟨hroot, hsp⟩ := ExpL.expand_spec c hwf s hq hc h1
  rcases hsp with he | ⟨bt, lk, st, hbt, hlk, he, hinv, _, _, _⟩
  · rw [he] at h; exact absurd h (by simp)
  · rw [he] at h
    simp only [Except.ok.injEq] at h
    subst h
    obtain ⟨u, hu, l, d, hd, hcond, rfl⟩ := hinv.result_sound x (ExpL.mem_sortSids hx)
    obtain ⟨k, rfl⟩ := hinv.tested_fill u hu
    obtain ⟨t, hmem, _, hacc, hx'⟩ := ExpL.forcedSid_typed c l (fill s k) ht
    refine ⟨k, (l, t), hmem, _, bt, lk, hroot, hbt, hlk, ?_, hacc, hx'⟩
    obtain ⟨_, t', ht', m, _, hacc', rfl⟩ := ExpL.lenM_inv c htab _ _ _ hd
    have := ExpL.tpl_unique c htab l t' t ht' hmem
    subst this
    simp only [ExpL.cond, Bool.and_eq_true, beq_iff_eq] at hcond
    rw [← ExpL.fieldsOf_last c.env t' m hacc']
    exact hcond.2

/-- `expand` (completeness): every leaf template that accepts the string filled with some number
    of levels contributes its typed search -/
theorem c07_expand_complete (hwf : sidHierOk c.env c.cfg.sid.templates = true)
    (s : Str) (hq : '?' ∉ s) (hc : ':' ∉ s)
    (h1 : Str.count s ['/', '*', '*'] = 1)
    (r : List Sid) (h : c.expand s false = .ok r)
    (rootSid : Sid) (bt lk : Str) (hroot : c.sidOfString (rootOf s) = .ok rootSid)
    (hbt : c.basetype rootSid = some bt) (hlk : c.cfg.sid.leafKey (some bt) = some lk)
    (k : Nat) (p : Str × Template) (hp : p ∈ c.cfg.sid.templates)
    (hleaf : (keysOf p.2).getLast? = some lk) (hacc : accepts c.env p.2 (fill s k) = true) :
    ∃ y ∈ r, y.uri = (typedAs p.1 p.2 (fill s k)).uri := by
  obtain ⟨htab, _, _, _⟩ := HierL.hier_unpack _ _ hwf
  obtain ⟨hroot', hsp⟩ := ExpL.expand_spec c hwf s hq hc h1
  rcases hsp with he | ⟨bt', lk', st, hbt', hlk', he, hinv, hall, hcount, hne⟩
  · rw [he] at h; exact absurd h (by simp)
  · rw [he] at h
    simp only [Except.ok.injEq] at h
    subst h
    rw [hroot'] at hroot
    simp only [Except.ok.injEq] at hroot
    subst hroot
    rw [hbt'] at hbt
    simp only [Option.some.injEq] at hbt
    subst hbt
    rw [hlk'] at hlk
    simp only [Option.some.injEq] at hlk
    subst hlk
    have htpl := (SidL.tableOk_unpack _ _ htab p hp).1
    have hmem := ExpL.lenM_of_accepts c htab (fill s k) (hne k) p hp hacc
    have htest : fill s k ∈ st.tested := by
      rw [hcount p hp k _ hmem]
      apply hall p hp
      rw [(ExpL.tplKeysLen_ok c.env p.2 htpl).2.1, hleaf]
      simp
    have hcond : ExpL.cond (some lk') (fieldsOf p.2 (fill s k)) = true := by
      have hf := SidL.fieldsOf_ne_nil p.2 (fill s k) (SidL.tplOk_unpack _ _ htpl).2.2.1
      simp only [ExpL.cond, Bool.and_eq_true, beq_iff_eq, Bool.not_eq_true', List.isEmpty_eq_false_iff]
      exact ⟨hf, by rw [ExpL.fieldsOf_last c.env p.2 _ hacc, hleaf]⟩
    have hres := hinv.result_complete _ htest _ _ hmem hcond
    rw [ExpL.forcedSid_of_accepts c htab p hp _ (hne k) hacc] at hres
    exact ExpL.sortSids_cover _ _ hres

/-- the only error `expand` raises on a query-free string is SpilException, and exactly for more
    than one "/**", an untypable root, or a basetype without leaf key -/
theorem c07_expand_errors (hwf : sidHierOk c.env c.cfg.sid.templates = true)
    (s : Str) (hq : '?' ∉ s) (hc : ':' ∉ s)
    (h1 : 1 ≤ Str.count s ['/', '*', '*']) :
    (∃ r, c.expand s false = .ok r) ∨ c.expand s false = .error .spil := by
  by_cases h : Str.count s ['/', '*', '*'] = 1
  · rcases (ExpL.expand_spec c hwf s hq hc h).2 with he | ⟨_, _, st, _, _, he, _⟩
    · exact Or.inr he
    · exact Or.inl ⟨_, he⟩
  · right
    have h2 : Str.count s ['/', '*', '*'] > 1 := by omega
    have h0 : (Str.count s ['/', '*', '*'] == 0) = false := by
      simp only [beq_eq_false_iff_ne]; omega
    unfold Ctx.expand
    simp [h0, h2]

/-- a string without "/**" is typed by `simple_typing` -/
theorem c07_expand_plain (s : Str) (h0 : Str.count s ['/', '*', '*'] = 0) (b : Bool) :
    c.expand s b = c.simpleTyping s := by
  unfold Ctx.expand
  simp [h0]

end C07
