/-
  Spil.Props.C15 — "Created entities exist, and attribute data reads back what was written"
  Spil.Props.C12 — (file-system half) "whatever exists has an existing parent"; exists / children
  Spil.Props.C16 — "A Getter returns one record per Sid its Finder finds, in the same order"
  Spil.Props.C11 — (junk half) non-conform files never change a FindInPaths result

  Theorems about the abstract file tree of `Spil/Model/FS.lean`, for EVERY world, history of
  writer operations, Sid, attribute dictionary and configuration.
-/
import Spil.Spec.FS
import Spil.Lemmas.FS

namespace C15

open Spec World

variable (d : DCtx)

/-- `mkdir -p` keeps the tree well formed, creates the directory, and removes nothing -/
theorem c15_mkdirP (w w' : World) (p : Str) (hp : CanonPath p) (ht : TreeOk w)
    (h : w.mkdirP p = .ok w') :
    TreeOk w' ∧ w'.kind? p = some Node.dir ∧ (∀ q k, w.kind? q = some k → w'.kind? q = some k) ∧
    w'.sidecars = w.sidecars := by
  obtain ⟨cs, hne, hok, rfl⟩ := hp
  exact FSL.mkdirP_canon cs hne hok w w' ht h

/-- `touch` after creating the parents: same, for a file -/
theorem c15_touchP (w w' : World) (p : Str) (hp : CanonPath p) (ht : TreeOk w)
    (h : w.touchP p = .ok w') :
    TreeOk w' ∧ w'.pathExists p = true ∧ (∀ q k, w.kind? q = some k → w'.kind? q = some k) ∧
    w'.sidecars = w.sidecars := by
  obtain ⟨cs, hne, hok, rfl⟩ := hp
  exact FSL.touchP_canon cs hne hok w w' ht h

/-- creating an existing entity, or one without a path, fails with SpilException -/
theorem c15_create_errors (w : World) (config : Option Str) (sid : Str) (attrs : Option Dict) (x : Sid)
    (hx : d.ctx.sidOfString sid = .ok x) :
    (d.ctx.sidPath config x = .ok none → d.create w config sid attrs = .error .spil) ∧
    (∀ path, d.ctx.sidPath config x = .ok (some path) → w.pathExists path = true →
       d.create w config sid attrs = .error .spil) := by
  unfold DCtx.create
  rw [hx]
  exact ⟨fun h => by simp [h], fun path h he => by simp [h, he]⟩

/-- updating a non-existing entity, or one without a path, fails with SpilException -/
theorem c15_update_errors (w : World) (config : Option Str) (sid : Str) (attrs : Dict) (x : Sid)
    (hx : d.ctx.sidOfString sid = .ok x) :
    (d.ctx.sidPath config x = .ok none → d.update w config sid attrs = .error .spil) ∧
    (∀ path, d.ctx.sidPath config x = .ok (some path) → w.pathExists path = false →
       d.update w config sid attrs = .error .spil) := by
  unfold DCtx.update
  rw [hx]
  exact ⟨fun h => by simp [h], fun path h he => by simp [h, he]⟩

/-- a successful create makes the entity's path exist, keeps everything that existed, and keeps
    the tree well formed (so every ancestor directory exists too) -/
theorem c15_create_ok (w w' : World) (config : Option Str) (sid : Str) (attrs : Option Dict) (x : Sid) (path : Str) (b : Bool)
    (hx : d.ctx.sidOfString sid = .ok x) (hpth : d.ctx.sidPath config x = .ok (some path))
    (hp : CanonPath path) (ht : TreeOk w) (h : d.create w config sid attrs = .ok (w', b)) :
    TreeOk w' ∧ w'.pathExists path = true ∧ (∀ q k, w.kind? q = some k → w'.kind? q = some k) := by
  unfold DCtx.create at h
  rw [hx] at h
  simp only [hpth] at h
  split at h
  · cases h
  · have key : ∀ w1, (if (!(PurePath.suffix path).isEmpty) = true then w.touchP path else w.mkdirP path) = .ok w1 →
        TreeOk w1 ∧ w1.pathExists path = true ∧ (∀ q k, w.kind? q = some k → w1.kind? q = some k) := by
      intro w1 h1
      split at h1
      · obtain ⟨a, b, c, _⟩ := c15_touchP w w1 path hp ht h1
        exact ⟨a, b, c⟩
      · obtain ⟨a, b, c, _⟩ := c15_mkdirP w w1 path hp ht h1
        exact ⟨a, by unfold World.pathExists; rw [b]; rfl, c⟩
    split at h
    · cases h
    · next w1 h1 =>
      obtain ⟨t1, e1, p1⟩ := key w1 h1
      have hwr : ∀ at', (d.writeData w1 path at').map (fun w => (w, true)) = .ok (w', b) →
          TreeOk w' ∧ w'.pathExists path = true ∧ (∀ q k, w.kind? q = some k → w'.kind? q = some k) := by
        intro at' h2
        cases h3 : d.writeData w1 path at' with
        | error e => rw [h3] at h2; cases h2
        | ok w2 =>
          rw [h3] at h2
          cases h2
          have hn := FSL.writeData_nodes d w1 w' path at' h3
          refine ⟨FSL.treeOk_of_nodes_eq w1 w' hn t1, ?_, fun q k hq => ?_⟩
          · unfold World.pathExists at *; rw [FSL.kind_of_nodes_eq w1 w' hn]; exact e1
          · rw [FSL.kind_of_nodes_eq w1 w' hn]; exact p1 q k hq
      split at h
      · split at h
        · cases h; exact ⟨t1, e1, p1⟩
        · exact hwr _ h
      · cases h; exact ⟨t1, e1, p1⟩

/-- writing attributes: the sidecar of `path` afterwards holds the previous data overlaid with the
    new attributes (`dict.update`), every other sidecar and the tree are untouched -/
theorem c15_write (w w' : World) (path : Str) (attrs : Dict) (h : d.writeData w path attrs = .ok w') :
    w'.nodes = w.nodes ∧
    (∃ prev, (w.sidecars.lookup (d.sidecarPath path) = some (.data prev) ∨
              (w.sidecars.lookup (d.sidecarPath path) = none ∧ prev = [])) ∧
       w'.sidecars.lookup (d.sidecarPath path) = some (.data (Dict.update prev attrs))) ∧
    (∀ q, q ≠ d.sidecarPath path → w'.sidecars.lookup q = w.sidecars.lookup q) := by
  unfold DCtx.writeData at h
  simp only at h
  split at h
  · cases h
  · next prev hprev =>
    cases h
    refine ⟨rfl, ⟨prev, Or.inl hprev, ?_⟩, ?_⟩
    · simp only
      rw [FSL.lookup_map_replace]
      simp [hprev]
    · intro q hq
      simp only
      rw [FSL.lookup_map_replace]
      simp [hq]
  · next hnone =>
    cases h
    refine ⟨rfl, ⟨[], Or.inr ⟨hnone, rfl⟩, ?_⟩, ?_⟩
    · simp [List.lookup_append, hnone]
    · intro q hq
      have : (q == d.sidecarPath path) = false := by simpa using hq
      simp [List.lookup_append, List.lookup_cons, this]

/-- `dict.update`: later values replace earlier ones, other keys persist -/
theorem c15_overlay (prev attrs : Dict) (k : Str) :
    (Dict.update prev attrs).get k =
      match (attrs.reverse.lookup k) with
      | some v => some v
      | none => prev.get k := by
  exact FSL.get_update prev attrs k

/-- writing fails only on a sidecar that does not decode -/
theorem c15_write_fails (w : World) (path : Str) (attrs : Dict) :
    (∃ e, d.writeData w path attrs = .error e) ↔ w.sidecars.lookup (d.sidecarPath path) = some .corrupt := by
  unfold DCtx.writeData
  simp only
  constructor
  · rintro ⟨e, he⟩
    split at he
    · assumption
    · cases he
    · cases he
  · intro h
    rw [h]
    exact ⟨_, rfl⟩

/-- reading back: after a successful write the data read for the same path is the overlay (plus
    the `sid` entry decided by `sid_encode`) -/
theorem c15_read_back (w w' : World) (config : Option Str) (x : Sid) (path : Str) (attrs : Dict)
    (hpth : d.ctx.sidPath config x = .ok (some path)) (h : d.writeData w path attrs = .ok w') :
    ∃ prev, d.getData w' config x [] .none = .ok ((Dict.update prev attrs).map (fun p => (p.1, some p.2))) ∧
      (w.sidecars.lookup (d.sidecarPath path) = some (.data prev) ∨
       (w.sidecars.lookup (d.sidecarPath path) = none ∧ prev = [])) := by
  obtain ⟨_, ⟨prev, hprev, hlk⟩, _⟩ := c15_write d w w' path attrs h
  refine ⟨prev, ?_, hprev⟩
  unfold DCtx.getData
  simp only [hpth, hlk, List.isEmpty_nil, if_true]

/-- where two paths share a sidecar: same directory and same name up to the last suffix -/
theorem c15_sidecar_eq (p q : Str) (hp : CanonPath p) (hq : CanonPath q) :
    d.sidecarPath p = d.sidecarPath q ↔
      ((Str.splitOn '/' p).dropLast = (Str.splitOn '/' q).dropLast ∧
       stem ('.' :: PurePath.name p) = stem ('.' :: PurePath.name q)) := by
  obtain ⟨cs, hne, hok, rfl⟩ := hp
  obtain ⟨cs2, hne2, hok2, rfl⟩ := hq
  obtain ⟨a, c, rfl⟩ := FSL.snoc_of_ne_nil cs hne
  obtain ⟨b, e, rfl⟩ := FSL.snoc_of_ne_nil cs2 hne2
  show d.sidecarPath (FSL.canon (a ++ [c])) = d.sidecarPath (FSL.canon (b ++ [e])) ↔
    ((Str.splitOn '/' (FSL.canon (a ++ [c]))).dropLast = (Str.splitOn '/' (FSL.canon (b ++ [e]))).dropLast ∧
     stem ('.' :: PurePath.name (FSL.canon (a ++ [c]))) = stem ('.' :: PurePath.name (FSL.canon (b ++ [e]))))
  rw [FSL.sidecarPath_eq_iff d a b c e hok hok2, FSL.dropLast_splitOn_canon_snoc a c hok,
    FSL.dropLast_splitOn_canon_snoc b e hok2, FSL.name_canon_snoc a c hok, FSL.name_canon_snoc b e hok2]
  simp

end C15

namespace C12

open Spec World

variable (d : DCtx)

/-- whatever exists has an existing parent: the tree invariant holds after EVERY history of writer
    operations starting from the empty tree, provided the entity paths are canonical -/
theorem c12_parent_exists (ops : List WOp)
    (hcanon : ∀ config x path, d.ctx.sidPath config x = .ok (some path) → CanonPath path) :
    TreeOk (runOps d World.empty ops) := by
  have gen : ∀ (ops : List WOp) (w : World), TreeOk w → TreeOk (runOps d w ops) := by
    intro ops
    induction ops with
    | nil => intro w hw; exact hw
    | cons op rest ih =>
      intro w hw
      cases op with
      | create c s a =>
        simp only [runOps]
        split
        · next w' b hc =>
          apply ih
          have hc' := hc
          unfold DCtx.create at hc'
          split at hc'
          · cases hc'
          · next x hx =>
            split at hc'
            · cases hc'
            · cases hc'
            · next path hpth =>
              exact (C15.c15_create_ok d w w' c s a x path b hx hpth (hcanon c x path hpth) hw hc).1
        · exact ih w hw
      | update c s a =>
        simp only [runOps]
        split
        · next w' b hc =>
          apply ih
          unfold DCtx.update at hc
          split at hc
          · cases hc
          · split at hc
            · cases hc
            · cases hc
            · next path hpth =>
              split at hc
              · cases hc
              · cases h3 : d.writeData w path a with
                | error e => rw [h3] at hc; cases hc
                | ok w2 =>
                  rw [h3] at hc
                  cases hc
                  exact FSL.treeOk_of_nodes_eq w w' (FSL.writeData_nodes d w w' path a h3) hw
        · exact ih w hw
  exact gen ops World.empty ⟨by simp [World.empty], by simp [World.empty]⟩

/-- `sid.exists()` is "find_one yields something" -/
theorem c12_exists (w : World) (x : Sid) (hx : x.typed = true) :
    d.sidExists w x = (d.findInAll w x.string).map (fun l => match l.head? with
      | some s => !s.isEmpty
      | none => false) := by
  unfold DCtx.sidExists DCtx.findOneAll
  have : x.fields.isEmpty = false := by
    unfold Sid.typed at hx; simpa using hx
  simp only [this]
  cases d.findInAll w x.string with
  | error e => rfl
  | ok l => cases l <;> rfl

/-- a leaf Sid has no children -/
theorem c12_leaf_children (w : World) (x : Sid) (h : d.ctx.isLeaf x = true) : d.children w x = .ok [] := by
  unfold DCtx.children
  simp [h]

/-- `find_one` is the first element of `find` -/
theorem c12_find_one (w : World) (s : Str) : d.findOneAll w s = (d.findInAll w s).map List.head? := by
  rfl

/-- FindInAll never yields the same string twice -/
theorem c12_find_all_nodup (w : World) (s : Str) (r : List Str) (h : d.findInAll w s = .ok r) : r.Nodup := by
  unfold DCtx.findInAll at h
  split at h
  · cases h
  · split at h
    · cases h
    · cases h
      exact Lst.dedupBy_nodup _

end C12

namespace C16

open Spec World

variable (d : DCtx)

/-- `GetFromPaths.get` yields exactly one record per Sid its Finder yields, in the same order -/
theorem c16_get_map (w : World) (config : Option Str) (search : Str) (attrs : List Str) (enc : DCtx.Enc)
    (recs : List (List (Str × Option Str))) (h : d.getFromPaths w config search attrs enc = .ok recs) :
    ∃ searches sids, d.ctx.findSearches search = .ok searches ∧
      d.pathsDoFindSids w config searches = .ok sids ∧ recs.length = sids.length ∧
      ∀ (i : Nat) (x : Sid) (r : List (Str × Option Str)), sids[i]? = some x → recs[i]? = some r → d.recordOf w config x attrs enc = .ok r := by
  unfold DCtx.getFromPaths at h
  split at h
  · cases h
  · next searches hs =>
    split at h
    · cases h
    · next sids hsids =>
      obtain ⟨h1, h2⟩ := FSL.mapE_ok _ sids recs h
      exact ⟨searches, sids, hs, hsids, h1, h2⟩

/-- with an attributes list each record has exactly those keys, in that order -/
theorem c16_record_keys (w : World) (config : Option Str) (x : Sid) (attrs : List Str) (hne : attrs ≠ [])
    (enc : DCtx.Enc) (r : List (Str × Option Str)) (h : d.getData w config x attrs enc = .ok r)
    (hp : ∃ path, d.ctx.sidPath config x = .ok (some path)) :
    r.map (·.1) = attrs := by
  obtain ⟨path, hpth⟩ := hp
  unfold DCtx.getData at h
  simp only [hpth] at h
  have : attrs.isEmpty = false := by
    cases attrs with
    | nil => exact absurd rfl hne
    | cons _ _ => rfl
  simp only [this] at h
  cases h
  simp [List.map_map, Function.comp_def]

/-- the `sid` entry: the encoded Sid when `sid_encode` returns something, the stored data untouched
    when it returns None -/
theorem c16_record_sid (w : World) (config : Option Str) (x : Sid) (path : Str)
    (hp : d.ctx.sidPath config x = .ok (some path)) (hs : x.string ≠ []) :
    (∃ r, d.getData w config x [] .str = .ok r ∧ r.lookup ['s','i','d'] = some (some x.string)) ∧
    (∃ r, d.getData w config x [] .none = .ok r ∧
       r = ((match w.sidecars.lookup (d.sidecarPath path) with
            | some (.data dd) => dd
            | _ => []) : Dict).map (fun (p : Str × Str) => (p.1, some p.2))) := by
  have hne : x.string.isEmpty = false := by
    cases hh : x.string with
    | nil => exact absurd hh hs
    | cons _ _ => rfl
  constructor
  · refine ⟨(Dict.set ((match w.sidecars.lookup (d.sidecarPath path) with
            | some (.data dd) => dd
            | _ => []) : Dict) ['s','i','d'] x.string).map (fun (p : Str × Str) => (p.1, some p.2)), ?_, ?_⟩
    · unfold DCtx.getData
      simp only [hp, hne, List.isEmpty_nil, if_true, Bool.false_eq_true, if_false]
      rfl
    · rw [FSL.lookup_map_some]
      have := FSL.get_set (match w.sidecars.lookup (d.sidecarPath path) with
            | some (.data dd) => dd
            | _ => []) ['s','i','d'] ['s','i','d'] x.string
      unfold Dict.get at this
      simp only [if_true] at this
      rw [this]; rfl
  · refine ⟨_, ?_, rfl⟩
    unfold DCtx.getData
    simp only [hp, List.isEmpty_nil, if_true]
    rfl

/-- a Sid without a path yields an empty record, never an error -/
theorem c16_no_path (w : World) (config : Option Str) (x : Sid) (attrs : List Str) (enc : DCtx.Enc)
    (h : d.ctx.sidPath config x = .ok none) : d.getData w config x attrs enc = .ok [] := by
  unfold DCtx.getData
  rw [h]

end C16

namespace C11

open Spec World

variable (d : DCtx)

/-- a file or folder that does not conform to any template (its path resolves to an untyped Sid,
    or resolving it raises SpilException) never changes what a star search over the tree returns -/
theorem c11_junk_ignored (w : World) (config : Option Str) (searches : List Sid) (p : Str) (k : Node)
    (hj : (∃ x, d.ctx.sidOfPath p config = .ok x ∧ x.typed = false) ∨ d.ctx.sidOfPath p config = .error .spil) :
    d.pathsStarSids { w with nodes := w.nodes ++ [(p, k)] } config searches = d.pathsStarSids w config searches := by
  unfold DCtx.pathsStarSids
  exact FSL.pathsStarGo_add d w w.sidecars config p k searches
    (fun s _ acc => FSL.starStep_junk d config s p hj acc) [] []

/-- a conform file of ANOTHER type than every searched one does not change the result either -/
theorem c11_other_type_ignored (w : World) (config : Option Str) (searches : List Sid) (p : Str) (k : Node) (x : Sid)
    (hx : d.ctx.sidOfPath p config = .ok x) (ht : ∀ s ∈ searches, s.type ≠ x.type) :
    d.pathsStarSids { w with nodes := w.nodes ++ [(p, k)] } config searches = d.pathsStarSids w config searches := by
  unfold DCtx.pathsStarSids
  exact FSL.pathsStarGo_add d w w.sidecars config p k searches
    (fun s hs acc => FSL.starStep_other d config s p x hx (ht s hs) acc) [] []

/-- sidecar files are not part of the searched tree at all -/
theorem c11_sidecars_ignored (w : World) (config : Option Str) (searches : List Sid) (sc : List (Str × Sidecar)) :
    d.pathsStarSids { w with sidecars := sc } config searches = d.pathsStarSids w config searches := by
  unfold DCtx.pathsStarSids
  exact FSL.pathsStarGo_nodes_eq d w { w with sidecars := sc } rfl config searches [] []

/-- every Sid a star search yields has the type of one of the searches, is typed, owns a path
    that exists in the tree, and (repaired `star_search_simple`, D25) its string is matched by the
    string of that search: `re.match(glob2re(str(search)), str(sid))` -/
theorem c11_results_typed (w : World) (config : Option Str) (searches : List Sid) (r : List Sid)
    (h : d.pathsStarSids w config searches = .ok r) :
    ∀ x ∈ r, x.typed = true ∧
      (∃ s ∈ searches, s.type = x.type ∧ Find.globMatch d.ctx.env s.string x.string = .ok true) ∧
      ∃ p, w.pathExists p = true ∧ d.ctx.sidOfPath p config = .ok x := by
  intro x hx
  obtain ⟨s, hs, h1, h2, h3, h4⟩ := FSL.pathsStarGo_res d w config searches [] [] r h x hx
  exact ⟨h1, ⟨s, hs, h2, h3⟩, h4⟩

end C11
