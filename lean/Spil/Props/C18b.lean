/-
  Spil.Props.C18b — the version WORKFLOW of C18: `get_new` is the successor of the greatest existing
  version, it is greater than every existing version of its group (so it "does not exist yet"), and
  publishing `get_new` repeatedly yields strictly increasing, never reused, gap-free versions.

  Three layers:
  (1) `c18_new_succ`, `c18_new_first`: `get_new` from what `get_last` answered (composition of
      `c18_new`, `c18_next_concrete`, `c18_next_missing` over the model's `getNew` / `getNext`);
  (2) `c18_last_is_max`, `c18_new_fresh`: what C09's end-to-end theorem (`C09.c09_get_last`: the answer
      of `get_last` is at least EVERY matching existing Sid, segment by segment) means for version
      NUMBERS: no existing entry of the group has a greater version, and the new version differs
      from all of them;
  (3) `Workflow`: the abstract version store (the set of existing version numbers of one task),
      `publish`, and the workflow statement for ANY number of publishes by induction
      (`c18_publish_versions`, `c18_publish_increasing`, `c18_publish_fresh`, `c18_publish_gapfree`,
      `c18_publish_stops`), tied to the model by `c18_step_refines` (one real step — `getNew` on a
      world whose `get_last` is the maximum — is one abstract step).
-/
import Spil.Props.C18
import Spil.Props.C09b

namespace C18

open Spec

/-! ### (1) get_new from get_last -/

/-- `get_new('version')` on a Sid that has a version: when `get_last` answers a typed Sid whose
    version is the rendering of `n`, `get_new` is that Sid with the version `n + 1` -/
theorem c18_new_succ (d : DCtx) (w : World) (x l : Sid) (v : Str) (n : Nat) (hn : n < 1000)
    (hx : x.fields.get vkey = some v) (hv : v ≠ [])
    (hl : d.getLast w x (some vkey) = .ok l) (hlt : l.typed = true)
    (hlv : l.fields.get vkey = some (fmtV n)) :
    d.getNew w x = d.ctx.getWithKw l [(vkey, some (fmtV (n + 1)))] := by
  rw [c18_new d w x l v hx hv hl, hlt]
  simp only [if_true]
  exact c18_next_concrete d w l n hn hlv

/-- … and when nothing exists yet (`get_last` answers the empty Sid) and the Sid's own version is the
    rendering of `m`, `get_new` is its own successor (for `v001`: `v002`; the first publish of a task is
    asked on the version-less Sid, `c18_next_missing`) -/
theorem c18_new_first (d : DCtx) (w : World) (x l : Sid) (m : Nat) (hm : m < 1000)
    (hx : x.fields.get vkey = some (fmtV m))
    (hl : d.getLast w x (some vkey) = .ok l) (hlt : l.typed = false) :
    d.getNew w x = d.ctx.getWithKw x [(vkey, some (fmtV (m + 1)))] := by
  rw [c18_new d w x l (fmtV m) hx (by simp [fmtV]) hl, hlt]
  simp only [Bool.false_eq_true, if_false]
  exact c18_next_concrete d w x m hm hx

/-! ### (2) "at least every matching Sid" in version numbers -/

/-- lexicographic comparison of two segment lists that agree before a position is decided at that
    position when the segments there differ -/
theorem ltList_common_prefix (pre : List Str) (a b : Str) (ra rb : List Str) (hab : Str.lt a b = true) :
    Str.ltList (pre ++ a :: ra) (pre ++ b :: rb) = true := by
  induction pre with
  | nil => simp [Str.ltList, hab]
  | cons p ps ih =>
    have hirr : Str.lt p p = false := by
      induction p with
      | nil => rfl
      | cons c cs ihc => simp [Str.lt, ihc]
    simp [Str.ltList, hirr, ih]

/-- THE LAST IS THE MAXIMUM.  `y` is at least `z` segment by segment (what `C09.c09_get_last` proves
    of the answer of `get_last` against every matching existing Sid `z`); both carry a rendered version
    at the same position after the same leading segments (same task: one group).  Then the version
    number of `z` is not greater than that of `y`. -/
theorem c18_last_is_max (y z : Str) (pre ry rz : List Str) (n m : Nat) (hn : n < 1000) (hm : m < 1000)
    (hy : Str.splitOn '/' y = pre ++ fmtV n :: ry) (hz : Str.splitOn '/' z = pre ++ fmtV m :: rz)
    (hge : segGe y z) : m ≤ n := by
  apply Nat.le_of_not_lt
  intro hlt
  have h1 : Str.lt (fmtV n) (fmtV m) = true := (c18_order n m hn hm).2 hlt
  have h2 := ltList_common_prefix pre (fmtV n) (fmtV m) ry rz h1
  unfold segGe at hge
  rw [hy, hz, h2] at hge
  exact Bool.noConfusion hge

/-- THE NEW VERSION DOES NOT EXIST YET.  With `y` the answer of `get_last` (version `n`), no matching
    existing Sid `z` of the group carries the version `n + 1` that `get_new` returns. -/
theorem c18_new_fresh (y z : Str) (pre ry rz : List Str) (n m : Nat) (hn : n < 1000) (hm : m < 1000)
    (hy : Str.splitOn '/' y = pre ++ fmtV n :: ry) (hz : Str.splitOn '/' z = pre ++ fmtV m :: rz)
    (hge : segGe y z) : fmtV m ≠ fmtV (n + 1) := by
  intro h
  have hle := c18_last_is_max y z pre ry rz n m hn hm hy hz hge
  by_cases hn1 : n + 1 < 1000
  · have := c18_inj m (n + 1) hm hn1 h
    omega
  · -- n = 999: the rendering of 1000 has four digits, that of m three
    have hw := c18_pad3_wide (n + 1) (by omega)
    have h3 := (c18_pad3 m hm).1
    have : (Str.pad3 m).length = (Str.pad3 (n + 1)).length := by
      have h' : Str.pad3 m = Str.pad3 (n + 1) := by simpa [fmtV] using h
      rw [h']
    omega

/-! ### (3) the workflow, for any number of publishes -/

namespace Workflow

/-- the abstract state of one task: the version numbers that exist (any order, gaps allowed) -/
abbrev Store := List Nat

/-- the greatest existing version number, 0 when none exists (`get_last` answering the empty Sid) -/
def last : Store → Nat
  | [] => 0
  | v :: vs => max v (last vs)

/-- `get_new`: the successor of the last existing version -/
def new (s : Store) : Nat := last s + 1

/-- one publish: `create(get_new(...))` — refused (the empty Sid, nothing created) beyond the last
    representable version 999 -/
def publish (s : Store) : Store := if new s < 1000 then new s :: s else s

/-- `k` publishes in a row -/
def publishN : Nat → Store → Store
  | 0, s => s
  | k + 1, s => publishN k (publish s)

theorem le_last (s : Store) : ∀ v ∈ s, v ≤ last s := by
  induction s with
  | nil => intro v hv; cases hv
  | cons a as ih =>
    intro v hv
    simp only [last]
    rcases List.mem_cons.1 hv with rfl | h
    · exact Nat.le_max_left _ _
    · exact Nat.le_trans (ih v h) (Nat.le_max_right _ _)

theorem last_mem (s : Store) (h : s ≠ []) : last s ∈ s := by
  induction s with
  | nil => exact absurd rfl h
  | cons a as ih =>
    simp only [last]
    by_cases has : as = []
    · subst has; simp [last]
    · have := ih has
      rcases Nat.le_total a (last as) with hle | hle
      · rw [Nat.max_eq_right hle]; exact List.mem_cons_of_mem _ this
      · rw [Nat.max_eq_left hle]; exact List.mem_cons_self

/-- NEVER REUSED: the version `get_new` names does not exist -/
theorem new_not_mem (s : Store) : new s ∉ s := by
  intro h
  have := le_last s _ h
  simp only [new] at this
  omega

theorem last_publish (s : Store) (h : last s + 1 < 1000) : last (publish s) = last s + 1 := by
  simp only [publish, new, h, if_true, last]
  omega

/-- after `k` publishes (while representable) the store is the old one plus the `k` successors of
    its last version, newest first: GAP-FREE, STRICTLY INCREASING, NEVER REUSED in one statement -/
theorem c18_publish_versions (k : Nat) (s : Store) (h : last s + k < 1000) :
    publishN k s = (List.range' (last s + 1) k).reverse ++ s := by
  induction k generalizing s with
  | zero => simp [publishN]
  | succ k ih =>
    have hnew : last s + 1 < 1000 := by omega
    have hl := last_publish s hnew
    simp only [publishN]
    rw [ih (publish s) (by rw [hl]; omega), hl]
    simp only [publish, new, hnew, if_true]
    rw [List.range'_succ, List.reverse_cons, List.append_assoc]
    rfl

/-- the version created by the `(k+1)`-th publish is `last s + 1 + k`: each publish creates the
    successor of the one before -/
theorem c18_publish_gapfree (k : Nat) (s : Store) (h : last s + (k + 1) < 1000) :
    new (publishN k s) = last s + 1 + k := by
  have hk : last s + k < 1000 := by omega
  rw [c18_publish_versions k s hk]
  simp only [new]
  cases k with
  | zero => simp
  | succ k =>
    have hmem : last s + 1 + k ∈ (List.range' (last s + 1) (k + 1)).reverse ++ s := by
      apply List.mem_append_left
      rw [List.mem_reverse, List.mem_range'_1]
      omega
    have hle := le_last _ _ hmem
    have hub : ∀ v ∈ (List.range' (last s + 1) (k + 1)).reverse ++ s, v ≤ last s + 1 + k := by
      intro v hv
      rcases List.mem_append.1 hv with hv | hv
      · rw [List.mem_reverse, List.mem_range'_1] at hv
        omega
      · have := le_last s v hv
        omega
    have hne : (List.range' (last s + 1) (k + 1)).reverse ++ s ≠ [] := by
      intro h0
      rw [h0] at hmem
      cases hmem
    have := hub _ (last_mem _ hne)
    omega

/-- STRICTLY INCREASING: every publish names a version greater than the one before -/
theorem c18_publish_increasing (k : Nat) (s : Store) (h : last s + (k + 2) < 1000) :
    new (publishN k s) < new (publishN (k + 1) s) := by
  rw [c18_publish_gapfree k s (by omega), c18_publish_gapfree (k + 1) s (by omega)]
  omega

/-- NEVER REUSED over the whole history: what the `(k+1)`-th publish names exists in no earlier state -/
theorem c18_publish_fresh (k j : Nat) (s : Store) (hj : j ≤ k) (h : last s + (k + 1) < 1000) :
    new (publishN k s) ∉ publishN j s := by
  rw [c18_publish_gapfree k s h, c18_publish_versions j s (by omega)]
  intro hm
  rcases List.mem_append.1 hm with hm | hm
  · rw [List.mem_reverse, List.mem_range'_1] at hm
    omega
  · have := le_last s _ hm
    omega

/-- … and the workflow STOPS at the last representable version instead of wrapping or reusing -/
theorem c18_publish_stops (s : Store) (h : last s = 999) : publish s = s := by
  simp [publish, new, h]

end Workflow

/-- ONE REAL STEP IS ONE ABSTRACT STEP.  `s` lists the version numbers of the existing Sids of the
    task of `x` (`hs`: `get_last` answers a typed Sid with the rendering of the abstract last version —
    what `C09.c09_get_last` + `c18_last_is_max` establish on a tree).  Then the model's `get_new` is the
    `get_last` answer with the abstract `new` version. -/
theorem c18_step_refines (d : DCtx) (w : World) (x l : Sid) (v : Str) (s : Workflow.Store)
    (hne : s ≠ []) (hs : ∀ n ∈ s, n < 1000)
    (hx : x.fields.get vkey = some v) (hv : v ≠ [])
    (hl : d.getLast w x (some vkey) = .ok l) (hlt : l.typed = true)
    (hlv : l.fields.get vkey = some (fmtV (Workflow.last s))) :
    d.getNew w x = d.ctx.getWithKw l [(vkey, some (fmtV (Workflow.new s)))] :=
  c18_new_succ d w x l v (Workflow.last s) (hs _ (Workflow.last_mem s hne)) hx hv hl hlt hlv

end C18
