/-
  Spil.Props.C09bExamples — non-vacuity of C09b on the SHIPPED configuration: a list and a tree
  with the v001/v002 model files of two characters (plus a prop and a junk file), the search
  `hamlet/a/char/*/model/>/w/ma`, every hypothesis of the theorems discharged by the kernel, the
  theorems instantiated and the answers evaluated.  GENERATED char lists.
-/
import Spil.Props.C09b
import Spil.Props.C11bExamples

namespace C09Ex

open Spec Generated GlobL C11Ex

/-- "hamlet/a/char/ophelia/model/v001/w/ma" -/
def o1 : Sid :=
  ⟨['h','a','m','l','e','t','/','a','/','c','h','a','r','/','o','p','h','e','l','i','a','/','m','o','d','e','l','/','v','0','0','1','/','w','/','m','a'],
    ['a','s','s','e','t','_','_','f','i','l','e'],
    [(['p','r','o','j','e','c','t'], ['h','a','m','l','e','t']),
     (['t','y','p','e'], ['a']),
     (['a','s','s','e','t','t','y','p','e'], ['c','h','a','r']),
     (['a','s','s','e','t'], ['o','p','h','e','l','i','a']),
     (['t','a','s','k'], ['m','o','d','e','l']),
     (['v','e','r','s','i','o','n'], ['v','0','0','1']),
     (['s','t','a','t','e'], ['w']),
     (['e','x','t'], ['m','a'])]⟩
def o1P : Str := ['/','R','/','d','a','t','a','/','t','e','s','t','i','n','g','/','S','P','I','L','_','P','R','O','J','E','C','T','S','/','L','O','C','A','L','/','P','R','O','J','E','C','T','S','/','H','A','M','L','E','T','/','P','R','O','D','/','A','S','S','E','T','S','/','c','h','a','r','/','o','p','h','e','l','i','a','/','m','o','d','e','l','/','v','0','0','1','/','c','h','a','r','_','o','p','h','e','l','i','a','_','m','o','d','e','l','_','W','O','R','K','_','v','0','0','1','.','m','a']
/-- "hamlet/a/char/ophelia/model/v002/w/ma" -/
def o2 : Sid :=
  ⟨['h','a','m','l','e','t','/','a','/','c','h','a','r','/','o','p','h','e','l','i','a','/','m','o','d','e','l','/','v','0','0','2','/','w','/','m','a'],
    ['a','s','s','e','t','_','_','f','i','l','e'],
    [(['p','r','o','j','e','c','t'], ['h','a','m','l','e','t']),
     (['t','y','p','e'], ['a']),
     (['a','s','s','e','t','t','y','p','e'], ['c','h','a','r']),
     (['a','s','s','e','t'], ['o','p','h','e','l','i','a']),
     (['t','a','s','k'], ['m','o','d','e','l']),
     (['v','e','r','s','i','o','n'], ['v','0','0','2']),
     (['s','t','a','t','e'], ['w']),
     (['e','x','t'], ['m','a'])]⟩
def o2P : Str := ['/','R','/','d','a','t','a','/','t','e','s','t','i','n','g','/','S','P','I','L','_','P','R','O','J','E','C','T','S','/','L','O','C','A','L','/','P','R','O','J','E','C','T','S','/','H','A','M','L','E','T','/','P','R','O','D','/','A','S','S','E','T','S','/','c','h','a','r','/','o','p','h','e','l','i','a','/','m','o','d','e','l','/','v','0','0','2','/','c','h','a','r','_','o','p','h','e','l','i','a','_','m','o','d','e','l','_','W','O','R','K','_','v','0','0','2','.','m','a']
/-- "hamlet/a/char/polonius/model/v001/w/ma" -/
def q1 : Sid :=
  ⟨['h','a','m','l','e','t','/','a','/','c','h','a','r','/','p','o','l','o','n','i','u','s','/','m','o','d','e','l','/','v','0','0','1','/','w','/','m','a'],
    ['a','s','s','e','t','_','_','f','i','l','e'],
    [(['p','r','o','j','e','c','t'], ['h','a','m','l','e','t']),
     (['t','y','p','e'], ['a']),
     (['a','s','s','e','t','t','y','p','e'], ['c','h','a','r']),
     (['a','s','s','e','t'], ['p','o','l','o','n','i','u','s']),
     (['t','a','s','k'], ['m','o','d','e','l']),
     (['v','e','r','s','i','o','n'], ['v','0','0','1']),
     (['s','t','a','t','e'], ['w']),
     (['e','x','t'], ['m','a'])]⟩
def q1P : Str := ['/','R','/','d','a','t','a','/','t','e','s','t','i','n','g','/','S','P','I','L','_','P','R','O','J','E','C','T','S','/','L','O','C','A','L','/','P','R','O','J','E','C','T','S','/','H','A','M','L','E','T','/','P','R','O','D','/','A','S','S','E','T','S','/','c','h','a','r','/','p','o','l','o','n','i','u','s','/','m','o','d','e','l','/','v','0','0','1','/','c','h','a','r','_','p','o','l','o','n','i','u','s','_','m','o','d','e','l','_','W','O','R','K','_','v','0','0','1','.','m','a']
/-- "hamlet/a/char/polonius/model/v002/w/ma" -/
def q2 : Sid :=
  ⟨['h','a','m','l','e','t','/','a','/','c','h','a','r','/','p','o','l','o','n','i','u','s','/','m','o','d','e','l','/','v','0','0','2','/','w','/','m','a'],
    ['a','s','s','e','t','_','_','f','i','l','e'],
    [(['p','r','o','j','e','c','t'], ['h','a','m','l','e','t']),
     (['t','y','p','e'], ['a']),
     (['a','s','s','e','t','t','y','p','e'], ['c','h','a','r']),
     (['a','s','s','e','t'], ['p','o','l','o','n','i','u','s']),
     (['t','a','s','k'], ['m','o','d','e','l']),
     (['v','e','r','s','i','o','n'], ['v','0','0','2']),
     (['s','t','a','t','e'], ['w']),
     (['e','x','t'], ['m','a'])]⟩
def q2P : Str := ['/','R','/','d','a','t','a','/','t','e','s','t','i','n','g','/','S','P','I','L','_','P','R','O','J','E','C','T','S','/','L','O','C','A','L','/','P','R','O','J','E','C','T','S','/','H','A','M','L','E','T','/','P','R','O','D','/','A','S','S','E','T','S','/','c','h','a','r','/','p','o','l','o','n','i','u','s','/','m','o','d','e','l','/','v','0','0','2','/','c','h','a','r','_','p','o','l','o','n','i','u','s','_','m','o','d','e','l','_','W','O','R','K','_','v','0','0','2','.','m','a']
/-- "hamlet/a/prop/skull/model/v003/w/ma" -/
def k3 : Sid :=
  ⟨['h','a','m','l','e','t','/','a','/','p','r','o','p','/','s','k','u','l','l','/','m','o','d','e','l','/','v','0','0','3','/','w','/','m','a'],
    ['a','s','s','e','t','_','_','f','i','l','e'],
    [(['p','r','o','j','e','c','t'], ['h','a','m','l','e','t']),
     (['t','y','p','e'], ['a']),
     (['a','s','s','e','t','t','y','p','e'], ['p','r','o','p']),
     (['a','s','s','e','t'], ['s','k','u','l','l']),
     (['t','a','s','k'], ['m','o','d','e','l']),
     (['v','e','r','s','i','o','n'], ['v','0','0','3']),
     (['s','t','a','t','e'], ['w']),
     (['e','x','t'], ['m','a'])]⟩
def k3P : Str := ['/','R','/','d','a','t','a','/','t','e','s','t','i','n','g','/','S','P','I','L','_','P','R','O','J','E','C','T','S','/','L','O','C','A','L','/','P','R','O','J','E','C','T','S','/','H','A','M','L','E','T','/','P','R','O','D','/','A','S','S','E','T','S','/','p','r','o','p','/','s','k','u','l','l','/','m','o','d','e','l','/','v','0','0','3','/','p','r','o','p','_','s','k','u','l','l','_','m','o','d','e','l','_','W','O','R','K','_','v','0','0','3','.','m','a']
/-- the search "hamlet/a/char/*/model/>/w/ma" -/
def gStr : Str := ['h','a','m','l','e','t','/','a','/','c','h','a','r','/','*','/','m','o','d','e','l','/','>','/','w','/','m','a']
/-- the typed search Sid it unfolds into -/
def gSid : Sid :=
  ⟨['h','a','m','l','e','t','/','a','/','c','h','a','r','/','*','/','m','o','d','e','l','/','>','/','w','/','m','a'],
    ['a','s','s','e','t','_','_','f','i','l','e'],
    [(['p','r','o','j','e','c','t'], ['h','a','m','l','e','t']),
     (['t','y','p','e'], ['a']),
     (['a','s','s','e','t','t','y','p','e'], ['c','h','a','r']),
     (['a','s','s','e','t'], ['*']),
     (['t','a','s','k'], ['m','o','d','e','l']),
     (['v','e','r','s','i','o','n'], ['>']),
     (['s','t','a','t','e'], ['w']),
     (['e','x','t'], ['m','a'])]⟩
/-- `o1.get_with(version='>')`: "hamlet/a/char/ophelia/model/>/w/ma" -/
def lSid : Sid :=
  ⟨['h','a','m','l','e','t','/','a','/','c','h','a','r','/','o','p','h','e','l','i','a','/','m','o','d','e','l','/','>','/','w','/','m','a'],
    ['a','s','s','e','t','_','_','f','i','l','e'],
    [(['p','r','o','j','e','c','t'], ['h','a','m','l','e','t']),
     (['t','y','p','e'], ['a']),
     (['a','s','s','e','t','t','y','p','e'], ['c','h','a','r']),
     (['a','s','s','e','t'], ['o','p','h','e','l','i','a']),
     (['t','a','s','k'], ['m','o','d','e','l']),
     (['v','e','r','s','i','o','n'], ['>']),
     (['s','t','a','t','e'], ['w']),
     (['e','x','t'], ['m','a'])]⟩
/-- its '>' ↦ '*' reading "hamlet/a/char/ophelia/model/*/w/ma" and the glob pattern of that -/
def lStar : Sid :=
  ⟨['h','a','m','l','e','t','/','a','/','c','h','a','r','/','o','p','h','e','l','i','a','/','m','o','d','e','l','/','*','/','w','/','m','a'],
    ['a','s','s','e','t','_','_','f','i','l','e'],
    [(['p','r','o','j','e','c','t'], ['h','a','m','l','e','t']),
     (['t','y','p','e'], ['a']),
     (['a','s','s','e','t','t','y','p','e'], ['c','h','a','r']),
     (['a','s','s','e','t'], ['o','p','h','e','l','i','a']),
     (['t','a','s','k'], ['m','o','d','e','l']),
     (['v','e','r','s','i','o','n'], ['*']),
     (['s','t','a','t','e'], ['w']),
     (['e','x','t'], ['m','a'])]⟩
def lPat : Str := ['/','R','/','d','a','t','a','/','t','e','s','t','i','n','g','/','S','P','I','L','_','P','R','O','J','E','C','T','S','/','L','O','C','A','L','/','P','R','O','J','E','C','T','S','/','H','A','M','L','E','T','/','P','R','O','D','/','A','S','S','E','T','S','/','c','h','a','r','/','o','p','h','e','l','i','a','/','m','o','d','e','l','/','*','/','c','h','a','r','_','o','p','h','e','l','i','a','_','m','o','d','e','l','_','W','O','R','K','_','*','.','m','a']
def kVersion : Str := ['v','e','r','s','i','o','n']
/-- a file that conforms to no template -/
def junkP : Str := ['/','R','/','d','a','t','a','/','t','e','s','t','i','n','g','/','S','P','I','L','_','P','R','O','J','E','C','T','S','/','L','O','C','A','L','/','P','R','O','J','E','C','T','S','/','H','A','M','L','E','T','/','P','R','O','D','/','A','S','S','E','T','S','/','c','h','a','r','/','o','p','h','e','l','i','a','/','m','o','d','e','l','/','v','0','0','2','/','n','o','t','e','s','.','t','x','t']
/-- "…/v9/…" and "…/v10/…": list entries need not be valid Sids -/
def n9 : Str := ['h','a','m','l','e','t','/','a','/','c','h','a','r','/','o','p','h','e','l','i','a','/','m','o','d','e','l','/','v','9','/','w','/','m','a']
def n10 : Str := ['h','a','m','l','e','t','/','a','/','c','h','a','r','/','o','p','h','e','l','i','a','/','m','o','d','e','l','/','v','1','0','/','w','/','m','a']

/-! ### the search and its unfolding -/

theorem ex_searches : demoCtx.findSearches gStr = .ok [gSid] := okIs_eq _ _ (by decide +kernel)

/-- '>' is the whole segment number 5 of the (first and only) typed search -/
theorem ex_gtAt : GtAt 5 gSid.string := by decide +kernel

theorem ex_nb : ∀ s ∈ [gSid], '[' ∉ s.string := by decide +kernel

/-- the re-resolution hypothesis of `c09_list`, by evaluation … -/
theorem ex_hres : ∀ s ∈ [gSid], demoCtx.strOfUri (gtStar s.uri) = .ok (gtStar s.string) := by
  intro s hs
  simp only [List.mem_singleton] at hs
  subst hs
  exact okIs_eq _ _ (by decide +kernel)

/-- … and from `c09_strOfUri`: `Sid(uri)` answers (here with `cSid`), the rest is about characters -/
theorem ex_hres' : demoCtx.strOfUri (gtStar gSid.uri) = .ok (gtStar gSid.string) :=
  C09.c09_strOfUri demoCtx gSid (by decide +kernel) (by decide +kernel) (by decide +kernel)
    ⟨cSid, okIs_eq _ _ (by decide +kernel)⟩

/-! ### (1) the list Finder -/

/-- v001 and v002 of two characters, v003 of a prop, in no particular order -/
def L : List Str := [o1.string, q2.string, k3.string, o2.string, q1.string]

/-- `c09_find_in_list` instantiated, every hypothesis discharged -/
theorem ex_list : ∃ r, demoCtx.findInList ⟨L, false⟩ gStr = .ok r ∧
    PicksLast 5 (ListMatch L [gSid]) r :=
  C09.c09_find_in_list demoCtx L gStr gSid [] 5 ex_searches ex_gtAt ex_nb ex_hres

/-- by evaluation: the v002 file of each character (the prop is not matched) -/
theorem ex_list_eval : demoCtx.findInList ⟨L, false⟩ gStr = .ok [q2.string, o2.string] :=
  okIs_eq _ _ (by decide +kernel)

/-- hence, from the THEOREM: both are the last of their group among the matching entries, and
    the v001 file is not -/
theorem ex_list_last : IsLastOf 5 (ListMatch L [gSid]) o2.string ∧
    IsLastOf 5 (ListMatch L [gSid]) q2.string ∧ ¬ IsLastOf 5 (ListMatch L [gSid]) o1.string := by
  obtain ⟨r, hr, hp⟩ := ex_list
  rw [ex_list_eval] at hr
  injection hr with hr
  subst hr
  refine ⟨(hp.mem _).1 (by simp), (hp.mem _).1 (by simp), fun h => ?_⟩
  have := (hp.mem _).2 h
  revert this
  decide +kernel

/-- "compared segment by segment AS STRINGS": of v9 and v10 the last one is v9 -/
theorem ex_string_order : demoCtx.findInList ⟨[n10, n9], false⟩ lSid.string = .ok [n9] :=
  okIs_eq _ _ (by decide +kernel)

/-! ### (2) the path Finder -/

def w4 : World :=
  ⟨[(o1P, .file), (q2P, .file), (junkP, .file), (k3P, .file), (o2P, .file), (q1P, .file)], []⟩

/-- the search re-resolved with '>' ↦ '*' is `C11Ex.cSid` ("hamlet/a/char/*/model/*/w/ma") -/
theorem ex_resolve : Ctx.mapE (fun x => demoD.resolveSearch (gtStar x.uri)) [gSid] = .ok [cSid] :=
  okIs_eq _ _ (by decide +kernel)

theorem ex_cpat : demoCtx.sidPath none cSid = .ok (some cPat) := c11_sound_regression.2.1

/-- `c09_find_in_paths` instantiated, every hypothesis discharged -/
theorem ex_paths : ∃ r, demoD.findInPaths w4 none gStr = .ok r ∧
    PicksLast 5 (PathMatch demoD w4 none [cSid]) r :=
  C09.c09_find_in_paths demoD w4 none gStr gSid [] 5 ex_searches ex_gtAt [cSid] ex_resolve
    (by intro s' hs'; simp only [List.mem_singleton] at hs'; subst hs'; exact Or.inl ⟨cPat, ex_cpat⟩)
    (by decide +kernel) (fun p _ => demo_total p)

theorem ex_paths_eval : demoD.findInPaths w4 none gStr = .ok [q2.string, o2.string] :=
  okIs_eq _ _ (by decide +kernel)

/-! ### (3) Finder independence -/

def ents4 : List Sid := [o1, q2, k3, o2, q1]

theorem ex_rt_o1 : demoCtx.sidOfPath o1P none = .ok o1 := okIs_eq _ _ (by decide +kernel)
theorem ex_rt_o2 : demoCtx.sidOfPath o2P none = .ok o2 := okIs_eq _ _ (by decide +kernel)
theorem ex_rt_q1 : demoCtx.sidOfPath q1P none = .ok q1 := okIs_eq _ _ (by decide +kernel)
theorem ex_rt_q2 : demoCtx.sidOfPath q2P none = .ok q2 := okIs_eq _ _ (by decide +kernel)
theorem ex_rt_k3 : demoCtx.sidOfPath k3P none = .ok k3 := okIs_eq _ _ (by decide +kernel)
theorem ex_rt_junk : demoCtx.sidOfPath junkP none = .ok Sid.empty := okIs_eq _ _ (by decide +kernel)

/-- the tree holds exactly the five entities plus junk -/
theorem ex_holds4 : C11.HoldsExactly demoD w4 none cSid.type ents4 where
  ents_ok := by
    intro e he
    simp only [ents4, List.mem_cons, List.not_mem_nil, or_false] at he
    rcases he with rfl | rfl | rfl | rfl | rfl
    · exact ⟨wellTyped_of_B _ _ _ (by decide +kernel), by decide, by decide +kernel, o1P, by decide +kernel, ex_rt_o1⟩
    · exact ⟨wellTyped_of_B _ _ _ (by decide +kernel), by decide, by decide +kernel, q2P, by decide +kernel, ex_rt_q2⟩
    · exact ⟨wellTyped_of_B _ _ _ (by decide +kernel), by decide, by decide +kernel, k3P, by decide +kernel, ex_rt_k3⟩
    · exact ⟨wellTyped_of_B _ _ _ (by decide +kernel), by decide, by decide +kernel, o2P, by decide +kernel, ex_rt_o2⟩
    · exact ⟨wellTyped_of_B _ _ _ (by decide +kernel), by decide, by decide +kernel, q1P, by decide +kernel, ex_rt_q1⟩
  total := fun p _ => demo_total p
  exact := by
    intro p hp x hx hxt _
    have hp' : p = o1P ∨ p = q2P ∨ p = junkP ∨ p = k3P ∨ p = o2P ∨ p = q1P := by simpa [w4] using hp
    have hx' : demoCtx.sidOfPath p none = .ok x := hx
    rcases hp' with rfl | rfl | rfl | rfl | rfl | rfl
    · rw [ex_rt_o1] at hx'; injection hx' with hx'; subst hx'; simp [ents4]
    · rw [ex_rt_q2] at hx'; injection hx' with hx'; subst hx'; simp [ents4]
    · rw [ex_rt_junk] at hx'; injection hx' with hx'; subst hx'; simp [Sid.typed, Sid.empty] at hxt
    · rw [ex_rt_k3] at hx'; injection hx' with hx'; subst hx'; simp [ents4]
    · rw [ex_rt_o2] at hx'; injection hx' with hx'; subst hx'; simp [ents4]
    · rw [ex_rt_q1] at hx'; injection hx' with hx'; subst hx'; simp [ents4]

theorem ex_starOk : ∀ s' ∈ [cSid], C09.StarOk demoD w4 none ents4 s' ∨ C09.NoPath demoD w4 none ents4 s' := by
  intro s' hs'
  simp only [List.mem_singleton] at hs'
  subst hs'
  exact Or.inl ⟨⟨cPat, ex_cpat, by decide +kernel⟩, wellTyped_of_B _ _ _ (by decide +kernel),
    by decide +kernel, by decide +kernel, ex_holds4⟩

/-- `c09_finder_independent` instantiated: FindInPaths over the tree and FindInList over the
    strings of the entities return the same list -/
theorem ex_independent : ∃ r, demoD.pathsDoFind w4 none [gSid] = .ok r ∧
    demoCtx.doFindGlob (Find.starSearch demoEnv ⟨GtL.entStrings [cSid] ents4, false⟩) [gSid] = .ok r ∧
    PicksLast 5 (PathMatch demoD w4 none [cSid]) r ∧
    PicksLast 5 (fun y => y ∈ GtL.entStrings [cSid] ents4 ∧ ∃ s' ∈ [cSid], Glob s'.string y) r :=
  C09.c09_finder_independent demoD w4 none gSid [] 5 ex_gtAt [cSid] ents4 ex_resolve ex_starOk
    (fun p _ => demo_total p) demo_fix (C09.typesAgree_of_same_string _ _ (by
      intro a ha b hb
      simp only [List.mem_singleton] at ha hb
      rw [ha, hb]))

/-- the list handed to the list Finder is the five entity strings (all of the searched type) -/
theorem ex_entStrings : GtL.entStrings [cSid] ents4 = L := by decide +kernel

/-! ### (4) `get_last` -/

theorem ex_getWith : demoCtx.getWithKw o1 [(lastKey o1 (some kVersion), some ['>'])] = .ok lSid :=
  okIs_eq _ _ (by decide +kernel)
theorem ex_unfold : demoCtx.unfoldSearch lSid.string false false = .ok [lSid] :=
  okIs_eq _ _ (by decide +kernel)
theorem ex_resolve_l : Ctx.mapE (fun x => demoD.resolveSearch (gtStar x.uri)) [lSid] = .ok [lStar] :=
  okIs_eq _ _ (by decide +kernel)
theorem ex_lpat : demoCtx.sidPath none lStar = .ok (some lPat) := okIs_eq _ _ (by decide +kernel)

/-- `c09_get_last` instantiated for `o1.get_last('version')` on the demo data configuration, where
    every search is routed to the default Finder `FindInPaths()`; for ANY tree `w` -/
theorem ex_get_last (w : World) : ∃ r, demoD.pathsDoFind w none [lSid] = .ok r ∧
    PicksLast 5 (PathMatch demoD w none [lStar]) r ∧
    demoD.getLast w o1 (some kVersion) = lastAnswer demoCtx (lastKey o1 (some kVersion)) r.head? ∧
    (r = [] ↔ ¬ ∃ y, PathMatch demoD w none [lStar] y) ∧
    ∀ y, r.head? = some y → PathMatch demoD w none [lStar] y ∧
      ∀ z, PathMatch demoD w none [lStar] z → segGe y z :=
  C09.c09_get_last demoD w o1 (some kVersion) lSid lSid [] 0 none 5 (by decide) ex_getWith ex_unfold
    (by decide +kernel) rfl (by decide +kernel) [lStar] ex_resolve_l
    (by intro s' hs'; simp only [List.mem_singleton] at hs'; subst hs'; exact Or.inl ⟨lPat, ex_lpat⟩)
    (by decide +kernel) (fun p _ => demo_total p)

/-- everything before '>' is literal: the answer of that search has at most one element -/
theorem ex_single : ∀ r, PicksLast 5 (PathMatch demoD w4 none [lStar]) r → r.length ≤ 1 := by
  intro r hr
  exact C09.c09_single_answer 5 [lStar] ((Str.splitOn '/' lStar.string).take 5) _ r hr
    (C09.c09_pathMatch_glob demoD w4 none [lStar])
    (by intro s' hs'; simp only [List.mem_singleton] at hs'; subst hs'; rfl)
    (by decide +kernel)

/-- the path Finder's answer, by evaluation -/
theorem ex_last_paths_eval : demoD.pathsDoFind w4 none [lSid] = .ok [o2.string] :=
  okIs_eq _ _ (by decide +kernel)

/-- hence, from the THEOREM (`FindInAll` is a mutual recursion the kernel does not evaluate):
    the last version of the ophelia model is v002 -/
theorem ex_get_last_eval : demoD.getLast w4 o1 (some kVersion) = .ok o2 := by
  obtain ⟨r, hr, _, hg, _⟩ := ex_get_last w4
  rw [ex_last_paths_eval] at hr
  injection hr with hr
  subst hr
  rw [hg]
  exact okIs_eq _ _ (by decide +kernel)

def w0 : World := ⟨[(q1P, .file), (junkP, .file)], []⟩

/-- and on a tree without any ophelia model file the answer is the empty Sid -/
theorem ex_get_last_none : demoD.getLast w0 o1 (some kVersion) = .ok Sid.empty := by
  obtain ⟨r, hr, _, hg, _⟩ := ex_get_last w0
  have : demoD.pathsDoFind w0 none [lSid] = .ok [] := okIs_eq _ _ (by decide +kernel)
  rw [this] at hr
  have hr' : [] = r := Except.ok.inj hr
  subst hr'
  rw [hg, List.head?_nil, lastAnswer]

/-! ### an expression that unfolds into SEVERAL typed searches, one of a type without path -/

/-- "hamlet/s/sq010/sh0010/anim/v001/w/ma" (shot__file) -/
def a1 : Sid :=
  ⟨['h','a','m','l','e','t','/','s','/','s','q','0','1','0','/','s','h','0','0','1','0','/','a','n','i','m','/','v','0','0','1','/','w','/','m','a'],
    ['s','h','o','t','_','_','f','i','l','e'],
    [(['p','r','o','j','e','c','t'], ['h','a','m','l','e','t']),
     (['t','y','p','e'], ['s']),
     (['s','e','q','u','e','n','c','e'], ['s','q','0','1','0']),
     (['s','h','o','t'], ['s','h','0','0','1','0']),
     (['t','a','s','k'], ['a','n','i','m']),
     (['v','e','r','s','i','o','n'], ['v','0','0','1']),
     (['s','t','a','t','e'], ['w']),
     (['e','x','t'], ['m','a'])]⟩
def a1P : Str := ['/','R','/','d','a','t','a','/','t','e','s','t','i','n','g','/','S','P','I','L','_','P','R','O','J','E','C','T','S','/','L','O','C','A','L','/','P','R','O','J','E','C','T','S','/','H','A','M','L','E','T','/','P','R','O','D','/','S','H','O','T','S','/','s','q','0','1','0','/','s','q','0','1','0','_','s','h','0','0','1','0','/','a','n','i','m','/','v','0','0','1','/','s','q','0','1','0','_','s','h','0','0','1','0','_','a','n','i','m','_','W','O','R','K','_','v','0','0','1','.','m','a']
/-- "hamlet/s/sq010/sh0010/anim/v002/w/ma" (shot__file) -/
def a2 : Sid :=
  ⟨['h','a','m','l','e','t','/','s','/','s','q','0','1','0','/','s','h','0','0','1','0','/','a','n','i','m','/','v','0','0','2','/','w','/','m','a'],
    ['s','h','o','t','_','_','f','i','l','e'],
    [(['p','r','o','j','e','c','t'], ['h','a','m','l','e','t']),
     (['t','y','p','e'], ['s']),
     (['s','e','q','u','e','n','c','e'], ['s','q','0','1','0']),
     (['s','h','o','t'], ['s','h','0','0','1','0']),
     (['t','a','s','k'], ['a','n','i','m']),
     (['v','e','r','s','i','o','n'], ['v','0','0','2']),
     (['s','t','a','t','e'], ['w']),
     (['e','x','t'], ['m','a'])]⟩
def a2P : Str := ['/','R','/','d','a','t','a','/','t','e','s','t','i','n','g','/','S','P','I','L','_','P','R','O','J','E','C','T','S','/','L','O','C','A','L','/','P','R','O','J','E','C','T','S','/','H','A','M','L','E','T','/','P','R','O','D','/','S','H','O','T','S','/','s','q','0','1','0','/','s','q','0','1','0','_','s','h','0','0','1','0','/','a','n','i','m','/','v','0','0','2','/','s','q','0','1','0','_','s','h','0','0','1','0','_','a','n','i','m','_','W','O','R','K','_','v','0','0','2','.','m','a']
/-- "hamlet/s/sq010/sh0020/anim/v001/w/ma" (shot__file) -/
def b1 : Sid :=
  ⟨['h','a','m','l','e','t','/','s','/','s','q','0','1','0','/','s','h','0','0','2','0','/','a','n','i','m','/','v','0','0','1','/','w','/','m','a'],
    ['s','h','o','t','_','_','f','i','l','e'],
    [(['p','r','o','j','e','c','t'], ['h','a','m','l','e','t']),
     (['t','y','p','e'], ['s']),
     (['s','e','q','u','e','n','c','e'], ['s','q','0','1','0']),
     (['s','h','o','t'], ['s','h','0','0','2','0']),
     (['t','a','s','k'], ['a','n','i','m']),
     (['v','e','r','s','i','o','n'], ['v','0','0','1']),
     (['s','t','a','t','e'], ['w']),
     (['e','x','t'], ['m','a'])]⟩
def b1P : Str := ['/','R','/','d','a','t','a','/','t','e','s','t','i','n','g','/','S','P','I','L','_','P','R','O','J','E','C','T','S','/','L','O','C','A','L','/','P','R','O','J','E','C','T','S','/','H','A','M','L','E','T','/','P','R','O','D','/','S','H','O','T','S','/','s','q','0','1','0','/','s','q','0','1','0','_','s','h','0','0','2','0','/','a','n','i','m','/','v','0','0','1','/','s','q','0','1','0','_','s','h','0','0','2','0','_','a','n','i','m','_','W','O','R','K','_','v','0','0','1','.','m','a']
/-- the search "hamlet/s/*/*/*/>/w/ma": it unfolds into TWO typed searches with the same string -/
def hStr : Str := ['h','a','m','l','e','t','/','s','/','*','/','*','/','*','/','>','/','w','/','m','a']
def hNode : Sid :=
  ⟨['h','a','m','l','e','t','/','s','/','*','/','*','/','*','/','>','/','w','/','m','a'],
    ['s','h','o','t','_','_','c','a','c','h','e','_','n','o','d','e'],
    [(['p','r','o','j','e','c','t'], ['h','a','m','l','e','t']),
     (['t','y','p','e'], ['s']),
     (['s','e','q','u','e','n','c','e'], ['*']),
     (['s','h','o','t'], ['*']),
     (['t','a','s','k'], ['*']),
     (['v','e','r','s','i','o','n'], ['>']),
     (['s','t','a','t','e'], ['w']),
     (['n','o','d','e'], ['m','a'])]⟩
def hFile : Sid :=
  ⟨['h','a','m','l','e','t','/','s','/','*','/','*','/','*','/','>','/','w','/','m','a'],
    ['s','h','o','t','_','_','f','i','l','e'],
    [(['p','r','o','j','e','c','t'], ['h','a','m','l','e','t']),
     (['t','y','p','e'], ['s']),
     (['s','e','q','u','e','n','c','e'], ['*']),
     (['s','h','o','t'], ['*']),
     (['t','a','s','k'], ['*']),
     (['v','e','r','s','i','o','n'], ['>']),
     (['s','t','a','t','e'], ['w']),
     (['e','x','t'], ['m','a'])]⟩
/-- their '>' ↦ '*' readings "hamlet/s/*/*/*/*/w/ma" -/
def hNodeS : Sid :=
  ⟨['h','a','m','l','e','t','/','s','/','*','/','*','/','*','/','*','/','w','/','m','a'],
    ['s','h','o','t','_','_','c','a','c','h','e','_','n','o','d','e'],
    [(['p','r','o','j','e','c','t'], ['h','a','m','l','e','t']),
     (['t','y','p','e'], ['s']),
     (['s','e','q','u','e','n','c','e'], ['*']),
     (['s','h','o','t'], ['*']),
     (['t','a','s','k'], ['*']),
     (['v','e','r','s','i','o','n'], ['*']),
     (['s','t','a','t','e'], ['w']),
     (['n','o','d','e'], ['m','a'])]⟩
def hFileS : Sid :=
  ⟨['h','a','m','l','e','t','/','s','/','*','/','*','/','*','/','*','/','w','/','m','a'],
    ['s','h','o','t','_','_','f','i','l','e'],
    [(['p','r','o','j','e','c','t'], ['h','a','m','l','e','t']),
     (['t','y','p','e'], ['s']),
     (['s','e','q','u','e','n','c','e'], ['*']),
     (['s','h','o','t'], ['*']),
     (['t','a','s','k'], ['*']),
     (['v','e','r','s','i','o','n'], ['*']),
     (['s','t','a','t','e'], ['w']),
     (['e','x','t'], ['m','a'])]⟩
def hPat : Str := ['/','R','/','d','a','t','a','/','t','e','s','t','i','n','g','/','S','P','I','L','_','P','R','O','J','E','C','T','S','/','L','O','C','A','L','/','P','R','O','J','E','C','T','S','/','H','A','M','L','E','T','/','P','R','O','D','/','S','H','O','T','S','/','*','/','*','_','*','/','*','/','*','/','*','_','*','_','*','_','W','O','R','K','_','*','.','m','a']
/-- a hand-made pair of typed searches with DIFFERENT strings: "hamlet/s/*/*/*/>/w/mb" as shot__file … -/
def kFile : Sid :=
  ⟨['h','a','m','l','e','t','/','s','/','*','/','*','/','*','/','>','/','w','/','m','b'],
    ['s','h','o','t','_','_','f','i','l','e'],
    [(['p','r','o','j','e','c','t'], ['h','a','m','l','e','t']),
     (['t','y','p','e'], ['s']),
     (['s','e','q','u','e','n','c','e'], ['*']),
     (['s','h','o','t'], ['*']),
     (['t','a','s','k'], ['*']),
     (['v','e','r','s','i','o','n'], ['>']),
     (['s','t','a','t','e'], ['w']),
     (['e','x','t'], ['m','b'])]⟩
def kFileS : Sid :=
  ⟨['h','a','m','l','e','t','/','s','/','*','/','*','/','*','/','*','/','w','/','m','b'],
    ['s','h','o','t','_','_','f','i','l','e'],
    [(['p','r','o','j','e','c','t'], ['h','a','m','l','e','t']),
     (['t','y','p','e'], ['s']),
     (['s','e','q','u','e','n','c','e'], ['*']),
     (['s','h','o','t'], ['*']),
     (['t','a','s','k'], ['*']),
     (['v','e','r','s','i','o','n'], ['*']),
     (['s','t','a','t','e'], ['w']),
     (['e','x','t'], ['m','b'])]⟩

theorem ex2_searches : demoCtx.findSearches hStr = .ok [hNode, hFile] := okIs_eq _ _ (by decide +kernel)
theorem ex2_gtAt : GtAt 5 hNode.string := by decide +kernel
theorem ex2_resolve :
    Ctx.mapE (fun x => demoD.resolveSearch (gtStar x.uri)) [hNode, hFile] = .ok [hNodeS, hFileS] :=
  okIs_eq _ _ (by decide +kernel)
/-- `shot__cache_node` has no path template: `sid.path()` is `None` -/
theorem ex2_nopath : demoCtx.sidPath none hNodeS = .ok none := okIs_eq _ _ (by decide +kernel)
theorem ex2_pat : demoCtx.sidPath none hFileS = .ok (some hPat) := okIs_eq _ _ (by decide +kernel)

def w3 : World := ⟨[(a2P, .file), (b1P, .file), (o1P, .file), (a1P, .file)], []⟩
def ents3 : List Sid := [a2, b1, o1, a1]
/-- the shot files and (not matched) a character file -/
def L3 : List Str := [a2.string, b1.string, o1.string, a1.string]

theorem ex2_hres : ∀ s ∈ [hNode, hFile], demoCtx.strOfUri (gtStar s.uri) = .ok (gtStar s.string) := by
  intro s hs
  simp only [List.mem_cons, List.not_mem_nil, or_false] at hs
  rcases hs with rfl | rfl
  · exact okIs_eq _ _ (by decide +kernel)
  · exact okIs_eq _ _ (by decide +kernel)

/-- (1) for two typed searches -/
theorem ex2_list : ∃ r, demoCtx.findInList ⟨L3, false⟩ hStr = .ok r ∧
    PicksLast 5 (ListMatch L3 [hNode, hFile]) r :=
  C09.c09_find_in_list demoCtx L3 hStr hNode [hFile] 5 ex2_searches ex2_gtAt (by decide +kernel) ex2_hres

theorem ex2_list_eval : demoCtx.findInList ⟨L3, false⟩ hStr = .ok [b1.string, a2.string] :=
  okIs_eq _ _ (by decide +kernel)

theorem ex2_hasPattern : ∀ s' ∈ [hNodeS, hFileS], HasPattern demoD w3 none s' := by
  intro s' hs'
  simp only [List.mem_cons, List.not_mem_nil, or_false] at hs'
  rcases hs' with rfl | rfl
  · exact Or.inr ⟨ex2_nopath, by decide +kernel⟩
  · exact Or.inl ⟨hPat, ex2_pat⟩

/-- (2) for two typed searches, the first of a type without path template -/
theorem ex2_paths : ∃ r, demoD.findInPaths w3 none hStr = .ok r ∧
    PicksLast 5 (PathMatch demoD w3 none [hNodeS, hFileS]) r :=
  C09.c09_find_in_paths demoD w3 none hStr hNode [hFile] 5 ex2_searches ex2_gtAt [hNodeS, hFileS]
    ex2_resolve ex2_hasPattern (by decide +kernel) (fun p _ => demo_total p)

theorem ex2_paths_eval : demoD.findInPaths w3 none hStr = .ok [b1.string, a2.string] :=
  okIs_eq _ _ (by decide +kernel)

theorem ex_rt_a1 : demoCtx.sidOfPath a1P none = .ok a1 := okIs_eq _ _ (by decide +kernel)
theorem ex_rt_a2 : demoCtx.sidOfPath a2P none = .ok a2 := okIs_eq _ _ (by decide +kernel)
theorem ex_rt_b1 : demoCtx.sidOfPath b1P none = .ok b1 := okIs_eq _ _ (by decide +kernel)

theorem ex2_holds : C11.HoldsExactly demoD w3 none hFileS.type ents3 where
  ents_ok := by
    intro e he
    simp only [ents3, List.mem_cons, List.not_mem_nil, or_false] at he
    rcases he with rfl | rfl | rfl | rfl
    · exact ⟨wellTyped_of_B _ _ _ (by decide +kernel), by decide, by decide +kernel, a2P, by decide +kernel, ex_rt_a2⟩
    · exact ⟨wellTyped_of_B _ _ _ (by decide +kernel), by decide, by decide +kernel, b1P, by decide +kernel, ex_rt_b1⟩
    · exact ⟨wellTyped_of_B _ _ _ (by decide +kernel), by decide, by decide +kernel, o1P, by decide +kernel, ex_rt_o1⟩
    · exact ⟨wellTyped_of_B _ _ _ (by decide +kernel), by decide, by decide +kernel, a1P, by decide +kernel, ex_rt_a1⟩
  total := fun p _ => demo_total p
  exact := by
    intro p hp x hx _ _
    have hp' : p = a2P ∨ p = b1P ∨ p = o1P ∨ p = a1P := by simpa [w3] using hp
    have hx' : demoCtx.sidOfPath p none = .ok x := hx
    rcases hp' with rfl | rfl | rfl | rfl
    · rw [ex_rt_a2] at hx'; injection hx' with hx'; subst hx'; simp [ents3]
    · rw [ex_rt_b1] at hx'; injection hx' with hx'; subst hx'; simp [ents3]
    · rw [ex_rt_o1] at hx'; injection hx' with hx'; subst hx'; simp [ents3]
    · rw [ex_rt_a1] at hx'; injection hx' with hx'; subst hx'; simp [ents3]

theorem ex2_ok : ∀ s' ∈ [hNodeS, hFileS],
    C09.StarOk demoD w3 none ents3 s' ∨ C09.NoPath demoD w3 none ents3 s' := by
  intro s' hs'
  simp only [List.mem_cons, List.not_mem_nil, or_false] at hs'
  rcases hs' with rfl | rfl
  · exact Or.inr ⟨ex2_nopath, by decide +kernel, by decide +kernel, by decide +kernel⟩
  · exact Or.inl ⟨⟨hPat, ex2_pat, by decide +kernel⟩, wellTyped_of_B _ _ _ (by decide +kernel),
      by decide +kernel, by decide +kernel, ex2_holds⟩

/-- (3) for two typed searches: the two star searches have the same string, so `TypesAgree` -/
theorem ex2_independent : ∃ r, demoD.pathsDoFind w3 none [hNode, hFile] = .ok r ∧
    demoCtx.doFindGlob (Find.starSearch demoEnv ⟨GtL.entStrings [hNodeS, hFileS] ents3, false⟩)
      [hNode, hFile] = .ok r ∧
    PicksLast 5 (PathMatch demoD w3 none [hNodeS, hFileS]) r ∧
    PicksLast 5 (fun y => y ∈ GtL.entStrings [hNodeS, hFileS] ents3 ∧
      ∃ s' ∈ [hNodeS, hFileS], Glob s'.string y) r :=
  C09.c09_finder_independent demoD w3 none hNode [hFile] 5 ex2_gtAt [hNodeS, hFileS] ents3 ex2_resolve
    ex2_ok (fun p _ => demo_total p) demo_fix
    (C09.typesAgree_of_same_string _ _ (by decide +kernel))

/-- the entities of the searched types: the character file is left out -/
theorem ex2_entStrings : GtL.entStrings [hNodeS, hFileS] ents3 = [a2.string, b1.string, a1.string] := by
  decide +kernel

/-! ### `TypesAgree` is needed (known finding K6, on the shipped configuration) -/

/-- the typed searches `shot__file:hamlet/s/*/*/*/>/w/mb` and `shot__cache_node:hamlet/s/*/*/*/>/w/ma`
    (different strings).  The entity `a1` ("…/v001/w/ma") is a `shot__file`: the list Finder over
    the entities of the searched types returns it — the string of the `shot__cache_node` search
    matches it, and a list Finder does not look at types — while the path Finder finds nothing:
    no `shot__file` search matches it.  `TypesAgree` fails for exactly that entity. -/
theorem c09_typesAgree_needed :
    demoCtx.sidOfString kFile.uri = .ok kFile ∧ demoCtx.sidOfString hNode.uri = .ok hNode ∧
    Ctx.mapE (fun x => demoD.resolveSearch (gtStar x.uri)) [kFile, hNode] = .ok [kFileS, hNodeS] ∧
    GtL.entStrings [kFileS, hNodeS] ents3 = [a2.string, b1.string, a1.string] ∧
    demoD.pathsDoFind w3 none [kFile, hNode] = .ok [] ∧
    demoCtx.doFindGlob (Find.starSearch demoEnv ⟨GtL.entStrings [kFileS, hNodeS] ents3, false⟩)
      [kFile, hNode] = .ok [b1.string, a2.string] ∧
    ¬ C09.TypesAgree [kFileS, hNodeS] ents3 := by
  refine ⟨okIs_eq _ _ (by decide +kernel), okIs_eq _ _ (by decide +kernel),
    okIs_eq _ _ (by decide +kernel), by decide +kernel, okIs_eq _ _ (by decide +kernel),
    okIs_eq _ _ (by decide +kernel), fun h => ?_⟩
  have hg : Glob hNodeS.string a1.string :=
    (C08.c08_glob2re demoEnv _ _ (by decide +kernel)).1 (by decide +kernel)
  obtain ⟨t, ht, h1, h2⟩ := h a1 (by simp [ents3]) hNodeS (by simp) hg ⟨kFileS, by simp, by decide⟩
  simp only [List.mem_cons, List.not_mem_nil, or_false] at ht
  rcases ht with rfl | rfl
  · have := (C08.c08_glob2re demoEnv _ _ (by decide +kernel)).2 h2
    revert this
    decide +kernel
  · revert h1
    decide

/-! ### outside the premise: not every unfolded form carries '>' -/

/-- "hamlet/a/char/ophelia/model/*,>/w/ma": a list of alternatives mixing `*` and `>` -/
def mStr : Str := ['h','a','m','l','e','t','/','a','/','c','h','a','r','/','o','p','h','e','l','i','a','/','m','o','d','e','l','/','*',',','>','/','w','/','m','a']

/-- it unfolds into the `*` search FIRST (sorted by string, '*' < '>') and the '>' search; some
    search contains '>', the first one does not: `segments.index('>')` raises ValueError
    (`c09_gt_not_segment`), for the list Finder as for every Finder built on `FindByGlob` -/
theorem ex_mixed_raises : demoCtx.findSearches mStr = .ok [lStar, lSid] ∧
    demoCtx.findInList ⟨L, false⟩ mStr = .error .value := by
  have h : demoCtx.findSearches mStr = .ok [lStar, lSid] := okIs_eq _ _ (by decide +kernel)
  refine ⟨h, ?_⟩
  simp only [Ctx.findInList, h]
  exact C09.c09_gt_not_segment demoCtx _ lStar [lSid] (by decide +kernel) (by decide +kernel)

end C09Ex
