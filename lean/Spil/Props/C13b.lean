/-
  Spil.Props.C13b — regression witness for defect D27 (fix 643db89): a cache keyed by the Sid
  ARGUMENT is keyed by Python equality of Sids, i.e. by their uri; an UNDEFINED Sid can have the
  uri of a typed one, and `PathSid.path` does not answer the same for the two.  `c13_fresh` asks
  that the wrapped function depend on the key only: `c13_path_not_congruent` shows that the path of
  a Sid does not, `c13_path_on_sid_wrong` that the two-call history is then answered wrongly by
  the cache as it was, `c13_path_repaired_right` that it is answered rightly once the undefined case
  is decided before the cache (the repair), all on the shipped configuration, by kernel evaluation.
-/
import Spil.Props.C13
import Spil.Props.C05c

namespace C13

open Generated Cache C05

/-- `Sid('x:asset:hamlet/a')`: there is no type `x`; undefined, keeps the string `asset:hamlet/a` -/
def xUndefined : Sid := ⟨['a','s','s','e','t',':','h','a','m','l','e','t','/','a'], [], []⟩

/-- `Sid('asset:hamlet/a')` -/
def xTyped : Sid := ⟨['h','a','m','l','e','t','/','a'], ['a','s','s','e','t'],
  [(['p','r','o','j','e','c','t'], ['h','a','m','l','e','t']), (['t','y','p','e'], ['a'])]⟩

/-- the two Sids as the factory builds them -/
theorem c13_same_uri_sids :
    demoCtx.sidOfString ['x',':','a','s','s','e','t',':','h','a','m','l','e','t','/','a'] = .ok xUndefined ∧
    demoCtx.sidOfString ['a','s','s','e','t',':','h','a','m','l','e','t','/','a'] = .ok xTyped :=
  ⟨eq_ok_of_test _ _ (by decide +kernel), eq_ok_of_test _ _ (by decide +kernel)⟩

/-- how Python compares and hashes a Sid argument: by its uri -/
def sidKey (c : Call Sid) : List Str := c.args.map Sid.uri

/-- `sid.path()` of the first argument, in the default path configuration (errors as `none`) -/
def pathOf (c : Call Sid) : Option Str :=
  match c.args.head? with
  | some x => (match demoCtx.sidPath none x with | .ok p => p | .error _ => none)
  | none => none

/-- equal keys, different Sids, different answers: the path of a Sid is NOT a function of the key
    a cache on the Sid argument uses -/
theorem c13_path_not_congruent :
    sidKey ⟨[xUndefined], []⟩ = sidKey ⟨[xTyped], []⟩ ∧ xUndefined ≠ xTyped ∧
    pathOf ⟨[xUndefined], []⟩ = none ∧ (pathOf ⟨[xTyped], []⟩).isSome = true := by
  refine ⟨by decide +kernel, by decide, by decide +kernel, by decide +kernel⟩

/-- the cache as it was (D27): the undefined Sid first, then the typed one — the second call is
    answered `None` -/
theorem c13_path_on_sid_wrong :
    runHist (stepLru sidKey pathOf 4096 popitem) [] [⟨[xUndefined], []⟩, ⟨[xTyped], []⟩]
      ≠ [⟨[xUndefined], []⟩, ⟨[xTyped], []⟩].map pathOf := by
  decide +kernel

/-- the repaired method: an undefined Sid is answered before the cache is consulted -/
def stepRepaired (st : Store (List Str) (Option Str)) (c : Call Sid) :
    Store (List Str) (Option Str) × Option Str :=
  match c.args.head? with
  | some x => if x.fields.isEmpty then (st, none) else stepLru sidKey pathOf 4096 popitem st c
  | none => (st, none)

theorem c13_path_repaired_right :
    runHist stepRepaired [] [⟨[xUndefined], []⟩, ⟨[xTyped], []⟩, ⟨[xUndefined], []⟩, ⟨[xTyped], []⟩]
      = [⟨[xUndefined], []⟩, ⟨[xTyped], []⟩, ⟨[xUndefined], []⟩, ⟨[xTyped], []⟩].map pathOf := by
  decide +kernel

end C13
