/-
  Spil.Props.C06 — "A path resolves only to the Sid that owns it, and never makes Sid() fail"
  Spil.Props.C05 — "Sid -> path -> Sid is the identity in every path configuration"

  C06's ownership clause is proved outright for EVERY path string, configuration and regex
  behaviour (it rests on the render-back guard of the repaired `path_to_sid`, not on how the regex
  matched).  C05's round trip is proved as the composition law of the two directions under
  explicit, named inversion hypotheses (`…_partial`): that the path regexes parse a rendered path
  back to the values that rendered it is a property of the regular languages of the configured
  templates, which is tied to the code by correspondence and by the C05 oracle, not proved here.
-/
import Spil.Model.Path
import Spil.Lemmas.PathL

namespace C06

variable (c : Ctx)

/-- whenever `Sid(path=p, config=cfg)` is typed, that Sid's `path(cfg)` is exactly `p` -/
theorem c06_owner (p : Str) (cfg : Option Str) (x : Sid) (h : c.sidOfPath p cfg = .ok x)
    (ht : x.typed = true) : c.sidPath cfg x = .ok (some p) := by
  unfold Ctx.sidOfPath at h
  split at h
  · simp only [Except.ok.injEq] at h
    subst h
    simp [Sid.typed, Sid.empty] at ht
  · split at h
    · simp at h
    · next r hr =>
      simp only [Except.ok.injEq] at h
      cases r with
      | none =>
        simp only [Option.getD_none] at h
        subst h
        simp [Sid.typed, Sid.empty] at ht
      | some y =>
        simp only [Option.getD_some] at h
        subst h
        exact (PathL.pathToSid_some c p cfg y hr).2

/-- an untyped result is the empty Sid (falsy, empty string and type) -/
theorem c06_untyped_empty (p : Str) (cfg : Option Str) (x : Sid) (h : c.sidOfPath p cfg = .ok x)
    (ht : x.typed = false) : x = Sid.empty := by
  unfold Ctx.sidOfPath at h
  split at h
  · simpa using h.symm
  · split at h
    · simp at h
    · next r hr =>
      simp only [Except.ok.injEq] at h
      cases r with
      | none => simpa using h.symm
      | some y =>
        simp only [Option.getD_some] at h
        subst h
        have := (PathL.pathToSid_some c p cfg y hr).1
        simp [Sid.typed, this] at ht

/-- a path in which a repeated field carries two different values (resolva's duplicate check
    fails) does not resolve: no exception escapes `path_to_dict` -/
theorem c06_desync (pc : PathConf) (p : Str)
    (h : Resolver.resolveFirst c.env pc.resolver p = .error .resolva) :
    c.pathToDict pc p none = .ok none := by
  rw [PathL.pathToDict_none_eq, h]

/-- a path that matches no template gives the empty Sid -/
theorem c06_no_match (p : Str) (cfg : Option Str) (pc : PathConf) (hpc : c.cfg.pathConf? cfg = some pc)
    (h : Resolver.resolveFirst c.env pc.resolver p = .ok none) : c.sidOfPath p cfg = .ok Sid.empty := by
  unfold Ctx.sidOfPath
  split
  · rfl
  · unfold Ctx.pathToSid
    rw [hpc]
    simp only
    rw [PathL.pathToDict_none_eq, h]
    rfl

/-- which failures are possible at all: `Sid(path=…)` can only fail for an unknown configuration
    name (`other`), a basetype missing from `key_types` (`type`), or a duplicate-placeholder clash
    while re-checking a path the code rendered itself (`resolva`); never with a SpilException,
    KeyError or ValueError -/
theorem c06_errors (p : Str) (cfg : Option Str) (e : Err) (h : c.sidOfPath p cfg = .error e) :
    e = .other ∨ e = .type ∨ e = .resolva := by
  unfold Ctx.sidOfPath at h
  split at h
  · simp at h
  · split at h
    · next e' he =>
      simp only [Except.error.injEq] at h
      subst h
      exact PathL.pathToSid_err c p cfg _ he
    · simp at h

/-- totality under the three conventions: the configuration exists, `key_types` lists every
    basetype that has a path template, and re-checking a rendered path never hits a duplicate
    clash -/
theorem c06_total_partial (p : Str) (cfg : Option Str) (pc : PathConf) (hpc : c.cfg.pathConf? cfg = some pc)
    (hkt : ∀ label, (pc.resolver.lookup label).isSome →
       (c.cfg.sid.keyTypes.lookup (((Str.splitStr label c.cfg.sid.sep).head?).getD [])).isSome)
    (hclash : ∀ data label, Resolver.formatOne c.env pc.resolver data label ≠ .error .resolva) :
    ∃ x, c.sidOfPath p cfg = .ok x := by
  unfold Ctx.sidOfPath
  split
  · exact ⟨_, rfl⟩
  · obtain ⟨r, hr⟩ := PathL.pathToSid_total c p cfg pc hpc hkt hclash
    rw [hr]
    exact ⟨_, rfl⟩

end C06

namespace C05

variable (c : Ctx)

/-- an untyped Sid has path None -/
theorem c05_none_untyped (cfg : Option Str) (x : Sid) (h : x.fields = []) : c.sidPath cfg x = .ok none := by
  unfold Ctx.sidPath
  simp [h]

/-- a Sid whose type has no path template in the configuration has path None rather than an error -/
theorem c05_none_no_template (cfg : Option Str) (pc : PathConf) (hpc : c.cfg.pathConf? cfg = some pc)
    (x : Sid) (h : pc.resolver.lookup x.type = none) : c.sidPath cfg x = .ok none := by
  have hd : c.dictToPath pc x.fields x.type = .error .spil := by
    unfold Ctx.dictToPath
    split
    · rfl
    · rw [h]
  unfold Ctx.sidPath
  split
  · rfl
  · rw [hpc]
    simp only [hd]

/-- `path(config)` only ever returns None or a normalised path; its only failure modes are an
    unknown configuration and a duplicate clash of the reverse check -/
theorem c05_path_errors (cfg : Option Str) (x : Sid) (e : Err) (h : c.sidPath cfg x = .error e) :
    e = .other ∨ e = .resolva := by
  exact PathL.sidPath_err c cfg x e h

/-- the inverse law for the value mapping: a sid value that is mapped to a path value and back is
    unchanged, provided the mapping is one-to-one and no mapped path value is itself a sid value
    of the same mapping other than its own image ("one-to-one", "idempotent") -/
theorem c05_mapping_inverse (m : List (Str × Str)) (v : Str)
    (hkeys : (m.map (·.1)).Nodup)
    (hidem : v ∉ m.map (·.2) → m.lookup v = none) :
    (m.lookup (Ctx.getKey m v)).getD (Ctx.getKey m v) = v := by
  unfold Ctx.getKey
  cases hf : m.find? (·.2 == v) with
  | some kv =>
    obtain ⟨k, v'⟩ := kv
    have hv : v' = v := by simpa using List.find?_some hf
    have hmem := List.mem_of_find?_eq_some hf
    subst hv
    simp only
    rw [PathL.lookup_of_mem_nodup m hkeys k v' hmem]
    rfl
  | none =>
    simp only
    have hnot : v ∉ m.map (·.2) := by
      intro hm
      obtain ⟨p, hp, hpv⟩ := List.mem_map.mp hm
      have := List.find?_eq_none.mp hf p hp
      simp [hpv] at this
    rw [hidem hnot]
    rfl

/-- round trip as a composition law: if the path `p` of a typed Sid `x`
    * is resolved by the path resolver back to `x`'s own type with a dictionary `d` (parse-back),
    * whose values map back to `x`'s fields (mapping inverse) in `key_types` order (key order),
    * and `x`'s fields render `x`'s string under its type,
    then `Sid(path=p, config=cfg)` is `x`. -/
theorem c05_roundtrip_partial (cfg : Option Str) (pc : PathConf) (hpc : c.cfg.pathConf? cfg = some pc)
    (x : Sid) (p : Str) (hx : x.fields ≠ []) (hp : c.sidPath cfg x = .ok (some p)) (hpne : p ≠ [])
    (hparse : c.pathToDict pc p none = .ok (some (x.type, x.fields)))
    (hstr : c.dictToSidStr x.fields x.type = .ok x.string) (hs : x.string ≠ []) :
    c.sidOfPath p cfg = .ok x := by
  have hpe : p.isEmpty = false := by simp [hpne]
  have hfe : x.fields.isEmpty = false := by simp [hx]
  have hse : x.string.isEmpty = false := by simp [hs]
  unfold Ctx.sidOfPath
  simp only [hpe, Bool.false_eq_true, if_false]
  unfold Ctx.pathToSid
  rw [hpc]
  simp only [hparse, hfe, hstr, hse, Bool.false_eq_true, if_false]
  have hxx : (⟨x.string, x.type, x.fields⟩ : Sid) = x := rfl
  rw [hxx, hp]
  simp

/-- injectivity is a corollary of the round trip: two Sids that both survive the round trip and
    have the same path are equal ("two different Sids never map to the same path") -/
theorem c05_injective_partial (cfg : Option Str) (x y : Sid) (p q : Str)
    (hx : c.sidPath cfg x = .ok (some p)) (hy : c.sidPath cfg y = .ok (some q))
    (rx : c.sidOfPath p cfg = .ok x) (ry : c.sidOfPath q cfg = .ok y) (h : p = q) : x = y := by
  -- `hx`, `hy` are not needed: `Sid(path=…)` is a function, so `rx`, `ry` alone force `x = y`
  have _ := hx
  have _ := hy
  subst h
  rw [rx] at ry
  simpa using ry

end C05
