/-
  Spil.Props.C11bExamples — non-vacuity of C11b on the SHIPPED configuration (a small world, a
  whole-segment star search, every hypothesis of the theorems discharged by the kernel), the
  regression witness of the repaired soundness defect (D25), and the counterexamples showing that
  each hypothesis of `c11_pattern_matches` is needed.  GENERATED char lists; the statements are
  re-decided by the kernel on every build against the regenerated `DemoConf.lean`.
-/
import Spil.Generated.DemoConf
import Spil.Props.C11b
import Spil.Props.Tie

namespace C11Ex

open Spec Generated GlobL

def demoCtx : Ctx := ⟨demoConf, demoEnv⟩
/-- the data tables are irrelevant for `FindInPaths` -/
def demoD : DCtx := ⟨demoCtx, ⟨[.paths none], [], some 0, [], true⟩⟩

def okIs {α} [DecidableEq α] (x : Except Err α) (y : α) : Bool :=
  match x with
  | .ok v => decide (v = y)
  | .error _ => false

theorem okIs_eq {α} [DecidableEq α] (x : Except Err α) (y : α) (h : okIs x y = true) : x = .ok y := by
  unfold okIs at h
  split at h
  · simp only [decide_eq_true_eq] at h; rw [h]
  · cases h

/-- Boolean reading of `wellTyped` -/
def wellTypedB (e : Env) (ts : List (Str × Template)) (x : Sid) : Bool :=
  match ts.lookup x.type with
  | some t => !x.string.isEmpty && accepts e t x.string && decide (x.fields = fieldsOf t x.string)
  | none => false

theorem wellTyped_of_B (e : Env) (ts : List (Str × Template)) (x : Sid) (h : wellTypedB e ts x = true) :
    wellTyped e ts x := by
  unfold wellTypedB at h
  split at h
  · next t ht =>
    simp only [Bool.and_eq_true, Bool.not_eq_true', decide_eq_true_eq] at h
    refine ⟨t, ht, ?_, h.1.2, h.2⟩
    intro e0; rw [e0] at h; simp at h
  · cases h

/-! ### the demo world -/

/-- "hamlet/a/*/*/model/*/w/ma" -/
def sStr : Str := ['h','a','m','l','e','t','/','a','/','*','/','*','/','m','o','d','e','l','/','*','/','w','/','m','a']
def sSid : Sid :=
  ⟨['h','a','m','l','e','t','/','a','/','*','/','*','/','m','o','d','e','l','/','*','/','w','/','m','a'],
    ['a','s','s','e','t','_','_','f','i','l','e'],
    [(['p','r','o','j','e','c','t'], ['h','a','m','l','e','t']),
     (['t','y','p','e'], ['a']),
     (['a','s','s','e','t','t','y','p','e'], ['*']),
     (['a','s','s','e','t'], ['*']),
     (['t','a','s','k'], ['m','o','d','e','l']),
     (['v','e','r','s','i','o','n'], ['*']),
     (['s','t','a','t','e'], ['w']),
     (['e','x','t'], ['m','a'])]⟩
/-- the glob pattern of the search -/
def sPat : Str := ['/','R','/','d','a','t','a','/','t','e','s','t','i','n','g','/','S','P','I','L','_','P','R','O','J','E','C','T','S','/','L','O','C','A','L','/','P','R','O','J','E','C','T','S','/','H','A','M','L','E','T','/','P','R','O','D','/','A','S','S','E','T','S','/','*','/','*','/','m','o','d','e','l','/','*','/','*','_','*','_','m','o','d','e','l','_','W','O','R','K','_','*','.','m','a']
/-- "hamlet/a/char/ophelia/model/v001/w/ma" and its file -/
def e1 : Sid :=
  ⟨['h','a','m','l','e','t','/','a','/','c','h','a','r','/','o','p','h','e','l','i','a','/','m','o','d','e','l','/','v','0','0','1','/','w','/','m','a'],
    ['a','s','s','e','t','_','_','f','i','l','e'],
    [(['p','r','o','j','e','c','t'], ['h','a','m','l','e','t']),
     (['t','y','p','e'], ['a']),
     (['a','s','s','e','t','t','y','p','e'], ['c','h','a','r']),
     (['a','s','s','e','t'], ['o','p','h','e','l','i','a']),
     (['t','a','s','k'], ['m','o','d','e','l']),
     (['v','e','r','s','i','o','n'], ['v','0','0','1']),
     (['s','t','a','t','e'], ['w']),
     (['e','x','t'], ['m','a'])]⟩
def p1 : Str := ['/','R','/','d','a','t','a','/','t','e','s','t','i','n','g','/','S','P','I','L','_','P','R','O','J','E','C','T','S','/','L','O','C','A','L','/','P','R','O','J','E','C','T','S','/','H','A','M','L','E','T','/','P','R','O','D','/','A','S','S','E','T','S','/','c','h','a','r','/','o','p','h','e','l','i','a','/','m','o','d','e','l','/','v','0','0','1','/','c','h','a','r','_','o','p','h','e','l','i','a','_','m','o','d','e','l','_','W','O','R','K','_','v','0','0','1','.','m','a']
/-- "hamlet/a/prop/skull/model/v002/w/ma" and its file -/
def e2 : Sid :=
  ⟨['h','a','m','l','e','t','/','a','/','p','r','o','p','/','s','k','u','l','l','/','m','o','d','e','l','/','v','0','0','2','/','w','/','m','a'],
    ['a','s','s','e','t','_','_','f','i','l','e'],
    [(['p','r','o','j','e','c','t'], ['h','a','m','l','e','t']),
     (['t','y','p','e'], ['a']),
     (['a','s','s','e','t','t','y','p','e'], ['p','r','o','p']),
     (['a','s','s','e','t'], ['s','k','u','l','l']),
     (['t','a','s','k'], ['m','o','d','e','l']),
     (['v','e','r','s','i','o','n'], ['v','0','0','2']),
     (['s','t','a','t','e'], ['w']),
     (['e','x','t'], ['m','a'])]⟩
def p2 : Str := ['/','R','/','d','a','t','a','/','t','e','s','t','i','n','g','/','S','P','I','L','_','P','R','O','J','E','C','T','S','/','L','O','C','A','L','/','P','R','O','J','E','C','T','S','/','H','A','M','L','E','T','/','P','R','O','D','/','A','S','S','E','T','S','/','p','r','o','p','/','s','k','u','l','l','/','m','o','d','e','l','/','v','0','0','2','/','p','r','o','p','_','s','k','u','l','l','_','m','o','d','e','l','_','W','O','R','K','_','v','0','0','2','.','m','a']
/-- a file that conforms to no template -/
def pJunk : Str := ['/','R','/','d','a','t','a','/','t','e','s','t','i','n','g','/','S','P','I','L','_','P','R','O','J','E','C','T','S','/','L','O','C','A','L','/','P','R','O','J','E','C','T','S','/','H','A','M','L','E','T','/','P','R','O','D','/','A','S','S','E','T','S','/','c','h','a','r','/','o','p','h','e','l','i','a','/','m','o','d','e','l','/','v','0','0','1','/','n','o','t','e','s','.','t','x','t']

def w2 : World := ⟨[(p1, .file), (pJunk, .file), (p2, .file)], []⟩

theorem ex_search : demoCtx.sidOfString sStr = .ok sSid := okIs_eq _ _ (by decide +kernel)
theorem ex_pat : demoCtx.sidPath none sSid = .ok (some sPat) := okIs_eq _ _ (by decide +kernel)
theorem ex_rt1 : demoCtx.sidOfPath p1 none = .ok e1 := okIs_eq _ _ (by decide +kernel)
theorem ex_rt2 : demoCtx.sidOfPath p2 none = .ok e2 := okIs_eq _ _ (by decide +kernel)
theorem ex_junk : demoCtx.sidOfPath pJunk none = .ok Sid.empty := okIs_eq _ _ (by decide +kernel)
theorem ex_pc : demoCtx.cfg.pathConf? none = some demoPath_local := by decide +kernel

/-- `Sid(path=…)` never raises on the shipped configuration: the totality hypothesis of C11b,
    discharged by C06 -/
theorem demo_total (p : Str) : ∃ x, demoCtx.sidOfPath p none = .ok x := by
  apply C11.c11_total_of_wf demoD none demoPath_local ex_pc Tie.demo_path_wf_local
  intro label hl
  have hall : demoPath_local.templates.all (fun lt =>
      (demoConf.sid.keyTypes.lookup (((Str.splitStr lt.1 demoConf.sid.sep).head?).getD [])).isSome) = true := by
    decide +kernel
  cases hlk : demoPath_local.resolver.lookup label with
  | none => rw [hlk] at hl; cases hl
  | some t => exact List.all_eq_true.1 hall _ (FSL.lookup_some_mem _ _ _ hlk)

theorem demo_fix (pc : PathConf) (h : demoCtx.cfg.pathConf? none = some pc) : starFixed pc = true := by
  rw [ex_pc] at h
  injection h with h
  subst h
  decide +kernel

theorem ex_glob1 : SidGlob sSid e1 := by decide +kernel
theorem ex_glob2 : SidGlob sSid e2 := by decide +kernel
theorem ex_vals1 : entityValsOk demoCtx none e1 = true := by decide +kernel
theorem ex_vals2 : entityValsOk demoCtx none e2 = true := by decide +kernel
theorem ex_nobracket : '[' ∉ sPat := by decide +kernel
theorem ex_nobracket_s : '[' ∉ sSid.string := by decide +kernel
theorem ex_wt_s : wellTyped demoEnv demoConf.sid.templates sSid := wellTyped_of_B _ _ _ (by decide +kernel)
theorem ex_wt_1 : wellTyped demoEnv demoConf.sid.templates e1 := wellTyped_of_B _ _ _ (by decide +kernel)
theorem ex_wt_2 : wellTyped demoEnv demoConf.sid.templates e2 := wellTyped_of_B _ _ _ (by decide +kernel)
theorem ex_whole : wholeStar sStr := by decide +kernel

/-- (1) instantiated: the search succeeds, without duplicates, with the stated membership -/
theorem ex_star_one : ∃ r, demoD.pathsStarSids w2 none [sSid] = .ok r ∧ r.Nodup ∧
    ∀ x, x ∈ r ↔ ∃ p ∈ w2.glob sPat,
      demoCtx.sidOfPath p none = .ok x ∧ x.typed = true ∧ x.type = sSid.type ∧
      Find.globMatch demoEnv sSid.string x.string = .ok true :=
  C11.c11_star_one demoD w2 none sSid sPat ex_pat ex_nobracket_s (fun p _ => demo_total p)

/-- (2) instantiated: the pattern matches the entity's path component by component -/
theorem ex_pattern_matches :
    (Str.splitOn '/' sPat).length = (Str.splitOn '/' p1).length ∧
    ∀ (i : Nat) (a b : Str), (Str.splitOn '/' sPat)[i]? = some a → (Str.splitOn '/' p1)[i]? = some b →
      World.compMatch a b = true :=
  C11.c11_pattern_matches demoCtx none sSid e1 sPat p1 ex_pat
    (C06.c06_owner demoCtx p1 none e1 ex_rt1 (by decide)) ex_glob1 demo_fix ex_vals1 ex_nobracket

/-- (3) instantiated: both entities are found — derived from the theorems, not by evaluation -/
theorem ex_complete : ∃ r, demoD.pathsStarSids w2 none [sSid] = .ok r ∧ e1 ∈ r ∧ e2 ∈ r := by
  obtain ⟨r, hr, _, _⟩ := ex_star_one
  refine ⟨r, hr, ?_, ?_⟩
  · exact C11.c11_complete demoD w2 none sSid e1 sPat p1 r ex_pat ex_wt_s ex_wt_1 ex_nobracket_s
      (by decide +kernel) ex_rt1 (by decide)
      ex_glob1 demo_fix ex_vals1 ex_nobracket (fun p _ => demo_total p) hr
  · exact C11.c11_complete demoD w2 none sSid e2 sPat p2 r ex_pat ex_wt_s ex_wt_2 ex_nobracket_s
      (by decide +kernel) ex_rt2 (by decide)
      ex_glob2 demo_fix ex_vals2 ex_nobracket (fun p _ => demo_total p) hr

/-- and by evaluation of the model: exactly these two, the junk file is ignored -/
theorem ex_eval : demoD.pathsStarSids w2 none [sSid] = .ok [e1, e2] := okIs_eq _ _ (by decide +kernel)


/-- the list search over the strings of the two entities finds both -/
theorem ex_list : Find.starSearch demoEnv ⟨[e1, e2].map (·.string), false⟩ [sSid.string] =
    .ok [e1.string, e2.string] := okIs_eq _ _ (by decide +kernel)

/-- FindInList ⊆ FindInPaths, instantiated with every hypothesis discharged -/
theorem ex_list_subset_paths :
    ∀ e ∈ [e1, e2], e.type = sSid.type → e.string ∈ [e1.string, e2.string] → e ∈ [e1, e2] := by
  apply C11.c11_list_subset_paths demoD w2 none sSid sPat [e1, e2] [e1.string, e2.string] [e1, e2]
    ex_pat ex_wt_s ex_whole (by decide +kernel) ex_nobracket demo_fix (fun p _ => demo_total p) ?_
    ex_list ex_eval
  intro e he
  simp only [List.mem_cons, List.not_mem_nil, or_false] at he
  rcases he with rfl | rfl
  · exact ⟨ex_wt_1, by decide, ex_vals1, p1, by decide +kernel, ex_rt1⟩
  · exact ⟨ex_wt_2, by decide, ex_vals2, p2, by decide +kernel, ex_rt2⟩

/-- fields ⇒ strings on the demo Sids -/
theorem ex_string_glob : Glob sSid.string e1.string :=
  C11.c11_string_glob demoEnv demoConf.sid.templates sSid e1 ex_wt_s ex_wt_1 ex_glob1 (by decide +kernel)

/-! ### (5) FindInPaths = FindInList, local = server -/

/-- the demo tree holds exactly the two entities plus junk (local configuration) -/
theorem ex_holds : C11.HoldsExactly demoD w2 none sSid.type [e1, e2] where
  ents_ok := by
    intro e he
    simp only [List.mem_cons, List.not_mem_nil, or_false] at he
    rcases he with rfl | rfl
    · exact ⟨ex_wt_1, by decide, ex_vals1, p1, by decide +kernel, ex_rt1⟩
    · exact ⟨ex_wt_2, by decide, ex_vals2, p2, by decide +kernel, ex_rt2⟩
  total := fun p _ => demo_total p
  exact := by
    intro p hp x hx hxt _
    have hp' : p = p1 ∨ p = pJunk ∨ p = p2 := by simpa [w2] using hp
    have hx' : demoCtx.sidOfPath p none = .ok x := hx
    rcases hp' with rfl | rfl | rfl
    · rw [ex_rt1] at hx'; injection hx' with hx'; subst hx'; simp
    · rw [ex_junk] at hx'; injection hx' with hx'; subst hx'; simp [Sid.typed, Sid.empty] at hxt
    · rw [ex_rt2] at hx'; injection hx' with hx'; subst hx'; simp

/-- `c11_paths_eq_list_whole` instantiated on the demo world, every hypothesis discharged -/
theorem ex_paths_eq_list :
    ∃ found r, Find.starSearch demoEnv ⟨[e1, e2].map (·.string), false⟩ [sSid.string] = .ok found ∧
      demoD.pathsStarSids w2 none [sSid] = .ok r ∧ found.Nodup ∧ r.Nodup ∧
      ∀ x, x ∈ r ↔ (x ∈ [e1, e2] ∧ x.type = sSid.type ∧ x.string ∈ found) :=
  C11.c11_paths_eq_list_whole demoD w2 none sSid sPat [e1, e2] ex_pat ex_wt_s ex_whole ex_nobracket_s
    ex_nobracket demo_fix ex_holds

/-- the same entities in the `server` configuration -/
def srv : Option Str := some ['s','e','r','v','e','r']
def sPatS : Str := ['/','R','/','d','a','t','a','/','t','e','s','t','i','n','g','/','S','P','I','L','_','P','R','O','J','E','C','T','S','/','S','E','R','V','E','R','/','P','R','O','J','E','C','T','S','/','H','A','M','L','E','T','/','P','R','O','D','/','A','S','S','E','T','S','/','*','/','*','/','m','o','d','e','l','/','*','/','*','_','*','_','m','o','d','e','l','_','W','O','R','K','_','*','.','m','a']
def p1S : Str := ['/','R','/','d','a','t','a','/','t','e','s','t','i','n','g','/','S','P','I','L','_','P','R','O','J','E','C','T','S','/','S','E','R','V','E','R','/','P','R','O','J','E','C','T','S','/','H','A','M','L','E','T','/','P','R','O','D','/','A','S','S','E','T','S','/','c','h','a','r','/','o','p','h','e','l','i','a','/','m','o','d','e','l','/','v','0','0','1','/','c','h','a','r','_','o','p','h','e','l','i','a','_','m','o','d','e','l','_','W','O','R','K','_','v','0','0','1','.','m','a']
def p2S : Str := ['/','R','/','d','a','t','a','/','t','e','s','t','i','n','g','/','S','P','I','L','_','P','R','O','J','E','C','T','S','/','S','E','R','V','E','R','/','P','R','O','J','E','C','T','S','/','H','A','M','L','E','T','/','P','R','O','D','/','A','S','S','E','T','S','/','p','r','o','p','/','s','k','u','l','l','/','m','o','d','e','l','/','v','0','0','2','/','p','r','o','p','_','s','k','u','l','l','_','m','o','d','e','l','_','W','O','R','K','_','v','0','0','2','.','m','a']
def pJunkS : Str := ['/','R','/','d','a','t','a','/','t','e','s','t','i','n','g','/','S','P','I','L','_','P','R','O','J','E','C','T','S','/','S','E','R','V','E','R','/','P','R','O','J','E','C','T','S','/','H','A','M','L','E','T','/','P','R','O','D','/','r','e','a','d','m','e','.','t','x','t']
def w2S : World := ⟨[(p2S, .file), (pJunkS, .file), (p1S, .file)], []⟩

theorem ex_pcS : demoCtx.cfg.pathConf? srv = some demoPath_server := by decide +kernel
theorem ex_patS : demoCtx.sidPath srv sSid = .ok (some sPatS) := okIs_eq _ _ (by decide +kernel)
theorem ex_rt1S : demoCtx.sidOfPath p1S srv = .ok e1 := okIs_eq _ _ (by decide +kernel)
theorem ex_rt2S : demoCtx.sidOfPath p2S srv = .ok e2 := okIs_eq _ _ (by decide +kernel)
theorem ex_junkS : demoCtx.sidOfPath pJunkS srv = .ok Sid.empty := okIs_eq _ _ (by decide +kernel)

theorem demo_totalS (p : Str) : ∃ x, demoCtx.sidOfPath p srv = .ok x := by
  apply C11.c11_total_of_wf demoD srv demoPath_server ex_pcS Tie.demo_path_wf_server
  intro label hl
  have hall : demoPath_server.templates.all (fun lt =>
      (demoConf.sid.keyTypes.lookup (((Str.splitStr lt.1 demoConf.sid.sep).head?).getD [])).isSome) = true := by
    decide +kernel
  cases hlk : demoPath_server.resolver.lookup label with
  | none => rw [hlk] at hl; cases hl
  | some t => exact List.all_eq_true.1 hall _ (FSL.lookup_some_mem _ _ _ hlk)

theorem demo_fixS (pc : PathConf) (h : demoCtx.cfg.pathConf? srv = some pc) : starFixed pc = true := by
  rw [ex_pcS] at h
  injection h with h
  subst h
  decide +kernel

theorem ex_holdsS : C11.HoldsExactly demoD w2S srv sSid.type [e1, e2] where
  ents_ok := by
    intro e he
    simp only [List.mem_cons, List.not_mem_nil, or_false] at he
    rcases he with rfl | rfl
    · exact ⟨ex_wt_1, by decide, by decide +kernel, p1S, by decide +kernel, ex_rt1S⟩
    · exact ⟨ex_wt_2, by decide, by decide +kernel, p2S, by decide +kernel, ex_rt2S⟩
  total := fun p _ => demo_totalS p
  exact := by
    intro p hp x hx hxt _
    have hp' : p = p2S ∨ p = pJunkS ∨ p = p1S := by simpa [w2S] using hp
    have hx' : demoCtx.sidOfPath p srv = .ok x := hx
    rcases hp' with rfl | rfl | rfl
    · rw [ex_rt2S] at hx'; injection hx' with hx'; subst hx'; simp
    · rw [ex_junkS] at hx'; injection hx' with hx'; subst hx'; simp [Sid.typed, Sid.empty] at hxt
    · rw [ex_rt1S] at hx'; injection hx' with hx'; subst hx'; simp

/-- LOCAL = SERVER instantiated: the local tree and the server tree (different roots, different
    order, different junk) answer the search with the same set of Sids -/
theorem ex_local_eq_server :
    ∃ r1 r2, demoD.pathsStarSids w2 none [sSid] = .ok r1 ∧ demoD.pathsStarSids w2S srv [sSid] = .ok r2 ∧
      r1.Nodup ∧ r2.Nodup ∧ (∀ x, x ∈ r1 ↔ x ∈ r2) ∧ r1.Perm r2 :=
  C11.c11_local_eq_server demoD w2 w2S none srv sSid sPat sPatS [e1, e2] ex_pat ex_patS ex_wt_s
    ex_whole ex_nobracket_s ex_nobracket (by decide +kernel) demo_fix demo_fixS ex_holds ex_holdsS

/-- by evaluation: the server tree lists the skull first, so the two answers differ in order -/
theorem ex_evalS : demoD.pathsStarSids w2S srv [sSid] = .ok [e2, e1] := okIs_eq _ _ (by decide +kernel)

/-! ### (4) the repaired soundness defect (D25): regression witness -/

/-- "hamlet/a/char/*/model/*/w/ma": state `w` (WORK) is searched -/
def cStr : Str := ['h','a','m','l','e','t','/','a','/','c','h','a','r','/','*','/','m','o','d','e','l','/','*','/','w','/','m','a']
def cSid : Sid :=
  ⟨['h','a','m','l','e','t','/','a','/','c','h','a','r','/','*','/','m','o','d','e','l','/','*','/','w','/','m','a'],
    ['a','s','s','e','t','_','_','f','i','l','e'],
    [(['p','r','o','j','e','c','t'], ['h','a','m','l','e','t']),
     (['t','y','p','e'], ['a']),
     (['a','s','s','e','t','t','y','p','e'], ['c','h','a','r']),
     (['a','s','s','e','t'], ['*']),
     (['t','a','s','k'], ['m','o','d','e','l']),
     (['v','e','r','s','i','o','n'], ['*']),
     (['s','t','a','t','e'], ['w']),
     (['e','x','t'], ['m','a'])]⟩
def cPat : Str := ['/','R','/','d','a','t','a','/','t','e','s','t','i','n','g','/','S','P','I','L','_','P','R','O','J','E','C','T','S','/','L','O','C','A','L','/','P','R','O','J','E','C','T','S','/','H','A','M','L','E','T','/','P','R','O','D','/','A','S','S','E','T','S','/','c','h','a','r','/','*','/','m','o','d','e','l','/','*','/','c','h','a','r','_','*','_','m','o','d','e','l','_','W','O','R','K','_','*','.','m','a']
/-- "hamlet/a/char/x_model_WORK/model/v001/p/ma": state `p` (PUBLISH), asset name "x_model_WORK" -/
def xSid : Sid :=
  ⟨['h','a','m','l','e','t','/','a','/','c','h','a','r','/','x','_','m','o','d','e','l','_','W','O','R','K','/','m','o','d','e','l','/','v','0','0','1','/','p','/','m','a'],
    ['a','s','s','e','t','_','_','f','i','l','e'],
    [(['p','r','o','j','e','c','t'], ['h','a','m','l','e','t']),
     (['t','y','p','e'], ['a']),
     (['a','s','s','e','t','t','y','p','e'], ['c','h','a','r']),
     (['a','s','s','e','t'], ['x','_','m','o','d','e','l','_','W','O','R','K']),
     (['t','a','s','k'], ['m','o','d','e','l']),
     (['v','e','r','s','i','o','n'], ['v','0','0','1']),
     (['s','t','a','t','e'], ['p']),
     (['e','x','t'], ['m','a'])]⟩
def xPath : Str := ['/','R','/','d','a','t','a','/','t','e','s','t','i','n','g','/','S','P','I','L','_','P','R','O','J','E','C','T','S','/','L','O','C','A','L','/','P','R','O','J','E','C','T','S','/','H','A','M','L','E','T','/','P','R','O','D','/','A','S','S','E','T','S','/','c','h','a','r','/','x','_','m','o','d','e','l','_','W','O','R','K','/','m','o','d','e','l','/','v','0','0','1','/','c','h','a','r','_','x','_','m','o','d','e','l','_','W','O','R','K','_','m','o','d','e','l','_','P','U','B','L','I','S','H','_','v','0','0','1','.','m','a']

def w1 : World := ⟨[(xPath, .file), (p1, .file)], []⟩

/-- REGRESSION WITNESS of D25.  Before the repair the path search for "…/char/*/model/*/w/ma"
    returned `[xSid, e1]`: the file name pattern `char_*_model_WORK_*.ma` matches the file
    `char_x_model_WORK_model_PUBLISH_v001.ma` of the PUBLISHED entity
    "hamlet/a/char/x_model_WORK/model/v001/p/ma" (the `*` of the version swallows
    "model_PUBLISH_v001").  The path pattern STILL globs that path (`xPath ∈ w1.glob cPat`), the
    entity exists, round-trips and is well typed, the search Sid does not glob it (state `w` ≠
    `p`), the list search over the same two entities does not return it — and the repaired path
    search no longer returns it either. -/
theorem c11_sound_regression :
    demoCtx.sidOfString cStr = .ok cSid ∧
    demoCtx.sidPath none cSid = .ok (some cPat) ∧
    demoCtx.sidOfPath xPath none = .ok xSid ∧
    demoCtx.sidOfString xSid.string = .ok xSid ∧
    xPath ∈ w1.glob cPat ∧
    ¬ SidGlob cSid xSid ∧
    Find.starSearch demoEnv ⟨[xSid.string, e1.string], false⟩ [cSid.string] = .ok [e1.string] ∧
    demoD.pathsStarSids w1 none [cSid] = .ok [e1] :=
  ⟨okIs_eq _ _ (by decide +kernel), okIs_eq _ _ (by decide +kernel), okIs_eq _ _ (by decide +kernel),
   okIs_eq _ _ (by decide +kernel), by decide +kernel, by decide +kernel,
   okIs_eq _ _ (by decide +kernel), okIs_eq _ _ (by decide +kernel)⟩

/-- soundness instantiated on that world: whatever is returned is globbed by the search string -/
theorem ex_sound : ∀ x ∈ [e1], x.typed = true ∧ x.type = cSid.type ∧ Glob cSid.string x.string ∧
    ∃ p, w1.pathExists p = true ∧ demoCtx.sidOfPath p none = .ok x ∧
      demoCtx.sidPath none x = .ok (some p) :=
  C11.c11_sound demoD w1 none cSid [e1] (by decide +kernel) c11_sound_regression.2.2.2.2.2.2.2

/-! ### the hypotheses of `c11_pattern_matches` are needed -/

/-- one path template "/r/{a}/{b}" of type `t`, with a value mapping for the key `a` -/
def miniCtx (m : List (Str × Str)) : Ctx :=
  { cfg := { sid := { sep := ['_','_'], searchSymbols := [['*']], templates := [], keyTypes := [], leafKeys := [],
                      extensionAlias := [], basetypedNarrowing := [], typedNarrowing := [] }
             paths := [{ name := ['l'],
                         templates := [(['t'], [.lit ['/','r','/'], .ph ['a'] (Re.star Cls.notSlash), .lit ['/'],
                                                .ph ['b'] (Re.star Cls.notSlash)])],
                         mapping := if m.isEmpty then [] else [(['a'], m)], defaults := [], searchMapping := [] }]
             defaultPath := ['l'], dataSuffix := [] }
    env := { isDigit := fun _ => false } }

def oneFile (p : Str) : World := ⟨[(p, .file)], []⟩

/-- without `starFixed`: the mapping sends the sid value `*` to the path value `STAR`; the pattern
    "/r/STAR/x" contains no star and misses the entity's path "/r/foo/x" -/
theorem c11_starFixed_needed :
    let c := miniCtx [(['S','T','A','R'], ['*'])]
    let s : Sid := ⟨['*','/','x'], ['t'], [(['a'], ['*']), (['b'], ['x'])]⟩
    let e : Sid := ⟨['f','o','o','/','x'], ['t'], [(['a'], ['f','o','o']), (['b'], ['x'])]⟩
    c.sidPath none s = .ok (some ['/','r','/','S','T','A','R','/','x']) ∧ c.sidPath none e = .ok (some ['/','r','/','f','o','o','/','x']) ∧
    SidGlob s e ∧ entityValsOk c none e = true ∧
    (c.cfg.paths.all starFixed) = false ∧
    ['/','r','/','f','o','o','/','x'] ∉ (oneFile ['/','r','/','f','o','o','/','x']).glob ['/','r','/','S','T','A','R','/','x'] :=
  ⟨okIs_eq _ _ (by decide +kernel), okIs_eq _ _ (by decide +kernel), by decide +kernel, by decide +kernel,
   by decide +kernel, by decide +kernel⟩

/-- without non-empty values: the entity's empty component is dropped by `PurePosixPath`
    ("/r//x" becomes "/r/x"), the pattern "/r/*/x" has one component more -/
theorem c11_empty_value_needed :
    let c := miniCtx []
    let s : Sid := ⟨['*','/','x'], ['t'], [(['a'], ['*']), (['b'], ['x'])]⟩
    let e : Sid := ⟨['/','x'], ['t'], [(['a'], []), (['b'], ['x'])]⟩
    c.sidPath none s = .ok (some ['/','r','/','*','/','x']) ∧ c.sidPath none e = .ok (some ['/','r','/','x']) ∧
    SidGlob s e ∧ entityValsOk c none e = false ∧
    ['/','r','/','x'] ∉ (oneFile ['/','r','/','x']).glob ['/','r','/','*','/','x'] :=
  ⟨okIs_eq _ _ (by decide +kernel), okIs_eq _ _ (by decide +kernel), by decide +kernel, by decide +kernel,
   by decide +kernel⟩

/-- without the hidden-name condition: `*` never matches a name that starts with '.' -/
theorem c11_hidden_value_needed :
    let c := miniCtx []
    let s : Sid := ⟨['*','/','x'], ['t'], [(['a'], ['*']), (['b'], ['x'])]⟩
    let e : Sid := ⟨['.','h','/','x'], ['t'], [(['a'], ['.','h']), (['b'], ['x'])]⟩
    c.sidPath none s = .ok (some ['/','r','/','*','/','x']) ∧ c.sidPath none e = .ok (some ['/','r','/','.','h','/','x']) ∧
    SidGlob s e ∧ entityValsOk c none e = false ∧
    ['/','r','/','.','h','/','x'] ∉ (oneFile ['/','r','/','.','h','/','x']).glob ['/','r','/','*','/','x'] :=
  ⟨okIs_eq _ _ (by decide +kernel), okIs_eq _ _ (by decide +kernel), by decide +kernel, by decide +kernel,
   by decide +kernel⟩

/-- with a `[` in the pattern (known finding K2): the literal value "[x" is read as an unterminated
    character class, outside the model: the model's `compMatch` refuses it -/
theorem c11_bracket_needed :
    let c := miniCtx []
    let s : Sid := ⟨['*','/','[','x'], ['t'], [(['a'], ['*']), (['b'], ['[','x'])]⟩
    let e : Sid := ⟨['f','o','o','/','[','x'], ['t'], [(['a'], ['f','o','o']), (['b'], ['[','x'])]⟩
    c.sidPath none s = .ok (some ['/','r','/','*','/','[','x']) ∧ c.sidPath none e = .ok (some ['/','r','/','f','o','o','/','[','x']) ∧
    SidGlob s e ∧ entityValsOk c none e = true ∧
    ['/','r','/','f','o','o','/','[','x'] ∉ (oneFile ['/','r','/','f','o','o','/','[','x']).glob ['/','r','/','*','/','[','x'] :=
  ⟨okIs_eq _ _ (by decide +kernel), okIs_eq _ _ (by decide +kernel), by decide +kernel, by decide +kernel,
   by decide +kernel⟩

/-! ### the repaired memo defect (D26): regression witness -/

/-- sid template `t` = "{a}/{b}", path template "/r/{a}/{b}", value mapping `a`: X ↦ x -/
def mapCtx : Ctx :=
  { cfg := { sid := { sep := ['_','_'], searchSymbols := [['*']],
                      templates := [(['t'], [.ph ['a'] (Re.star Cls.notSlash), .lit ['/'],
                                             .ph ['b'] (Re.star Cls.notSlash)])],
                      keyTypes := [(['t'], [['a'], ['b']])], leafKeys := [],
                      extensionAlias := [], basetypedNarrowing := [], typedNarrowing := [] }
             paths := [{ name := ['l'],
                         templates := [(['t'], [.lit ['/','r','/'], .ph ['a'] (Re.star Cls.notSlash), .lit ['/'],
                                                .ph ['b'] (Re.star Cls.notSlash)])],
                         mapping := [(['a'], [(['X'], ['x'])])], defaults := [], searchMapping := [] }]
             defaultPath := ['l'], dataSuffix := [] }
    env := { isDigit := fun _ => false } }

def mapD : DCtx := ⟨mapCtx, ⟨[.paths none], [], some 0, [], true⟩⟩

/-- REGRESSION WITNESS of D26.  The typed searches "X/*" and "x/*" render the SAME pattern
    "/r/X/*" (the reverse mapping sends `x` to `X` and leaves `X` alone) but have different
    strings.  While the `searched` memo of `star_search_simple` was keyed by (type, pattern) only,
    the pair was globbed once, for "X/*", whose string does not match the found Sid "x/foo", and
    the second search was skipped as "already searched": `[X/*, x/*]` found nothing although
    `[x/*]` alone finds "x/foo".  With the memo keyed by (type, pattern, str(search)) the entity
    is found again, and `c11_star_list` needs no condition relating the searches to each other. -/
theorem c11_sameStr_regression :
    let s1 : Sid := ⟨['X','/','*'], ['t'], [(['a'], ['X']), (['b'], ['*'])]⟩
    let s2 : Sid := ⟨['x','/','*'], ['t'], [(['a'], ['x']), (['b'], ['*'])]⟩
    let x : Sid := ⟨['x','/','f','o','o'], ['t'], [(['a'], ['x']), (['b'], ['f','o','o'])]⟩
    let w := oneFile ['/','r','/','X','/','f','o','o']
    mapCtx.sidOfString s1.string = .ok s1 ∧ mapCtx.sidOfString s2.string = .ok s2 ∧
    mapCtx.sidPath none s1 = .ok (some ['/','r','/','X','/','*']) ∧ mapCtx.sidPath none s2 = .ok (some ['/','r','/','X','/','*']) ∧
    mapCtx.sidOfPath ['/','r','/','X','/','f','o','o'] none = .ok x ∧
    mapD.pathsStarSids w none [s2] = .ok [x] ∧
    mapD.pathsStarSids w none [s1, s2] = .ok [x] :=
  ⟨okIs_eq _ _ (by decide +kernel), okIs_eq _ _ (by decide +kernel), okIs_eq _ _ (by decide +kernel),
   okIs_eq _ _ (by decide +kernel), okIs_eq _ _ (by decide +kernel), okIs_eq _ _ (by decide +kernel),
   okIs_eq _ _ (by decide +kernel)⟩

/-! ### path-level facts behind the old defect, instantiated -/

/-- the path template of `asset__file` in the shipped `local` configuration -/
def assetFileTpl : Template := (demoPath_local.resolver.lookup cSid.type).getD []

/-- `asset`, `task`, `version` occupy a whole directory component; `state` and `ext` only occur
    inside the file name — which is where soundness fails -/
theorem ex_pinned :
    pinned ['a','s','s','e','t'] assetFileTpl = true ∧ pinned ['t','a','s','k'] assetFileTpl = true ∧
    pinned ['v','e','r','s','i','o','n'] assetFileTpl = true ∧
    pinned ['s','t','a','t','e'] assetFileTpl = false ∧ pinned ['e','x','t'] assetFileTpl = false := by
  decide +kernel

/-- the rendered pattern globs the path of the state-`p` entity as a whole string: the path test
    alone cannot tell it apart -/
theorem ex_sound_whole : Glob cPat xPath :=
  (glob_sound w1 cPat xPath c11_sound_regression.2.2.2.2.1).2

/-- `c11_sound_pinned_partial` on the regression world: for the pinned key `task` the
    Sid's path value is globbed by (here: equals) the search's path value -/
theorem ex_sound_pinned :
    ∃ vs vx, (Ctx.pathData demoPath_local cSid.fields (Template.keys assetFileTpl)).get ['t','a','s','k'] = some vs ∧
      (Ctx.pathData demoPath_local xSid.fields (Template.keys assetFileTpl)).get ['t','a','s','k'] = some vx ∧
      Glob vs vx :=
  C11.c11_sound_pinned_partial demoPath_local assetFileTpl ['t','a','s','k'] cSid xSid cPat xPath
    (by decide +kernel) (by decide +kernel) (by decide +kernel) (by decide +kernel) (by decide +kernel)
    ex_sound_whole

/-- `entityValsOk` from the values of the Sid and the path-side values of the configuration -/
theorem ex_pathSide : pathSideOk demoPath_local = true ∧ pathSideOk demoPath_server = true := by
  decide +kernel

theorem ex_vals1' : entityValsOk demoCtx none e1 = true :=
  C11.c11_entityValsOk demoCtx none e1 p1 (C06.c06_owner demoCtx p1 none e1 ex_rt1 (by decide))
    (fun pc h => by rw [ex_pc] at h; injection h with h; subst h; exact ex_pathSide.1)
    (by decide +kernel)

/-- both shipped path configurations keep `*` fixed -/
theorem ex_starFixed : starFixed demoPath_local = true ∧ starFixed demoPath_server = true := by
  decide +kernel

end C11Ex
