/-
  Spil.Props.C11bExamples — non-vacuity of C11b on the SHIPPED configuration (a small world, a
  whole-segment star search, every hypothesis of the theorems discharged by the kernel), the
  counterexample to soundness (FindInPaths ⊄ FindInList), and the counterexamples showing that
  each hypothesis of `c11_pattern_matches` is needed.  GENERATED char lists; the statements are
  re-decided by the kernel on every build against the regenerated `DemoConf.lean`.
-/
import Spil.Generated.DemoConf
import Spil.Props.C11b
import Spil.Props.Tie

namespace C11Ex

open Spec Generated GlobL

def demoCtx : Ctx := ⟨demoConf, demoEnv⟩
/-- the data tables are irrelevant for `FindInPaths` -/
def demoD : DCtx := ⟨demoCtx, ⟨[.paths none], [], some 0, [], true⟩⟩

def okIs {α} [DecidableEq α] (x : Except Err α) (y : α) : Bool :=
  match x with
  | .ok v => decide (v = y)
  | .error _ => false

theorem okIs_eq {α} [DecidableEq α] (x : Except Err α) (y : α) (h : okIs x y = true) : x = .ok y := by
  unfold okIs at h
  split at h
  · simp only [decide_eq_true_eq] at h; rw [h]
  · cases h

/-- Boolean reading of `wellTyped` -/
def wellTypedB (e : Env) (ts : List (Str × Template)) (x : Sid) : Bool :=
  match ts.lookup x.type with
  | some t => !x.string.isEmpty && accepts e t x.string && decide (x.fields = fieldsOf t x.string)
  | none => false

theorem wellTyped_of_B (e : Env) (ts : List (Str × Template)) (x : Sid) (h : wellTypedB e ts x = true) :
    wellTyped e ts x := by
  unfold wellTypedB at h
  split at h
  · next t ht =>
    simp only [Bool.and_eq_true, Bool.not_eq_true', decide_eq_true_eq] at h
    refine ⟨t, ht, ?_, h.1.2, h.2⟩
    intro e0; rw [e0] at h; simp at h
  · cases h

/-! ### the demo world -/

/-- "hamlet/a/*/*/model/*/w/ma" -/
def sStr : Str := ['h','a','m','l','e','t','/','a','/','*','/','*','/','m','o','d','e','l','/','*','/','w','/','m','a']
def sSid : Sid :=
  ⟨['h','a','m','l','e','t','/','a','/','*','/','*','/','m','o','d','e','l','/','*','/','w','/','m','a'],
    ['a','s','s','e','t','_','_','f','i','l','e'],
    [(['p','r','o','j','e','c','t'], ['h','a','m','l','e','t']),
     (['t','y','p','e'], ['a']),
     (['a','s','s','e','t','t','y','p','e'], ['*']),
     (['a','s','s','e','t'], ['*']),
     (['t','a','s','k'], ['m','o','d','e','l']),
     (['v','e','r','s','i','o','n'], ['*']),
     (['s','t','a','t','e'], ['w']),
     (['e','x','t'], ['m','a'])]⟩
/-- the glob pattern of the search -/
def sPat : Str := ['/','R','/','d','a','t','a','/','t','e','s','t','i','n','g','/','S','P','I','L','_','P','R','O','J','E','C','T','S','/','L','O','C','A','L','/','P','R','O','J','E','C','T','S','/','H','A','M','L','E','T','/','P','R','O','D','/','A','S','S','E','T','S','/','*','/','*','/','m','o','d','e','l','/','*','/','*','_','*','_','m','o','d','e','l','_','W','O','R','K','_','*','.','m','a']
/-- "hamlet/a/char/ophelia/model/v001/w/ma" and its file -/
def e1 : Sid :=
  ⟨['h','a','m','l','e','t','/','a','/','c','h','a','r','/','o','p','h','e','l','i','a','/','m','o','d','e','l','/','v','0','0','1','/','w','/','m','a'],
    ['a','s','s','e','t','_','_','f','i','l','e'],
    [(['p','r','o','j','e','c','t'], ['h','a','m','l','e','t']),
     (['t','y','p','e'], ['a']),
     (['a','s','s','e','t','t','y','p','e'], ['c','h','a','r']),
     (['a','s','s','e','t'], ['o','p','h','e','l','i','a']),
     (['t','a','s','k'], ['m','o','d','e','l']),
     (['v','e','r','s','i','o','n'], ['v','0','0','1']),
     (['s','t','a','t','e'], ['w']),
     (['e','x','t'], ['m','a'])]⟩
def p1 : Str := ['/','R','/','d','a','t','a','/','t','e','s','t','i','n','g','/','S','P','I','L','_','P','R','O','J','E','C','T','S','/','L','O','C','A','L','/','P','R','O','J','E','C','T','S','/','H','A','M','L','E','T','/','P','R','O','D','/','A','S','S','E','T','S','/','c','h','a','r','/','o','p','h','e','l','i','a','/','m','o','d','e','l','/','v','0','0','1','/','c','h','a','r','_','o','p','h','e','l','i','a','_','m','o','d','e','l','_','W','O','R','K','_','v','0','0','1','.','m','a']
/-- "hamlet/a/prop/skull/model/v002/w/ma" and its file -/
def e2 : Sid :=
  ⟨['h','a','m','l','e','t','/','a','/','p','r','o','p','/','s','k','u','l','l','/','m','o','d','e','l','/','v','0','0','2','/','w','/','m','a'],
    ['a','s','s','e','t','_','_','f','i','l','e'],
    [(['p','r','o','j','e','c','t'], ['h','a','m','l','e','t']),
     (['t','y','p','e'], ['a']),
     (['a','s','s','e','t','t','y','p','e'], ['p','r','o','p']),
     (['a','s','s','e','t'], ['s','k','u','l','l']),
     (['t','a','s','k'], ['m','o','d','e','l']),
     (['v','e','r','s','i','o','n'], ['v','0','0','2']),
     (['s','t','a','t','e'], ['w']),
     (['e','x','t'], ['m','a'])]⟩
def p2 : Str := ['/','R','/','d','a','t','a','/','t','e','s','t','i','n','g','/','S','P','I','L','_','P','R','O','J','E','C','T','S','/','L','O','C','A','L','/','P','R','O','J','E','C','T','S','/','H','A','M','L','E','T','/','P','R','O','D','/','A','S','S','E','T','S','/','p','r','o','p','/','s','k','u','l','l','/','m','o','d','e','l','/','v','0','0','2','/','p','r','o','p','_','s','k','u','l','l','_','m','o','d','e','l','_','W','O','R','K','_','v','0','0','2','.','m','a']
/-- a file that conforms to no template -/
def pJunk : Str := ['/','R','/','d','a','t','a','/','t','e','s','t','i','n','g','/','S','P','I','L','_','P','R','O','J','E','C','T','S','/','L','O','C','A','L','/','P','R','O','J','E','C','T','S','/','H','A','M','L','E','T','/','P','R','O','D','/','A','S','S','E','T','S','/','c','h','a','r','/','o','p','h','e','l','i','a','/','m','o','d','e','l','/','v','0','0','1','/','n','o','t','e','s','.','t','x','t']

def w2 : World := ⟨[(p1, .file), (pJunk, .file), (p2, .file)], []⟩

theorem ex_search : demoCtx.sidOfString sStr = .ok sSid := okIs_eq _ _ (by decide +kernel)
theorem ex_pat : demoCtx.sidPath none sSid = .ok (some sPat) := okIs_eq _ _ (by decide +kernel)
theorem ex_rt1 : demoCtx.sidOfPath p1 none = .ok e1 := okIs_eq _ _ (by decide +kernel)
theorem ex_rt2 : demoCtx.sidOfPath p2 none = .ok e2 := okIs_eq _ _ (by decide +kernel)
theorem ex_junk : demoCtx.sidOfPath pJunk none = .ok Sid.empty := okIs_eq _ _ (by decide +kernel)
theorem ex_pc : demoCtx.cfg.pathConf? none = some demoPath_local := by decide +kernel

/-- `Sid(path=…)` never raises on the shipped configuration: the totality hypothesis of C11b,
    discharged by C06 -/
theorem demo_total (p : Str) : ∃ x, demoCtx.sidOfPath p none = .ok x := by
  apply C11.c11_total_of_wf demoD none demoPath_local ex_pc Tie.demo_path_wf_local
  intro label hl
  have hall : demoPath_local.templates.all (fun lt =>
      (demoConf.sid.keyTypes.lookup (((Str.splitStr lt.1 demoConf.sid.sep).head?).getD [])).isSome) = true := by
    decide +kernel
  cases hlk : demoPath_local.resolver.lookup label with
  | none => rw [hlk] at hl; cases hl
  | some t => exact List.all_eq_true.1 hall _ (FSL.lookup_some_mem _ _ _ hlk)

theorem demo_fix (pc : PathConf) (h : demoCtx.cfg.pathConf? none = some pc) : starFixed pc = true := by
  rw [ex_pc] at h
  injection h with h
  subst h
  decide +kernel

theorem ex_glob1 : SidGlob sSid e1 := by decide +kernel
theorem ex_glob2 : SidGlob sSid e2 := by decide +kernel
theorem ex_vals1 : entityValsOk demoCtx none e1 = true := by decide +kernel
theorem ex_vals2 : entityValsOk demoCtx none e2 = true := by decide +kernel
theorem ex_nobracket : '[' ∉ sPat := by decide +kernel

/-- (1) instantiated: the search succeeds, without duplicates, with the stated membership -/
theorem ex_star_one : ∃ r, demoD.pathsStarSids w2 none [sSid] = .ok r ∧ r.Nodup ∧
    ∀ x, x ∈ r ↔ ∃ p ∈ w2.glob sPat,
      demoCtx.sidOfPath p none = .ok x ∧ x.typed = true ∧ x.type = sSid.type :=
  C11.c11_star_one demoD w2 none sSid sPat ex_pat (fun p _ => demo_total p)

/-- (2) instantiated: the pattern matches the entity's path component by component -/
theorem ex_pattern_matches :
    (Str.splitOn '/' sPat).length = (Str.splitOn '/' p1).length ∧
    ∀ (i : Nat) (a b : Str), (Str.splitOn '/' sPat)[i]? = some a → (Str.splitOn '/' p1)[i]? = some b →
      World.compMatch a b = true :=
  C11.c11_pattern_matches demoCtx none sSid e1 sPat p1 ex_pat
    (C06.c06_owner demoCtx p1 none e1 ex_rt1 (by decide)) ex_glob1 demo_fix ex_vals1 ex_nobracket

/-- (3) instantiated: both entities are found — derived from the theorems, not by evaluation -/
theorem ex_complete : ∃ r, demoD.pathsStarSids w2 none [sSid] = .ok r ∧ e1 ∈ r ∧ e2 ∈ r := by
  obtain ⟨r, hr, _, _⟩ := ex_star_one
  refine ⟨r, hr, ?_, ?_⟩
  · exact C11.c11_complete demoD w2 none sSid e1 sPat p1 r ex_pat (by decide +kernel) ex_rt1 (by decide)
      ex_glob1 demo_fix ex_vals1 ex_nobracket (fun p _ => demo_total p) hr
  · exact C11.c11_complete demoD w2 none sSid e2 sPat p2 r ex_pat (by decide +kernel) ex_rt2 (by decide)
      ex_glob2 demo_fix ex_vals2 ex_nobracket (fun p _ => demo_total p) hr

/-- and by evaluation of the model: exactly these two, the junk file is ignored -/
theorem ex_eval : demoD.pathsStarSids w2 none [sSid] = .ok [e1, e2] := okIs_eq _ _ (by decide +kernel)

theorem ex_wt_s : wellTyped demoEnv demoConf.sid.templates sSid := wellTyped_of_B _ _ _ (by decide +kernel)
theorem ex_wt_1 : wellTyped demoEnv demoConf.sid.templates e1 := wellTyped_of_B _ _ _ (by decide +kernel)
theorem ex_wt_2 : wellTyped demoEnv demoConf.sid.templates e2 := wellTyped_of_B _ _ _ (by decide +kernel)
theorem ex_whole : wholeStar sStr := by decide +kernel

/-- the list search over the strings of the two entities finds both -/
theorem ex_list : Find.starSearch demoEnv ⟨[e1, e2].map (·.string), false⟩ [sSid.string] =
    .ok [e1.string, e2.string] := okIs_eq _ _ (by decide +kernel)

/-- FindInList ⊆ FindInPaths, instantiated with every hypothesis discharged -/
theorem ex_list_subset_paths :
    ∀ e ∈ [e1, e2], e.type = sSid.type → e.string ∈ [e1.string, e2.string] → e ∈ [e1, e2] := by
  apply C11.c11_list_subset_paths demoD w2 none sSid sPat [e1, e2] [e1.string, e2.string] [e1, e2]
    ex_pat ex_wt_s ex_whole (by decide +kernel) ex_nobracket demo_fix (fun p _ => demo_total p) ?_
    ex_list ex_eval
  intro e he
  simp only [List.mem_cons, List.not_mem_nil, or_false] at he
  rcases he with rfl | rfl
  · exact ⟨ex_wt_1, by decide, ex_vals1, p1, by decide +kernel, ex_rt1⟩
  · exact ⟨ex_wt_2, by decide, ex_vals2, p2, by decide +kernel, ex_rt2⟩

/-- fields ⇒ strings on the demo Sids -/
theorem ex_string_glob : Glob sSid.string e1.string :=
  C11.c11_string_glob demoEnv demoConf.sid.templates sSid e1 ex_wt_s ex_wt_1 ex_glob1 (by decide +kernel)

/-! ### (4) soundness FAILS: FindInPaths ⊄ FindInList -/

/-- "hamlet/a/char/*/model/*/w/ma": state `w` (WORK) is searched -/
def cStr : Str := ['h','a','m','l','e','t','/','a','/','c','h','a','r','/','*','/','m','o','d','e','l','/','*','/','w','/','m','a']
def cSid : Sid :=
  ⟨['h','a','m','l','e','t','/','a','/','c','h','a','r','/','*','/','m','o','d','e','l','/','*','/','w','/','m','a'],
    ['a','s','s','e','t','_','_','f','i','l','e'],
    [(['p','r','o','j','e','c','t'], ['h','a','m','l','e','t']),
     (['t','y','p','e'], ['a']),
     (['a','s','s','e','t','t','y','p','e'], ['c','h','a','r']),
     (['a','s','s','e','t'], ['*']),
     (['t','a','s','k'], ['m','o','d','e','l']),
     (['v','e','r','s','i','o','n'], ['*']),
     (['s','t','a','t','e'], ['w']),
     (['e','x','t'], ['m','a'])]⟩
def cPat : Str := ['/','R','/','d','a','t','a','/','t','e','s','t','i','n','g','/','S','P','I','L','_','P','R','O','J','E','C','T','S','/','L','O','C','A','L','/','P','R','O','J','E','C','T','S','/','H','A','M','L','E','T','/','P','R','O','D','/','A','S','S','E','T','S','/','c','h','a','r','/','*','/','m','o','d','e','l','/','*','/','c','h','a','r','_','*','_','m','o','d','e','l','_','W','O','R','K','_','*','.','m','a']
/-- "hamlet/a/char/x_model_WORK/model/v001/p/ma": state `p` (PUBLISH), asset name "x_model_WORK" -/
def xSid : Sid :=
  ⟨['h','a','m','l','e','t','/','a','/','c','h','a','r','/','x','_','m','o','d','e','l','_','W','O','R','K','/','m','o','d','e','l','/','v','0','0','1','/','p','/','m','a'],
    ['a','s','s','e','t','_','_','f','i','l','e'],
    [(['p','r','o','j','e','c','t'], ['h','a','m','l','e','t']),
     (['t','y','p','e'], ['a']),
     (['a','s','s','e','t','t','y','p','e'], ['c','h','a','r']),
     (['a','s','s','e','t'], ['x','_','m','o','d','e','l','_','W','O','R','K']),
     (['t','a','s','k'], ['m','o','d','e','l']),
     (['v','e','r','s','i','o','n'], ['v','0','0','1']),
     (['s','t','a','t','e'], ['p']),
     (['e','x','t'], ['m','a'])]⟩
def xPath : Str := ['/','R','/','d','a','t','a','/','t','e','s','t','i','n','g','/','S','P','I','L','_','P','R','O','J','E','C','T','S','/','L','O','C','A','L','/','P','R','O','J','E','C','T','S','/','H','A','M','L','E','T','/','P','R','O','D','/','A','S','S','E','T','S','/','c','h','a','r','/','x','_','m','o','d','e','l','_','W','O','R','K','/','m','o','d','e','l','/','v','0','0','1','/','c','h','a','r','_','x','_','m','o','d','e','l','_','W','O','R','K','_','m','o','d','e','l','_','P','U','B','L','I','S','H','_','v','0','0','1','.','m','a']

def w1 : World := ⟨[(xPath, .file), (p1, .file)], []⟩

/-- COUNTEREXAMPLE to soundness on the shipped configuration: the file name pattern
    `char_*_model_WORK_*.ma` rendered for the search "…/char/*/model/*/w/ma" matches the file
    `char_x_model_WORK_model_PUBLISH_v001.ma` of the PUBLISHED entity
    "hamlet/a/char/x_model_WORK/model/v001/p/ma" (the `*` of the version swallows
    "model_PUBLISH_v001").  The entity exists, round-trips and is well typed, the path search
    returns it, the search Sid does NOT glob it (state `w` ≠ `p`), and the list search over the
    same two entities does not return it. -/
theorem c11_sound_counterexample :
    demoCtx.sidOfString cStr = .ok cSid ∧
    demoCtx.sidPath none cSid = .ok (some cPat) ∧
    demoCtx.sidOfPath xPath none = .ok xSid ∧
    demoCtx.sidOfString xSid.string = .ok xSid ∧
    demoD.pathsStarSids w1 none [cSid] = .ok [xSid, e1] ∧
    ¬ SidGlob cSid xSid ∧
    Find.starSearch demoEnv ⟨[xSid.string, e1.string], false⟩ [cSid.string] = .ok [e1.string] :=
  ⟨okIs_eq _ _ (by decide +kernel), okIs_eq _ _ (by decide +kernel), okIs_eq _ _ (by decide +kernel),
   okIs_eq _ _ (by decide +kernel), okIs_eq _ _ (by decide +kernel), by decide +kernel,
   okIs_eq _ _ (by decide +kernel)⟩

/-! ### the hypotheses of `c11_pattern_matches` are needed -/

/-- one path template "/r/{a}/{b}" of type `t`, with a value mapping for the key `a` -/
def miniCtx (m : List (Str × Str)) : Ctx :=
  { cfg := { sid := { sep := ['_','_'], searchSymbols := [['*']], templates := [], keyTypes := [], leafKeys := [],
                      extensionAlias := [], basetypedNarrowing := [], typedNarrowing := [] }
             paths := [{ name := ['l'],
                         templates := [(['t'], [.lit ['/','r','/'], .ph ['a'] (Re.star Cls.notSlash), .lit ['/'],
                                                .ph ['b'] (Re.star Cls.notSlash)])],
                         mapping := if m.isEmpty then [] else [(['a'], m)], defaults := [], searchMapping := [] }]
             defaultPath := ['l'], dataSuffix := [] }
    env := { isDigit := fun _ => false } }

def oneFile (p : Str) : World := ⟨[(p, .file)], []⟩

/-- without `starFixed`: the mapping sends the sid value `*` to the path value `STAR`; the pattern
    "/r/STAR/x" contains no star and misses the entity's path "/r/foo/x" -/
theorem c11_starFixed_needed :
    let c := miniCtx [(['S','T','A','R'], ['*'])]
    let s : Sid := ⟨['*','/','x'], ['t'], [(['a'], ['*']), (['b'], ['x'])]⟩
    let e : Sid := ⟨['f','o','o','/','x'], ['t'], [(['a'], ['f','o','o']), (['b'], ['x'])]⟩
    c.sidPath none s = .ok (some ['/','r','/','S','T','A','R','/','x']) ∧ c.sidPath none e = .ok (some ['/','r','/','f','o','o','/','x']) ∧
    SidGlob s e ∧ entityValsOk c none e = true ∧
    (c.cfg.paths.all starFixed) = false ∧
    ['/','r','/','f','o','o','/','x'] ∉ (oneFile ['/','r','/','f','o','o','/','x']).glob ['/','r','/','S','T','A','R','/','x'] :=
  ⟨okIs_eq _ _ (by decide +kernel), okIs_eq _ _ (by decide +kernel), by decide +kernel, by decide +kernel,
   by decide +kernel, by decide +kernel⟩

/-- without non-empty values: the entity's empty component is dropped by `PurePosixPath`
    ("/r//x" becomes "/r/x"), the pattern "/r/*/x" has one component more -/
theorem c11_empty_value_needed :
    let c := miniCtx []
    let s : Sid := ⟨['*','/','x'], ['t'], [(['a'], ['*']), (['b'], ['x'])]⟩
    let e : Sid := ⟨['/','x'], ['t'], [(['a'], []), (['b'], ['x'])]⟩
    c.sidPath none s = .ok (some ['/','r','/','*','/','x']) ∧ c.sidPath none e = .ok (some ['/','r','/','x']) ∧
    SidGlob s e ∧ entityValsOk c none e = false ∧
    ['/','r','/','x'] ∉ (oneFile ['/','r','/','x']).glob ['/','r','/','*','/','x'] :=
  ⟨okIs_eq _ _ (by decide +kernel), okIs_eq _ _ (by decide +kernel), by decide +kernel, by decide +kernel,
   by decide +kernel⟩

/-- without the hidden-name condition: `*` never matches a name that starts with '.' -/
theorem c11_hidden_value_needed :
    let c := miniCtx []
    let s : Sid := ⟨['*','/','x'], ['t'], [(['a'], ['*']), (['b'], ['x'])]⟩
    let e : Sid := ⟨['.','h','/','x'], ['t'], [(['a'], ['.','h']), (['b'], ['x'])]⟩
    c.sidPath none s = .ok (some ['/','r','/','*','/','x']) ∧ c.sidPath none e = .ok (some ['/','r','/','.','h','/','x']) ∧
    SidGlob s e ∧ entityValsOk c none e = false ∧
    ['/','r','/','.','h','/','x'] ∉ (oneFile ['/','r','/','.','h','/','x']).glob ['/','r','/','*','/','x'] :=
  ⟨okIs_eq _ _ (by decide +kernel), okIs_eq _ _ (by decide +kernel), by decide +kernel, by decide +kernel,
   by decide +kernel⟩

/-- with a `[` in the pattern (known finding K2): the literal value "[x" is read as an unterminated
    character class, outside the model: the model's `compMatch` refuses it -/
theorem c11_bracket_needed :
    let c := miniCtx []
    let s : Sid := ⟨['*','/','[','x'], ['t'], [(['a'], ['*']), (['b'], ['[','x'])]⟩
    let e : Sid := ⟨['f','o','o','/','[','x'], ['t'], [(['a'], ['f','o','o']), (['b'], ['[','x'])]⟩
    c.sidPath none s = .ok (some ['/','r','/','*','/','[','x']) ∧ c.sidPath none e = .ok (some ['/','r','/','f','o','o','/','[','x']) ∧
    SidGlob s e ∧ entityValsOk c none e = true ∧
    ['/','r','/','f','o','o','/','[','x'] ∉ (oneFile ['/','r','/','f','o','o','/','[','x']).glob ['/','r','/','*','/','[','x'] :=
  ⟨okIs_eq _ _ (by decide +kernel), okIs_eq _ _ (by decide +kernel), by decide +kernel, by decide +kernel,
   by decide +kernel⟩

/-! ### what holds of soundness, instantiated -/

/-- the path template of `asset__file` in the shipped `local` configuration -/
def assetFileTpl : Template := (demoPath_local.resolver.lookup cSid.type).getD []

/-- `asset`, `task`, `version` occupy a whole directory component; `state` and `ext` only occur
    inside the file name — which is where soundness fails -/
theorem ex_pinned :
    pinned ['a','s','s','e','t'] assetFileTpl = true ∧ pinned ['t','a','s','k'] assetFileTpl = true ∧
    pinned ['v','e','r','s','i','o','n'] assetFileTpl = true ∧
    pinned ['s','t','a','t','e'] assetFileTpl = false ∧ pinned ['e','x','t'] assetFileTpl = false := by
  decide +kernel

/-- `c11_sound_paths` on the counterexample world: the pattern globs the path of the (wrongly)
    found Sid as a whole string -/
theorem ex_sound_whole : Glob cPat xPath := by
  obtain ⟨_, _, p, _, _, h1, hg⟩ := C11.c11_sound_paths demoD w1 none cSid cPat [xSid, e1]
    c11_sound_counterexample.2.1 (fun p _ => demo_total p) c11_sound_counterexample.2.2.2.2.1 xSid
    (by simp)
  have h1' : demoCtx.sidPath none xSid = .ok (some p) := h1
  have h2 := C06.c06_owner demoCtx xPath none xSid c11_sound_counterexample.2.2.1 (by decide)
  rw [h1'] at h2
  injection h2 with h2
  injection h2 with h2
  subst h2
  exact hg

/-- `c11_sound_pinned_partial` on the counterexample world: for the pinned key `task` the found
    Sid's path value is globbed by (here: equals) the search's path value -/
theorem ex_sound_pinned :
    ∃ vs vx, (Ctx.pathData demoPath_local cSid.fields (Template.keys assetFileTpl)).get ['t','a','s','k'] = some vs ∧
      (Ctx.pathData demoPath_local xSid.fields (Template.keys assetFileTpl)).get ['t','a','s','k'] = some vx ∧
      Glob vs vx :=
  C11.c11_sound_pinned_partial demoPath_local assetFileTpl ['t','a','s','k'] cSid xSid cPat xPath
    (by decide +kernel) (by decide +kernel) (by decide +kernel) (by decide +kernel) (by decide +kernel)
    ex_sound_whole

/-- `entityValsOk` from the values of the Sid and the path-side values of the configuration -/
theorem ex_pathSide : pathSideOk demoPath_local = true ∧ pathSideOk demoPath_server = true := by
  decide +kernel

theorem ex_vals1' : entityValsOk demoCtx none e1 = true :=
  C11.c11_entityValsOk demoCtx none e1 p1 (C06.c06_owner demoCtx p1 none e1 ex_rt1 (by decide))
    (fun pc h => by rw [ex_pc] at h; injection h with h; subst h; exact ex_pathSide.1)
    (by decide +kernel)

/-- both shipped path configurations keep `*` fixed -/
theorem ex_starFixed : starFixed demoPath_local = true ∧ starFixed demoPath_server = true := by
  decide +kernel

end C11Ex
