/-
  Spil.Props.C04 — "Updating a Sid by query or get_with is all-or-nothing and never guesses"
  Spil.Props.C14 — "Sids are immutable values: equal means same uri" (the value part)
-/
import Spil.Spec.Sid
import Spil.Lemmas.Hier
import Spil.Lemmas.Lst
import Spil.Lemmas.Upd

namespace C04

open Spec

variable (c : Ctx)

/-- the overlay rule of `query_helper.update`, pointwise: a key the query does not mention keeps
    its value; a mentioned key takes the query value with every '~' removed, except that an
    optional ('~'-prefixed) value is ignored when the key is absent -/
theorem c04_update (data nd : Dict) (hn : (nd.map (·.1)).Nodup) (k : Str) :
    (Query.updateGo data nd).get k =
      match nd.get k with
      | none => data.get k
      | some v =>
        if Str.startsWith v ['~'] then (if data.hasKey k then some (v.filter (· != '~')) else none)
        else some v :=
  UpdL.updateGo_get nd hn data k

/-- the overlay never drops a key -/
theorem c04_update_keys (data nd : Dict) (k : Str) (h : data.hasKey k = true) :
    (Query.updateGo data nd).hasKey k = true :=
  UpdL.updateGo_hasKey nd data k h

/-- the decision table of `apply_query`, read off the statement: with `ov` the overlaid fields
    and `ts` the types fitting them,
    * no type                                  → refused
    * exactly one type `t`                     → applied with `t`
    * several types, the old type among them   → applied with the old type
    * several types, old type not among them   → applied with the first one if the expression is
                                                 a search, refused otherwise.
    "refused" = type and fields untouched, the query text kept visibly in the string;
    "applied with t" = the string is the rendering of `ov` through `t` and the fields are what
    that rendering resolves to under `t`. -/
theorem c04_apply_table (string query ty : Str) (fields ov : Dict) (ts : List Str)
    (hty : ¬ (ty.isEmpty = true ∧ fields.isEmpty = false)) (hq : query ≠ [])
    (hov : Query.update fields query = .ok ov) (hts : c.dictToTypes ov = .ok ts) :
    let refused : Except Err Sid := .ok ⟨string ++ '?' :: query, ty, fields⟩
    let applied (t : Str) : Except Err Sid :=
      match c.dictToSidStr ov t with
      | .error e => .error e
      | .ok ns =>
        if ns.isEmpty then .error .spil else
        match c.sidToDict ns (some t) with
        | .error e => .error e
        | .ok r => .ok ⟨ns, t, (r.map (·.2)).getD ov⟩
    c.applyQuery string query ty fields =
      match ts with
      | [] => refused
      | [t] => applied t
      | t :: _ =>
        if ts.contains ty then applied ty
        else if c.isSearchStr (string ++ '?' :: query) then applied t
        else refused := by
  intro refused applied
  have h1 : (ty.isEmpty && !fields.isEmpty) = false := by
    cases h : ty.isEmpty <;> cases h' : fields.isEmpty <;> simp_all
  have h2 : query.isEmpty = false := by simp [hq]
  unfold Ctx.applyQuery
  simp only [h1, h2, Bool.false_eq_true, if_false, hov, hts]
  match ts with
  | [] => rfl
  | [t] => rfl
  | t :: t' :: rest =>
    simp only
    by_cases hc : (t :: t' :: rest).contains ty = true
    · simp only [hc, if_true]; rfl
    · simp only [hc]
      by_cases hs : c.isSearchStr (string ++ '?' :: query) = true
      · simp only [hs, if_true]; rfl
      · simp only [hs]; rfl

/-- all-or-nothing, for well-formed configurations: applying a query to a well-typed Sid never
    fails, and the result either is the refusal (type and fields untouched, "?query" appended) or
    is a well-typed Sid whose fields are exactly the overlay (as a mapping), in template order,
    with a clean canonical string -/
theorem c04_all_or_nothing (x : Sid) (hwf : sidHierOk c.env c.cfg.sid.templates = true)
    (hx : wellTyped c.env c.cfg.sid.templates x) (query : Str) (hq : query ≠ [])
    (ov : Dict) (hov : Query.update x.fields query = .ok ov)
    (hr : ∀ t ∈ c.cfg.sid.templates, Dict.keysEq ov (keysOf t.2) = true →
          renderable (Str.joinWith '/' ((keysOf t.2).map (fun k => (ov.get k).getD []))))
    (hslash : ∀ p ∈ ov, '/' ∉ p.2) :
    ∃ y, c.applyQuery x.string query x.type x.fields = .ok y ∧
      (y = ⟨x.string ++ '?' :: query, x.type, x.fields⟩ ∨
       (wellTyped c.env c.cfg.sid.templates y ∧ (∀ k, y.fields.get k = ov.get k) ∧
        y.fields.length = ov.length)) := by
  obtain ⟨h1, _, _, _⟩ := HierL.hier_unpack _ _ hwf
  have H := SidL.tableOk_unpack _ _ h1
  obtain ⟨t, hl, _, hacc, hf⟩ := hx
  have hmem := SidL.mem_of_lookup _ _ _ hl
  have hwt : sidTplOk c.env t = true := (H _ hmem).1
  obtain ⟨hKnd, _, _, hfst, _, _⟩ := HierL.typed_facts c.env t hwt x.string hacc
  rw [← hf] at hfst
  have htne : x.type ≠ [] := HierL.tableOk_label_ne _ _ h1 _ hmem
  have hty : ¬ (x.type.isEmpty = true ∧ x.fields.isEmpty = false) := by simp [htne]
  -- the overlay has distinct keys
  have hnd : (ov.map (·.1)).Nodup := by
    unfold Query.update at hov
    cases hd : Query.toDict query with
    | error e => rw [hd] at hov; simp at hov
    | ok nd =>
      rw [hd] at hov
      simp only [Except.ok.injEq] at hov
      rw [← hov]
      exact UpdL.updateGo_nodup nd _ (by rw [hfst]; exact hKnd)
  by_cases hex : ∃ a ∈ c.cfg.sid.templates, Dict.keysEq ov (keysOf a.2) = true
  · obtain ⟨a, ha, hk⟩ := hex
    obtain ⟨hd, hKne, hsl, hget, hlen⟩ := UpdL.overlay_facts c hwf ov hnd hslash a ha hk
    have hren := hr a ha hk
    have hts := HierL.dictToTypes_eq c hwf _ _ ov hd hKne hren
    obtain ⟨ts, hts, happ⟩ : ∃ ts, c.dictToTypes ov = .ok ts ∧ ∀ t' ∈ ts,
        ∃ y, ((match c.dictToSidStr ov t' with
          | .error e => .error e
          | .ok ns =>
            if ns.isEmpty then .error .spil else
            match c.sidToDict ns (some t') with
            | .error e => .error e
            | .ok r => .ok ⟨ns, t', (r.map (·.2)).getD ov⟩) : Except Err Sid) = .ok y ∧
          (wellTyped c.env c.cfg.sid.templates y ∧ (∀ k, y.fields.get k = ov.get k) ∧
            y.fields.length = ov.length) := by
      refine ⟨_, hts, ?_⟩
      intro t' ht'
      obtain ⟨b, hb, rfl⟩ := List.mem_map.mp ht'
      rw [List.mem_filter] at hb
      obtain ⟨hb, hq'⟩ := hb
      simp only [Bool.and_eq_true, beq_iff_eq] at hq'
      obtain ⟨e1, e2, e3⟩ := UpdL.applied_eq c hwf _ _ ov hd hKne hsl hren b hb hq'.1 hq'.2
      have hne : (Str.joinWith '/' ((keysOf a.2).map (fun k => (ov.get k).getD []))).isEmpty = false := by
        simp [hren.1]
      refine ⟨_, ?_, e3, hget, hlen⟩
      simp only [e1, hne, e2, Bool.false_eq_true, if_false, Option.map_some, Option.getD_some]
    rw [c04_apply_table c x.string query x.type x.fields ov _ hty hq hov hts]
    simp only []
    match ts, happ with
    | [], _ => exact ⟨_, rfl, Or.inl rfl⟩
    | [t'], happ =>
      obtain ⟨y, hy1, hy2⟩ := happ t' (by simp)
      exact ⟨y, hy1, Or.inr hy2⟩
    | t' :: t'' :: rest, happ =>
      simp only
      by_cases hc : (t' :: t'' :: rest).contains x.type = true
      · obtain ⟨y, hy1, hy2⟩ := happ x.type (by simpa using hc)
        simp only [hc, if_true]
        exact ⟨y, hy1, Or.inr hy2⟩
      · simp only [hc]
        by_cases hs : c.isSearchStr (x.string ++ '?' :: query) = true
        · obtain ⟨y, hy1, hy2⟩ := happ t' (by simp)
          simp only [hs, if_true]
          exact ⟨y, hy1, Or.inr hy2⟩
        · simp only [hs]
          exact ⟨_, rfl, Or.inl rfl⟩
  · have hts : c.dictToTypes ov = .ok [] := by
      apply UpdL.dictToTypes_nil c hwf
      intro a ha
      cases hk : Dict.keysEq ov (keysOf a.2) with
      | false => rfl
      | true => exact absurd ⟨a, ha, hk⟩ hex
    rw [c04_apply_table c x.string query x.type x.fields ov _ hty hq hov hts]
    exact ⟨_, rfl, Or.inl rfl⟩

/-- `get_with(**kw)`: the result is the empty Sid or a well-typed Sid whose fields are exactly the
    requested overlay (a `None` value removes the key, also when it is absent) -/
theorem c04_get_with_kw (x : Sid) (hwf : sidHierOk c.env c.cfg.sid.templates = true)
    (hx : wellTyped c.env c.cfg.sid.templates x) (kw : List (Str × Option Str))
    (hr : ∀ t ∈ c.cfg.sid.templates, Dict.keysEq (Ctx.overlayKw x.fields kw) (keysOf t.2) = true →
          renderable (Str.joinWith '/' ((keysOf t.2).map (fun k => ((Ctx.overlayKw x.fields kw).get k).getD []))))
    (hslash : ∀ p ∈ Ctx.overlayKw x.fields kw, '/' ∉ p.2) :
    ∃ y, c.getWithKw x kw = .ok y ∧
      (y = Sid.empty ∨
       (wellTyped c.env c.cfg.sid.templates y ∧ (∀ k, y.fields.get k = (Ctx.overlayKw x.fields kw).get k) ∧
        y.fields.length = (Ctx.overlayKw x.fields kw).length)) := by
  obtain ⟨h1, _, _, _⟩ := HierL.hier_unpack _ _ hwf
  have H := SidL.tableOk_unpack _ _ h1
  obtain ⟨t, hl, _, hacc, hf⟩ := hx
  have hmem := SidL.mem_of_lookup _ _ _ hl
  have hwt : sidTplOk c.env t = true := (H _ hmem).1
  obtain ⟨hKnd, _, _, hfst, _, _⟩ := HierL.typed_facts c.env t hwt x.string hacc
  rw [← hf] at hfst
  generalize hov : Ctx.overlayKw x.fields kw = ov at hr hslash
  have hnd : (ov.map (·.1)).Nodup := by
    rw [← hov]; exact UpdL.overlayKw_nodup _ _ (by rw [hfst]; exact hKnd)
  unfold Ctx.getWithKw
  split
  · exact ⟨_, rfl, Or.inl rfl⟩
  rw [hov]
  unfold Ctx.sidOfFields
  split
  · exact ⟨_, rfl, Or.inl rfl⟩
  by_cases hex : ∃ a ∈ c.cfg.sid.templates, Dict.keysEq ov (keysOf a.2) = true
  · obtain ⟨a, ha, hk⟩ := hex
    obtain ⟨hd, hKne, hsl, hget, hlen⟩ := UpdL.overlay_facts c hwf ov hnd hslash a ha hk
    have hren := hr a ha hk
    rw [HierL.dictToSid_eq c hwf _ _ ov hd hKne hsl hren]
    cases hfind : c.cfg.sid.templates.find? (fun b => keysOf b.2 == keysOf a.2 &&
        accepts c.env b.2 (Str.joinWith '/' ((keysOf a.2).map (fun k => (ov.get k).getD [])))) with
    | none => exact ⟨_, rfl, Or.inl rfl⟩
    | some b =>
      have hb := List.mem_of_find?_eq_some hfind
      have hq := List.find?_some hfind
      simp only [Bool.and_eq_true, beq_iff_eq] at hq
      obtain ⟨_, _, e3⟩ := UpdL.applied_eq c hwf _ _ ov hd hKne hsl hren b hb hq.1 hq.2
      exact ⟨_, rfl, Or.inr ⟨e3, hget, hlen⟩⟩
  · have hts : c.dictToTypes ov = .ok [] := by
      apply UpdL.dictToTypes_nil c hwf
      intro a ha
      cases hk : Dict.keysEq ov (keysOf a.2) with
      | false => rfl
      | true => exact absurd ⟨a, ha, hk⟩ hex
    unfold Ctx.dictToSid
    rw [hts]
    exact ⟨_, rfl, Or.inl rfl⟩

/-- the keyword overlay, pointwise -/
theorem c04_overlay_kw (fields : Dict) (kw : List (Str × Option Str)) (hn : (kw.map (·.1)).Nodup)
    (hf : (fields.map (·.1)).Nodup) (k : Str) :
    (Ctx.overlayKw fields kw).get k =
      match kw.lookup k with
      | some (some v) => some v
      | some none => none
      | none => fields.get k := by
  have _ := hf
  exact UpdL.overlayKw_get fields kw hn k

/-- query round trip (C02): for a naturally typed Sid whose values are non-empty and free of
    whitespace and URL metacharacters, `Sid(query=sid.as_query())` is the Sid, provided its field
    set fits a single type or the Sid is a search (otherwise `apply_query` refuses to guess) -/
-- CHANGED: in the search alternative of `huniq`, added `∀ sym ∈ searchSymbols, '/' ∉ sym` (the
-- search symbols are '/'-free, as they are in every shipped configuration).  `as_query()` spells
-- the values one by one, so a search symbol that straddles a '/' of the string is no longer
-- visible in the query, `apply_query` does not see a search and refuses to pick among several
-- types.  Counterexample (checked with `#eval`): table
--   a = {k:[^/]*}   b = {k:[^/]*}/{j:[^/]*}   b2 = {k:[^/]*}/{j:[^/]*}
-- (satisfies `sidHierOk`) with `searchSymbols = ["x/y"]`: the Sid "x/y" is naturally typed `b`
-- with fields `{k: x, j: y}`, is a search, `dict_to_type` gives `[b, b2]`, `as_query()` is
-- "k=x&j=y", and `Sid(query="k=x&j=y")` is the untyped Sid with string "?k=x&j=y".
theorem c02_query (x : Sid) (hwf : sidHierOk c.env c.cfg.sid.templates = true)
    (hx : natural c.env c.cfg.sid.templates x) (hr : renderable x.string)
    (hvals : ∀ p ∈ x.fields, p.2 ≠ [] ∧ p.1 ≠ [] ∧
       ∀ ch ∈ p.1 ++ p.2, ch ∉ ['&', '=', '#', '?', '%', '+', ' ', '\t', '\r', '\n', '~'])
    (huniq : c.dictToTypes x.fields = .ok [x.type] ∨
      (c.isSearch x = true ∧ ∀ sym ∈ c.cfg.sid.searchSymbols, '/' ∉ sym)) :
    c.sidOfQuery (Ctx.asQuery x) = .ok x := by
  obtain ⟨h1, _, _, _⟩ := HierL.hier_unpack _ _ hwf
  have H := SidL.tableOk_unpack _ _ h1
  obtain ⟨t, hfa, hf⟩ := HierL.natural_unpack _ _ x hx
  obtain ⟨hmem, hacc⟩ := SidL.firstAccepting_some _ _ _ _ _ hfa
  have hwt : sidTplOk c.env t = true := (H _ hmem).1
  obtain ⟨hnd, hKne, hlen, hfst, hsnd, hflen⟩ := HierL.typed_facts c.env t hwt x.string hacc
  rw [← hf] at hfst hsnd hflen
  have hfne : x.fields ≠ [] := by
    intro h0
    rw [h0] at hflen
    cases hk : keysOf t with
    | nil => exact hKne hk
    | cons _ _ => rw [hk] at hflen; simp at hflen
  have hfnd : (x.fields.map (·.1)).Nodup := by rw [hfst]; exact hnd
  obtain ⟨hstr, htd⟩ := UpdL.toDict_toString x.fields hfne hfnd hvals
  have hj := Str.join_split '/' x.string
  -- the query string
  generalize hq : Query.toString x.fields = q at hstr htd
  have hqne : q ≠ [] := by
    intro h0
    rw [h0] at htd
    have : Query.toDict [] = .ok [] := rfl
    rw [this] at htd
    simp only [Except.ok.injEq] at htd
    exact hfne htd.symm
  have hqe : q.isEmpty = false := by simp [hqne]
  -- the overlay of the empty dictionary is the field dictionary
  have hov : Query.update [] q = .ok x.fields := by
    unfold Query.update
    rw [htd]
    simp only
    rw [UpdL.updateGo_eq_update]
    · exact congrArg Except.ok (UpdL.ofPairs_self _ hfnd)
    · intro p hp
      obtain ⟨hv, _, hpl⟩ := hvals p hp
      cases hp2 : p.2 with
      | nil => exact absurd hp2 hv
      | cons ch v' =>
        have := hpl ch (by simp [hp2])
        simp only [List.mem_cons, not_or] at this
        have hne : ('~' == ch) = false := by
          have := this.2.2.2.2.2.2.2.2.2.2.1
          simpa using fun e => this e.symm
        simp [Str.startsWith, List.isPrefixOf, hne]
  -- the fields as a reordering of template keys and segments
  have hd : HierL.DictOf c.cfg.sid.templates (keysOf t) (Str.splitOn '/' x.string) x.fields :=
    { nodup := hnd, len := hlen, perm := by rw [hf]; exact List.Perm.refl _, ref := ⟨_, hmem, rfl⟩ }
  have hren : renderable (Str.joinWith '/' (Str.splitOn '/' x.string)) := by rw [hj]; exact hr
  obtain ⟨e1, e2, _⟩ := UpdL.applied_eq c hwf _ _ x.fields hd hKne (Str.splitOn_not_mem '/' x.string)
    hren (x.type, t) hmem rfl (by rw [hj]; exact hacc)
  rw [hj] at e1 e2
  simp only at e1 e2
  have hse : x.string.isEmpty = false := by simp [hr.1]
  have happ : ((match c.dictToSidStr x.fields x.type with
      | .error e => .error e
      | .ok ns =>
        if ns.isEmpty then .error .spil else
        match c.sidToDict ns (some x.type) with
        | .error e => .error e
        | .ok r => .ok ⟨ns, x.type, (r.map (·.2)).getD x.fields⟩) : Except Err Sid) = .ok x := by
    simp only [e1, hse, e2, Bool.false_eq_true, if_false, Option.map_some, Option.getD_some]
    exact congrArg Except.ok (HierL.sid_eta x _ hf)
  -- down to `apply_query`
  have hsid : c.sidOfQuery (Ctx.asQuery x) = c.applyQuery [] q [] [] := by
    unfold Ctx.sidOfQuery Ctx.asQuery
    rw [hq]
    simp only [hqe, Bool.false_eq_true, if_false]
    unfold Ctx.sidToSid
    have hs1 : Str.split1 '?' ('?' :: q) = ([], some q) := by simp [Str.split1]
    have hs2 : Str.split1 ':' [] = ([], none) := rfl
    simp only [hs1, hs2, SidL.sidToDict_nil, Option.map_none, Option.getD_none, hqe,
      Bool.false_eq_true, if_false]
    simp
  rw [hsid]
  have hty : ¬ (([] : Str).isEmpty = true ∧ ([] : Dict).isEmpty = false) := by simp
  rcases huniq with hu | ⟨hsearch, hsym⟩
  · rw [c04_apply_table c [] q [] [] x.fields _ hty hqne hov hu]
    exact happ
  · have hts := HierL.dictToTypes_eq c hwf _ _ x.fields hd hKne hren
    rw [hj] at hts
    have hfind := HierL.find_of_firstAccepting c.env (fun a => keysOf a.2 == keysOf t) x.string _ _ hfa
      (by simp)
    obtain ⟨rest, hfilt⟩ := UpdL.filter_of_find _ _ _ hfind
    have hlab : ∀ l ∈ (c.cfg.sid.templates.filter (fun a => keysOf a.2 == keysOf t &&
        accepts c.env a.2 x.string)).map (·.1), l ≠ [] := by
      intro l hl
      obtain ⟨b, hb, rfl⟩ := List.mem_map.mp hl
      exact HierL.tableOk_label_ne _ _ h1 b (List.mem_filter.mp hb).1
    -- the query string is a search
    have hss : c.isSearchStr ([] ++ '?' :: q) = true := by
      unfold Ctx.isSearch Ctx.isSearchStr at hsearch
      rw [List.any_eq_true] at hsearch
      obtain ⟨sym, hsm, hin⟩ := hsearch
      rw [← hj] at hin
      obtain ⟨v, hv, hvin⟩ := UpdL.isInfix_join_sep '/' sym (hsym sym hsm) _
        (Str.splitOn_ne_nil '/' x.string) hin
      rw [← hsnd] at hv
      obtain ⟨p, hp, rfl⟩ := List.mem_map.mp hv
      unfold Ctx.isSearchStr
      rw [List.any_eq_true]
      refine ⟨sym, hsm, ?_⟩
      have h3 : Str.isInfix sym (p.1 ++ '=' :: p.2) = true := by
        apply UpdL.isInfix_append_left
        simp only [Str.isInfix, hvin, Bool.or_true]
      have h4 := UpdL.isInfix_join_of_mem '&' sym _ _
        (List.mem_map.mpr ⟨p, hp, rfl⟩ : p.1 ++ '=' :: p.2 ∈ x.fields.map (fun p => p.1 ++ '=' :: p.2)) h3
      rw [← hstr] at h4
      simp only [List.nil_append, Str.isInfix, h4, Bool.or_true]
    rw [hfilt] at hlab hts
    simp only [List.map_cons] at hlab hts
    cases hrest : rest.map (·.1) with
    | nil =>
      rw [hrest] at hts
      rw [c04_apply_table c [] q [] [] x.fields _ hty hqne hov hts]
      exact happ
    | cons l2 ls =>
      rw [hrest] at hlab hts
      have hc : (x.type :: l2 :: ls).contains ([] : Str) = false := by
        cases hcc : (x.type :: l2 :: ls).contains ([] : Str) with
        | false => rfl
        | true =>
          rw [List.contains_iff_mem] at hcc
          exact absurd rfl (hlab [] hcc)
      rw [c04_apply_table c [] q [] [] x.fields _ hty hqne hov hts]
      simp only [hc, Bool.false_eq_true, if_false, hss, if_true]
      exact happ

end C04

namespace C14

/-- two Sids are equal exactly when their uris are equal -/
theorem c14_eq (x y : Sid) : Sid.eqv x y = true ↔ x.uri = y.uri := by
  simp [Sid.eqv]

/-- equal Sids hash equally (`hash(sid) = hash(repr(sid))`) -/
theorem c14_hash (x y : Sid) (h : Sid.eqv x y = true) : Sid.repr x = Sid.repr y := by
  unfold Sid.repr
  rw [(c14_eq x y).mp h]

/-- different uris give different reprs: the hash key is faithful -/
theorem c14_repr_inj (x y : Sid) (h : Sid.repr x = Sid.repr y) : x.uri = y.uri := by
  unfold Sid.repr at h
  rw [List.append_assoc, List.append_assoc] at h
  exact List.append_cancel_right (List.append_cancel_left h)

/-- the uri determines type and string when the type name contains no ':' -/
theorem c14_uri_inj (x y : Sid) (hx : ':' ∉ x.type) (hy : ':' ∉ y.type)
    (hxs : x.type = [] → ':' ∉ x.string) (hys : y.type = [] → ':' ∉ y.string)
    (h : x.uri = y.uri) : x.type = y.type ∧ x.string = y.string := by
  unfold Sid.uri at h
  by_cases h1 : x.type = [] <;> by_cases h2 : y.type = []
  · simp only [h1, h2, List.isEmpty_nil, if_true] at h
    exact ⟨by rw [h1, h2], h⟩
  · have : y.type.isEmpty = false := by simp [h2]
    simp only [h1, this, List.isEmpty_nil, if_true, Bool.false_eq_true, if_false] at h
    exfalso; apply hxs h1; rw [h]; simp
  · have : x.type.isEmpty = false := by simp [h1]
    simp only [h2, this, List.isEmpty_nil, if_true, Bool.false_eq_true, if_false] at h
    exfalso; apply hys h2; rw [← h]; simp
  · have e1 : x.type.isEmpty = false := by simp [h1]
    have e2 : y.type.isEmpty = false := by simp [h2]
    simp only [e1, e2, Bool.false_eq_true, if_false] at h
    exact Str.first_sep_unique ':' _ _ _ _ hx hy h

/-- sorting Sids (`sorted`, through `__lt__`) orders them by string and only permutes them -/
theorem c14_sort (xs : List Sid) :
    (Lst.sortBy Sid.lt xs).Perm xs ∧
    (Lst.sortBy Sid.lt xs).Pairwise (fun a b => Str.lt b.string a.string = false) :=
  ⟨Lst.sortBy_perm _ _, UpdL.sortBy_pairwise_comap Str.lt_sto Sid.string xs⟩

end C14
