/-
  Spil.Props.C02 — "String, fields, query and uri forms of a typed Sid all denote the same Sid"
  Spil.Props.C03 — "Parent, get_as and '/' navigate one consistent hierarchy"

  For EVERY configuration satisfying the documented conventions (`Spec.sidHierOk`) and EVERY
  naturally typed Sid (any string the table types by first match, search symbols included).

  Statements marked `-- CHANGED:` carry one extra hypothesis with respect to the first draft; each
  one is needed (counterexamples, checked with `#eval` on the table
    a1 = {k:x*}   a2 = {k:[^/]*}   b = {k:[^/]*}/{j:[^/]*}
  which satisfies `sidHierOk`, are given next to each statement).  The two phenomena behind them:
    (E) `resolve_one('')` is empty, so `Resolver.format_*` never renders the empty string, and a uri
        `type:` with an empty string part is untyped — while the EMPTY string itself is naturally
        typed by `a1` (`x*` accepts it);
    (N) the reverse check of `Resolver.format_*` resolves with `$`, which tolerates one final newline:
        `a1` "renders" `{k: "x\n"}` although it only accepts "x", `dict_to_type` lists it first, and
        `dict_to_sid` then fails on the render-back guard of `sid_to_dict` and returns `None`.
  `Spec.renderable s` (defined in `Spil.Lemmas.Hier`) is `s ≠ [] ∧ s.getLast? ≠ some '\n'`.
-/
import Spil.Spec.Sid
import Spil.Lemmas.Sid
import Spil.Lemmas.Hier
import Spil.Props.C01

namespace C02

open Spec

variable (c : Ctx)

/-- what a naturally typed Sid looks like: its string is the '/'-join of its field values (the
    canonical rendering through its template), its keys are its template's keys -/
theorem c02_canonical (x : Sid) (hwf : sidHierOk c.env c.cfg.sid.templates = true)
    (hx : natural c.env c.cfg.sid.templates x) :
    x.string = Str.joinWith '/' (x.fields.map (·.2)) ∧
    ∃ t, c.cfg.sid.templates.lookup x.type = some t ∧ x.fields.map (·.1) = keysOf t ∧
      accepts c.env t x.string = true := by
  obtain ⟨h1, _, _, _⟩ := HierL.hier_unpack _ _ hwf
  have H := SidL.tableOk_unpack _ _ h1
  obtain ⟨t, hfa, hf⟩ := HierL.natural_unpack _ _ x hx
  obtain ⟨hmem, hacc⟩ := SidL.firstAccepting_some _ _ _ _ _ hfa
  obtain ⟨_, _, _, hfst, hsnd, _⟩ := HierL.typed_facts c.env t (H _ hmem).1 x.string hacc
  rw [← hf] at hfst hsnd
  refine ⟨?_, t, (H _ hmem).2, hfst, hacc⟩
  rw [hsnd, Str.join_split]

/-- a naturally typed Sid with a non-empty string is well typed (used below) -/
theorem natural_wellTyped' (x : Sid) (hwf : sidHierOk c.env c.cfg.sid.templates = true)
    (hx : natural c.env c.cfg.sid.templates x) (hne : x.string ≠ []) :
    wellTyped c.env c.cfg.sid.templates x := by
  obtain ⟨h1, _, _, _⟩ := HierL.hier_unpack _ _ hwf
  have H := SidL.tableOk_unpack _ _ h1
  obtain ⟨t, hfa, hf⟩ := HierL.natural_unpack _ _ x hx
  obtain ⟨hmem, hacc⟩ := SidL.firstAccepting_some _ _ _ _ _ hfa
  exact ⟨t, (H _ hmem).2, hne, hacc, hf⟩

/-- rebuilding from the uri gives the same Sid -/
-- CHANGED: added `hne : x.string ≠ []` (phenomenon E).  Counterexample: the empty string is
-- naturally typed `a1` with fields `{k: ""}`, its uri is `a1:`, and `Sid("a1:")` is the untyped
-- empty-string Sid.  (`hc` is not used: a ':' in the string part of a uri is harmless.)
theorem c02_uri (x : Sid) (hwf : sidHierOk c.env c.cfg.sid.templates = true)
    (hx : natural c.env c.cfg.sid.templates x) (hne : x.string ≠ [])
    (hq : '?' ∉ x.string) (hc : ':' ∉ x.string) :
    c.sidOfString x.uri = .ok x := by
  have _ := hc
  obtain ⟨h1, _, _, hplain⟩ := HierL.hier_unpack _ _ hwf
  have H := SidL.tableOk_unpack _ _ h1
  obtain ⟨t, hfa, hf⟩ := HierL.natural_unpack _ _ x hx
  obtain ⟨hmem, hacc⟩ := SidL.firstAccepting_some _ _ _ _ _ hfa
  have hlne : x.type ≠ [] := HierL.tableOk_label_ne _ _ h1 _ hmem
  have huri : x.uri = x.type ++ ':' :: x.string := by
    have : x.type.isEmpty = false := by simp [hlne]
    simp [Sid.uri, this]
  have hq' : '?' ∉ x.type ++ ':' :: x.string := by
    simp only [List.mem_append, List.mem_cons, not_or]
    exact ⟨(hplain _ hmem).2, by decide, hq⟩
  rw [huri, C01.c01_forced c h1 x.type x.string hlne (hplain _ hmem).1 hq']
  have hl : c.cfg.sid.templates.lookup x.type = some t := (H _ hmem).2
  have hne' : x.string.isEmpty = false := by simp [hne]
  simp only [forcedSid, hl, hne', hacc, Bool.not_false, Bool.and_self, if_true]
  rw [HierL.sid_eta x _ hf]

/-- `copy()` gives the same Sid -/
-- CHANGED: added `hne : x.string ≠ []` (phenomenon E), same counterexample as `c02_uri`.
theorem c02_copy (x : Sid) (hwf : sidHierOk c.env c.cfg.sid.templates = true)
    (hx : natural c.env c.cfg.sid.templates x) (hne : x.string ≠ [])
    (hq : '?' ∉ x.string) (hc : ':' ∉ x.string) :
    c.copy x = .ok x :=
  c02_uri c x hwf hx hne hq hc

/-- rebuilding from the field dictionary in ANY key order gives the same Sid -/
-- CHANGED: added `hr : renderable x.string` (non-empty, phenomenon E: `Sid(fields={k: ""})` is the
-- empty Sid; not ending in a newline, phenomenon N: "x\n" is naturally typed `a2` with fields
-- `{k: "x\n"}` and `Sid(fields={k: "x\n"})` is the empty Sid).
theorem c02_fields (x : Sid) (hwf : sidHierOk c.env c.cfg.sid.templates = true)
    (hx : natural c.env c.cfg.sid.templates x) (hr : renderable x.string)
    (p : Dict) (hp : p.Perm x.fields) :
    c.sidOfFields p = .ok x := by
  obtain ⟨h1, _, _, _⟩ := HierL.hier_unpack _ _ hwf
  have H := SidL.tableOk_unpack _ _ h1
  obtain ⟨t, hfa, hf⟩ := HierL.natural_unpack _ _ x hx
  obtain ⟨hmem, hacc⟩ := SidL.firstAccepting_some _ _ _ _ _ hfa
  obtain ⟨hnd, hKne, hlen, _, _, _⟩ := HierL.typed_facts c.env t (H _ hmem).1 x.string hacc
  have hd : HierL.DictOf c.cfg.sid.templates (keysOf t) (Str.splitOn '/' x.string) p :=
    { nodup := hnd, len := hlen, perm := by have := hp; rw [hf] at this; exact this
      ref := ⟨_, hmem, rfl⟩ }
  have hj := Str.join_split '/' x.string
  have hds := HierL.dictToSid_eq c hwf _ _ p hd hKne (Str.splitOn_not_mem '/' x.string)
    (by rw [hj]; exact hr)
  rw [hj] at hds
  rw [HierL.find_of_firstAccepting c.env (fun a => keysOf a.2 == keysOf t) x.string _ _ hfa
    (by simp)] at hds
  simp only [Option.map_some] at hds
  have hpne : p.isEmpty = false := by simp [hd.ne_nil hKne]
  unfold Ctx.sidOfFields
  simp only [hpne, Bool.false_eq_true, if_false, hds, Option.getD_some]
  exact congrArg Except.ok (HierL.sid_eta x _ hf)

/-- two naturally typed Sids are equal exactly when type and fields are equal -/
theorem c02_eq (x y : Sid) (hwf : sidHierOk c.env c.cfg.sid.templates = true)
    (hx : natural c.env c.cfg.sid.templates x) (hy : natural c.env c.cfg.sid.templates y) :
    x = y ↔ (x.type = y.type ∧ x.fields = y.fields) := by
  constructor
  · rintro rfl; exact ⟨rfl, rfl⟩
  · rintro ⟨h1, h2⟩
    have hs : x.string = y.string := by
      rw [(c02_canonical c x hwf hx).1, (c02_canonical c y hwf hy).1, h2]
    cases x; cases y; simp_all

/-- `eval(repr(sid))`: the repr is `Sid('<uri>')`, from which the uri is read back verbatim -/
theorem c02_repr (x : Sid) :
    ∃ pre post, Sid.repr x = pre ++ x.uri ++ post ∧ pre = ['S','i','d','(','\''] ∧ post = ['\'',')'] :=
  ⟨_, _, rfl, rfl, rfl⟩

end C02

namespace C03

open Spec

variable (c : Ctx)

/-- a naturally typed Sid is well typed -/
-- CHANGED: added `hne : x.string ≠ []`, which `wellTyped` itself demands (phenomenon E: the
-- empty string is naturally typed `a1` on the table of the header).
theorem natural_wellTyped (x : Sid) (hwf : sidHierOk c.env c.cfg.sid.templates = true)
    (hx : natural c.env c.cfg.sid.templates x) (hne : x.string ≠ []) :
    wellTyped c.env c.cfg.sid.templates x :=
  C02.natural_wellTyped' c x hwf hx hne

/-- `get_as(k)` for the key at position `i` of ANY well-typed Sid (natural, uri-forced or built
    from fields / a query): a well-typed Sid whose fields are exactly the first `i+1` fields and
    whose string is the corresponding '/'-prefix of the original string -/
-- CHANGED: added `hr`: the '/'-prefix to be produced is renderable.  Counterexamples on the table
-- of the header: "/y" is typed `b` and `get_as('k')` is the empty Sid (phenomenon E, prefix "");
-- "x\n/y" is typed `b` and `get_as('k')` is the empty Sid (phenomenon N, prefix "x\n").
theorem c03_get_as (x : Sid) (hwf : sidHierOk c.env c.cfg.sid.templates = true)
    (hx : wellTyped c.env c.cfg.sid.templates x) (i : Nat) (hi : i < x.fields.length)
    (hr : renderable (Str.joinWith '/' ((Str.splitOn '/' x.string).take (i + 1)))) :
    ∃ y, c.getAs x (x.fields.map (·.1))[i]! = .ok y ∧ wellTyped c.env c.cfg.sid.templates y ∧
      y.fields = x.fields.take (i + 1) ∧
      y.string = Str.joinWith '/' ((Str.splitOn '/' x.string).take (i + 1)) := by
  obtain ⟨t, hl, _, hacc, hf⟩ := hx
  exact HierL.getAs_core c hwf x t hl hacc hf i hi hr

/-- `parent` of a Sid with at least two fields is `get_as` of the second-to-last key and has one
    field less; `parent / last value` re-resolves the original string, hence gives back the Sid
    whenever the Sid is naturally typed -/
-- CHANGED: added `hr`: the parent's string (all segments but the last) is renderable; same
-- counterexamples as `c03_get_as` ("/y" and "x\n/y": `parent` is the empty Sid).
theorem c03_parent (x : Sid) (hwf : sidHierOk c.env c.cfg.sid.templates = true)
    (hx : wellTyped c.env c.cfg.sid.templates x) (hn : 2 ≤ x.fields.length)
    (hr : renderable (Str.joinWith '/' ((Str.splitOn '/' x.string).take (x.fields.length - 1))))
    (hq : '?' ∉ x.string) (hc : ':' ∉ x.string) :
    ∃ p, c.parent x = .ok p ∧ c.getAs x (x.fields.map (·.1))[x.fields.length - 2]! = .ok p ∧
      p.fields.length = x.fields.length - 1 ∧ wellTyped c.env c.cfg.sid.templates p ∧
      c.div p ((x.fields.map (·.2)).getLast?.getD []) = .ok (plainSid c.env c.cfg.sid.templates x.string) ∧
      (natural c.env c.cfg.sid.templates x → c.div p ((x.fields.map (·.2)).getLast?.getD []) = .ok x) := by
  obtain ⟨h1, _, _, _⟩ := HierL.hier_unpack _ _ hwf
  have hsne : x.string ≠ [] := by obtain ⟨_, _, h, _, _⟩ := hx; exact h
  obtain ⟨p, hp1, hp2, hp3, hp4, _, hp6⟩ := HierL.parent_core c hwf x hx hn hr
  have hdiv : c.div p ((x.fields.map (·.2)).getLast?.getD []) =
      .ok (plainSid c.env c.cfg.sid.templates x.string) := by
    unfold Ctx.div
    rw [hp6]
    exact C01.c01_plain c h1 x.string hsne hc hq
  refine ⟨p, hp1, hp2, ?_, hp3, hdiv, ?_⟩
  · rw [hp4, List.length_take]; omega
  · intro hnat
    rw [hdiv, ← hnat.2]

/-- a one-field naturally typed Sid is its own parent -/
-- CHANGED: added `hne : x.string ≠ []` (phenomenon E): the parent of a one-field Sid is its copy,
-- see the counterexample of `c02_uri`.
theorem c03_root (x : Sid) (hwf : sidHierOk c.env c.cfg.sid.templates = true)
    (hx : natural c.env c.cfg.sid.templates x) (hn : x.fields.length = 1) (hne : x.string ≠ [])
    (hq : '?' ∉ x.string) (hc : ':' ∉ x.string) :
    c.parent x = .ok x := by
  rw [← C02.c02_copy c x hwf hx hne hq hc]
  unfold Ctx.parent
  match hf : x.fields, hn with
  | [a], _ => simp

/-- `c03_walk` without its unused hypotheses -/
theorem walk_core (x : Sid) (hwf : sidHierOk c.env c.cfg.sid.templates = true)
    (hx : wellTyped c.env c.cfg.sid.templates x)
    (hr : ∀ n, 0 < n → n < x.fields.length →
      renderable (Str.joinWith '/' ((Str.splitOn '/' x.string).take n))) :
    ∃ r, (Nat.repeat (fun (a : Except Err Sid) => a.bind c.parent) (x.fields.length - 1) (.ok x)) = .ok r ∧
      r.fields = x.fields.take 1 := by
  generalize hm : x.fields.length - 1 = m
  induction m generalizing x with
  | zero =>
    refine ⟨x, rfl, ?_⟩
    rw [List.take_of_length_le (by omega)]
  | succ m ih =>
    have hn : 2 ≤ x.fields.length := by omega
    obtain ⟨p, hp1, _, hp3, hp4, hp5, _⟩ := HierL.parent_core c hwf x hx hn
      (hr _ (by omega) (by omega))
    have hplen : p.fields.length = m + 1 := by rw [hp4, List.length_take]; omega
    have hsplit : Str.splitOn '/' p.string = (Str.splitOn '/' x.string).take (x.fields.length - 1) := by
      rw [hp5]; exact HierL.split_join_take x.string _ (by omega)
    obtain ⟨r, hr1, hr2⟩ := ih p hp3 (by
      intro n hn0 hnlt
      rw [hsplit, List.take_take, Nat.min_eq_left (by omega)]
      exact hr n hn0 (by omega)) (by omega)
    refine ⟨r, ?_, ?_⟩
    · rw [HierL.repeat_succ']
      show Nat.repeat _ m (c.parent x) = _
      rw [hp1]; exact hr1
    · rw [hr2, hp4, List.take_take, Nat.min_eq_left (by omega)]

/-- walking up: applying `parent` `len - 1` times reaches a one-field Sid -/
-- CHANGED: added `hr`: every proper non-empty '/'-prefix of the string is renderable (each one is
-- the string of an ancestor); counterexamples as for `c03_get_as`.
theorem c03_walk (x : Sid) (hwf : sidHierOk c.env c.cfg.sid.templates = true)
    (hx : wellTyped c.env c.cfg.sid.templates x)
    (hr : ∀ n, 0 < n → n < x.fields.length →
      renderable (Str.joinWith '/' ((Str.splitOn '/' x.string).take n)))
    (hq : '?' ∉ x.string) (hc : ':' ∉ x.string) :
    ∃ r, (Nat.repeat (fun (a : Except Err Sid) => a.bind c.parent) (x.fields.length - 1) (.ok x)) = .ok r ∧
      r.fields = x.fields.take 1 := by
  have _ := hq; have _ := hc
  exact walk_core c x hwf hx hr

/-- keytype / basetype / len are the last field name, the type prefix and the number of fields -/
theorem c03_meta (x : Sid) :
    Ctx.keytype x = (x.fields.map (·.1)).getLast? ∧ x.len = x.fields.length ∧
    (x.type ≠ [] → c.basetype x = (Str.splitStr x.type c.cfg.sid.sep).head?) := by
  refine ⟨?_, rfl, ?_⟩
  · simp [Ctx.keytype, List.getLast?_map]
  · intro h
    have : x.type.isEmpty = false := by simp [h]
    simp [Ctx.basetype, this]

/-- on an untyped Sid the navigations return the empty Sid (or `none`) instead of failing -/
theorem c03_untyped (s : Str) (hs : s ≠ []) (k : Str) (kw : List (Str × Option Str)) (q : Str) :
    c.parent (Sid.untyped s) = .ok Sid.empty ∧ c.getAs (Sid.untyped s) k = .ok Sid.empty ∧
    c.getWithKw (Sid.untyped s) kw = .ok Sid.empty ∧ c.getWithQuery (Sid.untyped s) q = .ok Sid.empty ∧
    Ctx.keytype (Sid.untyped s) = none ∧ c.basetype (Sid.untyped s) = none ∧ (Sid.untyped s).len = 0 ∧
    c.div (Sid.untyped s) k = c.sidOfString (s ++ '/' :: k) := by
  have hs' : s.isEmpty = false := by simp [hs]
  refine ⟨rfl, rfl, ?_, ?_, rfl, rfl, rfl, rfl⟩
  · simp [Ctx.getWithKw, Sid.untyped, hs']
  · simp [Ctx.getWithQuery, Sid.untyped, hs']

end C03
