/-
  Spil.Props.C10b — the algebra of the search syntax (C10) on SEARCH EXPRESSIONS, as equalities of
  the SETS `unfold_search` returns (a Python set of Sids is a set of uris: `Sid.__eq__` compares
  uris) and of the sets list search (`FindInList.find`) returns:
  * (or)     a ',' list in segment `i` = the union over its alternatives;
  * (alias)  an alias as last segment = the ',' list of its extensions;
  * (`**`)   "/**" = the union over the numbers of "/*" levels, restricted to leaf types;
  * (literal) replacing a whole-segment '*' by a literal can only restrict the list result.
  Hypotheses: `ConfOk`, `ExprOk` (see `Spil.Spec.Denote`, `Spil.Props.C07c`).
-/
import Spil.Spec.Denote
import Spil.Lemmas.DenoteAlg
import Spil.Lemmas.DenoteFind
import Spil.Lemmas.DenoteStars
import Spil.Props.C07c
import Spil.Props.C18

namespace C10

open Spec Ctx DenL

variable (c : Ctx)

/-- the uris of two unfoldings compare like what the expressions denote -/
theorem uris_mono (hC : ConfOk c) (s s' : Str) (hS : ExprOk c s) (hS' : ExprOk c s')
    (hsub : ∀ y, Denotes c s' y → Denotes c s y)
    (r r' : List Sid) (h : c.unfoldSearch s false false = .ok r)
    (h' : c.unfoldSearch s' false false = .ok r') :
    ∀ u, u ∈ r'.map Sid.uri → u ∈ r.map Sid.uri := by
  intro u hu
  rw [C07.c07_unfold_uris c hC.wf hC.alias hC.noEmptyNarrow s' hS'.noQuery hS'.noColon hS'.noMark
    hS'.rooted r' h' u] at hu
  obtain ⟨y, x, hd, hyx, ht, hxq, rfl⟩ := hu
  rw [C07.c07_unfold_uris c hC.wf hC.alias hC.noEmptyNarrow s hS.noQuery hS.noColon hS.noMark
    hS.rooted r h _]
  exact ⟨y, x, hsub y hd, hyx, ht, hxq, rfl⟩

/-- an expression denoting less than a successfully unfolded one unfolds successfully -/
theorem unfold_ok_mono (hC : ConfOk c) (s s' : Str) (hS : ExprOk c s) (hS' : ExprOk c s')
    (hsub : ∀ y, Denotes c s' y → Denotes c s y) (hmal : Malformed c s' → Malformed c s)
    (r : List Sid) (h : c.unfoldSearch s false false = .ok r) :
    ∃ r', c.unfoldSearch s' false false = .ok r' := by
  apply C07.c07_unfold_ok c hC.wf hC.alias hC.noEmptyNarrow s' hS'.noQuery hS'.noColon hS'.noMark hS'.rooted
  · intro hm'
    exact C07.c07_unfold_wellformed c hC.wf hC.alias s hS.noQuery hS.noColon hS.noMark hS.rooted r h
      (hmal hm')
  · intro y hd
    exact C07.c07_unfold_narrows c hC.wf hC.alias s hS.noQuery hS.noColon hS.noMark hS.rooted r h y
      (hsub y hd)

/-! ### (or) -/

/-- the conditions on the expression pass to the expression with one alternative chosen -/
theorem exprOk_alt (s : Str) (hS : ExprOk c s) (i : Nat) (hi : i < (Str.splitOn '/' s).length)
    (alt : Str) (halt : alt ∈ altsOf (segAt s i)) : ExprOk c (setSeg s i alt) where
  noQuery := fun h => by
    rcases setSeg_char s i hi alt halt '?' h with h | h
    · cases h
    · exact hS.noQuery h
  noColon := fun h => by
    rcases setSeg_char s i hi alt halt ':' h with h | h
    · cases h
    · exact hS.noColon h
  noMark := setSeg_no_mark s i hi alt halt hS.noMark
  rooted := rooted_setSeg c s i hi alt halt hS.rooted

/-- (or), denotation: a ',' list in segment `i` denotes the union over its alternatives -/
theorem c10_or_denotes (s : Str) (i : Nat) (hi : i < (Str.splitOn '/' s).length) (y : Sid) :
    Denotes c s y ↔ ∃ alt ∈ altsOf (segAt s i), Denotes c (setSeg s i alt) y :=
  denotes_or c s i hi y

/-- (or), `unfold_search`: when the expression unfolds, so does every expression obtained by
    choosing one alternative of segment `i`, and the Sids (uris) returned for the expression are
    the union of those returned for the alternatives:
    `find(…a,b…) = find(…a…) ∪ find(…b…)` at the level of the search Sids -/
theorem c10_or (hC : ConfOk c) (s : Str) (hS : ExprOk c s) (i : Nat)
    (hi : i < (Str.splitOn '/' s).length)
    (r : List Sid) (h : c.unfoldSearch s false false = .ok r) :
    (∀ alt ∈ altsOf (segAt s i), ∃ r', c.unfoldSearch (setSeg s i alt) false false = .ok r') ∧
    ∀ u, u ∈ r.map Sid.uri ↔
      ∃ alt ∈ altsOf (segAt s i), ∃ r', c.unfoldSearch (setSeg s i alt) false false = .ok r' ∧
        u ∈ r'.map Sid.uri := by
  have hsub : ∀ alt ∈ altsOf (segAt s i), ∀ y, Denotes c (setSeg s i alt) y → Denotes c s y :=
    fun alt halt y hd => (denotes_or c s i hi y).2 ⟨alt, halt, hd⟩
  have hex : ∀ alt ∈ altsOf (segAt s i), ∃ r', c.unfoldSearch (setSeg s i alt) false false = .ok r' :=
    fun alt halt => unfold_ok_mono c hC s _ hS (exprOk_alt c s hS i hi alt halt) (hsub alt halt)
      (fun hm => (malformed_or c s i hi).2 ⟨alt, halt, hm⟩) r h
  refine ⟨hex, fun u => ⟨?_, ?_⟩⟩
  · intro hu
    rw [C07.c07_unfold_uris c hC.wf hC.alias hC.noEmptyNarrow s hS.noQuery hS.noColon hS.noMark
      hS.rooted r h u] at hu
    obtain ⟨y, x, hd, hyx, ht, hxq, rfl⟩ := hu
    obtain ⟨alt, halt, hd'⟩ := (denotes_or c s i hi y).1 hd
    obtain ⟨r', hr'⟩ := hex alt halt
    have hS' := exprOk_alt c s hS i hi alt halt
    refine ⟨alt, halt, r', hr', ?_⟩
    rw [C07.c07_unfold_uris c hC.wf hC.alias hC.noEmptyNarrow _ hS'.noQuery hS'.noColon hS'.noMark
      hS'.rooted r' hr' _]
    exact ⟨y, x, hd', hyx, ht, hxq, rfl⟩
  · rintro ⟨alt, halt, r', hr', hu⟩
    exact uris_mono c hC s _ hS (exprOk_alt c s hS i hi alt halt) (hsub alt halt) r r' h hr' u hu

/-- (or), exact Sids: under `NarrowCanon` (narrowing returns canonically typed Sids) the union is
    one of Sid VALUES (type, string and fields) -/
theorem c10_or_mem (hC : ConfOk c) (s : Str) (hS : ExprOk c s) (hcan : NarrowCanon c s) (i : Nat)
    (hi : i < (Str.splitOn '/' s).length)
    (r : List Sid) (h : c.unfoldSearch s false false = .ok r) (x : Sid) :
    x ∈ r ↔ ∃ alt ∈ altsOf (segAt s i), ∃ r', c.unfoldSearch (setSeg s i alt) false false = .ok r' ∧
      x ∈ r' := by
  have hcan' : ∀ alt ∈ altsOf (segAt s i), NarrowCanon c (setSeg s i alt) :=
    fun alt halt y x hd => hcan y x ((denotes_or c s i hi y).2 ⟨alt, halt, hd⟩)
  rw [C07.c07_unfold_mem c hC.wf hC.alias hC.noEmptyNarrow s hS.noQuery hS.noColon hS.noMark
    hS.rooted hcan r h x]
  constructor
  · rintro ⟨y, hd, hyx, ht, hxq⟩
    obtain ⟨alt, halt, hd'⟩ := (denotes_or c s i hi y).1 hd
    obtain ⟨r', hr'⟩ := (c10_or c hC s hS i hi r h).1 alt halt
    have hS' := exprOk_alt c s hS i hi alt halt
    refine ⟨alt, halt, r', hr', ?_⟩
    rw [C07.c07_unfold_mem c hC.wf hC.alias hC.noEmptyNarrow _ hS'.noQuery hS'.noColon hS'.noMark
      hS'.rooted (hcan' alt halt) r' hr' x]
    exact ⟨y, hd', hyx, ht, hxq⟩
  · rintro ⟨alt, halt, r', hr', hx⟩
    have hS' := exprOk_alt c s hS i hi alt halt
    rw [C07.c07_unfold_mem c hC.wf hC.alias hC.noEmptyNarrow _ hS'.noQuery hS'.noColon hS'.noMark
      hS'.rooted (hcan' alt halt) r' hr' x] at hx
    obtain ⟨y, hd, rest⟩ := hx
    exact ⟨y, (denotes_or c s i hi y).2 ⟨alt, halt, hd⟩, rest⟩

/-! ### (alias) -/

/-- the conditions on the expression pass to the expression with the alias written out -/
theorem exprOk_alias (hC : ConfOk c) (hfl : aliasFlat c.cfg.sid = true) (s : Str) (hS : ExprOk c s)
    (vs : List Str) (hcm : ',' ∉ lastSeg s)
    (hl : c.cfg.sid.extensionAlias.lookup (lastSeg s) = some vs) :
    ExprOk c (setSeg s (lastIdx s) (Str.joinWith ',' vs)) where
  noQuery := fun h => by
    rcases alias_char s vs '?' h with h | h | h | ⟨v, hv, hc⟩
    · cases h
    · cases h
    · exact hS.noQuery h
    · exact ((aliasOk_unpack _ hC.alias _ _ hl).2.2 v hv).2.2.1 hc
  noColon := fun h => by
    rcases alias_char s vs ':' h with h | h | h | ⟨v, hv, hc⟩
    · cases h
    · cases h
    · exact hS.noColon h
    · exact ((aliasOk_unpack _ hC.alias _ _ hl).2.2 v hv).2.2.2.1 hc
  noMark := alias_no_mark c hC.alias s _ vs hl hS.noMark
  rooted := fun a hp => hS.rooted a ((picks_alias c hC.alias hfl s vs hcm hl a).2 hp)

/-- (alias), denotation: an alias as last segment denotes what the ',' list of its extensions
    denotes.  Needs `aliasFlat`: no extension is itself an alias name (aliases are not expanded
    recursively; counterexample in `Spil.Props.C10bExamples`). -/
theorem c10_alias_denotes (hC : ConfOk c) (hfl : aliasFlat c.cfg.sid = true) (s : Str)
    (vs : List Str) (hcm : ',' ∉ lastSeg s)
    (hl : c.cfg.sid.extensionAlias.lookup (lastSeg s) = some vs) (y : Sid) :
    Denotes c s y ↔ Denotes c (setSeg s (lastIdx s) (Str.joinWith ',' vs)) y := by
  unfold Denotes
  constructor
  · rintro ⟨a, hp, hd⟩
    exact ⟨a, (picks_alias c hC.alias hfl s vs hcm hl a).1 hp, hd⟩
  · rintro ⟨a, hp, hd⟩
    exact ⟨a, (picks_alias c hC.alias hfl s vs hcm hl a).2 hp, hd⟩

/-- (alias), `unfold_search`: the expression with the alias written out as the ',' list of its
    extensions unfolds to the same set of Sids (uris) -/
theorem c10_alias (hC : ConfOk c) (hfl : aliasFlat c.cfg.sid = true) (s : Str) (hS : ExprOk c s)
    (vs : List Str) (hcm : ',' ∉ lastSeg s)
    (hl : c.cfg.sid.extensionAlias.lookup (lastSeg s) = some vs)
    (r : List Sid) (h : c.unfoldSearch s false false = .ok r) :
    ∃ r', c.unfoldSearch (setSeg s (lastIdx s) (Str.joinWith ',' vs)) false false = .ok r' ∧
      ∀ u, u ∈ r.map Sid.uri ↔ u ∈ r'.map Sid.uri := by
  have hS' := exprOk_alias c hC hfl s hS vs hcm hl
  have hden := c10_alias_denotes c hC hfl s vs hcm hl
  have hmal : Malformed c (setSeg s (lastIdx s) (Str.joinWith ',' vs)) → Malformed c s := by
    rintro ⟨a, hp, hm⟩
    exact ⟨a, (picks_alias c hC.alias hfl s vs hcm hl a).2 hp, hm⟩
  obtain ⟨r', hr'⟩ := unfold_ok_mono c hC s _ hS hS' (fun y hd => (hden y).2 hd) hmal r h
  refine ⟨r', hr', fun u => ⟨?_, ?_⟩⟩
  · exact uris_mono c hC _ s hS' hS (fun y hd => (hden y).1 hd) r' r hr' h u
  · exact uris_mono c hC s _ hS hS' (fun y hd => (hden y).2 hd) r r' h hr' u

/-! ### ("/**") -/

/-- ("/**"), denotation.  For an expression `x/**/b` whose "**" is a whole segment, not the last
    one, and the only "/**" (also in every plain string the expression stands for):
    the expression denotes the UNION over the numbers `k ≥ 0` of levels of what `x` + k × "/*" + `/b`
    denotes, RESTRICTED TO LEAF TYPES (the last key is the leaf key of the basetype of the root,
    the root being the levels of `x`). -/
theorem c10_stars_denotes (x b : Str)
    (h1 : Str.count (x ++ slashStars ++ '/' :: b) slashStars = 1)
    (hp1 : ∀ a, Picks c (x ++ slashStars ++ '/' :: b) a → Str.count a slashStars = 1) (y : Sid) :
    Denotes c (x ++ slashStars ++ '/' :: b) y ↔
      ∃ k, Denotes c (fill (x ++ slashStars ++ '/' :: b) k) y ∧
        LeafTyped c (Str.splitOn '/' x).length y := by
  constructor
  · rintro ⟨a, hpa, hda⟩
    have hca := hp1 a hpa
    obtain ⟨u, w, rfl, htake⟩ := picks_shape c x b a hpa
    rcases hda with ⟨h0, _⟩ | ⟨_, lk, k, hlk, p, hp, hleaf, hacc, rfl⟩
    · omega
    · rw [rootOf_at u _ hca] at hlk
      have hfill := fill_at u ('/' :: w) k hca
      have hune : u ≠ [] := by
        rintro rfl
        simp [rootLeafKey] at hlk
      refine ⟨k, ⟨_, (picks_fill c x b k h1 hp1 _).2 ⟨_, hpa, rfl⟩, Or.inl ⟨?_, ?_, p, hp, hacc, rfl⟩⟩,
        lk, ?_, ?_⟩
      · rw [hfill]
        have hca' : Str.countGo ['/', '*', '*'] 0 (u ++ ['/', '*', '*'] ++ '/' :: w) = 1 := by
          simpa [Str.count, slashStars] using hca
        simpa [Str.count, slashStars] using count_fill_zero w k u hca'
      · rw [hfill]
        intro h0
        simp only [List.append_eq_nil_iff] at h0
        exact hune h0.1.1
      · simp only [rootOfSid, typedAs]
        rw [hfill, htake k]
        exact hlk
      · simp only [Ctx.keytype, typedAs]
        rw [ExpL.fieldsOf_last c.env p.2 _ hacc]
        exact hleaf
  · rintro ⟨k, ⟨a', hpa', hda'⟩, lk, hlk, hkt⟩
    obtain ⟨a, hpa, rfl⟩ := (picks_fill c x b k h1 hp1 a').1 hpa'
    have hca := hp1 a hpa
    obtain ⟨u, w, rfl, htake⟩ := picks_shape c x b a hpa
    have hfill := fill_at u ('/' :: w) k hca
    have hc0 : Str.count (fill (u ++ slashStars ++ '/' :: w) k) slashStars = 0 := by
      rw [hfill]
      have hca' : Str.countGo ['/', '*', '*'] 0 (u ++ ['/', '*', '*'] ++ '/' :: w) = 1 := by
        simpa [Str.count, slashStars] using hca
      simpa [Str.count, slashStars] using count_fill_zero w k u hca'
    rcases hda' with ⟨_, _, p, hp, hacc, rfl⟩ | ⟨h1', _⟩
    · refine ⟨_, hpa, Or.inr ⟨hca, lk, k, ?_, p, hp, ?_, hacc, rfl⟩⟩
      · rw [rootOf_at u _ hca]
        simp only [rootOfSid, typedAs] at hlk
        rw [hfill, htake k] at hlk
        exact hlk
      · simp only [Ctx.keytype, typedAs] at hkt
        rw [ExpL.fieldsOf_last c.env p.2 _ hacc] at hkt
        exact hkt
    · omega

/-- ("/**"), `unfold_search`: the Sids returned for `x/**/b` are the narrowings of the LEAF-typed
    searches denoted by the expressions `x` + k × "/*" + `/b`, `k ≥ 0` -/
theorem c10_stars (hC : ConfOk c) (x b : Str) (hS : ExprOk c (x ++ slashStars ++ '/' :: b))
    (h1 : Str.count (x ++ slashStars ++ '/' :: b) slashStars = 1)
    (hp1 : ∀ a, Picks c (x ++ slashStars ++ '/' :: b) a → Str.count a slashStars = 1)
    (r : List Sid) (h : c.unfoldSearch (x ++ slashStars ++ '/' :: b) false false = .ok r) (u : Str) :
    u ∈ r.map Sid.uri ↔
      ∃ k y z, Denotes c (fill (x ++ slashStars ++ '/' :: b) k) y ∧
        LeafTyped c (Str.splitOn '/' x).length y ∧
        c.typeNarrow y = .ok z ∧ z.typed = true ∧ '?' ∉ z.string ∧ z.uri = u := by
  rw [C07.c07_unfold_uris c hC.wf hC.alias hC.noEmptyNarrow _ hS.noQuery hS.noColon hS.noMark
    hS.rooted r h u]
  constructor
  · rintro ⟨y, z, hd, rest⟩
    obtain ⟨k, hd', hl⟩ := (c10_stars_denotes c x b h1 hp1 y).1 hd
    exact ⟨k, y, z, hd', hl, rest⟩
  · rintro ⟨k, y, z, hd', hl, rest⟩
    exact ⟨y, z, (c10_stars_denotes c x b h1 hp1 y).2 ⟨k, hd', hl⟩, rest⟩

/-! ### the strings handed to the star search -/

/-- the strings of two unfoldings compare like what the expressions denote -/
theorem strings_mono (hC : ConfOk c) (s s' : Str) (hS : ExprOk c s) (hS' : ExprOk c s')
    (hsub : ∀ y, Denotes c s' y → Denotes c s y)
    (r r' : List Sid) (h : c.unfoldSearch s false false = .ok r)
    (h' : c.unfoldSearch s' false false = .ok r') :
    ∀ p, p ∈ r'.map (·.string) → p ∈ r.map (·.string) := by
  intro p hp
  rw [C07.c07_unfold_strings c hC.wf hC.alias hC.noEmptyNarrow s' hS'.noQuery hS'.noColon hS'.noMark
    hS'.rooted r' h' p] at hp
  obtain ⟨y, x, hd, hyx, ht, hxq, rfl⟩ := hp
  rw [C07.c07_unfold_strings c hC.wf hC.alias hC.noEmptyNarrow s hS.noQuery hS.noColon hS.noMark
    hS.rooted r h _]
  exact ⟨y, x, hsub y hd, hyx, ht, hxq, rfl⟩

/-- (or), strings of the search Sids -/
theorem c10_or_strings (hC : ConfOk c) (s : Str) (hS : ExprOk c s) (i : Nat)
    (hi : i < (Str.splitOn '/' s).length)
    (r : List Sid) (h : c.unfoldSearch s false false = .ok r) (p : Str) :
    p ∈ r.map (·.string) ↔
      ∃ alt ∈ altsOf (segAt s i), ∃ r', c.unfoldSearch (setSeg s i alt) false false = .ok r' ∧
        p ∈ r'.map (·.string) := by
  constructor
  · intro hp
    rw [C07.c07_unfold_strings c hC.wf hC.alias hC.noEmptyNarrow s hS.noQuery hS.noColon hS.noMark
      hS.rooted r h p] at hp
    obtain ⟨y, x, hd, hyx, ht, hxq, rfl⟩ := hp
    obtain ⟨alt, halt, hd'⟩ := (denotes_or c s i hi y).1 hd
    obtain ⟨r', hr'⟩ := (c10_or c hC s hS i hi r h).1 alt halt
    have hS' := exprOk_alt c s hS i hi alt halt
    refine ⟨alt, halt, r', hr', ?_⟩
    rw [C07.c07_unfold_strings c hC.wf hC.alias hC.noEmptyNarrow _ hS'.noQuery hS'.noColon hS'.noMark
      hS'.rooted r' hr' _]
    exact ⟨y, x, hd', hyx, ht, hxq, rfl⟩
  · rintro ⟨alt, halt, r', hr', hp⟩
    exact strings_mono c hC s _ hS (exprOk_alt c s hS i hi alt halt)
      (fun y hd => (denotes_or c s i hi y).2 ⟨alt, halt, hd⟩) r r' h hr' p hp

/-! ### list search (`FindInList.find`, star searches) -/

/-- a proper search expression — it contains a search symbol of the configuration, or its last
    segment is an alias — is unfolded by `Finder.find` -/
theorem c10_agree_proper (hC : ConfOk c) (s : Str) (hS : ExprOk c s)
    (hp : c.isSearchStr s = true ∨
      (c.cfg.sid.extensionAlias.lookup (((Str.splitOn '/' s).getLast?).getD [])).isSome = true) :
    c.findSearches s = c.unfoldSearch s false false ∧ SearchesAgree c s := by
  have h := findSearches_proper c (HierL.hier_unpack _ _ hC.wf).1 s hS.noQuery hS.noColon hp
  exact ⟨h, fun r hr => ⟨r, by rw [h, hr], fun _ => Iff.rfl⟩⟩

/-- the SHORTCUT of `Finder.find`: a concrete typed string (no ',', no '*', no search symbol, last
    segment no alias) is not unfolded but handed to the star search as it is.  This agrees with
    unfolding exactly when narrowing does not contradict the concrete values: every typing of the
    string is narrowed to a typed Sid with the SAME string (`hfix`).  (Known finding: a narrowing
    filter that contradicts a concrete value overrides it; then `hfix` fails and the shortcut and
    the unfolding differ — see the final report.) -/
theorem c10_agree_concrete (hC : ConfOk c) (s : Str) (hS : ExprOk c s) (hcm : ',' ∉ s) (hst : '*' ∉ s)
    (hnal : c.cfg.sid.extensionAlias.lookup (((Str.splitOn '/' s).getLast?).getD []) = none)
    (hfix : ∀ y, Denotes c s y → ∃ x, c.typeNarrow y = .ok x ∧ x.typed = true ∧ x.string = s) :
    SearchesAgree c s := by
  obtain ⟨htab, _, _, _⟩ := HierL.hier_unpack _ _ hC.wf
  intro r hr
  have hsid := ExpL.sidOfString_plain c htab s hS.noQuery hS.noColon
  have hstr : (ExpL.plainOf c s).string = s := by
    unfold ExpL.plainOf
    split
    · next he => rw [List.isEmpty_iff] at he; subst he; rfl
    · unfold plainSid; split <;> rfl
  by_cases hshort : ((ExpL.plainOf c s).typed && !c.isSearch (ExpL.plainOf c s) &&
      !c.isAliasSearch (ExpL.plainOf c s) && !Str.hasChar '?' (ExpL.plainOf c s).string) = true
  · -- the shortcut is taken
    refine ⟨[ExpL.plainOf c s], by simp [Ctx.findSearches, hsid, hshort], fun p => ?_⟩
    simp only [List.map_cons, List.map_nil, List.mem_singleton, hstr]
    rw [C07.c07_unfold_strings c hC.wf hC.alias hC.noEmptyNarrow s hS.noQuery hS.noColon hS.noMark
      hS.rooted r hr p]
    constructor
    · rintro rfl
      -- some template accepts the string: it denotes a typed search, which narrowing fixes
      simp only [Bool.and_eq_true] at hshort
      have htyped := hshort.1.1.1
      have hne : p ≠ [] := by
        rintro rfl
        simp [ExpL.plainOf, Sid.empty, Sid.typed] at htyped
      have hpe : p.isEmpty = false := by simp [hne]
      obtain ⟨q, hq⟩ : ∃ q, firstAccepting c.env c.cfg.sid.templates p = some q := by
        cases hf : firstAccepting c.env c.cfg.sid.templates p with
        | none => simp [ExpL.plainOf, hpe, plainSid, hf, Sid.untyped, Sid.typed] at htyped
        | some q => exact ⟨q, rfl⟩
      obtain ⟨hmem, hacc⟩ := SidL.firstAccepting_some _ _ _ q.1 q.2 hq
      have hd : Denotes c p (typedAs q.1 q.2 p) :=
        ⟨p, picks_self c p hcm hnal, Or.inl ⟨count_stars_zero p hst, hne, q, hmem, hacc, rfl⟩⟩
      obtain ⟨x, hx, ht, hxs⟩ := hfix _ hd
      exact ⟨_, x, hd, hx, ht, hxs ▸ hS.noQuery, hxs⟩
    · rintro ⟨y, x, hd, hyx, _, _, rfl⟩
      obtain ⟨x', hx', _, hxs⟩ := hfix y hd
      rw [hyx] at hx'
      simp only [Except.ok.injEq] at hx'
      subst hx'
      exact hxs
  · -- no shortcut: the expression is unfolded
    refine ⟨r, ?_, fun _ => Iff.rfl⟩
    unfold Ctx.findSearches
    rw [hsid]
    simp only [hshort, Bool.false_eq_true, if_false]
    exact hr

/-- list search on an unfolded star search: the entries of the list that glob-match the string of
    one of the unfolded search Sids (C08 composed with C07) -/
theorem c10_list_char (s : Str) (hag : SearchesAgree c s) (L : List Str)
    (r : List Sid) (h : c.unfoldSearch s false false = .ok r)
    (hgt : ∀ x ∈ r, '>' ∉ x.string) (hbr : ∀ x ∈ r, '[' ∉ x.string) :
    ∃ R, c.findInList ⟨L, false⟩ s = .ok R ∧ R.Nodup ∧
      ∀ x, x ∈ R ↔ (x ∈ L ∧ ∃ p ∈ r.map (·.string), Glob p x) := by
  obtain ⟨S, hS, hstr⟩ := hag r h
  have hex : ∀ x ∈ S, ∃ x' ∈ r, x'.string = x.string := by
    intro x hx
    obtain ⟨x', hx', he⟩ := List.mem_map.1 ((hstr x.string).1 (List.mem_map.2 ⟨x, hx, rfl⟩))
    exact ⟨x', hx', he⟩
  obtain ⟨R, hR, hnd, hmem⟩ := findInList_char c L s S hS
    (fun x hx => by obtain ⟨x', hx', he⟩ := hex x hx; rw [← he]; exact hgt x' hx')
    (fun x hx => by obtain ⟨x', hx', he⟩ := hex x hx; rw [← he]; exact hbr x' hx')
  refine ⟨R, hR, hnd, fun x => ?_⟩
  rw [hmem x]
  constructor
  · rintro ⟨hx, p, hp, hg⟩; exact ⟨hx, p, (hstr p).1 hp, hg⟩
  · rintro ⟨hx, p, hp, hg⟩; exact ⟨hx, p, (hstr p).2 hp, hg⟩

/-- (or), list search: `find(…a,b…) = find(…a…) ∪ find(…b…)` for the alternatives of any segment,
    as sets of found entries; no duplicates.  Star searches only (no '>' in the unfolded searches);
    '[' is outside the glob model (K2).  `SearchesAgree` holds for every proper search expression
    (`c10_agree_proper`) and for concrete strings that narrowing leaves alone (`c10_agree_concrete`). -/
theorem c10_list_or (hC : ConfOk c) (s : Str) (hS : ExprOk c s) (i : Nat)
    (hi : i < (Str.splitOn '/' s).length) (L : List Str)
    (r : List Sid) (h : c.unfoldSearch s false false = .ok r)
    (hag : SearchesAgree c s) (hags : ∀ alt ∈ altsOf (segAt s i), SearchesAgree c (setSeg s i alt))
    (hgt : ∀ x ∈ r, '>' ∉ x.string) (hbr : ∀ x ∈ r, '[' ∉ x.string) :
    ∃ R, c.findInList ⟨L, false⟩ s = .ok R ∧ R.Nodup ∧
      ∀ x, x ∈ R ↔ ∃ alt ∈ altsOf (segAt s i), ∃ R',
        c.findInList ⟨L, false⟩ (setSeg s i alt) = .ok R' ∧ x ∈ R' := by
  obtain ⟨R, hR, hnd, hmem⟩ := c10_list_char c s hag L r h hgt hbr
  -- every alternative unfolds, to searches whose strings are among those of `r`
  have halt : ∀ alt ∈ altsOf (segAt s i), ∃ r' R', c.unfoldSearch (setSeg s i alt) false false = .ok r' ∧
      c.findInList ⟨L, false⟩ (setSeg s i alt) = .ok R' ∧
      ∀ x, x ∈ R' ↔ (x ∈ L ∧ ∃ p ∈ r'.map (·.string), Glob p x) := by
    intro alt ha
    obtain ⟨r', hr'⟩ := (c10_or c hC s hS i hi r h).1 alt ha
    have hsub : ∀ x' ∈ r', ∃ x ∈ r, x.string = x'.string := by
      intro x' hx'
      have := (c10_or_strings c hC s hS i hi r h x'.string).2
        ⟨alt, ha, r', hr', List.mem_map.2 ⟨x', hx', rfl⟩⟩
      obtain ⟨x, hx, he⟩ := List.mem_map.1 this
      exact ⟨x, hx, he⟩
    obtain ⟨R', hR', _, hmem'⟩ := c10_list_char c _ (hags alt ha) L r' hr'
      (fun x' hx' => by obtain ⟨x, hx, he⟩ := hsub x' hx'; rw [← he]; exact hgt x hx)
      (fun x' hx' => by obtain ⟨x, hx, he⟩ := hsub x' hx'; rw [← he]; exact hbr x hx)
    exact ⟨r', R', hr', hR', hmem'⟩
  refine ⟨R, hR, hnd, fun x => ?_⟩
  rw [hmem x]
  constructor
  · rintro ⟨hx, p, hp, hg⟩
    obtain ⟨alt, ha, r', hr', hp'⟩ := (c10_or_strings c hC s hS i hi r h p).1 hp
    obtain ⟨r'', R', hr'', hR', hmem'⟩ := halt alt ha
    rw [hr'] at hr''
    simp only [Except.ok.injEq] at hr''
    subst hr''
    exact ⟨alt, ha, R', hR', (hmem' x).2 ⟨hx, p, hp', hg⟩⟩
  · rintro ⟨alt, ha, R', hR', hx⟩
    obtain ⟨r', R'', hr', hR'', hmem'⟩ := halt alt ha
    rw [hR'] at hR''
    simp only [Except.ok.injEq] at hR''
    subst hR''
    obtain ⟨hxL, p, hp, hg⟩ := (hmem' x).1 hx
    exact ⟨hxL, p, (c10_or_strings c hC s hS i hi r h p).2 ⟨alt, ha, r', hr', hp⟩, hg⟩

/-- (alias), list search: an alias as last segment finds what the ',' list of its extensions finds -/
theorem c10_list_alias (hC : ConfOk c) (hfl : aliasFlat c.cfg.sid = true) (s : Str) (hS : ExprOk c s)
    (vs : List Str) (hcm : ',' ∉ lastSeg s)
    (hl : c.cfg.sid.extensionAlias.lookup (lastSeg s) = some vs) (L : List Str)
    (r : List Sid) (h : c.unfoldSearch s false false = .ok r)
    (hag' : SearchesAgree c (setSeg s (lastIdx s) (Str.joinWith ',' vs)))
    (hgt : ∀ x ∈ r, '>' ∉ x.string) (hbr : ∀ x ∈ r, '[' ∉ x.string) :
    ∃ R R', c.findInList ⟨L, false⟩ s = .ok R ∧
      c.findInList ⟨L, false⟩ (setSeg s (lastIdx s) (Str.joinWith ',' vs)) = .ok R' ∧
      ∀ x, x ∈ R ↔ x ∈ R' := by
  have hS' := exprOk_alias c hC hfl s hS vs hcm hl
  have hden := c10_alias_denotes c hC hfl s vs hcm hl
  obtain ⟨r', hr', _⟩ := c10_alias c hC hfl s hS vs hcm hl r h
  have hstr : ∀ p, p ∈ r.map (·.string) ↔ p ∈ r'.map (·.string) := fun p =>
    ⟨strings_mono c hC _ s hS' hS (fun y hd => (hden y).1 hd) r' r hr' h p,
     strings_mono c hC s _ hS hS' (fun y hd => (hden y).2 hd) r r' h hr' p⟩
  have hag : SearchesAgree c s :=
    (c10_agree_proper c hC s hS (Or.inr (by unfold lastSeg at hl; rw [hl]; rfl))).2
  have hsub : ∀ x' ∈ r', ∃ x ∈ r, x.string = x'.string := by
    intro x' hx'
    obtain ⟨x, hx, he⟩ := List.mem_map.1 ((hstr x'.string).2 (List.mem_map.2 ⟨x', hx', rfl⟩))
    exact ⟨x, hx, he⟩
  obtain ⟨R, hR, _, hmem⟩ := c10_list_char c s hag L r h hgt hbr
  obtain ⟨R', hR', _, hmem'⟩ := c10_list_char c _ hag' L r' hr'
    (fun x' hx' => by obtain ⟨x, hx, he⟩ := hsub x' hx'; rw [← he]; exact hgt x hx)
    (fun x' hx' => by obtain ⟨x, hx, he⟩ := hsub x' hx'; rw [← he]; exact hbr x hx)
  refine ⟨R, R', hR, hR', fun x => ?_⟩
  rw [hmem x, hmem' x]
  constructor
  · rintro ⟨hx, p, hp, hg⟩; exact ⟨hx, p, (hstr p).1 hp, hg⟩
  · rintro ⟨hx, p, hp, hg⟩; exact ⟨hx, p, (hstr p).2 hp, hg⟩

/-! ### (literal), list half only -/

/-- (literal) lifted to list search — PARTIAL.  Proved: if every search string unfolded from `s'`
    is a search string unfolded from `s` with one whole-segment '*' replaced by the literal `v`
    (`hpat`), then `find(s') ⊆ find(s)` on every list (C08 + `c10_literal`).
    MISSING: `hpat` itself for `s' = setSeg s i v`, i.e. that typing and narrowing commute with the
    replacement.  It needs two more conventions — every placeholder accepts "*" (otherwise a
    template may accept the literal but not the star: then `s'` finds entries and `s` none), and no
    typed narrowing keyed by a type that the literal selects — plus the decision table of
    `apply_query` (`C04.c04_apply_table`) on both sides; not done here. -/
theorem c10_literal_list_partial (s s' v : Str)
    (hv : ∀ ch ∈ v, ch ≠ '/' ∧ ch ≠ '*' ∧ ch ≠ '?' ∧ ch ≠ '[')
    (hag : SearchesAgree c s) (hag' : SearchesAgree c s') (L : List Str)
    (r r' : List Sid) (h : c.unfoldSearch s false false = .ok r)
    (h' : c.unfoldSearch s' false false = .ok r')
    (hpat : ∀ p' ∈ r'.map (·.string), ∃ a b, p' = a ++ v ++ b ∧ (a ++ '*' :: b) ∈ r.map (·.string) ∧
      (a = [] ∨ a.getLast? = some '/') ∧ (b = [] ∨ b.head? = some '/'))
    (hgt : ∀ x ∈ r, '>' ∉ x.string) (hbr : ∀ x ∈ r, '[' ∉ x.string)
    (hgt' : ∀ x ∈ r', '>' ∉ x.string) (hbr' : ∀ x ∈ r', '[' ∉ x.string) :
    ∃ R R', c.findInList ⟨L, false⟩ s = .ok R ∧ c.findInList ⟨L, false⟩ s' = .ok R' ∧
      ∀ x, x ∈ R' → x ∈ R := by
  obtain ⟨R, hR, _, hmem⟩ := c10_list_char c s hag L r h hgt hbr
  obtain ⟨R', hR', _, hmem'⟩ := c10_list_char c s' hag' L r' h' hgt' hbr'
  refine ⟨R, R', hR, hR', fun x hx => ?_⟩
  obtain ⟨hxL, p', hp', hg⟩ := (hmem' x).1 hx
  obtain ⟨a, b, rfl, hp, ha, hb⟩ := hpat p' hp'
  exact (hmem x).2 ⟨hxL, _, hp, c10_literal a b v x hv ha hb hg⟩

end C10
