/-
  Spil.Props.C18bExamples — non-vacuity of C18b on the SHIPPED configuration and the tree of
  C09bExamples (v001 and v002 of hamlet/a/char/ophelia/model/…/w/ma, other entities, a junk file):
  `get_last`, `get_new` evaluated by the kernel, the theorems instantiated with every hypothesis
  discharged, and two publishes in a row on the model (create, then `get_new` again).  GENERATED char lists.
-/
import Spil.Props.C18b
import Spil.Props.C09bExamples

namespace C18Ex

open Spec Generated C11Ex C09Ex C18

/-- "hamlet/a/char/ophelia/model/v003/w/ma" -/
def o3 : Sid :=
  ⟨['h','a','m','l','e','t','/','a','/','c','h','a','r','/','o','p','h','e','l','i','a','/','m','o','d','e','l','/','v','0','0','3','/','w','/','m','a'],
    ['a','s','s','e','t','_','_','f','i','l','e'],
    [(['p','r','o','j','e','c','t'], ['h','a','m','l','e','t']),
     (['t','y','p','e'], ['a']),
     (['a','s','s','e','t','t','y','p','e'], ['c','h','a','r']),
     (['a','s','s','e','t'], ['o','p','h','e','l','i','a']),
     (['t','a','s','k'], ['m','o','d','e','l']),
     (['v','e','r','s','i','o','n'], ['v','0','0','3']),
     (['s','t','a','t','e'], ['w']),
     (['e','x','t'], ['m','a'])]⟩
/-- "hamlet/a/char/ophelia/model/v004/w/ma" -/
def o4 : Sid :=
  ⟨['h','a','m','l','e','t','/','a','/','c','h','a','r','/','o','p','h','e','l','i','a','/','m','o','d','e','l','/','v','0','0','4','/','w','/','m','a'],
    ['a','s','s','e','t','_','_','f','i','l','e'],
    [(['p','r','o','j','e','c','t'], ['h','a','m','l','e','t']),
     (['t','y','p','e'], ['a']),
     (['a','s','s','e','t','t','y','p','e'], ['c','h','a','r']),
     (['a','s','s','e','t'], ['o','p','h','e','l','i','a']),
     (['t','a','s','k'], ['m','o','d','e','l']),
     (['v','e','r','s','i','o','n'], ['v','0','0','4']),
     (['s','t','a','t','e'], ['w']),
     (['e','x','t'], ['m','a'])]⟩


/-- `o1.get_last('version')` on the tree: the v002 file (C09bExamples, from `C09.c09_get_last`) -/
theorem ex_last : demoD.getLast w4 o1 (some vkey) = .ok o2 := ex_get_last_eval

/-- `c18_new_succ` instantiated (n = 2), every hypothesis discharged by the kernel … -/
theorem ex_new_succ : demoD.getNew w4 o1 = demoCtx.getWithKw o2 [(vkey, some (fmtV 3))] :=
  c18_new_succ demoD w4 o1 o2 ['v','0','0','1'] 2 (by decide) (by decide +kernel) (by decide) ex_last
    (by decide) (by decide +kernel)

/-- … and evaluated: `get_new` is the v003 file -/
theorem ex_new : demoD.getNew w4 o1 = .ok o3 := by
  rw [ex_new_succ]; exact okIs_eq _ _ (by decide +kernel)

/-- the segments before the version, and after it -/
def pre5 : List Str := [['h','a','m','l','e','t'], ['a'], ['c','h','a','r'], ['o','p','h','e','l','i','a'], ['m','o','d','e','l']]
def post2 : List Str := [['w'], ['m','a']]

theorem ex_segGe : segGe o2.string o1.string := by unfold segGe; decide +kernel

/-- `c18_last_is_max` instantiated: the answer of `get_last` (v002) against the other existing Sid
    of the group (v001) -/
theorem ex_max : 1 ≤ 2 :=
  c18_last_is_max o2.string o1.string pre5 post2 post2 2 1 (by decide) (by decide)
    (by decide +kernel) (by decide +kernel) ex_segGe

/-- `c18_new_fresh` instantiated: the v003 that `get_new` names is not the version of the existing v001 -/
theorem ex_fresh : fmtV 1 ≠ fmtV 3 :=
  c18_new_fresh o2.string o1.string pre5 post2 post2 2 1 (by decide) (by decide)
    (by decide +kernel) (by decide +kernel) ex_segGe

/-! ### two publishes in a row on the model -/

/-- the tree after `create(get_new(...))` -/
def w5 : World := match demoD.create w4 none o3.string none with | .ok (w, _) => w | .error _ => w4

/-- the creation succeeds (the new version did not exist) -/
theorem ex_create : (match demoD.create w4 none o3.string none with | .ok (_, b) => b | .error _ => false) = true := by
  decide +kernel

/-- the '>' search of `get_last` on the new tree: the v003 file just created -/
theorem ex_paths5 : demoD.pathsDoFind w5 none [lSid] = .ok [o3.string] := okIs_eq _ _ (by decide +kernel)

theorem ex_last5 : demoD.getLast w5 o1 (some vkey) = .ok o3 := by
  obtain ⟨r, hr, _, hg, _⟩ := ex_get_last w5
  rw [ex_paths5] at hr
  injection hr with hr
  subst hr
  show demoD.getLast w5 o1 (some kVersion) = .ok o3
  rw [hg]
  exact okIs_eq _ _ (by decide +kernel)

/-- asked again (still from the FIRST version), `get_new` is the successor of what was just created -/
theorem ex_new5 : demoD.getNew w5 o1 = .ok o4 := by
  rw [c18_new_succ demoD w5 o1 o3 ['v','0','0','1'] 3 (by decide) (by decide +kernel) (by decide) ex_last5
    (by decide) (by decide +kernel)]
  exact okIs_eq _ _ (by decide +kernel)

/-- the abstract store of that task and two abstract publishes: versions 3 and 4, as on the model -/
theorem ex_abstract : Workflow.publishN 2 [1, 2] = [4, 3, 1, 2] := by decide

/-- the refinement step instantiated with the abstract store [1, 2] -/
theorem ex_refines : demoD.getNew w4 o1 = demoCtx.getWithKw o2 [(vkey, some (fmtV (Workflow.new [1, 2])))] :=
  c18_step_refines demoD w4 o1 o2 ['v','0','0','1'] [1, 2] (by decide) (by decide) (by decide +kernel) (by decide)
    ex_last (by decide) (by decide +kernel)

end C18Ex
