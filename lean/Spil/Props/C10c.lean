/-
  Spil.Props.C10c — the (literal) rule of C10 at FULL strength on patterns and lists:
  "replacing a '*' by a literal value returns the SUBSET HAVING THAT VALUE".
  `C10.c10_literal` (Props/C18.lean) proves only ⊆.  Here:
  * `glob_append`       the glob relation splits over concatenation of patterns;
  * `c10_star_decomp`   a match of `a ++ '*' ++ b` is a match of `a`, a '/'-free starred part `w`,
                        a match of `b`;
  * `c10_literal_decomp` a match of `a ++ v ++ b` is the same with `w = v`;
  * `c10_literal_exact` literal matches = star matches whose starred part is `v` (⇔, every item);
  * `c10_literal_list_exact` the same on star searches over any list (C08 composed).
-/
import Spil.Props.C18
import Spil.Props.C12b
import Spil.Lemmas.GlobSound
import Spil.Lemmas.StrSplit

namespace C10

open Spec Find

/-- the glob relation splits over concatenation of patterns -/
theorem glob_append (a q s : Str) :
    Glob (a ++ q) s ↔ ∃ x y, s = x ++ y ∧ Glob a x ∧ Glob q y := by
  constructor
  · intro h
    generalize hP : a ++ q = P at h
    induction h generalizing a with
    | nil =>
      obtain ⟨rfl, rfl⟩ := List.append_eq_nil_iff.1 hP
      exact ⟨[], [], rfl, .nil, .nil⟩
    | @starSkip p s h ih =>
      cases a with
      | nil => exact ⟨[], s, rfl, .nil, by simp at hP; rw [hP]; exact .starSkip h⟩
      | cons c a' =>
        simp only [List.cons_append, List.cons.injEq] at hP
        obtain ⟨rfl, hP⟩ := hP
        obtain ⟨x, y, rfl, hx, hy⟩ := ih a' hP
        exact ⟨x, y, rfl, .starSkip hx, hy⟩
    | @starTake p s c hc h ih =>
      cases a with
      | nil => exact ⟨[], c :: s, rfl, .nil, by simp at hP; rw [hP]; exact .starTake hc h⟩
      | cons c' a' =>
        have hP' := hP
        simp only [List.cons_append, List.cons.injEq] at hP'
        obtain ⟨rfl, _⟩ := hP'
        obtain ⟨x, y, rfl, hx, hy⟩ := ih ('*' :: a') hP
        exact ⟨c :: x, y, rfl, .starTake hc hx, hy⟩
    | @one p s c hc h ih =>
      cases a with
      | nil => exact ⟨[], c :: s, rfl, .nil, by simp at hP; rw [hP]; exact .one hc h⟩
      | cons c' a' =>
        simp only [List.cons_append, List.cons.injEq] at hP
        obtain ⟨rfl, hP⟩ := hP
        obtain ⟨x, y, rfl, hx, hy⟩ := ih a' hP
        exact ⟨c :: x, y, rfl, .one hc hx, hy⟩
    | @lit p s c h1 h2 h3 h ih =>
      cases a with
      | nil => exact ⟨[], c :: s, rfl, .nil, by simp at hP; rw [hP]; exact .lit h1 h2 h3 h⟩
      | cons c' a' =>
        simp only [List.cons_append, List.cons.injEq] at hP
        obtain ⟨rfl, hP⟩ := hP
        obtain ⟨x, y, rfl, hx, hy⟩ := ih a' hP
        exact ⟨c' :: x, y, rfl, .lit h1 h2 h3 hx, hy⟩
  · rintro ⟨x, y, rfl, hx, hy⟩
    induction hx with
    | nil => exact hy
    | starSkip _ ih => exact .starSkip ih
    | starTake hc _ ih => exact .starTake hc ih
    | one hc _ ih => exact .one hc ih
    | lit h1 h2 h3 _ ih => exact .lit h1 h2 h3 ih

/-- a match of `a*b`: a match of `a`, a '/'-free part taken by the star, a match of `b` -/
theorem c10_star_decomp (a b item : Str) :
    Glob (a ++ '*' :: b) item ↔
      ∃ x w y, item = x ++ w ++ y ∧ '/' ∉ w ∧ Glob a x ∧ Glob b y := by
  rw [glob_append]
  constructor
  · rintro ⟨x, z, rfl, hx, hz⟩
    obtain ⟨w, y, rfl, hw, hy⟩ := (glob_append ['*'] b z).1 hz
    exact ⟨x, w, y, by simp, (C12.glob_star_only w).1 hw, hx, hy⟩
  · rintro ⟨x, w, y, rfl, hw, hx, hy⟩
    exact ⟨x, w ++ y, by simp, hx, (glob_append ['*'] b _).2 ⟨w, y, rfl, (C12.glob_star_only w).2 hw, hy⟩⟩

/-- a match of `a v b` for a literal `v`: a match of `a`, then `v` itself, then a match of `b` -/
theorem c10_literal_decomp (a b v item : Str)
    (hv : ∀ ch ∈ v, ch ≠ '/' ∧ ch ≠ '*' ∧ ch ≠ '?' ∧ ch ≠ '[') :
    Glob (a ++ v ++ b) item ↔ ∃ x y, item = x ++ v ++ y ∧ Glob a x ∧ Glob b y := by
  have hlit : ∀ w, Glob v w ↔ w = v := fun w =>
    C08.c08_literal v w (fun h => (hv _ h).2.1 rfl) (fun h => (hv _ h).2.2.1 rfl) (fun h => (hv _ h).2.2.2 rfl)
  rw [List.append_assoc, glob_append]
  constructor
  · rintro ⟨x, z, rfl, hx, hz⟩
    obtain ⟨w, y, rfl, hw, hy⟩ := (glob_append v b z).1 hz
    rw [(hlit w).1 hw]
    exact ⟨x, y, by simp, hx, hy⟩
  · rintro ⟨x, y, rfl, hx, hy⟩
    exact ⟨x, v ++ y, by simp, hx, (glob_append v b _).2 ⟨v, y, rfl, (hlit v).2 rfl, hy⟩⟩

/-- (literal), exact: the items the literal pattern matches are exactly the items the star pattern
    matches IN A WAY that gives the star the value `v` — "the subset having that value". -/
theorem c10_literal_exact (a b v item : Str)
    (hv : ∀ ch ∈ v, ch ≠ '/' ∧ ch ≠ '*' ∧ ch ≠ '?' ∧ ch ≠ '[') :
    Glob (a ++ v ++ b) item ↔
      ∃ x w y, item = x ++ w ++ y ∧ '/' ∉ w ∧ Glob a x ∧ Glob b y ∧ w = v := by
  rw [c10_literal_decomp a b v item hv]
  constructor
  · rintro ⟨x, y, rfl, hx, hy⟩
    exact ⟨x, v, y, rfl, fun h => (hv _ h).1 rfl, hx, hy, rfl⟩
  · rintro ⟨x, w, y, rfl, _, hx, hy, rfl⟩
    exact ⟨x, y, rfl, hx, hy⟩

/-- (literal) on star searches over ANY list: the literal search finds exactly the entries that the
    star search finds and that decompose with the starred part equal to `v`; no duplicates. -/
theorem c10_literal_list_exact (e : Env) (l : List Str) (a b v : Str)
    (hv : ∀ ch ∈ v, ch ≠ '/' ∧ ch ≠ '*' ∧ ch ≠ '?' ∧ ch ≠ '[')
    (hbr : '[' ∉ a ++ '*' :: b)
    (r r' : List Str) (h : starSearch e ⟨l, false⟩ [a ++ '*' :: b] = .ok r)
    (h' : starSearch e ⟨l, false⟩ [a ++ v ++ b] = .ok r') :
    r'.Nodup ∧ ∀ item, item ∈ r' ↔
      (item ∈ r ∧ ∃ x y, item = x ++ v ++ y ∧ Glob a x ∧ Glob b y) := by
  have hbr' : '[' ∉ a ++ v ++ b := by
    simp only [List.mem_append, List.mem_cons, not_or] at hbr ⊢
    exact ⟨⟨hbr.1, fun hm => (hv _ hm).2.2.2 rfl⟩, hbr.2.2⟩
  have m := C08.c08_star_search_mem e l [a ++ '*' :: b] (by simpa using hbr) r h
  have m' := C08.c08_star_search_mem e l [a ++ v ++ b] (by simpa using hbr') r' h'
  refine ⟨m'.1, fun item => ?_⟩
  rw [m'.2 item, m.2 item]
  simp only [List.mem_singleton, exists_eq_left]
  rw [c10_literal_decomp a b v item hv]
  constructor
  · rintro ⟨hx, x, y, rfl, hgx, hgy⟩
    exact ⟨⟨hx, (c10_star_decomp a b _).2 ⟨x, v, y, rfl, fun hm => (hv _ hm).1 rfl, hgx, hgy⟩⟩,
      x, y, rfl, hgx, hgy⟩
  · rintro ⟨⟨hx, _⟩, hd⟩
    exact ⟨hx, hd⟩

/-- the value of a whole-segment literal IS a segment of every item the literal pattern matches
    (`ha`, `hb`: the replaced '*' was a whole segment): "the subset HAVING THAT VALUE" read on the
    item's own '/'-split -/
theorem c10_literal_segment (a b v item : Str)
    (hv : ∀ ch ∈ v, ch ≠ '/' ∧ ch ≠ '*' ∧ ch ≠ '?' ∧ ch ≠ '[')
    (ha : a = [] ∨ ∃ a', a = a' ++ ['/']) (hb : b = [] ∨ ∃ b', b = '/' :: b')
    (h : Glob (a ++ v ++ b) item) : v ∈ Str.splitOn '/' item := by
  obtain ⟨x, y, rfl, hx, hy⟩ := (c10_literal_decomp a b v item hv).1 h
  have hvs : '/' ∉ v := fun hm => (hv _ hm).1 rfl
  -- the part after the value: empty or starting with '/'
  have hright : v ∈ Str.splitOn '/' (v ++ y) := by
    rcases hb with rfl | ⟨b', rfl⟩
    · rw [(glob_nil y).1 hy, List.append_nil, Str.splitOn_of_not_mem '/' v hvs]
      exact List.mem_singleton.2 rfl
    · obtain ⟨y', rfl, _⟩ := (glob_lit '/' b' y (by decide) (by decide) (by decide)).1 hy
      rw [Str.splitOn_append_sep '/' v y' hvs]
      exact List.mem_cons_self
  rcases ha with rfl | ⟨a', rfl⟩
  · rw [(glob_nil x).1 hx]
    simpa using hright
  · obtain ⟨x1, x2, rfl, _, hx2⟩ := (glob_append a' ['/'] x).1 hx
    have : x2 = ['/'] := (C08.c08_literal ['/'] x2 (by decide) (by decide) (by decide)).1 hx2
    subst this
    have e : x1 ++ ['/'] ++ v ++ y = x1 ++ '/' :: (v ++ y) := by simp
    rw [e, GlobL.splitOn_append_sep_gen]
    exact List.mem_append_right _ hright

/-- non-vacuity: a concrete item, pattern and literal meeting the hypotheses, on both sides -/
example : Glob ("hamlet/a/".toList ++ "char".toList ++ "/*".toList) "hamlet/a/char/ophelia".toList :=
  (c10_literal_decomp "hamlet/a/".toList "/*".toList "char".toList _ (by decide)).2
    ⟨"hamlet/a/".toList, "/ophelia".toList, by decide,
      (C08.c08_literal _ _ (by decide) (by decide) (by decide)).2 rfl,
      .lit (by decide) (by decide) (by decide) ((C12.glob_star_only _).2 (by decide))⟩

end C10
