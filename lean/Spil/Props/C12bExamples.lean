/-
  Spil.Props.C12bExamples — non-vacuity of C12b on the SHIPPED configuration: the tree obtained by creating
  "hamlet/a/char/ophelia/model/v001/w/ma" in the empty tree (the model's WriteToPaths creates every parent
  directory), the task Sid "hamlet/a/char/ophelia/model" and its children: every hypothesis of
  `ChildrenServed` discharged by the kernel, the theorems instantiated.  GENERATED char lists.
-/
import Spil.Props.C12b
import Spil.Props.C09bExamples

namespace C12Ex

open Spec Generated C11Ex C09Ex C12 C11

/-- "hamlet/a/char/ophelia/model" (asset__task) -/
def tk : Sid :=
  ⟨['h','a','m','l','e','t','/','a','/','c','h','a','r','/','o','p','h','e','l','i','a','/','m','o','d','e','l'],
    ['a','s','s','e','t','_','_','t','a','s','k'],
    [(['p','r','o','j','e','c','t'], ['h','a','m','l','e','t']),
     (['t','y','p','e'], ['a']),
     (['a','s','s','e','t','t','y','p','e'], ['c','h','a','r']),
     (['a','s','s','e','t'], ['o','p','h','e','l','i','a']),
     (['t','a','s','k'], ['m','o','d','e','l'])]⟩
/-- "hamlet/a/char/ophelia/model/*" (asset__version) -/
def tkStar : Sid :=
  ⟨['h','a','m','l','e','t','/','a','/','c','h','a','r','/','o','p','h','e','l','i','a','/','m','o','d','e','l','/','*'],
    ['a','s','s','e','t','_','_','v','e','r','s','i','o','n'],
    [(['p','r','o','j','e','c','t'], ['h','a','m','l','e','t']),
     (['t','y','p','e'], ['a']),
     (['a','s','s','e','t','t','y','p','e'], ['c','h','a','r']),
     (['a','s','s','e','t'], ['o','p','h','e','l','i','a']),
     (['t','a','s','k'], ['m','o','d','e','l']),
     (['v','e','r','s','i','o','n'], ['*'])]⟩
/-- "hamlet/a/char/ophelia/model/v001" (asset__version) -/
def v1 : Sid :=
  ⟨['h','a','m','l','e','t','/','a','/','c','h','a','r','/','o','p','h','e','l','i','a','/','m','o','d','e','l','/','v','0','0','1'],
    ['a','s','s','e','t','_','_','v','e','r','s','i','o','n'],
    [(['p','r','o','j','e','c','t'], ['h','a','m','l','e','t']),
     (['t','y','p','e'], ['a']),
     (['a','s','s','e','t','t','y','p','e'], ['c','h','a','r']),
     (['a','s','s','e','t'], ['o','p','h','e','l','i','a']),
     (['t','a','s','k'], ['m','o','d','e','l']),
     (['v','e','r','s','i','o','n'], ['v','0','0','1'])]⟩

/-- the tree after `create("hamlet/a/char/ophelia/model/v001/w/ma")` in the empty tree -/
def wC : World := match demoD.create ⟨[], []⟩ none o1.string none with | .ok (w, _) => w | .error _ => ⟨[], []⟩

theorem ex_created : (match demoD.create ⟨[], []⟩ none o1.string none with | .ok (_, b) => b | .error _ => false) = true := by
  decide +kernel

theorem ex_div : demoCtx.div tk ['*'] = .ok tkStar := okIs_eq _ _ (by decide +kernel)
theorem ex_unfold_c : demoCtx.unfoldSearch tkStar.string false false = .ok [tkStar] := okIs_eq _ _ (by decide +kernel)

/-- the glob pattern of the typed search, and the path of the version folder -/
def tkPat : Str := match demoCtx.sidPath none tkStar with | .ok (some p) => p | _ => []
def v1P : Str := match demoCtx.sidPath none v1 with | .ok (some p) => p | _ => []
theorem ex_tkpat : demoCtx.sidPath none tkStar = .ok (some tkPat) := okIs_eq _ _ (by decide +kernel)
theorem ex_v1p_exists : wC.pathExists v1P = true := by decide +kernel
theorem ex_v1_rt : demoCtx.sidOfPath v1P none = .ok v1 := okIs_eq _ _ (by decide +kernel)

/-- every hypothesis of `ChildrenServed` for the task Sid on that tree -/
theorem ex_served : ChildrenServed demoD wC tk tkStar [tkStar] 0 none where
  not_leaf := by decide +kernel
  div := ex_div
  unfold := ex_unfold_c
  routed := by decide +kernel
  finder := rfl
  no_gt := by decide +kernel
  has_path := by
    intro s' hs'
    simp only [List.mem_singleton] at hs'
    subst hs'
    exact ⟨_, ex_tkpat⟩
  no_bracket := by decide +kernel
  total := fun p _ => demo_total p

/-- `c12_children_char` / `c12_children_parent` / `c12_children_complete` instantiated: `children()` of the
    task succeeds, lists nothing twice, every listed string is the task's string plus one segment, and the
    existing version v001 is listed -/
theorem ex_children : ∃ r, demoD.children wC tk = .ok r ∧ r.Nodup ∧ v1.string ∈ r ∧
    ∀ y ∈ r, ∃ seg, '/' ∉ seg ∧ y = tk.string ++ '/' :: seg := by
  obtain ⟨r, hr, hn, _⟩ := c12_children_char demoD wC tk tkStar [tkStar] 0 none ex_served
  have hstr : ∀ s' ∈ [tkStar], s'.string = tk.string ++ ['/', '*'] := by decide +kernel
  have hlit : ∀ ch ∈ tk.string, ch ≠ '*' ∧ ch ≠ '?' ∧ ch ≠ '[' := by decide +kernel
  refine ⟨r, hr, hn, ?_, fun y hy => (c12_children_parent demoD wC tk tkStar [tkStar] 0 none ex_served hstr hlit r hr y hy).1⟩
  exact c12_children_complete demoD wC tk tkStar [tkStar] 0 none ex_served hstr hlit tkStar v1 tkPat v1P
    ['v','0','0','1'] (by simp) ex_tkpat (wellTyped_of_B _ _ _ (by decide +kernel)) (wellTyped_of_B _ _ _ (by decide +kernel))
    ex_v1p_exists ex_v1_rt (by decide) (by decide) (by decide) (by decide +kernel) demo_fix (by decide +kernel)
    (by decide +kernel) r hr

end C12Ex
