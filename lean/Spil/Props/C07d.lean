/-
  Spil.Props.C07d — `type_narrow` for conventional narrowing tables (`narrowOk`: every configured
  query parses into non-empty values without '/', '?', line feed — e.g. the shipped `type=~a`), and
  the HEADLINE form of C07 end to end: for such configurations `unfold_search` is total on
  well-formed expressions, raises SpilException exactly on malformed ones, and returns exactly
  (as Sid values) the typed, query-free narrowings of the searches the expression denotes.
-/
import Spil.Spec.Denote
import Spil.Lemmas.DenoteOverlay
import Spil.Props.C07c

namespace C07

open Spec Ctx DenL

variable (c : Ctx)

/-- `c07_narrow`, one step: narrowing a canonically typed, query-free Sid `y` by a good query `q`
    (`sid.get_with(query=q)`) never fails and returns
    * the REFUSAL `y.string?q` with type and fields untouched (dropped later by `unfold_search`:
      "the Sid is dropped when the result fits no type"), or
    * a canonically typed Sid whose fields are the overlay: a key the query does not mention keeps
      its value; for `k=~v` the field `k` becomes `v` WHEN THE KEY EXISTS (and is not added
      otherwise); for `k=v` the field becomes `v`. -/
theorem c07_narrow (hwf : sidHierOk c.env c.cfg.sid.templates = true) (y : Sid)
    (hy : wellTyped c.env c.cfg.sid.templates y) (hnl : '\n' ∉ y.string) (hq : '?' ∉ y.string)
    (q : Str) (hqne : q ≠ []) (hok : narrowQueryOk q = true) :
    ∃ nd, Query.toDict q = .ok nd ∧ ∃ x, c.getWithQuery y q = .ok x ∧
      (x = ⟨y.string ++ '?' :: q, y.type, y.fields⟩ ∨
       (wellTyped c.env c.cfg.sid.templates x ∧ '?' ∉ x.string ∧
        ∀ k, x.fields.get k =
          match nd.get k with
          | none => y.fields.get k
          | some v =>
            if Str.startsWith v ['~'] then
              (if y.fields.hasKey k then some (v.filter (· != '~')) else none)
            else some v)) := by
  rw [getWithQuery_apply c hwf y hy hq q hqne]
  obtain ⟨nd, hnd, x, hx, hcase⟩ := applyGood c hwf y hy hnl hq q hqne hok
  refine ⟨nd, hnd, x, hx, ?_⟩
  rcases hcase with h | ⟨h1, h2, _, h3⟩
  · exact Or.inl h
  · refine Or.inr ⟨h1, h3, fun k => ?_⟩
    rw [h2 k]
    exact C04.c04_update y.fields nd (toDict_nodup q nd hnd) k

/-- `type_narrow` is the basetyped step followed by the typed step (`Spec.narrowStep`,
    `narrowQ1`, `narrowQ2`) -/
theorem c07_narrow_steps (y : Sid) (hq : '?' ∉ y.string) (hty : y.type ≠ []) :
    (∀ e, narrowStep c y (narrowQ1 c y.type) = .error e → c.typeNarrow y = .error e) ∧
    (∀ x1, narrowStep c y (narrowQ1 c y.type) = .ok x1 →
      c.typeNarrow y = narrowStep c x1 (narrowQ2 c x1.type)) :=
  typeNarrow_steps c y hq hty

/-- for conventional narrowing tables `type_narrow` never fails on a canonically typed,
    query-free Sid, and returns a Sid that visibly carries an un-applied query or is canonically
    typed and query-free -/
theorem c07_narrow_total (hwf : sidHierOk c.env c.cfg.sid.templates = true)
    (hno : narrowOk c.cfg.sid = true) (y : Sid) (hy : wellTyped c.env c.cfg.sid.templates y)
    (hnl : '\n' ∉ y.string) (hq : '?' ∉ y.string) :
    ∃ x, c.typeNarrow y = .ok x ∧
      ('?' ∈ x.string ∨ (wellTyped c.env c.cfg.sid.templates x ∧ '?' ∉ x.string)) := by
  obtain ⟨x, hx, hg⟩ := typeNarrow_good c hwf hno y hy hnl hq
  refine ⟨x, hx, ?_⟩
  rcases hg with h | ⟨h1, _, h3⟩
  · exact Or.inl h
  · exact Or.inr ⟨h1, h3⟩

/-- what an expression denotes is canonically typed, query-free and line-feed-free -/
theorem c07_denotes_wellTyped (hC : ConfOk c) (s : Str) (hS : ExprOk c s) (hnl : NoNl c s)
    (y : Sid) (hd : Denotes c s y) :
    wellTyped c.env c.cfg.sid.templates y ∧ '\n' ∉ y.string ∧ '?' ∉ y.string := by
  obtain ⟨htab, _, _, _⟩ := HierL.hier_unpack _ _ hC.wf
  obtain ⟨a, hpa, hda⟩ := hd
  have hqa := picks_no_query c hC.alias s a hpa hS.noQuery
  have hna := hnl a hpa
  rcases hda with ⟨_, hne, p, hp, hacc, rfl⟩ | ⟨h1, lk, k, hlk, p, hp, _, hacc, rfl⟩
  · exact ⟨⟨p.2, (SidL.tableOk_unpack _ _ htab p hp).2, hne, hacc, rfl⟩, hna, hqa⟩
  · obtain ⟨x0, b, hs, hfill, hroot⟩ := ExpL.fill_decomp a h1
    have hx0 : x0 ≠ [] := by
      rintro rfl
      rw [hroot] at hlk
      simp [rootLeafKey] at hlk
    have hfne : fill a k ≠ [] := by
      rw [hfill k]
      intro h0
      simp only [List.append_eq_nil_iff] at h0
      exact hx0 h0.1.1
    refine ⟨⟨p.2, (SidL.tableOk_unpack _ _ htab p hp).2, hfne, hacc, rfl⟩, ?_, ?_⟩
    · show '\n' ∉ fill a k
      rw [hfill k]
      exact ExpL.fill_no_query x0 b k '\n' (by decide) (by decide) (hs ▸ hna)
    · show '?' ∉ fill a k
      rw [hfill k]
      exact ExpL.fill_no_query x0 b k '?' (by decide) (by decide) (hs ▸ hqa)

/-- for conventional narrowing tables, narrowing is total and canonical on what an expression
    denotes: the hypotheses `NarrowCanon` of `c07_unfold_mem` and `hn` of `c07_unfold_ok` hold -/
theorem c07_narrow_canon (hC : ConfOk c) (hno : narrowOk c.cfg.sid = true) (s : Str)
    (hS : ExprOk c s) (hnl : NoNl c s) :
    NarrowCanon c s ∧ ∀ y, Denotes c s y → ∃ x, c.typeNarrow y = .ok x := by
  refine ⟨?_, ?_⟩
  · intro y x hd hyx _ hxq
    obtain ⟨hw, h1, h2⟩ := c07_denotes_wellTyped c hC s hS hnl y hd
    obtain ⟨x', hx', hg⟩ := c07_narrow_total c hC.wf hno y hw h1 h2
    rw [hyx] at hx'
    simp only [Except.ok.injEq] at hx'
    subst hx'
    rcases hg with h | h
    · exact absurd h hxq
    · exact h.1
  · intro y hd
    obtain ⟨hw, h1, h2⟩ := c07_denotes_wellTyped c hC s hS hnl y hd
    obtain ⟨x, hx, _⟩ := c07_narrow_total c hC.wf hno y hw h1 h2
    exact ⟨x, hx⟩

/-- a decidable sufficient condition for `NoNl` -/
theorem c07_noNl (hal : aliasNoNl c.cfg.sid = true) (s : Str) (h : '\n' ∉ s) : NoNl c s := by
  intro a hpa hm
  rcases picks_char c s a hpa '\n' hm with h' | h' | ⟨k, vs, v, hl, hv, hc⟩
  · cases h'
  · exact h h'
  · unfold aliasNoNl at hal
    rw [List.all_eq_true] at hal
    have := hal (k, vs) (UpdL.lookup_mem _ _ _ hl)
    simp only [List.all_eq_true, Bool.not_eq_true', hasChar_false_iff] at this
    exact this v hv hc

/-- C07 END TO END (headline).  For a conventional configuration (`ConfOk`, `narrowOk`) and a
    query-free expression meeting `ExprOk`, `NoNl`:
    * a malformed expression (`Spec.Malformed`: two "/**" in one alternative, or a "/**" whose
      root has no leaf key) raises SpilException — and nothing else fails;
    * otherwise `unfold_search(s)` returns a list `r` without duplicates such that
      `x ∈ r` iff `x` is the typed, query-free narrowing of a typed search the syntax denotes. -/
theorem c07_unfold (hC : ConfOk c) (hno : narrowOk c.cfg.sid = true) (s : Str)
    (hS : ExprOk c s) (hnl : NoNl c s) :
    (Malformed c s ∧ c.unfoldSearch s false false = .error .spil) ∨
    (¬ Malformed c s ∧ ∃ r, c.unfoldSearch s false false = .ok r ∧
      (∀ x, x ∈ r ↔ ∃ y, Denotes c s y ∧ c.typeNarrow y = .ok x ∧ x.typed = true ∧ '?' ∉ x.string) ∧
      r.Pairwise (fun a b => a.uri ≠ b.uri) ∧ r.Nodup) := by
  obtain ⟨hcan, htot⟩ := c07_narrow_canon c hC hno s hS hnl
  by_cases hmal : Malformed c s
  · exact Or.inl ⟨hmal, c07_unfold_malformed c hC.wf hC.alias s hS.noQuery hS.noColon hS.noMark
      hS.rooted hmal⟩
  · right
    obtain ⟨r, hr⟩ := c07_unfold_ok c hC.wf hC.alias hC.noEmptyNarrow s hS.noQuery hS.noColon
      hS.noMark hS.rooted hmal htot
    have hpw := c07_unfold_nodup c s r hr
    refine ⟨hmal, r, hr, ?_, hpw, ?_⟩
    · exact c07_unfold_mem c hC.wf hC.alias hC.noEmptyNarrow s hS.noQuery hS.noColon hS.noMark
        hS.rooted hcan r hr
    · exact List.Pairwise.imp (fun h e => h (by rw [e])) hpw

end C07
