/-
  Spil.Props.C08 — "Searching a list returns exactly the entries that glob-match the search"
  (the list-scan half; the unfolding half is C07) and
  Spil.Props.C09 list half — "The '>' operator returns the greatest entry of each group".
-/
import Spil.Spec.Find
import Spil.Lemmas.Find

namespace C08

open Spec Find

/-- `glob2re` + `re.match` decide exactly the glob relation of the statement, for every pattern
    without `[` and every item (any characters, any number of segments) -/
theorem c08_glob2re (e : Env) (pat item : Str) (hb : '[' ∉ pat) :
    globB e pat item = true ↔ Glob pat item := by
  exact globB_iff_glob e pat hb item

/-- a glob match forces the numbers of '/'-separated segments to agree -/
theorem c08_segments (pat item : Str) (h : Glob pat item) :
    (Str.splitOn '/' pat).length = (Str.splitOn '/' item).length := by
  induction h with
  | nil => rfl
  | starSkip _ ih => rw [Str.splitOn_length_cons]; simpa using ih
  | @starTake p s c hc _ ih => rw [Str.splitOn_length_cons '/' c s, if_neg hc]; exact ih
  | @one p s c hc _ ih =>
    rw [Str.splitOn_length_cons '/' c s, Str.splitOn_length_cons '/' '?' p, if_neg hc]
    simpa using ih
  | @lit p s a _ _ _ _ ih =>
    rw [Str.splitOn_length_cons '/' a s, Str.splitOn_length_cons '/' a p, ih]

/-- a pattern without wildcard characters matches exactly itself -/
theorem c08_literal (pat item : Str) (hs : '*' ∉ pat) (hq : '?' ∉ pat) (hb : '[' ∉ pat) :
    Glob pat item ↔ item = pat := by
  constructor
  · intro h
    induction h with
    | nil => rfl
    | starSkip _ _ => simp at hs
    | starTake _ _ _ => simp at hs
    | one _ _ _ => simp at hq
    | lit _ _ _ _ ih =>
      simp only [List.mem_cons, not_or] at hs hq hb
      rw [ih hs.2 hq.2 hb.2]
  · intro h
    rw [h]
    clear h
    induction pat with
    | nil => exact .nil
    | cons c cs ih =>
      simp only [List.mem_cons, not_or] at hs hq hb
      exact .lit (fun e => hs.1 e.symm) (fun e => hq.1 e.symm) (fun e => hb.1 e.symm)
        (ih hs.2 hq.2 hb.2)

/-- `FindInList.star_search` (no strip): exactly the entries matching some pattern, each once,
    in order of first match (patterns outer, list inner) -/
theorem c08_star_search (e : Env) (l : List Str) (pats : List Str) (hb : ∀ p ∈ pats, '[' ∉ p) :
    starSearch e ⟨l, false⟩ pats =
      .ok (Lst.dedupBy (· == ·) (pats.flatMap (fun p => l.filter (fun x => globB e p x)))) := by
  rw [starSearch, starSearchGo_eq e l pats hb, fresh_nil_left]

/-- consequently: no duplicates, and membership is "in the list and matched by some pattern" -/
theorem c08_star_search_mem (e : Env) (l : List Str) (pats : List Str) (hb : ∀ p ∈ pats, '[' ∉ p)
    (r : List Str) (hr : starSearch e ⟨l, false⟩ pats = .ok r) :
    r.Nodup ∧ ∀ x, x ∈ r ↔ (x ∈ l ∧ ∃ p ∈ pats, Glob p x) := by
  rw [c08_star_search e l pats hb] at hr
  injection hr with hr
  subst hr
  refine ⟨Lst.dedupBy_nodup _, fun x => ?_⟩
  rw [Lst.mem_dedupBy]
  simp only [List.mem_flatMap, List.mem_filter]
  constructor
  · rintro ⟨p, hp, hx, hg⟩
    exact ⟨hx, p, hp, (c08_glob2re e p x (hb p hp)).1 hg⟩
  · rintro ⟨hx, p, hp, hg⟩
    exact ⟨p, hp, hx, (c08_glob2re e p x (hb p hp)).2 hg⟩

end C08

namespace C09

open Spec Find

/-- `sorted_search`'s selection: every pick is one of the found entries -/
theorem c09_pick_mem (index : Nat) (founds : List Str) :
    ∀ r ∈ sortedPick index founds, r ∈ founds := by
  intro r hr
  rw [sortedPick_eq] at hr
  exact (mem_sortedFounds founds r).1 ((groupHeads_sublist _ _).subset hr)

/-- one pick per group, no duplicates -/
theorem c09_pick_unique (index : Nat) (founds : List Str) :
    (sortedPick index founds).Nodup ∧
    ∀ r₁ ∈ sortedPick index founds, ∀ r₂ ∈ sortedPick index founds,
      groupKey index r₁ = groupKey index r₂ → r₁ = r₂ := by
  rw [sortedPick_eq]
  have hk := groupHeads_keys (groupKey index) _ (groupKey_between index) _
    (sortedFounds_pairwise founds)
  have hn : (groupHeads (groupKey index) (sortedFounds founds)).Nodup :=
    List.Pairwise.sublist (groupHeads_sublist _ _)
      (Lst.pairwise_nodup Str.segGt_sto _ (sortedFounds_pairwise founds))
  refine ⟨hn, ?_⟩
  intro r₁ h₁ r₂ h₂ hkey
  apply Classical.byContradiction
  intro hne
  have h1 : (groupHeads (groupKey index) (sortedFounds founds)).Pairwise
      (fun a b => a ≠ b → groupKey index a ≠ groupKey index b) :=
    List.Pairwise.imp (S := fun a b => a ≠ b → groupKey index a ≠ groupKey index b)
      (fun h _ => h) hk
  have h2 : (groupHeads (groupKey index) (sortedFounds founds)).Pairwise
      (flip (fun a b => a ≠ b → groupKey index a ≠ groupKey index b)) :=
    List.Pairwise.imp (S := flip (fun a b => a ≠ b → groupKey index a ≠ groupKey index b))
      (fun h _ e => h e.symm) hk
  exact (List.Pairwise.forall_of_forall_of_flip (fun _ _ h => absurd rfl h) h1 h2 h₁ h₂ hne) hkey

/-- every found entry is represented by the pick of its group, and that pick is the greatest
    entry of the group when compared segment by segment as strings -/
theorem c09_pick_max (index : Nat) (founds : List Str) :
    ∀ x ∈ founds, ∃ r ∈ sortedPick index founds, groupKey index r = groupKey index x ∧ segGe r x := by
  intro x hx
  rw [sortedPick_eq]
  obtain ⟨r, hr, hkr, hrx⟩ := groupHeads_repr (groupKey index) _ _ (sortedFounds_pairwise founds) x
    ((mem_sortedFounds founds x).2 hx)
  refine ⟨r, hr, hkr, ?_⟩
  rcases hrx with rfl | hrx
  · exact Str.ltList_sto.irrefl _
  · exact Str.ltList_sto.asymm hrx

/-- the selection depends only on the SET of found entries, hence not on how the expression
    was split into typed searches nor on which Finder collected them -/
theorem c09_pick_set (index : Nat) (f₁ f₂ : List Str) (h : ∀ x, x ∈ f₁ ↔ x ∈ f₂) :
    sortedPick index f₁ = sortedPick index f₂ := by
  rw [sortedPick_eq, sortedPick_eq]
  congr 1
  apply Lst.pairwise_ext Str.segGt_sto _ _ (sortedFounds_pairwise f₁) (sortedFounds_pairwise f₂)
  intro x
  rw [mem_sortedFounds, mem_sortedFounds]
  exact h x

end C09
