/-
  Spil.Props.C11b — C11, the language-level half: "FindInPaths over a file tree and FindInList
  over the corresponding list of Sids return the same Sids".

  The model is the REPAIRED `star_search_simple` (D25): after the type test a found Sid is kept
  only if `re.match(glob2re(str(search)), str(sid))`.  (Before the repair soundness was false on
  the shipped configuration: `C11Ex.c11_sound_regression` keeps the witness.)

  (1) `c11_star_one` / `c11_star_list`: EXACT characterisation of `FindInPaths.star_search_simple`
      in terms of `glob.glob` on the tree, `Sid(path=…)` and the string test;
  (2) `c11_pattern_matches` / `c11_glob_mem`: the glob pattern rendered from a search Sid matches,
      component by component, the path rendered from every entity it globs field by field;
  (3) `c11_complete`, `c11_list_subset_paths`: every existing, round-tripping entity that the
      list search finds for a whole-segment star search is found by the path search;
  (4) `c11_sound`, `c11_sound_fields`: every Sid the path search returns is glob-matched by the
      search string (relation of C08), hence field-wise globbed for a whole-segment star search;
  (5) `c11_paths_eq_list_whole`: FindInPaths = FindInList (restricted to the searched type) when the
      tree holds exactly the entities plus junk; `c11_local_eq_server`: two configurations / trees
      holding the same entities answer alike.
-/
import Spil.Spec.Glob
import Spil.Spec.PathWF
import Spil.Lemmas.GlobStar
import Spil.Lemmas.GlobPath
import Spil.Lemmas.GlobSid
import Spil.Lemmas.GlobSound
import Spil.Props.C05b
import Spil.Props.C08

namespace C11

open Spec World GlobL

variable (d : DCtx)

/-! ### (1) exact characterisation of the path star search -/

/-- the totality hypothesis of this file, discharged by C06 for a conform path configuration -/
theorem c11_total_of_wf (config : Option Str) (pc : PathConf)
    (hpc : d.ctx.cfg.pathConf? config = some pc) (hwf : pathConfOk d.ctx.env pc = true)
    (hkt : ∀ label, (pc.resolver.lookup label).isSome →
       (d.ctx.cfg.sid.keyTypes.lookup (((Str.splitStr label d.ctx.cfg.sid.sep).head?).getD [])).isSome)
    (p : Str) : ∃ x, d.ctx.sidOfPath p config = .ok x :=
  C06.c06_total d.ctx p config pc hpc hwf hkt

/-- a typed Sid determines the path it was built from (C06 ownership) -/
theorem c11_hit_inj (config : Option Str) (p q : Str) (x : Sid)
    (hp : d.ctx.sidOfPath p config = .ok x) (hq : d.ctx.sidOfPath q config = .ok x)
    (ht : x.typed = true) : p = q := by
  have h1 := C06.c06_owner d.ctx p config x hp ht
  have h2 := C06.c06_owner d.ctx q config x hq ht
  rw [h1] at h2
  injection h2 with h2
  injection h2

/-- `re.match(glob2re(pat), item)` answers (does not leave the model) for a pattern without `[`,
    and then decides the glob relation of C08 -/
theorem c11_globMatch_iff (e : Env) (pat item : Str) (hb : '[' ∉ pat) :
    Find.globMatch e pat item = .ok true ↔ Glob pat item := by
  rw [globMatch_ok e pat item hb, ← C08.c08_glob2re e pat item hb]
  constructor
  · intro h; injection h
  · intro h; rw [h]

/-- star search over a LIST of typed search Sids: the result is the list of second components of
    a list `hs` of (path, Sid) pairs that lists no path and no Sid twice and contains exactly the
    hits of the searches: `p` is matched by the glob pattern of some search `s`, resolves to a
    typed Sid of the type of `s`, and the string of `s` matches the string of that Sid.
    Hypotheses: `hsp` no search raises in `sid.path()`; `hgm` no search string contains `[`
    (`glob2re` is out of model then: K2); `htot` `Sid(path=…)` raises on no node (C06:
    `c11_total_of_wf`).  (Since the memo of `star_search_simple` is keyed by (type, pattern,
    str(search)) — repair D26, witness `C11Ex.c11_sameStr_regression` — no condition relating the
    searches to each other is needed.) -/
theorem c11_star_list (w : World) (config : Option Str) (searches : List Sid)
    (hsp : ∀ s ∈ searches, ∃ po, d.ctx.sidPath config s = .ok po)
    (hgm : ∀ s ∈ searches, '[' ∉ s.string)
    (htot : ∀ p ∈ w.nodes.map (·.1), ∃ x, d.ctx.sidOfPath p config = .ok x) :
    ∃ hs : List (Str × Sid),
      d.pathsStarSids w config searches = .ok (hs.map (·.2)) ∧
      (hs.map (·.1)).Nodup ∧ (hs.map (·.2)).Nodup ∧
      ∀ p x, (p, x) ∈ hs ↔ ∃ s ∈ searches, p ∈ w.glob (patOf d config s) ∧
        d.ctx.sidOfPath p config = .ok x ∧ x.typed = true ∧ x.type = s.type ∧
        Find.globMatch d.ctx.env s.string x.string = .ok true := by
  have htot' : ∀ p ∈ w.nodes.map (·.1), ∀ e, d.ctx.sidOfPath p config = .error e → e = .spil := by
    intro p hp e he
    obtain ⟨x, hx⟩ := htot p hp
    rw [hx] at he; cases he
  obtain ⟨hs, h1, h2, h3⟩ := pathsStarGo_pairs d w config htot' searches hsp hgm [] []
    (fun tp htp => by simp at htp)
  have h3' : ∀ p x, (p, x) ∈ hs ↔ ∃ s ∈ searches, p ∈ w.glob (patOf d config s) ∧
      d.ctx.sidOfPath p config = .ok x ∧ x.typed = true ∧ x.type = s.type ∧
      Find.globMatch d.ctx.env s.string x.string = .ok true := by
    intro p x
    rw [h3]
    constructor
    · rintro ⟨s, hs', hg, _, hh⟩; exact ⟨s, hs', hg, hh⟩
    · rintro ⟨s, hs', hg, hh⟩; exact ⟨s, hs', hg, by simp, hh⟩
  refine ⟨hs, h1, h2, ?_, h3'⟩
  apply snd_nodup hs h2
  intro p q x hp hq
  obtain ⟨_, _, _, hp1, hp2, _⟩ := (h3' p x).1 hp
  obtain ⟨_, _, _, hq1, _, _⟩ := (h3' q x).1 hq
  exact c11_hit_inj d config p q x hp1 hq1 hp2

/-- the same at the level of Sids: the result is duplicate-free and is the UNION over the
    searches of the typed Sids of the searched type whose path the pattern of the search globs and
    whose string the search string matches -/
theorem c11_star_list_mem (w : World) (config : Option Str) (searches : List Sid)
    (hsp : ∀ s ∈ searches, ∃ po, d.ctx.sidPath config s = .ok po)
    (hgm : ∀ s ∈ searches, '[' ∉ s.string)
    (htot : ∀ p ∈ w.nodes.map (·.1), ∃ x, d.ctx.sidOfPath p config = .ok x) :
    ∃ r, d.pathsStarSids w config searches = .ok r ∧ r.Nodup ∧
      ∀ x, x ∈ r ↔ ∃ s ∈ searches, ∃ p ∈ w.glob (patOf d config s),
        d.ctx.sidOfPath p config = .ok x ∧ x.typed = true ∧ x.type = s.type ∧
        Find.globMatch d.ctx.env s.string x.string = .ok true := by
  obtain ⟨hs, h1, _, h3, h4⟩ := c11_star_list d w config searches hsp hgm htot
  refine ⟨_, h1, h3, fun x => ?_⟩
  rw [List.mem_map]
  constructor
  · rintro ⟨⟨p, y⟩, hpy, rfl⟩
    obtain ⟨s, hs', hg, hh⟩ := (h4 p y).1 hpy
    exact ⟨s, hs', p, hg, hh⟩
  · rintro ⟨s, hs', p, hg, hh⟩
    exact ⟨(p, x), (h4 p x).2 ⟨s, hs', hg, hh⟩, rfl⟩

/-- star search for ONE typed search Sid with a path and without `[` in its string: it succeeds,
    yields no Sid twice, and yields exactly the typed Sids of the searched type built from the
    paths `glob.glob(pattern)` returns whose string the search string matches -/
theorem c11_star_one (w : World) (config : Option Str) (s : Sid) (pat : Str)
    (hs : d.ctx.sidPath config s = .ok (some pat)) (hgm : '[' ∉ s.string)
    (htot : ∀ p ∈ w.nodes.map (·.1), ∃ x, d.ctx.sidOfPath p config = .ok x) :
    ∃ r, d.pathsStarSids w config [s] = .ok r ∧ r.Nodup ∧
      ∀ x, x ∈ r ↔ ∃ p ∈ w.glob pat,
        d.ctx.sidOfPath p config = .ok x ∧ x.typed = true ∧ x.type = s.type ∧
        Find.globMatch d.ctx.env s.string x.string = .ok true := by
  obtain ⟨r, h1, h2, h3⟩ := c11_star_list_mem d w config [s]
    (fun s' hs' => by simp only [List.mem_singleton] at hs'; subst hs'; exact ⟨_, hs⟩)
    (fun s' hs' => by simp only [List.mem_singleton] at hs'; subst hs'; exact hgm) htot
  refine ⟨r, h1, h2, fun x => ?_⟩
  rw [h3]
  constructor
  · rintro ⟨s', hs', p, hg, hh⟩
    simp only [List.mem_singleton] at hs'
    subst hs'
    rw [patOf_some d config s' pat hs] at hg
    exact ⟨p, hg, hh⟩
  · rintro ⟨p, hg, hh⟩
    exact ⟨s, by simp, p, by rw [patOf_some d config s pat hs]; exact hg, hh⟩

/-! ### (2) completeness of the rendered glob pattern -/

/-- the pattern `sid.path()` renders for a search Sid `s` and the path it renders for an entity
    `e` that `s` globs field by field have the same number of '/' components, and every component
    of the pattern `fnmatch`es the corresponding component of the path.  Hypotheses:
    * `hfix`: `*` is a fixed point of the reverse value mapping (else the pattern does not even
      contain the star: `c11_starFixed_needed`);
    * `hvals`: the entity's path values are non-empty, '/'-free and do not start with '.'
      (`c11_empty_value_needed`, `c11_hidden_value_needed`);
    * `hb`: no `[` in the pattern (known finding K2: `glob2re` / `fnmatch` read it as a class). -/
theorem c11_pattern_matches (c : Ctx) (config : Option Str) (s e : Sid) (pat p : Str)
    (hs : c.sidPath config s = .ok (some pat)) (he : c.sidPath config e = .ok (some p))
    (hg : SidGlob s e)
    (hfix : ∀ pc, c.cfg.pathConf? config = some pc → starFixed pc = true)
    (hvals : entityValsOk c config e = true) (hb : '[' ∉ pat) :
    (Str.splitOn '/' pat).length = (Str.splitOn '/' p).length ∧
    ∀ (i : Nat) (a b : Str), (Str.splitOn '/' pat)[i]? = some a → (Str.splitOn '/' p)[i]? = some b →
      World.compMatch a b = true := by
  have h := sidPath_compMatch c config s e pat p hs he hg hfix hvals hb
  exact ⟨All2.length_eq h, All2.get h⟩

/-- hence `glob.glob(pattern)` returns the entity's path whenever it exists in the tree -/
theorem c11_glob_mem (c : Ctx) (w : World) (config : Option Str) (s e : Sid) (pat p : Str)
    (hs : c.sidPath config s = .ok (some pat)) (he : c.sidPath config e = .ok (some p))
    (hg : SidGlob s e)
    (hfix : ∀ pc, c.cfg.pathConf? config = some pc → starFixed pc = true)
    (hvals : entityValsOk c config e = true) (hb : '[' ∉ pat)
    (hex : w.pathExists p = true) : p ∈ w.glob pat := by
  apply mem_glob w pat p
  · apply Classical.byContradiction
    intro hn
    have := (FSL.lookup_none_iff w.nodes p).2 hn
    simp [World.pathExists, World.kind?, this] at hex
  · exact sidPath_compMatch c config s e pat p hs he hg hfix hvals hb

/-- `entityValsOk` from conditions on the configuration and on the Sid's own values: all field
    values of the entity are `valOk` and so are the path-side values of the configuration -/
theorem c11_entityValsOk (c : Ctx) (config : Option Str) (e : Sid) (p : Str)
    (he : c.sidPath config e = .ok (some p))
    (hside : ∀ pc, c.cfg.pathConf? config = some pc → pathSideOk pc = true)
    (hv : e.fields.all (fun kv => valOk kv.2) = true) : entityValsOk c config e = true := by
  obtain ⟨pc, t, raw, hpc, ht, _, _⟩ := sidPath_some_inv c config e p he
  unfold entityValsOk
  simp only [hpc, ht]
  have hs := hside pc hpc
  simp only [pathSideOk, Bool.and_eq_true] at hs
  rw [pathData_eq]
  -- invariant of the third loop
  have h3 : ∀ (keys : List Str) (a : Dict), a.all (fun kv => valOk kv.2) = true →
      (keys.foldl (pdMissing pc) a).all (fun kv => valOk kv.2) = true := by
    intro keys
    induction keys with
    | nil => intro a ha; exact ha
    | cons k keys ih =>
      intro a ha
      simp only [List.foldl_cons]
      apply ih
      unfold pdMissing
      split
      · next dv hdv =>
        split
        · next hc =>
          simp only [Bool.and_eq_true, Bool.not_eq_true'] at hc
          rw [List.all_append, ha]
          have := List.all_eq_true.1 hs.2 _ (FSL.lookup_some_mem _ _ _ hdv)
          simp only [hc.2, Bool.false_or] at this
          simp [this]
        · exact ha
      · exact ha
  apply h3
  rw [List.all_eq_true] at hv ⊢
  intro kv hkv
  simp only [List.mem_map] at hkv
  obtain ⟨kv1, ⟨kv0, hkv0, rfl⟩, rfl⟩ := hkv
  have hv0 := hv kv0 hkv0
  have hne : kv0.2.isEmpty = false := by
    cases hh : kv0.2 with
    | nil => rw [hh] at hv0; simp [valOk] at hv0
    | cons _ _ => rfl
  have hd : pdDefault pc kv0.1 kv0.2 = kv0.2 := by
    unfold pdDefault
    split
    · simp [hne]
    · rfl
  simp only [hd]
  unfold pdMap
  split
  · next m hm =>
    split
    · exact hv0
    · unfold Ctx.getKey
      split
      · next k v hf =>
        have hmem := List.mem_of_find?_eq_some hf
        have := List.all_eq_true.1 hs.1 _ (FSL.lookup_some_mem _ _ _ hm)
        exact List.all_eq_true.1 this _ hmem
      · exact hv0
  · exact hv0

/-! ### (3) whatever the list search finds among the existing entities, the path search finds -/

/-- fields ⇒ strings: a field-wise glob between two well-typed Sids is the glob relation of C08
    between their strings, i.e. the list search for `s.string` matches `e.string` -/
theorem c11_string_glob (env : Env) (ts : List (Str × Template)) (s e : Sid)
    (hs : wellTyped env ts s) (he : wellTyped env ts e) (hg : SidGlob s e) (hb : '[' ∉ s.string) :
    Glob s.string e.string :=
  string_glob_of_sidGlob env ts s e hs he hg hb

/-- strings ⇒ fields, for a whole-segment star search (every segment is `*` or wildcard-free) -/
theorem c11_fields_glob (env : Env) (ts : List (Str × Template)) (s e : Sid)
    (hs : wellTyped env ts s) (he : wellTyped env ts e) (hty : s.type = e.type)
    (hw : wholeStar s.string) (hb : '[' ∉ s.string) (hg : Glob s.string e.string) : SidGlob s e :=
  sidGlob_of_string_glob env ts s e hs he hty hw hb hg

/-- COMPLETENESS: every existing entity `e` (its path `p` is a node of the tree) that round-trips
    (`Sid(path=p) = e`: property C05, `C05.c05_roundtrip`), and is globbed field by field by the
    typed search Sid `s`, is found by the path search for `s`.  (`hws`, `hwe`, `hbs` serve the
    repaired string test: field-wise glob of well-typed Sids ⇒ glob of their strings.) -/
theorem c11_complete (w : World) (config : Option Str) (s e : Sid) (pat p : Str) (r : List Sid)
    (hs : d.ctx.sidPath config s = .ok (some pat))
    (hws : wellTyped d.ctx.env d.ctx.cfg.sid.templates s)
    (hwe : wellTyped d.ctx.env d.ctx.cfg.sid.templates e) (hbs : '[' ∉ s.string)
    (hex : w.pathExists p = true) (hrt : d.ctx.sidOfPath p config = .ok e) (hty : e.typed = true)
    (hg : SidGlob s e)
    (hfix : ∀ pc, d.ctx.cfg.pathConf? config = some pc → starFixed pc = true)
    (hvals : entityValsOk d.ctx config e = true) (hb : '[' ∉ pat)
    (htot : ∀ p ∈ w.nodes.map (·.1), ∃ x, d.ctx.sidOfPath p config = .ok x)
    (hr : d.pathsStarSids w config [s] = .ok r) : e ∈ r := by
  obtain ⟨r', h1, _, h3⟩ := c11_star_one d w config s pat hs hbs htot
  rw [hr] at h1
  injection h1 with h1
  subst h1
  rw [h3]
  have he := C06.c06_owner d.ctx p config e hrt hty
  exact ⟨p, c11_glob_mem d.ctx w config s e pat p hs he hg hfix hvals hb hex, hrt, hty, hg.1.symm,
    (c11_globMatch_iff _ _ _ hbs).2 (c11_string_glob _ _ s e hws hwe hg hbs)⟩

/-- the same for a LIST of search Sids: an entity globbed by ONE of them is found -/
theorem c11_complete_list (w : World) (config : Option Str) (searches : List Sid) (s e : Sid)
    (pat p : Str) (r : List Sid)
    (hsp : ∀ s ∈ searches, ∃ po, d.ctx.sidPath config s = .ok po)
    (hgm : ∀ s ∈ searches, '[' ∉ s.string)
    (hmem : s ∈ searches) (hs : d.ctx.sidPath config s = .ok (some pat))
    (hws : wellTyped d.ctx.env d.ctx.cfg.sid.templates s)
    (hwe : wellTyped d.ctx.env d.ctx.cfg.sid.templates e)
    (hex : w.pathExists p = true) (hrt : d.ctx.sidOfPath p config = .ok e) (hty : e.typed = true)
    (hg : SidGlob s e)
    (hfix : ∀ pc, d.ctx.cfg.pathConf? config = some pc → starFixed pc = true)
    (hvals : entityValsOk d.ctx config e = true) (hb : '[' ∉ pat)
    (htot : ∀ p ∈ w.nodes.map (·.1), ∃ x, d.ctx.sidOfPath p config = .ok x)
    (hr : d.pathsStarSids w config searches = .ok r) : e ∈ r := by
  obtain ⟨r', h1, _, h3⟩ := c11_star_list_mem d w config searches hsp hgm htot
  rw [hr] at h1
  injection h1 with h1
  subst h1
  rw [h3]
  have he := C06.c06_owner d.ctx p config e hrt hty
  have hbs := hgm s hmem
  refine ⟨s, hmem, p, ?_, hrt, hty, hg.1.symm,
    (c11_globMatch_iff _ _ _ hbs).2 (c11_string_glob _ _ s e hws hwe hg hbs)⟩
  rw [patOf_some d config s pat hs]
  exact c11_glob_mem d.ctx w config s e pat p hs he hg hfix hvals hb hex

/-- FindInList ⊆ FindInPaths on the existing entities: let `ents` be entities that exist in the
    tree and round-trip, `s` a well-typed whole-segment star search with a path.  Every entity of
    the searched type whose string `FindInList(strings of ents).star_search([s])` returns is
    returned by `FindInPaths.star_search_simple([s])`. -/
theorem c11_list_subset_paths (w : World) (config : Option Str) (s : Sid) (pat : Str)
    (ents : List Sid) (found : List Str) (r : List Sid)
    (hs : d.ctx.sidPath config s = .ok (some pat))
    (hws : wellTyped d.ctx.env d.ctx.cfg.sid.templates s)
    (hw : wholeStar s.string) (hbs : '[' ∉ s.string) (hb : '[' ∉ pat)
    (hfix : ∀ pc, d.ctx.cfg.pathConf? config = some pc → starFixed pc = true)
    (htot : ∀ p ∈ w.nodes.map (·.1), ∃ x, d.ctx.sidOfPath p config = .ok x)
    (hents : ∀ e ∈ ents, wellTyped d.ctx.env d.ctx.cfg.sid.templates e ∧ e.typed = true ∧
      entityValsOk d.ctx config e = true ∧
      ∃ p, w.pathExists p = true ∧ d.ctx.sidOfPath p config = .ok e)
    (hl : Find.starSearch d.ctx.env ⟨ents.map (·.string), false⟩ [s.string] = .ok found)
    (hr : d.pathsStarSids w config [s] = .ok r) :
    ∀ e ∈ ents, e.type = s.type → e.string ∈ found → e ∈ r := by
  intro e he hty hf
  obtain ⟨hwe, htyped, hvals, p, hex, hrt⟩ := hents e he
  obtain ⟨_, hmem⟩ := C08.c08_star_search_mem d.ctx.env _ [s.string]
    (fun q hq => by simp only [List.mem_singleton] at hq; subst hq; exact hbs) found hl
  obtain ⟨_, q, hq, hglob⟩ := (hmem e.string).1 hf
  simp only [List.mem_singleton] at hq
  subst hq
  have hg := c11_fields_glob d.ctx.env _ s e hws hwe hty.symm hw hbs hglob
  exact c11_complete d w config s e pat p r hs hws hwe hbs hex hrt htyped hg hfix hvals hb htot hr

/-- and conversely every entity that `s` globs field by field IS returned by the list search -/
theorem c11_list_finds (env : Env) (ts : List (Str × Template)) (s e : Sid) (l found : List Str)
    (hs : wellTyped env ts s) (he : wellTyped env ts e) (hg : SidGlob s e) (hb : '[' ∉ s.string)
    (hmem : e.string ∈ l)
    (hl : Find.starSearch env ⟨l, false⟩ [s.string] = .ok found) : e.string ∈ found := by
  obtain ⟨_, h⟩ := C08.c08_star_search_mem env l [s.string]
    (fun q hq => by simp only [List.mem_singleton] at hq; subst hq; exact hb) found hl
  exact (h e.string).2 ⟨hmem, s.string, by simp, c11_string_glob env ts s e hs he hg hb⟩

/-! ### (4) soundness (true since the repair D25) -/

/-- SOUNDNESS: every Sid the path search yields is typed with the searched type, OWNS (C06) an
    existing path that the rendered pattern globs as a whole string, and its STRING is globbed by
    the search string (relation of C08) — i.e. FindInList over any list containing it finds it.
    No totality hypothesis: this is a property of whatever the search returns. -/
theorem c11_sound (w : World) (config : Option Str) (s : Sid) (r : List Sid) (hbs : '[' ∉ s.string)
    (hr : d.pathsStarSids w config [s] = .ok r) :
    ∀ x ∈ r, x.typed = true ∧ x.type = s.type ∧ Glob s.string x.string ∧
      ∃ p, w.pathExists p = true ∧ d.ctx.sidOfPath p config = .ok x ∧
        d.ctx.sidPath config x = .ok (some p) := by
  intro x hx
  obtain ⟨s', hs', h1, h2, h3, p, h4, h5⟩ := FSL.pathsStarGo_res d w config [s] [] [] r hr x hx
  simp only [List.mem_singleton] at hs'
  subst hs'
  exact ⟨h1, h2.symm, (c11_globMatch_iff _ _ _ hbs).1 h3, p, h4, h5, C06.c06_owner d.ctx p config x h5 h1⟩

/-- the same for a list of searches -/
theorem c11_sound_list (w : World) (config : Option Str) (searches : List Sid) (r : List Sid)
    (hgm : ∀ s ∈ searches, '[' ∉ s.string)
    (hr : d.pathsStarSids w config searches = .ok r) :
    ∀ x ∈ r, ∃ s ∈ searches, x.typed = true ∧ x.type = s.type ∧ Glob s.string x.string := by
  intro x hx
  obtain ⟨s, hs, h1, h2, h3, _⟩ := FSL.pathsStarGo_res d w config searches [] [] r hr x hx
  exact ⟨s, hs, h1, h2.symm, (c11_globMatch_iff _ _ _ (hgm s hs)).1 h3⟩

/-- field-level soundness for a whole-segment star search between well-typed Sids -/
theorem c11_sound_fields (w : World) (config : Option Str) (s : Sid) (r : List Sid)
    (hbs : '[' ∉ s.string) (hw : wholeStar s.string)
    (hws : wellTyped d.ctx.env d.ctx.cfg.sid.templates s)
    (hr : d.pathsStarSids w config [s] = .ok r) :
    ∀ x ∈ r, wellTyped d.ctx.env d.ctx.cfg.sid.templates x → SidGlob s x := by
  intro x hx hwx
  obtain ⟨_, hty, hg, _⟩ := c11_sound d w config s r hbs hr x hx
  exact c11_fields_glob _ _ s x hws hwx hty.symm hw hbs hg

/-- every found Sid's path is globbed by the rendered pattern as a whole string -/
theorem c11_sound_paths (w : World) (config : Option Str) (s : Sid) (pat : Str) (r : List Sid)
    (hs : d.ctx.sidPath config s = .ok (some pat)) (hbs : '[' ∉ s.string)
    (htot : ∀ p ∈ w.nodes.map (·.1), ∃ x, d.ctx.sidOfPath p config = .ok x)
    (hr : d.pathsStarSids w config [s] = .ok r) :
    ∀ x ∈ r, x.typed = true ∧ x.type = s.type ∧ ∃ p, w.pathExists p = true ∧
      d.ctx.sidOfPath p config = .ok x ∧ d.ctx.sidPath config x = .ok (some p) ∧ Glob pat p := by
  obtain ⟨r', h1, _, h3⟩ := c11_star_one d w config s pat hs hbs htot
  rw [hr] at h1
  injection h1 with h1
  subst h1
  intro x hx
  obtain ⟨p, hp, hx1, hx2, hx3, _⟩ := (h3 x).1 hx
  exact ⟨hx2, hx3, p, FSL.glob_mem w pat p hp, hx1, C06.c06_owner d.ctx p config x hx1 hx2,
    (glob_sound w pat p hp).2⟩

/-- a search whose pattern has no wildcard finds at most the Sid built from that very path -/
theorem c11_sound_concrete (w : World) (config : Option Str) (s : Sid) (pat : Str) (r : List Sid)
    (hs : d.ctx.sidPath config s = .ok (some pat)) (hbs : '[' ∉ s.string)
    (htot : ∀ p ∈ w.nodes.map (·.1), ∃ x, d.ctx.sidOfPath p config = .ok x)
    (h1 : '*' ∉ pat) (h2 : '?' ∉ pat) (h3 : '[' ∉ pat)
    (hr : d.pathsStarSids w config [s] = .ok r) :
    ∀ x ∈ r, d.ctx.sidOfPath pat config = .ok x ∧ w.pathExists pat = true := by
  intro x hx
  obtain ⟨_, _, p, hex, hrt, _, hg⟩ := c11_sound_paths d w config s pat r hs hbs htot hr x hx
  have := (C08.c08_literal pat p h1 h2 h3).1 hg
  subst this
  exact ⟨hrt, hex⟩

/-- PATH-level fact about pinned keys (independent of the repair; kept because it explains WHY the
    unrepaired search was unsound exactly on the keys that only occur inside a file name): if the
    texts rendered for the search Sid and for a Sid by the template of their type are already
    normalised, all path values are '/'-free and the key `k` occupies a whole '/' component of
    the template, then a whole-string glob between the two texts forces the search's path value of
    `k` to glob the other's. -/
theorem c11_sound_pinned_partial (pc : PathConf) (t : Template) (k : Str) (s x : Sid) (pat p : Str)
    (hpin : pinned k t = true)
    (hs : Template.format t (Ctx.pathData pc s.fields (Template.keys t)) = some pat)
    (hx : Template.format t (Ctx.pathData pc x.fields (Template.keys t)) = some p)
    (hfs : ∀ kv ∈ Ctx.pathData pc s.fields (Template.keys t), '/' ∉ kv.2)
    (hfx : ∀ kv ∈ Ctx.pathData pc x.fields (Template.keys t), '/' ∉ kv.2)
    (hg : Glob pat p) :
    ∃ vs vx, (Ctx.pathData pc s.fields (Template.keys t)).get k = some vs ∧
      (Ctx.pathData pc x.fields (Template.keys t)).get k = some vx ∧ Glob vs vx :=
  pinned_value t k _ _ pat p hpin hs hx hfs hfx hg

/-! ### (5) FindInPaths = FindInList -/

/-- the hypotheses on a tree `w` that "holds exactly the entities `ents` plus junk" for the
    searched type `ty` under the path configuration `config`:
    * every entity is well typed, typed, has admissible path values (`entityValsOk`), exists in
      the tree and round-trips (C05: `C05.c05_roundtrip` derives it for `Admissible` Sids);
    * `Sid(path=…)` raises on no node (C06: `c11_total_of_wf`);
    * every node that resolves to a typed Sid of the searched type resolves to an entity. -/
structure HoldsExactly (d : DCtx) (w : World) (config : Option Str) (ty : Str) (ents : List Sid) :
    Prop where
  ents_ok : ∀ e ∈ ents, wellTyped d.ctx.env d.ctx.cfg.sid.templates e ∧ e.typed = true ∧
    entityValsOk d.ctx config e = true ∧
    ∃ p, w.pathExists p = true ∧ d.ctx.sidOfPath p config = .ok e
  total : ∀ p ∈ w.nodes.map (·.1), ∃ x, d.ctx.sidOfPath p config = .ok x
  exact : ∀ p ∈ w.nodes.map (·.1), ∀ x, d.ctx.sidOfPath p config = .ok x → x.typed = true →
    x.type = ty → x ∈ ents

/-- EQUALITY (whole-segment star searches): on a tree that holds exactly the entities `ents` plus
    junk, the path search and the list search for the typed search Sid `s` both succeed, neither
    yields anything twice, and the Sids FindInPaths returns are exactly the entities of the
    searched type whose string FindInList returns.  (FindInList itself ignores types — known
    finding K6 — hence the restriction `e.type = s.type` on the right.)
    `wholeStar s.string` is needed by the completeness direction only (⊇); soundness (⊆) holds for
    every search string without `[`.  Missing for partial globs (`ha*`): the passage from the glob
    between STRINGS to a relation between FIELD VALUES that survives the value mapping of
    `dict_to_path` (a mapped key breaks it: `ha*` is not mapped, `hamlet ↦ HAMLET` is) and the
    component-level conditions of `PurePosixPath` / hidden names for stars that may be empty. -/
theorem c11_paths_eq_list_whole (w : World) (config : Option Str) (s : Sid) (pat : Str)
    (ents : List Sid)
    (hs : d.ctx.sidPath config s = .ok (some pat))
    (hws : wellTyped d.ctx.env d.ctx.cfg.sid.templates s)
    (hw : wholeStar s.string) (hbs : '[' ∉ s.string) (hb : '[' ∉ pat)
    (hfix : ∀ pc, d.ctx.cfg.pathConf? config = some pc → starFixed pc = true)
    (hw_ents : HoldsExactly d w config s.type ents) :
    ∃ found r, Find.starSearch d.ctx.env ⟨ents.map (·.string), false⟩ [s.string] = .ok found ∧
      d.pathsStarSids w config [s] = .ok r ∧ found.Nodup ∧ r.Nodup ∧
      ∀ x, x ∈ r ↔ (x ∈ ents ∧ x.type = s.type ∧ x.string ∈ found) := by
  obtain ⟨hents, htot, hexact⟩ := hw_ents
  have hbl : ∀ q ∈ [s.string], '[' ∉ q := fun q hq => by
    simp only [List.mem_singleton] at hq; subst hq; exact hbs
  have hl := C08.c08_star_search d.ctx.env (ents.map (·.string)) [s.string] hbl
  obtain ⟨hfn, hfm⟩ := C08.c08_star_search_mem d.ctx.env _ [s.string] hbl _ hl
  obtain ⟨r, hr, hrn, hrm⟩ := c11_star_one d w config s pat hs hbs htot
  refine ⟨_, r, hl, hr, hfn, hrn, fun x => ?_⟩
  constructor
  · intro hx
    obtain ⟨p, hp, hx1, hx2, hx3, hx4⟩ := (hrm x).1 hx
    have hxe : x ∈ ents := hexact p (glob_sound w pat p hp).1 x hx1 hx2 hx3
    refine ⟨hxe, hx3, (hfm x.string).2 ⟨List.mem_map.2 ⟨x, hxe, rfl⟩, s.string, by simp, ?_⟩⟩
    exact (c11_globMatch_iff _ _ _ hbs).1 hx4
  · rintro ⟨hxe, hty, hf⟩
    exact c11_list_subset_paths d w config s pat ents _ r hs hws hw hbs hb hfix htot hents hl hr
      x hxe hty hf

/-- the same as an equality up to order: the result of FindInPaths is a permutation of the
    entities (listed once each) of the searched type whose string FindInList returns -/
theorem c11_paths_perm_list_whole (w : World) (config : Option Str) (s : Sid) (pat : Str)
    (ents : List Sid) (hnd : ents.Nodup)
    (hs : d.ctx.sidPath config s = .ok (some pat))
    (hws : wellTyped d.ctx.env d.ctx.cfg.sid.templates s)
    (hw : wholeStar s.string) (hbs : '[' ∉ s.string) (hb : '[' ∉ pat)
    (hfix : ∀ pc, d.ctx.cfg.pathConf? config = some pc → starFixed pc = true)
    (hw_ents : HoldsExactly d w config s.type ents) :
    ∃ found r, Find.starSearch d.ctx.env ⟨ents.map (·.string), false⟩ [s.string] = .ok found ∧
      d.pathsStarSids w config [s] = .ok r ∧
      r.Perm (ents.filter (fun e => decide (e.type = s.type) && found.contains e.string)) := by
  obtain ⟨found, r, h1, h2, _, h4, h5⟩ :=
    c11_paths_eq_list_whole d w config s pat ents hs hws hw hbs hb hfix hw_ents
  refine ⟨found, r, h1, h2, (List.perm_ext_iff_of_nodup h4 (hnd.sublist List.filter_sublist)).2 ?_⟩
  intro x
  rw [h5, List.mem_filter]
  simp

/-- LOCAL = SERVER: two path configurations `c1`, `c2` and two trees `w1`, `w2` that hold the same
    entities (each exactly, for its own configuration) answer a whole-segment star search with the
    same set of Sids -/
theorem c11_local_eq_server (w1 w2 : World) (c1 c2 : Option Str) (s : Sid) (pat1 pat2 : Str)
    (ents : List Sid)
    (hs1 : d.ctx.sidPath c1 s = .ok (some pat1)) (hs2 : d.ctx.sidPath c2 s = .ok (some pat2))
    (hws : wellTyped d.ctx.env d.ctx.cfg.sid.templates s)
    (hw : wholeStar s.string) (hbs : '[' ∉ s.string) (hb1 : '[' ∉ pat1) (hb2 : '[' ∉ pat2)
    (hfix1 : ∀ pc, d.ctx.cfg.pathConf? c1 = some pc → starFixed pc = true)
    (hfix2 : ∀ pc, d.ctx.cfg.pathConf? c2 = some pc → starFixed pc = true)
    (he1 : HoldsExactly d w1 c1 s.type ents) (he2 : HoldsExactly d w2 c2 s.type ents) :
    ∃ r1 r2, d.pathsStarSids w1 c1 [s] = .ok r1 ∧ d.pathsStarSids w2 c2 [s] = .ok r2 ∧
      r1.Nodup ∧ r2.Nodup ∧ (∀ x, x ∈ r1 ↔ x ∈ r2) ∧ r1.Perm r2 := by
  obtain ⟨f1, r1, hf1, hr1, _, hn1, hm1⟩ :=
    c11_paths_eq_list_whole d w1 c1 s pat1 ents hs1 hws hw hbs hb1 hfix1 he1
  obtain ⟨f2, r2, hf2, hr2, _, hn2, hm2⟩ :=
    c11_paths_eq_list_whole d w2 c2 s pat2 ents hs2 hws hw hbs hb2 hfix2 he2
  rw [hf1] at hf2
  injection hf2 with hf2
  subst hf2
  have hm : ∀ x, x ∈ r1 ↔ x ∈ r2 := fun x => by rw [hm1, hm2]
  exact ⟨r1, r2, hr1, hr2, hn1, hn2, hm, (List.perm_ext_iff_of_nodup hn1 hn2).2 hm⟩

end C11
