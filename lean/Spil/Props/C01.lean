/-
  Spil.Props.C01 — "A string is typed exactly as the configured templates say, else stays untyped".

  The operational model (`Ctx.sidOfString`: regex compilation, CPython-priority search with `^`/`$`
  anchors, group dictionary, render-back guard, fall back to `resolve_all`) is proved equal to the
  declarative reading of the statement (`Spec.plainSid` / `Spec.forcedSid`: first template, in
  configuration order, with as many placeholders as the string has segments and whose every
  expression accepts its whole segment) for EVERY string and EVERY well-formed template table.
-/
import Spil.Spec.Sid
import Spil.Lemmas.Sid

namespace C01

open Spec

/-- plain strings (no uri prefix, no query): first accepting template, else untyped, string verbatim -/
theorem c01_plain (c : Ctx) (hwf : sidTableOk c.env c.cfg.sid.templates = true)
    (s : Str) (hne : s ≠ []) (hc : ':' ∉ s) (hq : '?' ∉ s) :
    c.sidOfString s = .ok (plainSid c.env c.cfg.sid.templates s) := by
  have hs : s.isEmpty = false := by simp [hne]
  unfold Ctx.sidOfString Ctx.sidToSid
  simp only [hs, Bool.false_eq_true, if_false, Str.split1_none '?' s hq, Str.split1_none ':' s hc,
    SidL.sidToDict_none c hwf s hne, List.isEmpty_nil, if_true]
  unfold plainSid SidL.specDict
  cases firstAccepting c.env c.cfg.sid.templates s with
  | none => rfl
  | some p => rfl

/-- `ty:rest` forces the template named `ty` (untyped when `ty` is unknown or does not accept) -/
theorem c01_forced (c : Ctx) (hwf : sidTableOk c.env c.cfg.sid.templates = true)
    (ty rest : Str) (hty : ty ≠ []) (hc : ':' ∉ ty) (hq : '?' ∉ ty ++ ':' :: rest) :
    c.sidOfString (ty ++ ':' :: rest) = .ok (forcedSid c.env c.cfg.sid.templates ty rest) := by
  have hs : (ty ++ ':' :: rest).isEmpty = false := by simp
  unfold Ctx.sidOfString Ctx.sidToSid
  simp only [hs, Bool.false_eq_true, if_false, Str.split1_none '?' _ hq, Str.split1_some ':' ty rest hc,
    SidL.sidToDict_forced c hwf ty rest hty, List.isEmpty_nil, if_true]
  unfold forcedSid SidL.forcedDict
  cases c.cfg.sid.templates.lookup ty with
  | none => rfl
  | some t =>
    simp only
    split <;> rfl

/-- an empty uri prefix (`:rest`) behaves like the plain string `rest` -/
theorem c01_empty_prefix (c : Ctx) (hwf : sidTableOk c.env c.cfg.sid.templates = true)
    (rest : Str) (hq : '?' ∉ rest) (hne : rest ≠ []) :
    c.sidOfString (':' :: rest) = .ok (plainSid c.env c.cfg.sid.templates rest) := by
  have hq' : '?' ∉ ':' :: rest := by
    simp only [List.mem_cons, not_or]; exact ⟨by decide, hq⟩
  have hsp : Str.split1 ':' (':' :: rest) = ([], some rest) := by simp [Str.split1]
  unfold Ctx.sidOfString Ctx.sidToSid
  simp only [List.isEmpty_cons, Bool.false_eq_true, if_false, Str.split1_none '?' _ hq', hsp,
    SidL.sidToDict_some_nil c hwf rest hne, List.isEmpty_nil, if_true]
  unfold plainSid SidL.specDict
  cases firstAccepting c.env c.cfg.sid.templates rest with
  | none => rfl
  | some p => rfl

/-- creating a Sid from a query-free string never fails -/
theorem c01_total (c : Ctx) (hwf : sidTableOk c.env c.cfg.sid.templates = true)
    (s : Str) (hq : '?' ∉ s) : ∃ x, c.sidOfString s = .ok x := by
  by_cases hs : s = []
  · subst hs; exact ⟨Sid.empty, rfl⟩
  · rcases Str.first_sep ':' s with hc | ⟨ty, rest, rfl, hc⟩
    · exact ⟨_, c01_plain c hwf s hs hc hq⟩
    · by_cases hty : ty = []
      · subst hty
        by_cases hr : rest = []
        · subst hr
          exact ⟨Sid.untyped [], rfl⟩
        · exact ⟨_, c01_empty_prefix c hwf rest (by simpa using hq) hr⟩
      · exact ⟨_, c01_forced c hwf ty rest hty hc hq⟩

/-- an untyped Sid is falsy, has an empty type, no fields, length 0 -/
theorem c01_untyped_obs (s : Str) :
    (Sid.untyped s).typed = false ∧ (Sid.untyped s).type = [] ∧ (Sid.untyped s).fields = [] ∧
    (Sid.untyped s).len = 0 ∧ (Sid.untyped s).string = s := by
  simp [Sid.untyped, Sid.typed, Sid.len]

/-- a typed result has as many fields as the string has segments, keyed by the template's keys -/
theorem c01_typed_fields (e : Env) (ts : List (Str × Template)) (s : Str) (label : Str) (t : Template)
    (h : firstAccepting e ts s = some (label, t)) :
    (plainSid e ts s).type = label ∧ (plainSid e ts s).string = s ∧
    (plainSid e ts s).fields.map (·.2) = Str.splitOn '/' s ∧
    (plainSid e ts s).fields.map (·.1) = (phs t).map (·.1) := by
  obtain ⟨_, hacc⟩ := SidL.firstAccepting_some e ts s label t h
  have hlen := SidL.acceptsSegs_length e _ _ hacc
  simp only [plainSid, h, fieldsOf, true_and]
  constructor
  · exact List.map_snd_zip (by simp; omega)
  · exact List.map_fst_zip (by simp; omega)

end C01
