/-
  Spil.Props.C05c — "Sid -> path -> Sid is the identity" in full: cross-template exclusion.

  `Resolver.resolve_first` tries the path templates in configuration order.  Under the decidable
  condition `Spec.pathsExclusive` (every template excludes every EARLIER one: `Spec.tplExcl`,
  `Spil/Spec/PathWF.lean`) no earlier template matches a path that a later template rendered from
  admissible CONCRETE values (`c05_exclusion`), so the Sid's own template answers, reads its own
  values back (`c05_own_parse_nl`) and `Sid(path=sid.path())` is the Sid (`c05_roundtrip`).

  Of the configuration the theorems ask `Spec.pathTplsOk` (the TEMPLATE half of `pathConfOk`) and
  `pathsExclusive` only: value mappings and defaults enter through the Sid (`Admissible.back`,
  `.values`), so two disk words for one sid value, partial mappings or a default for a free
  template key do not take a configuration out of the theorems' reach.
-/
import Spil.Props.C05b
import Spil.Lemmas.ExclRound
import Spil.Generated.DemoConf
import Spil.Props.Tie

namespace C05

open Spec

/-- cross-template exclusion: if `tplExcl e syms A B`, the regular expression of `A` has NO match
    (`^…$` search, CPython priority semantics) on any path `B` renders from values that are
    admissible (`valuesOk`) and concrete (`concreteOk`: no closed placeholder holds a search
    symbol; nothing is asked of free placeholders).  "No match" — not merely "no result" — is what
    `resolve_first` needs: a matching earlier template with a duplicate clash would raise. -/
theorem c05_exclusion (e : Env) (syms : List Str) (A B : Template) (data : Dict) (w : Str)
    (hA : pathTplOk e A = true) (hB : pathTplOk e B = true) (hx : tplExcl e syms A B = true)
    (hv : valuesOk e B data = true) (hc : concreteOk syms B data = true)
    (hw : Template.format B data = some w) :
    (Template.compile A).search e w = none ∧
      ∀ cd, Resolver.resolveTpl e cd A w = .ok none :=
  ⟨Excl.no_match e syms A B data w hA hB hx hv hc hw,
   fun cd => Excl.resolveTpl_none e syms cd A B data w hA hB hx hv hc hw⟩

/-- The hypotheses on the Sid `x` (type template `t`, `key_types` entry `kts`, path `p`).
    Every field is decidable.  Why each is needed — for every field below (but the two naming ones)
    `scratch/C05cCounter.lean` evaluates a Sid that violates THAT field only, has a path, and does
    not come back (the examples quoted here):
    * `tpl`, `keyTypes` name `t` and `kts` (they exist whenever `sid.path()` / `Sid(path=…)` do
      not fail).
    * `order`: `path_to_dict` rebuilds the fields as the `key_types` keys that the template has,
      in `key_types` order; a Sid whose fields are listed otherwise (or lack a template key that
      `dict_to_path` fills with a default) has the same path but is a different Sid.
    * `nodup`: the fields are a Python dict (modelling condition; with a repeated key the second
      value is lost).
    * `back`: the default / value-mapping step of `dict_to_path` (`state=w ↦ WORK`) is undone by
      the mapping step of `path_to_dict`.  It fails exactly for an empty value that has a default
      (`state='' ↦ WORK ↦ w`) and for a sid value that is the path side of another entry.  It
      follows from `mappingOk` when every mapped value is a sid-side value (`c05_mapping_inverse`).
    * `values`: the rendered values are words of the vocabularies / '/'-free (else the template
      need not read them back: `{x:(a|b)}{y}` renders x=ab, y=c as `abc`, read back x=a, y=bc).
    * `concrete`: no closed placeholder holds a search symbol (`hamlet/*` of type `shot` renders
      `…/HAMLET/PROD/*`, which the EARLIER template `asset` matches).
    * `normal`: the rendered string is already a normal path, i.e. `PurePosixPath` does not change
      it (an empty or `.` free value: `char//model` becomes `char/model`, a different path).
    * `str`, `strNe`: the Sid's string is the rendering of its fields (a Sid is the triple
      string / type / fields; `Sid(path=…)` recomputes the string from the fields). -/
structure Admissible (c : Ctx) (pc : PathConf) (t : Template) (kts : List Str) (x : Sid)
    (p : Str) : Prop where
  tpl : pc.resolver.lookup x.type = some t
  keyTypes : c.cfg.sid.keyTypes.lookup (((Str.splitStr x.type c.cfg.sid.sep).head?).getD []) =
    some kts
  order : kts.filter (fun k => (Template.keys t).contains k) = x.fields.map (·.1)
  nodup : (x.fields.map (·.1)).Nodup
  back : Ctx.mapToSid pc (Ctx.pathData pc x.fields []) = x.fields
  values : valuesOk c.env t (Ctx.pathData pc x.fields (Template.keys t)) = true
  concrete : concreteOk c.cfg.sid.searchSymbols t
    (Ctx.pathData pc x.fields (Template.keys t)) = true
  normal : Template.format t (Ctx.pathData pc x.fields (Template.keys t)) = some p
  str : c.dictToSidStr x.fields x.type = .ok x.string
  strNe : x.string ≠ []

theorem nodupStr_nodup : ∀ (l : List Str), nodupStr l = true → l.Nodup
  | [], _ => List.nodup_nil
  | k :: ks, h => by
    simp only [nodupStr, Bool.and_eq_true, Bool.not_eq_true', List.contains_eq_mem,
      decide_eq_false_iff_not] at h
    exact List.nodup_cons.2 ⟨h.1, nodupStr_nodup ks h.2⟩

/-- the Boolean form of the hypotheses (evaluated by the driver, decided by the kernel for the
    generated configurations) gives `Admissible` -/
theorem admissible_of_B (c : Ctx) (pc : PathConf) (x : Sid) (p : Str)
    (h : admissibleB c pc x p = true) :
    Admissible c pc ((pc.resolver.lookup x.type).getD [])
      ((c.cfg.sid.keyTypes.lookup (((Str.splitStr x.type c.cfg.sid.sep).head?).getD [])).getD [])
      x p := by
  unfold admissibleB at h
  cases ht : pc.resolver.lookup x.type with
  | none => rw [ht] at h; simp at h
  | some t =>
    cases hk : c.cfg.sid.keyTypes.lookup (((Str.splitStr x.type c.cfg.sid.sep).head?).getD []) with
    | none => rw [ht, hk] at h; simp at h
    | some kts =>
      rw [ht, hk] at h
      simp only [Bool.and_eq_true, beq_iff_eq, Bool.not_eq_true', Option.getD_some] at h ⊢
      obtain ⟨⟨⟨⟨⟨⟨⟨h1, h2⟩, h3⟩, h4⟩, h5⟩, h6⟩, h7⟩, h8⟩ := h
      refine ⟨by first | rfl | exact ht, by first | rfl | exact hk, h1, nodupStr_nodup _ h2, h3, h4, h5, h6, ?_, ?_⟩
      · cases hs : c.dictToSidStr x.fields x.type with
        | ok s => rw [hs] at h7; simp only [beq_iff_eq] at h7; rw [h7]
        | error e => rw [hs] at h7; simp at h7
      · intro h0; rw [h0] at h8; simp at h8

/-- the parse-back half: `path_to_dict` returns the Sid's own type and fields -/
theorem c05_parse_back (c : Ctx) (cfg : Option Str) (pc : PathConf)
    (hpc : c.cfg.pathConf? cfg = some pc) (hwf : pathTplsOk c.env pc = true)
    (hex : pathsExclusive c.env c.cfg.sid.searchSymbols pc = true)
    (x : Sid) (p : Str) (t : Template) (kts : List Str) (hx : Admissible c pc t kts x p)
    (hp : c.sidPath cfg x = .ok (some p)) :
    c.pathToDict pc p none = .ok (some (x.type, x.fields)) := by
  obtain ⟨_, hd⟩ := Excl.sidPath_inv c cfg pc hpc x p hp
  obtain ⟨hne, hkeys, path, hpath, hnorm⟩ := Excl.dictToPath_inv c pc x.fields x.type t p hx.tpl hd
  have hpp : path = p := by
    have := hx.normal
    rw [hpath] at this
    simpa using this
  subst hpp
  have hmem : (x.type, t) ∈ pc.templates := Det.lookup_some_mem pc.templates x.type t hx.tpl
  have hok := pathTplsOk_tpl c.env pc hwf x.type t hmem
  obtain ⟨d, hd, hget, hdk⟩ := c05_own_parse_nl c.env t _ path hok hx.values hkeys hne hpath
  have hpne : path.isEmpty = false := by
    have := Excl.normalize_ne_nil path
    rw [← hnorm] at this
    simpa using this
  have hres : Resolver.resolveFirst c.env pc.resolver path = .ok (some (x.type, d)) := by
    unfold Resolver.resolveFirst
    rw [hpne]
    simp only [Bool.false_eq_true, if_false]
    exact Excl.resolveFirstGo_own c.env c.cfg.sid.searchSymbols true x.type t _ path d hok
      hx.values hx.concrete hpath hd pc.templates hex (Excl.exclEarlier_tplOk c.env pc hwf) hx.tpl
  exact Excl.pathToDict_own c pc x t kts path d hres hget hdk hx.keyTypes hx.order hx.nodup hx.back

/-- C05: `Sid(path=sid.path(config), config=config)` is `sid` -/
theorem c05_roundtrip (c : Ctx) (cfg : Option Str) (pc : PathConf)
    (hpc : c.cfg.pathConf? cfg = some pc) (hwf : pathTplsOk c.env pc = true)
    (hex : pathsExclusive c.env c.cfg.sid.searchSymbols pc = true)
    (x : Sid) (p : Str) (t : Template) (kts : List Str) (hx : Admissible c pc t kts x p)
    (hp : c.sidPath cfg x = .ok (some p)) :
    c.sidOfPath p cfg = .ok x := by
  obtain ⟨hf, hd⟩ := Excl.sidPath_inv c cfg pc hpc x p hp
  obtain ⟨_, _, path, _, hnorm⟩ := Excl.dictToPath_inv c pc x.fields x.type t p hx.tpl hd
  have hpne : p ≠ [] := by rw [hnorm]; exact Excl.normalize_ne_nil path
  exact c05_roundtrip_partial c cfg pc hpc x p hf hp hpne
    (c05_parse_back c cfg pc hpc hwf hex x p t kts hx hp) hx.str hx.strNe

/-- C05, second clause: two (admissible) Sids with the same path are the same Sid -/
theorem c05_injective (c : Ctx) (cfg : Option Str) (pc : PathConf)
    (hpc : c.cfg.pathConf? cfg = some pc) (hwf : pathTplsOk c.env pc = true)
    (hex : pathsExclusive c.env c.cfg.sid.searchSymbols pc = true)
    (x y : Sid) (p : Str) (t t' : Template) (kts kts' : List Str)
    (hx : Admissible c pc t kts x p) (hy : Admissible c pc t' kts' y p)
    (hpx : c.sidPath cfg x = .ok (some p)) (hpy : c.sidPath cfg y = .ok (some p)) : x = y :=
  c05_injective_partial c cfg x y p p hpx hpy
    (c05_roundtrip c cfg pc hpc hwf hex x p t kts hx hpx)
    (c05_roundtrip c cfg pc hpc hwf hex y p t' kts' hy hpy) rfl

/-! ### non-vacuity: the theorem applies to Sids of the shipped configuration

  Every hypothesis is discharged by kernel evaluation on the generated constants: the configuration
  level ones in `Spil/Props/Tie.lean` (`demo_path_wf_*`, `demo_paths_exclusive_*`), the Sid level
  ones here. -/

section Demo

open Generated

/-- `Except` has no `DecidableEq` instance: decide the Boolean test instead -/
def okIs {α : Type} [DecidableEq α] (r : Except Err α) (v : α) : Bool :=
  match r with | .ok a => decide (a = v) | .error _ => false

theorem eq_ok_of_test {α : Type} [DecidableEq α] (r : Except Err α) (v : α)
    (h : okIs r v = true) : r = .ok v := by
  cases r with
  | ok a => simpa [okIs] using h
  | error _ => simp [okIs] at h

/-- C05 with every hypothesis in evaluable form: what a generated file states for a Sid of a
    generated configuration (`Generated/AltWF.lean`), each `= true` decided by the kernel -/
theorem c05_roundtrip_B (c : Ctx) (cfg : Option Str) (pc : PathConf)
    (hpc : c.cfg.pathConf? cfg = some pc) (hwf : pathTplsOk c.env pc = true)
    (hex : pathsExclusive c.env c.cfg.sid.searchSymbols pc = true)
    (x : Sid) (p : Str) (hB : admissibleB c pc x p = true)
    (hp : okIs (c.sidPath cfg x) (some p) = true) :
    c.sidOfPath p cfg = .ok x :=
  c05_roundtrip c cfg pc hpc hwf hex x p _ _ (admissible_of_B c pc x p hB) (eq_ok_of_test _ _ hp)

def demoCtx : Ctx := ⟨demoConf, demoEnv⟩

/-- the path template of a Sid's type in a path configuration -/
def tplOf (pc : PathConf) (x : Sid) : Template := (pc.resolver.lookup x.type).getD []

/-- the `key_types` entry of a Sid's basetype in the shipped configuration -/
def ktsOf (x : Sid) : List Str :=
  (demoConf.sid.keyTypes.lookup (((Str.splitStr x.type demoConf.sid.sep).head?).getD [])).getD []

/-- `asset__file:hamlet/a/char/ophelia/model/v001/w/ma` -/
def xAssetFile : Sid := ⟨['h','a','m','l','e','t','/','a','/','c','h','a','r','/','o','p','h','e','l','i','a','/','m','o','d','e','l','/','v','0','0','1','/','w','/','m','a'],
  ['a','s','s','e','t','_','_','f','i','l','e'],
  [(['p','r','o','j','e','c','t'], ['h','a','m','l','e','t']), (['t','y','p','e'], ['a']), (['a','s','s','e','t','t','y','p','e'], ['c','h','a','r']), (['a','s','s','e','t'], ['o','p','h','e','l','i','a']), (['t','a','s','k'], ['m','o','d','e','l']), (['v','e','r','s','i','o','n'], ['v','0','0','1']), (['s','t','a','t','e'], ['w']), (['e','x','t'], ['m','a'])]⟩
/-- `/R/data/testing/SPIL_PROJECTS/LOCAL/PROJECTS/HAMLET/PROD/ASSETS/char/ophelia/model/v001/char_ophelia_model_WORK_v001.ma` -/
def xAssetFilePath : Str := ['/','R','/','d','a','t','a','/','t','e','s','t','i','n','g','/','S','P','I','L','_','P','R','O','J','E','C','T','S','/','L','O','C','A','L','/','P','R','O','J','E','C','T','S','/','H','A','M','L','E','T','/','P','R','O','D','/','A','S','S','E','T','S','/','c','h','a','r','/','o','p','h','e','l','i','a','/','m','o','d','e','l','/','v','0','0','1','/','c','h','a','r','_','o','p','h','e','l','i','a','_','m','o','d','e','l','_','W','O','R','K','_','v','0','0','1','.','m','a']
/-- `shot__cache_node_file:hamlet/s/sq001/sh0010/fx/v002/p/smoke_sim/vdb` -/
def xShotCacheNode : Sid := ⟨['h','a','m','l','e','t','/','s','/','s','q','0','0','1','/','s','h','0','0','1','0','/','f','x','/','v','0','0','2','/','p','/','s','m','o','k','e','_','s','i','m','/','v','d','b'],
  ['s','h','o','t','_','_','c','a','c','h','e','_','n','o','d','e','_','f','i','l','e'],
  [(['p','r','o','j','e','c','t'], ['h','a','m','l','e','t']), (['t','y','p','e'], ['s']), (['s','e','q','u','e','n','c','e'], ['s','q','0','0','1']), (['s','h','o','t'], ['s','h','0','0','1','0']), (['t','a','s','k'], ['f','x']), (['v','e','r','s','i','o','n'], ['v','0','0','2']), (['s','t','a','t','e'], ['p']), (['n','o','d','e'], ['s','m','o','k','e','_','s','i','m']), (['e','x','t'], ['v','d','b'])]⟩
/-- `/R/data/testing/SPIL_PROJECTS/LOCAL/PROJECTS/HAMLET/PROD/SHOTS/sq001/sq001_sh0010/fx/v002/EXPORT/sq001_sh0010_fx_smoke_sim_PUBLISH_v002.vdb` -/
def xShotCacheNodePath : Str := ['/','R','/','d','a','t','a','/','t','e','s','t','i','n','g','/','S','P','I','L','_','P','R','O','J','E','C','T','S','/','L','O','C','A','L','/','P','R','O','J','E','C','T','S','/','H','A','M','L','E','T','/','P','R','O','D','/','S','H','O','T','S','/','s','q','0','0','1','/','s','q','0','0','1','_','s','h','0','0','1','0','/','f','x','/','v','0','0','2','/','E','X','P','O','R','T','/','s','q','0','0','1','_','s','h','0','0','1','0','_','f','x','_','s','m','o','k','e','_','s','i','m','_','P','U','B','L','I','S','H','_','v','0','0','2','.','v','d','b']
/-- `shot__cache_file:hamlet/s/sq001/sh0010/fx/v002/p/vdb` -/
def xShotCache : Sid := ⟨['h','a','m','l','e','t','/','s','/','s','q','0','0','1','/','s','h','0','0','1','0','/','f','x','/','v','0','0','2','/','p','/','v','d','b'],
  ['s','h','o','t','_','_','c','a','c','h','e','_','f','i','l','e'],
  [(['p','r','o','j','e','c','t'], ['h','a','m','l','e','t']), (['t','y','p','e'], ['s']), (['s','e','q','u','e','n','c','e'], ['s','q','0','0','1']), (['s','h','o','t'], ['s','h','0','0','1','0']), (['t','a','s','k'], ['f','x']), (['v','e','r','s','i','o','n'], ['v','0','0','2']), (['s','t','a','t','e'], ['p']), (['e','x','t'], ['v','d','b'])]⟩
/-- `/R/data/testing/SPIL_PROJECTS/SERVER/PROJECTS/HAMLET/PROD/SHOTS/sq001/sq001_sh0010/fx/v002/EXPORT/sq001_sh0010_PUBLISH_v002.vdb` -/
def xShotCachePath : Str := ['/','R','/','d','a','t','a','/','t','e','s','t','i','n','g','/','S','P','I','L','_','P','R','O','J','E','C','T','S','/','S','E','R','V','E','R','/','P','R','O','J','E','C','T','S','/','H','A','M','L','E','T','/','P','R','O','D','/','S','H','O','T','S','/','s','q','0','0','1','/','s','q','0','0','1','_','s','h','0','0','1','0','/','f','x','/','v','0','0','2','/','E','X','P','O','R','T','/','s','q','0','0','1','_','s','h','0','0','1','0','_','P','U','B','L','I','S','H','_','v','0','0','2','.','v','d','b']

theorem ex_assetFile_admissible :
    Admissible demoCtx demoPath_local (tplOf demoPath_local xAssetFile) (ktsOf xAssetFile)
      xAssetFile xAssetFilePath where
  tpl := by decide +kernel
  keyTypes := by decide +kernel
  order := by decide +kernel
  nodup := by decide +kernel
  back := by decide +kernel
  values := by decide +kernel
  concrete := by decide +kernel
  normal := by decide +kernel
  str := eq_ok_of_test _ _ (by decide +kernel)
  strNe := by decide

/-- an asset file in the default (`local`) configuration -/
theorem ex_roundtrip_assetFile : demoCtx.sidOfPath xAssetFilePath none = .ok xAssetFile :=
  c05_roundtrip demoCtx none demoPath_local (by decide +kernel) (pathTplsOk_of_confOk _ _ Tie.demo_path_wf_local)
    Tie.demo_paths_exclusive_local xAssetFile xAssetFilePath _ _ ex_assetFile_admissible
    (eq_ok_of_test _ _ (by decide +kernel))

theorem ex_shotCacheNode_admissible :
    Admissible demoCtx demoPath_local (tplOf demoPath_local xShotCacheNode) (ktsOf xShotCacheNode)
      xShotCacheNode xShotCacheNodePath where
  tpl := by decide +kernel
  keyTypes := by decide +kernel
  order := by decide +kernel
  nodup := by decide +kernel
  back := by decide +kernel
  values := by decide +kernel
  concrete := by decide +kernel
  normal := by decide +kernel
  str := eq_ok_of_test _ _ (by decide +kernel)
  strNe := by decide

/-- a shot cache-node file (its template is the 11th of 19 tried; the free `node` value contains
    the separator '_') -/
theorem ex_roundtrip_shotCacheNode :
    demoCtx.sidOfPath xShotCacheNodePath none = .ok xShotCacheNode :=
  c05_roundtrip demoCtx none demoPath_local (by decide +kernel) (pathTplsOk_of_confOk _ _ Tie.demo_path_wf_local)
    Tie.demo_paths_exclusive_local xShotCacheNode xShotCacheNodePath _ _
    ex_shotCacheNode_admissible (eq_ok_of_test _ _ (by decide +kernel))

theorem ex_shotCache_admissible :
    Admissible demoCtx demoPath_server (tplOf demoPath_server xShotCache) (ktsOf xShotCache)
      xShotCache xShotCachePath where
  tpl := by decide +kernel
  keyTypes := by decide +kernel
  order := by decide +kernel
  nodup := by decide +kernel
  back := by decide +kernel
  values := by decide +kernel
  concrete := by decide +kernel
  normal := by decide +kernel
  str := eq_ok_of_test _ _ (by decide +kernel)
  strNe := by decide

/-- a shot cache file in the `server` configuration: the EARLIER template `shot__cache_node_file`
    differs from its own only by `{task}_{node}_` in the file name -/
theorem ex_roundtrip_shotCache :
    demoCtx.sidOfPath xShotCachePath (some ['s','e','r','v','e','r']) = .ok xShotCache :=
  c05_roundtrip demoCtx (some ['s','e','r','v','e','r']) demoPath_server (by decide +kernel)
    (pathTplsOk_of_confOk _ _ Tie.demo_path_wf_server) Tie.demo_paths_exclusive_server xShotCache xShotCachePath _ _
    ex_shotCache_admissible (eq_ok_of_test _ _ (by decide +kernel))

end Demo

end C05
