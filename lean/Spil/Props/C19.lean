/-
  Spil.Props.C19 — "Template extrapolation gives every level of every hierarchy one well-named type".

  Theorems about the model of `spil.conf.util.extrapolate_templates` / `pattern_replacing`
  (`ConfUtil.extrapolateTemplates`, `ConfUtil.patternReplacing`), for EVERY template table with
  distinct type names, every list of types to extrapolate and every separator.
-/
import Spil.Model.Conf
import Spil.Lemmas.ConfUtil

namespace C19

open ConfUtil

def names (l : List (Str × Str)) : List Str := l.map (·.1)
def tpls (l : List (Str × Str)) : List Str := l.map (·.2)

/-- the proper, non-empty '/'-prefixes of a template, longest first -/
def properPrefixes (template : Str) : List Str :=
  let parts := Str.splitOn '/' template
  ((List.range (parts.length - 1)).reverse).map (fun k => Str.joinWith '/' (parts.take (k + 1)))

/-- the name given to the prefix `q` of a template of type `ty`:
    `ty` without its trailing keytype, followed by the key of the last placeholder of `q` -/
def prefixName (sep ty q : Str) : Str :=
  ty.take (ty.length - (keytypeOf sep ty).length) ++ keyOfPart (((Str.splitOn '/' q).getLast?).getD [])

/-- bridge: in the interleaved result, explicit entries satisfy the "explicit name" predicate and
    block entries do not -/
theorem ts_zip_pred (sep : Str) (ts : List (Str × Str)) (ex : List Str)
    (blocks : List (List (Str × Str)))
    (hg : GoSpec sep ex ts ts [] (extrapolateTemplates sep ts ex) blocks) :
    ∀ pb ∈ ts.zip blocks, (names ts).contains pb.1.1 = true ∧
      ∀ q ∈ pb.2, (names ts).contains q.1 = false := by
  intro pb hpb
  constructor
  · exact List.contains_iff_mem.2 (List.mem_map.2 ⟨pb.1, (List.of_mem_zip hpb).1, rfl⟩)
  · intro q hq
    have := ((hg.blk pb hpb).2.2 q hq).2.1
    cases h : (names ts).contains q.1
    · rfl
    · exact absurd (List.contains_iff_mem.1 h) this

/-- every explicitly configured type survives with its template and relative order -/
theorem c19_keeps (sep : Str) (ts : List (Str × Str)) (ex : List Str) (hd : (names ts).Nodup) :
    (extrapolateTemplates sep ts ex).filter (fun p => (names ts).contains p.1) = ts := by
  obtain ⟨blocks, hg⟩ := extrapolateTemplates_spec sep ts ex hd
  rw [hg.eq, List.nil_append]
  exact filter_interleave _ ts blocks hg.len (fun pb hpb => ts_zip_pred sep ts ex blocks hg pb hpb)

/-- no duplicate type names in the result -/
theorem c19_nodup_names (sep : Str) (ts : List (Str × Str)) (ex : List Str) (hd : (names ts).Nodup) :
    (names (extrapolateTemplates sep ts ex)).Nodup := by
  obtain ⟨blocks, hg⟩ := extrapolateTemplates_spec sep ts ex hd
  exact hg.ndN

/-- the added entries carry pairwise distinct templates, none of which is an explicit template -/
theorem c19_nodup_templates (sep : Str) (ts : List (Str × Str)) (ex : List Str) (hd : (names ts).Nodup) :
    let added := (extrapolateTemplates sep ts ex).filter (fun p => !(names ts).contains p.1)
    (tpls added).Nodup ∧ ∀ p ∈ added, p.2 ∉ tpls ts := by
  obtain ⟨blocks, hg⟩ := extrapolateTemplates_spec sep ts ex hd
  refine ⟨hg.ndT, ?_⟩
  intro p hp
  obtain ⟨hp1, hp2⟩ := List.mem_filter.1 hp
  rw [hg.eq, List.nil_append] at hp1
  obtain ⟨pb, hpb, h | h⟩ := mem_interleave hp1
  · have hm : pb.1 ∈ ts := (List.of_mem_zip hpb).1
    have : (names ts).contains p.1 = true :=
      List.contains_iff_mem.2 (List.mem_map.2 ⟨pb.1, hm, by rw [h]⟩)
    rw [this] at hp2; simp at hp2
  · exact ((hg.blk pb hpb).2.2 p h).2.2

/-- placement, origin, naming and order: the result is the explicit table with one block inserted
    directly after each entry; the block is empty unless the type is extrapolated; its templates
    are proper '/'-prefixes of the entry's template listed from longest to shortest (a sublist of
    `properPrefixes`), each named `prefixName`; nothing else is added. -/
theorem c19_blocks (sep : Str) (ts : List (Str × Str)) (ex : List Str) (hd : (names ts).Nodup) :
    ∃ blocks : List (List (Str × Str)), blocks.length = ts.length ∧
      extrapolateTemplates sep ts ex = (ts.zip blocks).flatMap (fun pb => pb.1 :: pb.2) ∧
      ∀ pb ∈ ts.zip blocks,
        (ex.contains pb.1.1 = false → pb.2 = []) ∧
        (tpls pb.2).Sublist (properPrefixes pb.1.2) ∧
        ∀ q ∈ pb.2, q.1 = prefixName sep pb.1.1 q.2 := by
  obtain ⟨blocks, hg⟩ := extrapolateTemplates_spec sep ts ex hd
  refine ⟨blocks, hg.len, by rw [hg.eq, List.nil_append], ?_⟩
  intro pb hpb
  obtain ⟨h1, h2, h3⟩ := hg.blk pb hpb
  exact ⟨h1, h2, fun q hq => (h3 q hq).1⟩

/-- completeness: every proper prefix of an extrapolated type's template is owned by some type of
    the result, unless the name it would get is taken -/
theorem c19_complete (sep : Str) (ts : List (Str × Str)) (ex : List Str) (hd : (names ts).Nodup)
    (ty t : Str) (hmem : (ty, t) ∈ ts) (hex : ty ∈ ex) (q : Str) (hq : q ∈ properPrefixes t) :
    q ∈ tpls (extrapolateTemplates sep ts ex) ∨
    prefixName sep ty q ∈ names (extrapolateTemplates sep ts ex) := by
  have hsub : ∀ x ∈ ts, x ∈ extrapolateTemplates sep ts ex := by
    intro x hx
    rw [← c19_keeps sep ts ex hd] at hx
    exact (List.mem_filter.1 hx).1
  obtain ⟨blocks, hg⟩ := extrapolateTemplates_spec sep ts ex hd
  rcases hg.compl (ty, t) hmem hex q hq with h | h | h | h
  · obtain ⟨x, hx, e⟩ := List.mem_map.1 h
    exact Or.inl (List.mem_map.2 ⟨x, hsub x hx, e⟩)
  · exact Or.inl h
  · obtain ⟨x, hx, e⟩ := List.mem_map.1 h
    exact Or.inr (List.mem_map.2 ⟨x, hsub x hx, e⟩)
  · exact Or.inr h

/-- pattern replacement keeps names and order -/
theorem c19_replace_names (ts : List (Str × Str)) (kp : List (Str × List (Str × Str))) :
    names (patternReplacing ts kp) = names ts := by
  rw [patternReplacing_eq]
  simp [names, List.map_map, Function.comp_def]

/-- pattern replacement leaves a template identical unless one of the selectors occurs in its type name -/
theorem c19_replace_scoped (ts : List (Str × Str)) (kp : List (Str × List (Str × Str)))
    (ty t : Str) (hmem : (ty, t) ∈ ts) (hsel : ∀ m ∈ kp.map (·.1), Str.isInfix m ty = false) :
    (ty, t) ∈ patternReplacing ts kp := by
  rw [patternReplacing_eq]
  refine List.mem_map.2 ⟨(ty, t), hmem, ?_⟩
  simp only [replaceForType_of_no_sel kp ty t hsel]

/-- positional form: each template is rewritten by the replacements of the matching selectors only -/
theorem c19_replace_pointwise (ts : List (Str × Str)) (kp : List (Str × List (Str × Str))) :
    patternReplacing ts kp =
      ts.map (fun p => (p.1, (kp.filter (fun m => Str.isInfix m.1 p.1)).foldl
        (fun t m => applyReplacements t m.2) p.2)) := by
  rw [patternReplacing_eq]
  exact List.map_congr_left (fun p _ => by rw [replaceForType_eq])

/-- non-vacuity / regression witness for the repaired naming (defect D12): extrapolating
    `shot__shot` names the prefixes after the basetype, not by rewriting it -/
example :
    names (extrapolateTemplates ['_','_']
      [(['s','h','o','t','_','_','s','h','o','t'],
        ['{','p','}','/','{','t',':','s','}','/','{','q','}','/','{','s','h','o','t','}'])]
      [['s','h','o','t','_','_','s','h','o','t']]) =
    [['s','h','o','t','_','_','s','h','o','t'], ['s','h','o','t','_','_','q'],
     ['s','h','o','t','_','_','t'], ['s','h','o','t','_','_','p']] := by decide

end C19
