/-
  Spil.Props.Examples — non-vacuity: the hypotheses of the property theorems are met by concrete,
  non-trivial instances of the SHIPPED configuration (re-checked by the kernel on every run against
  the regenerated `DemoConf.lean`), and canonicity of entity paths (the hypothesis of
  `C12.c12_parent_exists`) is discharged for templates rooted at an absolute literal.
-/
import Spil.Generated.DemoConf
import Spil.Props.C02
import Spil.Props.C04
import Spil.Props.C15
import Spil.Props.Tie
import Spil.Lemmas.Canon

namespace Examples

open Spec Generated

def demoCtx : Ctx := ⟨demoConf, demoEnv⟩

/-- "hamlet/a/char" -/
def sAssettype : Str := ['h','a','m','l','e','t','/','a','/','c','h','a','r']
/-- "hamlet/s/sq001/sh0010/anim/v001/w/ma" -/
def sShotFile : Str := ['h','a','m','l','e','t','/','s','/','s','q','0','0','1','/','s','h','0','0','1','0','/','a','n','i','m','/','v','0','0','1','/','w','/','m','a']
/-- "hamlet/*/*" : a search string two basetypes accept -/
def sAmbiguous : Str := ['h','a','m','l','e','t','/','*','/','*']

/-- the shipped table types these strings (first accepting template), i.e. the `natural` hypothesis
    of C02 / C03 is inhabited by concrete and by search Sids -/
theorem ex_natural_assettype : (plainSid demoEnv demoConf.sid.templates sAssettype).type =
    ['a','s','s','e','t','_','_','a','s','s','e','t','t','y','p','e'] := by decide +kernel

theorem ex_natural_shotfile : (plainSid demoEnv demoConf.sid.templates sShotFile).type =
    ['s','h','o','t','_','_','f','i','l','e'] := by decide +kernel

theorem ex_natural_search : (plainSid demoEnv demoConf.sid.templates sAmbiguous).typed = true := by decide +kernel

/-- the Sid prescribed for a plain string carries that very string -/
theorem plainSid_string (e : Env) (ts : List (Str × Template)) (s : Str) : (plainSid e ts s).string = s := by
  unfold plainSid
  split <;> rfl

/-- `natural` and `wellTyped` hold for them -/
theorem ex_natural (s : Str) (h : (plainSid demoEnv demoConf.sid.templates s).typed = true) :
    natural demoEnv demoConf.sid.templates (plainSid demoEnv demoConf.sid.templates s) := by
  refine ⟨h, ?_⟩
  rw [plainSid_string]

/-- C01 instantiated: the operational model gives that very Sid -/
theorem ex_c01 : demoCtx.sidOfString sShotFile = .ok (plainSid demoEnv demoConf.sid.templates sShotFile) :=
  C01.c01_plain demoCtx (HierL.hier_unpack _ _ Tie.demo_wf).1 sShotFile (by decide) (by decide) (by decide)

/-- C03 instantiated on the shipped configuration: the parent of the shot file is its state -/
theorem ex_c03_parent : ∃ p, demoCtx.parent (plainSid demoEnv demoConf.sid.templates sShotFile) = .ok p ∧
    p.fields.length = 7 := by
  have h : (match demoCtx.parent (plainSid demoEnv demoConf.sid.templates sShotFile) with
      | .ok p => p.fields.length == 7
      | .error _ => false) = true := by decide +kernel
  split at h
  · next p hp => exact ⟨p, hp, by simpa using h⟩
  · cases h

end Examples

namespace C12

open Spec

/-- `str(PurePosixPath(p))` of a string that starts with exactly one '/' and has at least one real
    component is a canonical absolute path -/
theorem normalize_canon (p : Str) (h1 : PurePath.leadingSlashes p = 1)
    (hc : ((Str.splitOn '/' p).filter PurePath.keep) ≠ []) : CanonPath (PurePath.normalize p) :=
  CanonL.normalize_canon p h1 hc

/-- the hypothesis of `c12_parent_exists`, discharged: every path `Sid.path` returns is canonical
    as soon as every path template of the configuration starts with a literal "/x…" (an absolute
    root, `x` neither '/' nor '.') — which `rootedOk` decides -/
-- CHANGED: `rootedOk` additionally requires `c != '.'`.  With the original test (`c != '/'` only)
-- the statement `c12_paths_canonical` is false: see `rootedOk_orig_counterexample` below (a
-- template "/.{a}" with `a = ""` formats to "/.", which `PurePosixPath` normalises to "/").
def rootedOk (pc : PathConf) : Bool :=
  pc.templates.all (fun lt => match lt.2 with
    | .lit ('/' :: c :: _) :: _ => c != '/' && c != '.'
    | _ => false)

/-- the test as originally stated (kept only to record the counterexample) -/
def rootedOkOrig (pc : PathConf) : Bool :=
  pc.templates.all (fun lt => match lt.2 with
    | .lit ('/' :: c :: _) :: _ => c != '/'
    | _ => false)

/-- a configuration with the single path template "/.{a:[^/]*}" -/
def cexCtx : Ctx :=
  { cfg := { sid := { sep := ['_','_'], searchSymbols := [], templates := [], keyTypes := [], leafKeys := [],
                      extensionAlias := [], basetypedNarrowing := [], typedNarrowing := [] }
             paths := [{ name := ['l'], templates := [(['t'], [.lit ['/','.'], .ph ['a'] (Re.star Cls.notSlash)])],
                         mapping := [], defaults := [], searchMapping := [] }]
             defaultPath := ['l'], dataSuffix := [] }
    env := { isDigit := fun _ => false } }

/-- counterexample to the original statement: the original test accepts the configuration, yet the
    Sid `t` with field `a = ""` has path "/", which is not a canonical entity path -/
theorem rootedOk_orig_counterexample :
    cexCtx.cfg.paths.all rootedOkOrig = true ∧
    cexCtx.sidPath none ⟨[], ['t'], [(['a'], [])]⟩ = .ok (some ['/']) ∧ ¬ CanonPath ['/'] := by
  have h : (match cexCtx.sidPath none ⟨[], ['t'], [(['a'], [])]⟩ with
      | .ok (some p) => p == ['/']
      | _ => false) = true := by decide +kernel
  refine ⟨by decide +kernel, ?_, ?_⟩
  · split at h
    · next p hp => rw [hp]; simp only [beq_iff_eq] at h; rw [h]
    · cases h
  rintro ⟨comps, hne, hok, heq⟩
  cases comps with
  | nil => exact hne rfl
  | cons a rest =>
    have ha := (hok a (by simp)).1
    cases a with
    | nil => exact ha rfl
    | cons x xs =>
      cases rest with
      | nil => simp [Str.joinWith] at heq
      | cons b bs => simp [Str.joinWith] at heq

theorem rootedOk_unpack (pc : PathConf) (h : rootedOk pc = true) (l : Str) (t : Template)
    (hm : (l, t) ∈ pc.templates) :
    ∃ c s rest, t = .lit ('/' :: c :: s) :: rest ∧ c ≠ '/' ∧ c ≠ '.' := by
  unfold rootedOk at h
  rw [List.all_eq_true] at h
  have := h (l, t) hm
  simp only at this
  split at this
  · next c s rest =>
    simp only [Bool.and_eq_true, bne_iff_ne, ne_eq] at this
    exact ⟨c, s, rest, rfl, this.1, this.2⟩
  · cases this

theorem c12_paths_canonical (c : Ctx) (hroot : c.cfg.paths.all rootedOk = true)
    (cfg : Option Str) (x : Sid) (path : Str) (h : c.sidPath cfg x = .ok (some path)) : CanonPath path := by
  obtain ⟨pc, t, d, raw, hpc, ht, hf, rfl⟩ := CanonL.sidPath_ok c cfg x path h
  rw [List.all_eq_true] at hroot
  obtain ⟨ch, s, rest, rfl, h1, h2⟩ := rootedOk_unpack pc (hroot pc hpc) _ _ ht
  obtain ⟨r, rfl⟩ := CanonL.format_lit_prefix _ _ _ _ hf
  exact CanonL.normalize_rooted ch (s ++ r) h1 h2

/-- the shipped path configurations are rooted -/
theorem demo_rooted : Generated.demoConf.paths.all rootedOk = true := by decide +kernel

/-- whatever exists has an existing parent, with the canonicity hypothesis discharged -/
theorem c12_parent_exists_rooted (d : DCtx) (hroot : d.ctx.cfg.paths.all rootedOk = true) (ops : List WOp) :
    TreeOk (runOps d World.empty ops) :=
  c12_parent_exists d ops (fun config x path h => c12_paths_canonical d.ctx hroot config x path h)

end C12
