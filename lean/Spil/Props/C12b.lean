/-
  Spil.Props.C12b — "children() equal the set of existing Sids whose parent is the Sid" (C12), for
  levels served from the file system.

  `sid.children()` is `FindInAll().find(sid / '*')`.  Composition of
    * the routing of FindInAll (`C11.c11_all_paths_dedup`),
    * the exact characterisation of the path star search (`C11.c11_star_list_mem`),
    * the glob relation of C08 read on the search `<string of the Sid>/*` (`glob_child`: a string is
      matched exactly when it is the Sid's string plus ONE further segment),
    * completeness of the rendered glob pattern (`C11.c11_complete`).

  `c12_children_char`  : what children() returns, exactly (existing paths, typed Sids, per searched type);
  `c12_children_parent`: every child's string is the Sid's string plus one segment — its PARENT string
                         is the Sid's string, nothing deeper, nothing shallower, no other branch;
  `c12_children_complete`: every existing entity (a node of the tree that round-trips, C05) of a
                         searched type whose string is the Sid's string plus one segment IS a child;
  `c12_children_nodup` : nothing is listed twice;
  `c12_siblings_char`  : the same exact characterisation for `siblings_as(key)` / `siblings()`.
-/
import Spil.Props.C11b
import Spil.Props.C11c

namespace C12

open Spec C11 GlobL World

variable (d : DCtx)

/-! ### the search `<literal>/*` -/

/-- `Glob ['*'] seg` holds exactly for a '/'-free `seg` -/
theorem glob_star_only (seg : Str) : Glob ['*'] seg ↔ '/' ∉ seg := by
  induction seg with
  | nil => simp [glob_star_nil, glob_nil]
  | cons c cs ih =>
    rw [glob_star_cons, ih, glob_nil]
    constructor
    · rintro (⟨hc, h⟩ | h)
      · intro hm
        rcases List.mem_cons.1 hm with hm | hm
        · exact hc hm.symm
        · exact h hm
      · cases h
    · intro h
      exact Or.inl ⟨fun hc => h (by rw [hc]; exact List.mem_cons_self), fun hm => h (List.mem_cons_of_mem _ hm)⟩

/-- the search `a/*` for a wildcard-free `a` matches exactly `a` plus ONE further segment -/
theorem glob_child (a y : Str) (ha : ∀ ch ∈ a, ch ≠ '*' ∧ ch ≠ '?' ∧ ch ≠ '[') :
    Glob (a ++ ['/', '*']) y ↔ ∃ seg, '/' ∉ seg ∧ y = a ++ '/' :: seg := by
  induction a generalizing y with
  | nil =>
    simp only [List.nil_append]
    rw [glob_lit '/' ['*'] y (by decide) (by decide) (by decide)]
    constructor
    · rintro ⟨s', rfl, h⟩
      exact ⟨s', (glob_star_only s').1 h, rfl⟩
    · rintro ⟨seg, hs, rfl⟩
      exact ⟨seg, rfl, (glob_star_only seg).2 hs⟩
  | cons c cs ih =>
    have hc := ha c List.mem_cons_self
    have hcs : ∀ ch ∈ cs, ch ≠ '*' ∧ ch ≠ '?' ∧ ch ≠ '[' := fun ch h => ha ch (List.mem_cons_of_mem _ h)
    simp only [List.cons_append]
    rw [glob_lit c _ y hc.1 hc.2.1 hc.2.2]
    constructor
    · rintro ⟨s', rfl, h⟩
      obtain ⟨seg, hs, rfl⟩ := (ih s' hcs).1 h
      exact ⟨seg, hs, rfl⟩
    · rintro ⟨seg, hs, rfl⟩
      exact ⟨cs ++ '/' :: seg, rfl, (ih _ hcs).2 ⟨seg, hs, rfl⟩⟩

/-- `a/*` is a whole-segment star search when `a` is wildcard-free -/
theorem wholeStar_child (a : Str) (ha : ∀ ch ∈ a, ch ≠ '*' ∧ ch ≠ '?' ∧ ch ≠ '[') : wholeStar (a ++ ['/', '*']) := by
  intro seg hseg
  rw [GlobL.splitOn_append_sep_gen '/' a ['*']] at hseg
  rcases List.mem_append.1 hseg with h | h
  · right
    exact ⟨fun hm => (ha _ (GlobL.mem_of_mem_splitOn '/' a seg '*' h hm)).1 rfl,
           fun hm => (ha _ (GlobL.mem_of_mem_splitOn '/' a seg '?' h hm)).2.1 rfl⟩
  · left
    have : Str.splitOn '/' ['*'] = [['*']] := by decide
    rw [this] at h
    simpa using h

/-! ### children() -/

/-- the hypotheses under which `x.children()` is served by the path Finder of configuration
    `config`: `x` is not a leaf, `x / '*'` is the Sid `s`, its string unfolds into the typed searches
    `searches` (none with '>'), all routed to the path Finder number `i`; each typed search has a
    path pattern or none (`hsp`), no `[` (known finding K2), and `Sid(path=…)` raises on no node of the
    tree (property C06: `C11.c11_total_of_wf`). -/
structure ChildrenServed (w : World) (x s : Sid) (searches : List Sid) (i : Nat) (config : Option Str) : Prop where
  not_leaf : d.ctx.isLeaf x = false
  div : d.ctx.div x ['*'] = .ok s
  unfold : d.ctx.unfoldSearch s.string false false = .ok searches
  routed : ∀ s' ∈ searches, d.finderFor s' = some i
  finder : d.data.finders[i]? = some (.paths config)
  no_gt : ∀ s' ∈ searches, Str.hasChar '>' s'.string = false
  has_path : ∀ s' ∈ searches, ∃ po, d.ctx.sidPath config s' = .ok po
  no_bracket : ∀ s' ∈ searches, '[' ∉ s'.string
  total : ∀ p ∈ w.nodes.map (·.1), ∃ y, d.ctx.sidOfPath p config = .ok y

/-- what `FindInAll().find(str)` returns for a star search served by the path Finder -/
theorem find_all_char (w : World) (str : Str) (searches : List Sid) (i : Nat) (config : Option Str)
    (hu : d.ctx.unfoldSearch str false false = .ok searches)
    (hr : ∀ s' ∈ searches, d.finderFor s' = some i)
    (hi : d.data.finders[i]? = some (.paths config))
    (hgt : ∀ s' ∈ searches, Str.hasChar '>' s'.string = false)
    (hsp : ∀ s' ∈ searches, ∃ po, d.ctx.sidPath config s' = .ok po)
    (hgm : ∀ s' ∈ searches, '[' ∉ s'.string)
    (htot : ∀ p ∈ w.nodes.map (·.1), ∃ y, d.ctx.sidOfPath p config = .ok y) :
    ∃ r, d.findInAll w str = .ok r ∧ r.Nodup ∧
      ∀ y, y ∈ r ↔ ∃ s' ∈ searches, ∃ p ∈ w.glob (patOf d config s'), ∃ e,
        d.ctx.sidOfPath p config = .ok e ∧ e.typed = true ∧ e.type = s'.type ∧
        Find.globMatch d.ctx.env s'.string e.string = .ok true ∧ e.string = y := by
  obtain ⟨rs, hrs, _, hmem⟩ := c11_star_list_mem d w config searches hsp hgm htot
  have hall := c11_all_paths_dedup d w str searches i config hu hr hi
  have hpd : d.pathsDoFind w config searches = .ok (rs.map (·.string)) := by
    cases hse : searches with
    | nil =>
      subst hse
      have : d.pathsStarSids w config [] = .ok [] := rfl
      rw [this] at hrs
      cases hrs
      rfl
    | cons a l =>
      unfold DCtx.pathsDoFind
      rw [← hse, AllL.doFindWith_star d _ _ (by rw [hse]; simp) hgt]
      unfold DCtx.pathsStar
      rw [hrs]
      rfl
  rw [hpd] at hall
  refine ⟨Lst.dedupBy (· == ·) (rs.map (·.string)), by rw [hall]; rfl, Lst.dedupBy_nodup _, fun y => ?_⟩
  rw [Lst.mem_dedupBy, List.mem_map]
  constructor
  · rintro ⟨e, he, rfl⟩
    obtain ⟨s', hs', p, hp, h1, h2, h3, h4⟩ := (hmem e).1 he
    exact ⟨s', hs', p, hp, e, h1, h2, h3, h4, rfl⟩
  · rintro ⟨s', hs', p, hp, e, h1, h2, h3, h4, rfl⟩
    exact ⟨e, (hmem e).2 ⟨s', hs', p, hp, h1, h2, h3, h4⟩, rfl⟩

/-- EXACT CHARACTERISATION.  `x.children()` succeeds and returns exactly the strings of the typed
    Sids built from the existing paths that the glob pattern of one of the typed searches globs, of
    that search's type, whose string the search string matches. -/
theorem c12_children_char (w : World) (x s : Sid) (searches : List Sid) (i : Nat) (config : Option Str)
    (h : ChildrenServed d w x s searches i config) :
    ∃ r, d.children w x = .ok r ∧ r.Nodup ∧
      ∀ y, y ∈ r ↔ ∃ s' ∈ searches, ∃ p ∈ w.glob (patOf d config s'), ∃ e,
        d.ctx.sidOfPath p config = .ok e ∧ e.typed = true ∧ e.type = s'.type ∧
        Find.globMatch d.ctx.env s'.string e.string = .ok true ∧ e.string = y := by
  obtain ⟨hleaf, hdiv, hu, hr, hi, hgt, hsp, hgm, htot⟩ := h
  have hch : d.children w x = d.findInAll w s.string := by
    unfold DCtx.children
    rw [hleaf, hdiv]
    rfl
  rw [hch]
  exact find_all_char d w s.string searches i config hu hr hi hgt hsp hgm htot

/-- `x.siblings_as(key)` (and `siblings()` for `key = keytype`): `FindInAll().find` of `x.get_as(key)` with
    the value of `key` starred — the same characterisation, for the typed searches of THAT search -/
theorem c12_siblings_char (w : World) (x a s : Sid) (key : Str) (searches : List Sid) (i : Nat) (config : Option Str)
    (hk : x.fields.hasKey key = true)
    (hga : d.ctx.getAs x key = .ok a)
    (hgw : d.ctx.getWithKw a [(key, some ['*'])] = .ok s)
    (hu : d.ctx.unfoldSearch s.string false false = .ok searches)
    (hr : ∀ s' ∈ searches, d.finderFor s' = some i)
    (hi : d.data.finders[i]? = some (.paths config))
    (hgt : ∀ s' ∈ searches, Str.hasChar '>' s'.string = false)
    (hsp : ∀ s' ∈ searches, ∃ po, d.ctx.sidPath config s' = .ok po)
    (hgm : ∀ s' ∈ searches, '[' ∉ s'.string)
    (htot : ∀ p ∈ w.nodes.map (·.1), ∃ y, d.ctx.sidOfPath p config = .ok y) :
    ∃ r, d.siblingsAs w x key = .ok r ∧ r.Nodup ∧
      ∀ y, y ∈ r ↔ ∃ s' ∈ searches, ∃ p ∈ w.glob (patOf d config s'), ∃ e,
        d.ctx.sidOfPath p config = .ok e ∧ e.typed = true ∧ e.type = s'.type ∧
        Find.globMatch d.ctx.env s'.string e.string = .ok true ∧ e.string = y := by
  have hsb : d.siblingsAs w x key = d.findInAll w s.string := by
    unfold DCtx.siblingsAs
    rw [hk, hga]
    simp only [Bool.not_true, Bool.false_eq_true, if_false, hgw]
  rw [hsb]
  exact find_all_char d w s.string searches i config hu hr hi hgt hsp hgm htot

/-- nothing is listed twice -/
theorem c12_children_nodup (w : World) (x s : Sid) (searches : List Sid) (i : Nat) (config : Option Str)
    (h : ChildrenServed d w x s searches i config) (r : List Str) (hr : d.children w x = .ok r) : r.Nodup := by
  obtain ⟨r', hr', hn, _⟩ := c12_children_char d w x s searches i config h
  rw [hr'] at hr
  cases hr
  exact hn

/-- EVERY CHILD'S PARENT IS THE SID.  When the typed searches carry the string `<x.string>/*` (no alias, no
    ',' list, no '**' in it: `C07.c07_unfold_strings`) and `x.string` is wildcard-free, every string
    `x.children()` returns is `x.string` plus exactly ONE further segment, and is the string of a typed Sid
    that owns an existing path. -/
theorem c12_children_parent (w : World) (x s : Sid) (searches : List Sid) (i : Nat) (config : Option Str)
    (h : ChildrenServed d w x s searches i config)
    (hstr : ∀ s' ∈ searches, s'.string = x.string ++ ['/', '*'])
    (hlit : ∀ ch ∈ x.string, ch ≠ '*' ∧ ch ≠ '?' ∧ ch ≠ '[')
    (r : List Str) (hr : d.children w x = .ok r) :
    ∀ y ∈ r, (∃ seg, '/' ∉ seg ∧ y = x.string ++ '/' :: seg) ∧
      ∃ p e, p ∈ w.nodes.map (·.1) ∧ d.ctx.sidOfPath p config = .ok e ∧ e.typed = true ∧ e.string = y := by
  obtain ⟨r', hr', _, hmem⟩ := c12_children_char d w x s searches i config h
  rw [hr'] at hr
  cases hr
  intro y hy
  obtain ⟨s', hs', p, hp, e, h1, h2, _, h4, rfl⟩ := (hmem y).1 hy
  have hb : '[' ∉ s'.string := h.no_bracket s' hs'
  have hg : Glob s'.string e.string := (c11_globMatch_iff _ _ _ hb).1 h4
  rw [hstr s' hs'] at hg
  exact ⟨(glob_child x.string e.string hlit).1 hg, p, e, (GlobL.glob_sound w _ p hp).1, h1, h2, rfl⟩

/-- EVERY EXISTING SID WHOSE PARENT IS THE SID IS A CHILD.  `e` is an existing entity: its path `p` is a node
    of the tree and round-trips (`Sid(path=p) = e`, property C05); it is of the type of one of the typed
    searches `s'`, and its string is `x.string` plus one segment.  Then `x.children()` lists it.
    (`hws`, `hwe`: both are well typed; `hvals`, `hfix`, `hb`: the admissibility conditions of C11's
    completeness theorem on mapped values and on '[' in the rendered pattern.) -/
theorem c12_children_complete (w : World) (x s : Sid) (searches : List Sid) (i : Nat) (config : Option Str)
    (h : ChildrenServed d w x s searches i config)
    (hstr : ∀ s' ∈ searches, s'.string = x.string ++ ['/', '*'])
    (hlit : ∀ ch ∈ x.string, ch ≠ '*' ∧ ch ≠ '?' ∧ ch ≠ '[')
    (s' e : Sid) (pat p seg : Str) (hs' : s' ∈ searches)
    (hpat : d.ctx.sidPath config s' = .ok (some pat))
    (hws : wellTyped d.ctx.env d.ctx.cfg.sid.templates s')
    (hwe : wellTyped d.ctx.env d.ctx.cfg.sid.templates e)
    (hex : w.pathExists p = true) (hrt : d.ctx.sidOfPath p config = .ok e) (hty : e.typed = true)
    (hte : s'.type = e.type)
    (hseg : '/' ∉ seg) (hes : e.string = x.string ++ '/' :: seg)
    (hfix : ∀ pc, d.ctx.cfg.pathConf? config = some pc → starFixed pc = true)
    (hvals : entityValsOk d.ctx config e = true) (hb : '[' ∉ pat)
    (r : List Str) (hr : d.children w x = .ok r) : e.string ∈ r := by
  obtain ⟨r', hr', _, hmem⟩ := c12_children_char d w x s searches i config h
  rw [hr'] at hr
  cases hr
  have hbs : '[' ∉ s'.string := h.no_bracket s' hs'
  have hg : Glob s'.string e.string := by
    rw [hstr s' hs']
    exact (glob_child x.string e.string hlit).2 ⟨seg, hseg, hes⟩
  have hw : wholeStar s'.string := by
    rw [hstr s' hs']
    exact wholeStar_child x.string hlit
  have hsg : SidGlob s' e := c11_fields_glob d.ctx.env d.ctx.cfg.sid.templates s' e hws hwe hte hw hbs hg
  obtain ⟨rs, hrs, _, hm1⟩ := c11_star_one d w config s' pat hpat hbs h.total
  have hin : e ∈ rs := c11_complete d w config s' e pat p rs hpat hws hwe hbs hex hrt hty hsg hfix hvals hb h.total hrs
  obtain ⟨p', hp', h1, h2, h3, h4⟩ := (hm1 e).1 hin
  refine (hmem e.string).2 ⟨s', hs', p', ?_, e, h1, h2, h3, h4, rfl⟩
  rw [patOf_some d config s' pat hpat]
  exact hp'

end C12
