/-
  Spil.Props.C16b — GetFromAll: routing by type (the clause of C16 that was oracle-only).

  `GetFromAll.get` unfolds the search, asks `spil_data_conf.get_getter_for` for the Getter of each
  typed search (the probed table: types configured with `None`, the shared default
  `GetFromPaths()` otherwise) and lets each Getter answer its searches.
-/
import Spil.Model.FS

namespace C16

variable (d : DCtx)

/-- the records `GetFromPaths().do_get(searches)` yields -/
def doGetPaths (w : World) (searches : List Sid) (attrs : List Str) (enc : DCtx.Enc) :
    Except Err (List (List (Str × Option Str))) :=
  match d.pathsDoFindSids w none searches with
  | .error e => .error e
  | .ok sids => Ctx.mapE (fun x => d.recordOf w none x attrs enc) sids

theorem doGetPaths_nil (w : World) (attrs : List Str) (enc : DCtx.Enc) :
    doGetPaths d w [] attrs enc = .ok [] := by
  unfold doGetPaths DCtx.pathsDoFindSids
  simp [Ctx.mapE]

/-- GetFromAll answers with exactly what the default Getter yields for the unfolded searches whose
    type has a Getter; searches of types configured without Getter contribute nothing -/
theorem c16_all_filter (w : World) (search : Str) (attrs : List Str) (enc : DCtx.Enc) (searches : List Sid)
    (hu : d.ctx.unfoldSearch search false false = .ok searches) :
    d.getFromAll w search attrs enc = doGetPaths d w (searches.filter d.hasGetter) attrs enc := by
  unfold DCtx.getFromAll
  rw [hu]
  simp only
  split
  · next h =>
    have : searches.filter d.hasGetter = [] := by simpa using h
    rw [this, doGetPaths_nil]
  · rfl

/-- "types configured without Getter yield nothing" -/
theorem c16_all_none (w : World) (search : Str) (attrs : List Str) (enc : DCtx.Enc) (searches : List Sid)
    (hu : d.ctx.unfoldSearch search false false = .ok searches)
    (h : ∀ x ∈ searches, d.hasGetter x = false) :
    d.getFromAll w search attrs enc = .ok [] := by
  rw [c16_all_filter d w search attrs enc searches hu]
  have : searches.filter d.hasGetter = [] := by
    rw [List.filter_eq_nil_iff]
    intro x hx
    simp [h x hx]
  rw [this, doGetPaths_nil]

/-- when every unfolded search has a Getter, GetFromAll().get IS GetFromPaths().get, record for
    record and in the same order, for every search expression that `Finder.find` unfolds the same
    way (every search that is not a concrete, query-free, alias-free Sid) -/
theorem c16_all_eq_paths (w : World) (search : Str) (attrs : List Str) (enc : DCtx.Enc) (searches : List Sid)
    (hu : d.ctx.unfoldSearch search false false = .ok searches)
    (hf : d.ctx.findSearches search = .ok searches)
    (h : ∀ x ∈ searches, d.hasGetter x = true) :
    d.getFromAll w search attrs enc = d.getFromPaths w none search attrs enc := by
  rw [c16_all_filter d w search attrs enc searches hu]
  have : searches.filter d.hasGetter = searches := by
    rw [List.filter_eq_self]
    exact h
  rw [this]
  unfold DCtx.getFromPaths doGetPaths
  rw [hf]
  rfl

/-- a search the Finder does NOT shortcut is unfolded by both in the same way -/
theorem c16_find_unfolds (search : Str) (sid : Sid) (hs : d.ctx.sidOfString search = .ok sid)
    (hsearch : (sid.typed && !d.ctx.isSearch sid && !d.ctx.isAliasSearch sid && !Str.hasChar '?' sid.string) = false) :
    d.ctx.findSearches search = d.ctx.unfoldSearch search false false := by
  unfold Ctx.findSearches
  rw [hs]
  simp only [hsearch, Bool.false_eq_true, if_false]

/-- `GetFromAll().get_data(sid)`: the default Getter's record, or nothing for a type without Getter -/
theorem c16_data_all (w : World) (x : Sid) (attrs : List Str) (enc : DCtx.Enc) :
    (d.hasGetter x = true → d.getDataAll w x attrs enc = d.getData w none x attrs enc) ∧
    (d.hasGetter x = false → d.getDataAll w x attrs enc = .ok []) := by
  unfold DCtx.getDataAll
  constructor <;> intro h <;> simp [h]

end C16
