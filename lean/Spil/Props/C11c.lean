/-
  Spil.Props.C11c — C11, the FindInAll half: "FindInAll over its configured sources returns the
  same set of Sids for every search; levels that the configuration backs by constants are answered
  from those constants."

  (1) ROUTING.  `FindInAll.find` unfolds the search, groups the typed searches by the Finder
      `get_finder_for` gives them (`c11_groups_spec`), lets every Finder answer its group and
      de-duplicates the concatenation (`c11_all_groups`, `c11_all_mem`).  When every search is
      routed to one `FindInPaths(config)` the answer IS that of `FindInPaths(config).find`
      (`c11_all_paths_dedup`, `c11_all_eq_paths`).
  (2) CONSTANTS.  `FindInConstants(key, values, parent).star_search` for one typed search Sid whose
      `get_as(key)` is `root` (`ConstSearch`): (a) no '*' in the root: the root
      (`c11_const_concrete`); (b) '*' only in the key's own segment: the constant values that give
      a typed Sid, replacing the last segment (`c11_const_values`); (c) '*' above the key: the
      parent source is asked for the parent search and every found parent `fr` is completed to
      `fr/v`, `v` the fixed value of the key or every admitted constant (`c11_const_parent`,
      `c11_const_one`).  `c11_const_group`, `c11_const_find_all`: the set FindInAll returns for a
      search backed by constants is "parents found × admitted constants".
  (3) FUEL.  `DataConf.chainOk` (parent indices valid, chains acyclic) makes the fuel of the model
      irrelevant: `c11_fuel`, `c11_fuel_ge`, `c11_fuel_find`.
-/
import Spil.Lemmas.AllSid
import Spil.Lemmas.AllFuel
import Spil.Props.C08

namespace C11

open Spec AllL

variable (d : DCtx)

/-! ### (1) routing -/

/-- how `FindInAll` groups the unfolded searches (`AllL.groupsOf`): the finder indices of the
    groups are the indices the searches are routed to, each once, in first-seen order; the group of
    an index holds ALL the searches routed to it, in their original order, and is not empty; every
    routed search lies in the group of its index; an unrouted search (`get_finder_for` gives `None`)
    lies in no group -/
theorem c11_groups_spec (searches : List Sid) :
    d.groupByFinder searches [] = groupsOf d searches ∧
    (groupsOf d searches).map (·.1) = Lst.dedupBy (· == ·) (searches.filterMap d.finderFor) ∧
    ((groupsOf d searches).map (·.1)).Nodup ∧
    (∀ g ∈ groupsOf d searches,
      g.2 = searches.filter (fun s => d.finderFor s == some g.1) ∧ g.2 ≠ []) ∧
    (∀ s ∈ searches, ∀ i, d.finderFor s = some i → ∃ g ∈ groupsOf d searches, g.1 = i ∧ s ∈ g.2) ∧
    (∀ s, d.finderFor s = none → ∀ g ∈ groupsOf d searches, s ∉ g.2) := by
  refine ⟨groupByFinder_eq d searches, ?_, groupsOf_keys_nodup d searches, ?_, ?_, ?_⟩
  · unfold groupsOf
    rw [List.map_map]
    exact List.map_id _
  · intro g hg
    exact ⟨((mem_groupsOf d searches g).1 hg).2, groupsOf_ne_nil d searches g hg⟩
  · intro s hs i hi
    obtain ⟨h1, h2⟩ := groupsOf_cover d searches s i hs hi
    exact ⟨_, h1, rfl, h2⟩
  · intro s hs g hg
    exact groupsOf_unrouted d searches s hs g hg

/-- GENERAL FORM: `FindInAll.find` is the de-duplicated concatenation, over the groups, of what the
    Finder of each group answers for its group -/
theorem c11_all_groups (w : World) (search : Str) (searches : List Sid)
    (hu : d.ctx.unfoldSearch search false false = .ok searches) :
    d.findInAll w search =
      (Ctx.flatMapE (fun (g : Nat × List Sid) => d.finderDoFind w d.fuel g.1 g.2)
        (groupsOf d searches)).map (Lst.dedupBy (· == ·)) :=
  findInAll_eq d w search searches hu

/-- membership: a string is returned iff the Finder of some group returns it for its group; the
    result has no duplicates; `FindInAll` fails iff the unfolding or some Finder fails -/
theorem c11_all_mem (w : World) (search : Str) (searches : List Sid)
    (hu : d.ctx.unfoldSearch search false false = .ok searches) :
    (∀ r, d.findInAll w search = .ok r → r.Nodup ∧
      ∀ x, x ∈ r ↔ ∃ g ∈ groupsOf d searches, ∃ ys,
        d.finderDoFind w d.fuel g.1 g.2 = .ok ys ∧ x ∈ ys) ∧
    ((∃ r, d.findInAll w search = .ok r) ↔
      ∀ g ∈ groupsOf d searches, ∃ ys, d.finderDoFind w d.fuel g.1 g.2 = .ok ys) := by
  rw [c11_all_groups d w search searches hu]
  constructor
  · intro r hr
    cases hall : Ctx.flatMapE (fun (g : Nat × List Sid) => d.finderDoFind w d.fuel g.1 g.2)
        (groupsOf d searches) with
    | error e => rw [hall] at hr; cases hr
    | ok all =>
      rw [hall] at hr
      cases hr
      refine ⟨Lst.dedupBy_nodup _, fun x => ?_⟩
      rw [Lst.mem_dedupBy, flatMapE_mem _ _ _ hall]
  · rw [← flatMapE_ok_iff]
    constructor
    · rintro ⟨r, hr⟩
      cases hall : Ctx.flatMapE (fun (g : Nat × List Sid) => d.finderDoFind w d.fuel g.1 g.2)
          (groupsOf d searches) with
      | error e => rw [hall] at hr; cases hr
      | ok all => exact ⟨all, rfl⟩
    · rintro ⟨all, hall⟩
      rw [hall]
      exact ⟨_, rfl⟩

/-- ROUTING TO FindInPaths: when every unfolded search is routed to one and the same
    `FindInPaths(config)`, `FindInAll.find` is `FindInPaths(config).do_find` of the unfolded
    searches, de-duplicated -/
theorem c11_all_paths_dedup (w : World) (search : Str) (searches : List Sid) (i : Nat)
    (config : Option Str)
    (hu : d.ctx.unfoldSearch search false false = .ok searches)
    (hr : ∀ s ∈ searches, d.finderFor s = some i)
    (hi : d.data.finders[i]? = some (.paths config)) :
    d.findInAll w search = (d.pathsDoFind w config searches).map (Lst.dedupBy (· == ·)) := by
  rw [c11_all_groups d w search searches hu, groupsOf_single d searches i hr]
  cases searches with
  | nil => rfl
  | cons s rest =>
    simp only [List.isEmpty_cons, Bool.false_eq_true, if_false]
    rw [flatMapE_singleton, fuel_succ, finderDoFind_paths d w _ i config hi]

/-- `dedupBy` is the identity on a duplicate-free list -/
theorem c11_dedup_nodup (l : List Str) (h : l.Nodup) : Lst.dedupBy (· == ·) l = l :=
  Lst.dedupBy_of_nodup l h

/-- … hence, for a search the Finder does not shortcut (`findSearches` unfolds it like
    `FindInAll` does: `C16.c16_find_unfolds`) and whose path answer has no duplicates,
    `FindInAll().find(search)` IS `FindInPaths(config).find(search)`, item for item.
    `hnd` is needed: `FindInAll` de-duplicates, `FindInPaths` does not (a star search over several
    searches de-duplicates Sids, not strings); it holds for '>' searches (`c11_paths_gt_nodup`)
    and for star searches whose found Sids have pairwise different strings
    (`c11_paths_star_nodup`). -/
theorem c11_all_eq_paths (w : World) (search : Str) (searches : List Sid) (i : Nat)
    (config : Option Str)
    (hu : d.ctx.unfoldSearch search false false = .ok searches)
    (hf : d.ctx.findSearches search = .ok searches)
    (hr : ∀ s ∈ searches, d.finderFor s = some i)
    (hi : d.data.finders[i]? = some (.paths config))
    (hnd : ∀ r, d.pathsDoFind w config searches = .ok r → r.Nodup) :
    d.findInAll w search = d.findInPaths w config search := by
  rw [c11_all_paths_dedup d w search searches i config hu hr hi]
  have hfp : d.findInPaths w config search = d.pathsDoFind w config searches := by
    unfold DCtx.findInPaths
    rw [hf]
  rw [hfp]
  cases hp : d.pathsDoFind w config searches with
  | error e => rfl
  | ok r =>
    show Except.ok (Lst.dedupBy (· == ·) r) = Except.ok r
    rw [c11_dedup_nodup r (hnd r hp)]

/-- THE SAME SET, without any hypothesis on duplicates: for a search the Finder does not shortcut
    and whose unfolded searches are all routed to `FindInPaths(config)`, `FindInAll().find` fails
    exactly when `FindInPaths(config).find` fails (with the same error), and otherwise returns the
    same SET of strings — the list of FindInPaths with later duplicates removed -/
theorem c11_all_same_set (w : World) (search : Str) (searches : List Sid) (i : Nat)
    (config : Option Str)
    (hu : d.ctx.unfoldSearch search false false = .ok searches)
    (hf : d.ctx.findSearches search = .ok searches)
    (hr : ∀ s ∈ searches, d.finderFor s = some i)
    (hi : d.data.finders[i]? = some (.paths config)) :
    (∀ e, d.findInPaths w config search = .error e → d.findInAll w search = .error e) ∧
    (∀ r, d.findInPaths w config search = .ok r →
      d.findInAll w search = .ok (Lst.dedupBy (· == ·) r) ∧
      ∀ x, x ∈ Lst.dedupBy (· == ·) r ↔ x ∈ r) := by
  rw [c11_all_paths_dedup d w search searches i config hu hr hi]
  have hfp : d.findInPaths w config search = d.pathsDoFind w config searches := by
    unfold DCtx.findInPaths
    rw [hf]
  rw [hfp]
  constructor
  · intro e he; rw [he]; rfl
  · intro r hr'
    rw [hr']
    exact ⟨rfl, fun x => Lst.mem_dedupBy x r⟩

/-- a sorted ('>') search never yields a string twice (`sortedPick` de-duplicates) -/
theorem c11_paths_gt_nodup (star : List Sid → Except Err (List Str)) (searches : List Sid)
    (hgt : searches.any (fun x => Str.hasChar '>' x.string) = true) (r : List Str)
    (h : d.doFindWith star searches = .ok r) : r.Nodup := by
  cases searches with
  | nil => simp at hgt
  | cons s0 rest =>
    unfold DCtx.doFindWith at h
    simp only [List.isEmpty_cons, Bool.false_eq_true, if_false, hgt, if_true] at h
    split at h
    · cases h
    · split at h
      · cases h
      · cases h
        exact (C09.c09_pick_unique _ _).1

/-- hence for a '>' search routed to `FindInPaths(config)` the two Finders agree item for item -/
theorem c11_all_eq_paths_gt (w : World) (search : Str) (searches : List Sid) (i : Nat)
    (config : Option Str)
    (hu : d.ctx.unfoldSearch search false false = .ok searches)
    (hf : d.ctx.findSearches search = .ok searches)
    (hr : ∀ s ∈ searches, d.finderFor s = some i)
    (hi : d.data.finders[i]? = some (.paths config))
    (hgt : searches.any (fun x => Str.hasChar '>' x.string) = true) :
    d.findInAll w search = d.findInPaths w config search :=
  c11_all_eq_paths d w search searches i config hu hf hr hi
    (fun r h => c11_paths_gt_nodup d _ searches hgt r h)

/-- a star search yields no string twice when the found Sids (duplicate-free by `c11_star_list`)
    have pairwise different strings -/
theorem c11_paths_star_nodup (w : World) (config : Option Str) (searches : List Sid)
    (hgt : ∀ x ∈ searches, Str.hasChar '>' x.string = false) (rs : List Sid)
    (hrs : d.pathsStarSids w config searches = .ok rs) (hn : rs.Nodup)
    (hinj : ∀ x ∈ rs, ∀ y ∈ rs, x.string = y.string → x = y) (r : List Str)
    (h : d.pathsDoFind w config searches = .ok r) : r.Nodup := by
  cases searches with
  | nil => cases h; exact List.nodup_nil
  | cons s rest =>
    unfold DCtx.pathsDoFind at h
    rw [doFindWith_star d _ _ (by simp) hgt] at h
    unfold DCtx.pathsStar at h
    rw [hrs] at h
    cases h
    exact List.pairwise_map.2 (List.Pairwise.imp_of_mem
      (fun hx hy hne heq => hne (hinj _ hx _ hy heq)) hn)

/-- two well-typed Sids of the same type with the same string are equal (discharges `hinj` for
    the answers to ONE search) -/
theorem c11_wellTyped_string_inj (c : Ctx) (x y : Sid)
    (hx : wellTyped c.env c.cfg.sid.templates x) (hy : wellTyped c.env c.cfg.sid.templates y)
    (hty : x.type = y.type) (hs : x.string = y.string) : x = y := by
  obtain ⟨t, hl, _, _, hf⟩ := hx
  obtain ⟨t', hl', _, _, hf'⟩ := hy
  rw [hty, hl'] at hl
  injection hl with hl
  subst hl
  have : x.fields = y.fields := by rw [hf, hf', hs]
  cases x; cases y; simp_all

/-! ### (2) constants -/

/-- the search Sid `s` as the constants Finder of `key` sees it: `s` is well typed and carries no
    query (so that `Sid(search_sid)` is `s`); `root = s.get_as(key)` is well typed, carries no
    query, and `key` is its last key -/
structure ConstSearch (c : Ctx) (key : Str) (s root : Sid) : Prop where
  typed : wellTyped c.env c.cfg.sid.templates s
  noq : '?' ∉ s.string
  getAs : c.getAs s key = .ok root
  rootTyped : wellTyped c.env c.cfg.sid.templates root
  rootNoq : '?' ∉ root.string
  last : (root.fields.map (·.1)).getLast? = some key

/-- `ConstSearch` from C03 (`c03_get_as`): a well-typed query-free Sid whose `i`-th key is `key`
    and whose '/'-prefix of `i+1` segments is renderable has such a root — the Sid of that prefix -/
theorem c11_const_search (c : Ctx) (hwf : sidHierOk c.env c.cfg.sid.templates = true) (key : Str)
    (s : Sid) (hs : wellTyped c.env c.cfg.sid.templates s) (hq : '?' ∉ s.string) (i : Nat)
    (hi : i < s.fields.length) (hk : (s.fields.map (·.1))[i]! = key)
    (hr : renderable (Str.joinWith '/' ((Str.splitOn '/' s.string).take (i + 1)))) :
    ∃ root, ConstSearch c key s root ∧ root.fields = s.fields.take (i + 1) ∧
      root.string = Str.joinWith '/' ((Str.splitOn '/' s.string).take (i + 1)) := by
  obtain ⟨y, hy1, hy2, hy3, hy4⟩ := C03.c03_get_as c s hwf hs i hi hr
  rw [hk] at hy1
  refine ⟨y, ⟨hs, hq, hy1, hy2, ?_, ?_⟩, hy3, hy4⟩
  · intro hm
    rw [hy4] at hm
    exact hq (mem_join_sub s.string _ (fun p hp => List.mem_of_mem_take hp) '?' (by decide) hm)
  · rw [hy3, List.map_take, List.getLast?_eq_getElem?, List.length_take, List.length_map,
      Nat.min_eq_left (by omega), Nat.add_sub_cancel, List.getElem?_take_of_lt (by omega)]
    rw [List.getElem!_eq_getElem?_getD] at hk
    have hlt : i < (s.fields.map (·.1)).length := by simpa using hi
    rw [List.getElem?_eq_getElem hlt] at hk ⊢
    simpa using hk

section constants

variable (w : World) (fuel : Nat) (key : Str) (values : List Str) (parent : Option Nat)

/-- `star_search` over a list of search Sids is the concatenation of the star searches of the
    single search Sids (the or-list case) -/
theorem c11_const_concat (ss : List Sid) :
    d.constStar w fuel key values parent ss =
      Ctx.flatMapE (fun s => d.constStar w fuel key values parent [s]) ss := by
  rw [constStar_eq]
  apply flatMapE_congr
  intro s _
  rw [constStar_eq, flatMapE_singleton]

/-- the search does not reach the key (`get_as(key)` is untyped): nothing -/
theorem c11_const_nothing (s s' root : Sid)
    (hs : (if s.typed then d.ctx.sidOfString s.uri else .ok Sid.empty) = .ok s')
    (hroot : d.ctx.getAs s' key = .ok root) (ht : root.typed = false) :
    d.constStar w fuel key values parent [s] = .ok [] := by
  rw [constStar_eq, flatMapE_singleton]
  exact constOne_untyped d _ key values s s' root hs hroot ht

/-- (a) no '*' in the root: the root itself, as a string -/
theorem c11_const_concrete (hwf : sidHierOk d.ctx.env d.ctx.cfg.sid.templates = true) (s root : Sid)
    (hcs : ConstSearch d.ctx key s root) (h : Str.hasChar '*' root.string = false) :
    d.constStar w fuel key values parent [s] = .ok [root.string] := by
  rw [constStar_eq, flatMapE_singleton]
  exact constOne_concrete d _ key values s s root (resolve_self d.ctx hwf s hcs.typed hcs.noq)
    hcs.getAs (wellTyped_typed d.ctx hwf root hcs.rootTyped) h

/-- (b) '*' in the root but not above the key (`parentStr`: all segments but the last): the
    constant values `v`, in the order of `values`, for which the root with its last segment
    replaced by `v` is accepted by a template with the keys of the root — as those strings.
    Hypotheses: `hren` the parent's string is renderable (C03, phenomena E/N; only when there is a
    parent); `hvals` the constants are non-empty, '/'-free, newline-free (a '/' would add a
    level, an empty or newline-ended rendering is refused by `Resolver.format_*`: C02). -/
theorem c11_const_values (hwf : sidHierOk d.ctx.env d.ctx.cfg.sid.templates = true) (s root : Sid)
    (hcs : ConstSearch d.ctx key s root) (hstar : Str.hasChar '*' root.string = true)
    (hpar : Str.hasChar '*' (parentStr root.string) = false)
    (hren : 2 ≤ root.fields.length → renderable (parentStr root.string))
    (hvals : values.all constValOk = true) :
    d.constStar w fuel key values parent [s] =
      .ok ((values.filter (fun v => typedAs d.ctx (root.fields.map (·.1)) (replaceLast root.string v))).map
        (replaceLast root.string)) := by
  rw [constStar_eq, flatMapE_singleton]
  have hs := resolve_self d.ctx hwf s hcs.typed hcs.noq
  have hty := wellTyped_typed d.ctx hwf root hcs.rootTyped
  rw [← appendValues_last d hwf root hcs.rootTyped key hcs.last values hvals]
  by_cases hn : 2 ≤ root.fields.length
  · obtain ⟨rp, hp1, _, hp3, _, _, _⟩ := parent_ge2 d.ctx hwf root hcs.rootTyped hn (hren hn)
    exact constOne_append d _ key values s s root rp hs hcs.getAs hty hstar hp1
      (by rw [hp3, hpar]; rfl)
  · have hn1 : root.fields.length = 1 := by
      have : root.fields ≠ [] := by
        intro h0
        have := hcs.last
        rw [h0] at this
        simp at this
      cases hf : root.fields with
      | nil => exact absurd hf this
      | cons a l =>
        rw [hf] at hn
        simp only [List.length_cons] at hn ⊢
        omega
    have hp1 := parent_single d.ctx hwf root hcs.rootTyped hn1 hcs.rootNoq
    exact constOne_append d _ key values s s root root hs hcs.getAs hty hstar hp1
      (by rw [eqv_self]; simp)

/-- (b) as a membership statement -/
theorem c11_const_values_mem (hwf : sidHierOk d.ctx.env d.ctx.cfg.sid.templates = true) (s root : Sid)
    (hcs : ConstSearch d.ctx key s root) (hstar : Str.hasChar '*' root.string = true)
    (hpar : Str.hasChar '*' (parentStr root.string) = false)
    (hren : 2 ≤ root.fields.length → renderable (parentStr root.string))
    (hvals : values.all constValOk = true) :
    ∃ r, d.constStar w fuel key values parent [s] = .ok r ∧
      ∀ x, x ∈ r ↔ ∃ v ∈ values, typedAs d.ctx (root.fields.map (·.1)) (replaceLast root.string v) = true ∧
        x = replaceLast root.string v := by
  refine ⟨_, c11_const_values d w fuel key values parent hwf s root hcs hstar hpar hren hvals, fun x => ?_⟩
  simp only [List.mem_map, List.mem_filter]
  constructor
  · rintro ⟨v, ⟨hv, ht⟩, rfl⟩; exact ⟨v, hv, ht, rfl⟩
  · rintro ⟨v, hv, ht, rfl⟩; exact ⟨v, ⟨hv, ht⟩, rfl⟩

/-- (c) '*' above the key (the root has a parent and the parent's string contains '*'): the parent
    of the root is the well-typed Sid `rp` of all segments but the last; without parent source the
    search raises `SpilException`; with the parent source `pi` the answer is, for every root the
    parent source finds for `rp` (`Finder.find`), in order, what `perRoot` makes of it -/
theorem c11_const_parent (hwf : sidHierOk d.ctx.env d.ctx.cfg.sid.templates = true) (s root : Sid)
    (hcs : ConstSearch d.ctx key s root) (hn : 2 ≤ root.fields.length)
    (hren : renderable (parentStr root.string))
    (hpar : Str.hasChar '*' (parentStr root.string) = true) :
    ∃ rp, d.ctx.parent root = .ok rp ∧ wellTyped d.ctx.env d.ctx.cfg.sid.templates rp ∧
      rp.string = parentStr root.string ∧ rp.fields = root.fields.dropLast ∧
      d.constStar w fuel key values none [s] = .error .spil ∧
      ∀ pi, d.constStar w fuel key values (some pi) [s] =
        match d.finderFind w fuel pi rp with
        | .error e => .error e
        | .ok frs => Ctx.flatMapE (perRoot d key values root) frs := by
  obtain ⟨rp, hp1, hp2, hp3, hp4, hp5, last, hp6⟩ := parent_ge2 d.ctx hwf root hcs.rootTyped hn hren
  have hs := resolve_self d.ctx hwf s hcs.typed hcs.noq
  have hty := wellTyped_typed d.ctx hwf root hcs.rootTyped
  have hstar : Str.hasChar '*' root.string = true := by
    rw [← hp6]
    unfold Str.hasChar at hpar ⊢
    rw [List.any_append, hp3, hpar]
    rfl
  have hrp : (Str.hasChar '*' rp.string && !(Sid.eqv root rp)) = true := by
    rw [hp3, hpar, hp5]; rfl
  refine ⟨rp, hp1, hp2, hp3, hp4, ?_, ?_⟩
  · rw [constStar_eq, flatMapE_singleton]
    exact constOne_no_parent d key values s s root rp hs hcs.getAs hty hstar hp1 hrp
  · intro pi
    rw [constStar_eq, flatMapE_singleton]
    exact constOne_parent d key values _ s s root rp hs hcs.getAs hty hstar hp1 hrp

/-- the values the constants Finder appends to a found root `fr` for a search whose key has the
    value `v`: the value itself when it is fixed — ANY value other than "*", it is neither compared
    with `values` nor is the result required to be typed (`found_root / value`) — and, when the key
    is searched ("*"), the constant values that give a typed Sid below `fr` -/
def admitted (c : Ctx) (key : Str) (values : List Str) (v fr : Str) : List Str :=
  if v = ['*'] then values.filter (admitsChild c key fr) else [v]

/-- what the statements ask of a root `fr` found by the parent source: it carries neither a query
    nor a uri prefix (`Sid(fr)` would cut them off: `Sid("a:b")` has the string "b"), and, when
    the key is searched, it is not empty (`Sid("").get_with(key=v)` is the ONE-field Sid `v`) and
    `Sid(fr)` does not already have the key (`get_with` would replace its value in place) -/
def FoundOk (c : Ctx) (key v fr : Str) : Prop :=
  '?' ∉ fr ∧ ':' ∉ fr ∧ (v = ['*'] → fr ≠ [] ∧ key ∉ keysOfStr c fr)

/-- (c) in closed form: with `v` the value of the key in the root, the answer is, for every root
    `fr` the parent source finds for the parent search `rp`, in order, `fr/u` for every `u` the
    last segment admits (`admitted`).  Hypotheses, besides those of `c11_const_parent`:
    `hvc` no ':' in the value (`Sid("fr/a:b")` is a uri); and, only when the key is searched,
    `keyAppends` (the templates list the key AFTER the keys of the parent level, else `get_with`
    renders it elsewhere) and `constValOk` for the constants (as in `c11_const_values`). -/
theorem c11_const_one (hwf : sidHierOk d.ctx.env d.ctx.cfg.sid.templates = true) (s root : Sid)
    (hcs : ConstSearch d.ctx key s root) (hn : 2 ≤ root.fields.length)
    (hren : renderable (parentStr root.string))
    (hpar : Str.hasChar '*' (parentStr root.string) = true)
    (v : Str) (hv : root.fields.get key = some v) (hvc : ':' ∉ v)
    (hstar : v = ['*'] → keyAppends d.ctx.cfg.sid.templates key = true ∧ values.all constValOk = true) :
    ∃ rp, d.ctx.parent root = .ok rp ∧ wellTyped d.ctx.env d.ctx.cfg.sid.templates rp ∧
      rp.string = parentStr root.string ∧
      ∀ pi frs, d.finderFind w fuel pi rp = .ok frs → (∀ fr ∈ frs, FoundOk d.ctx key v fr) →
        d.constStar w fuel key values (some pi) [s] =
          .ok (frs.flatMap (fun fr => (admitted d.ctx key values v fr).map (fun u => fr ++ '/' :: u))) := by
  obtain ⟨rp, hp1, hp2, hp3, _, _, hall⟩ :=
    c11_const_parent d w fuel key values hwf s root hcs hn hren hpar
  refine ⟨rp, hp1, hp2, hp3, ?_⟩
  intro pi frs hfr hok
  rw [hall pi, hfr]
  simp only []
  obtain ⟨h1, _, _, _⟩ := HierL.hier_unpack _ _ hwf
  have hvq : '?' ∉ v := by
    intro hm
    have hg := get_last_key d.ctx hwf root hcs.rootTyped key hcs.last
    rw [hv] at hg
    exact hcs.rootNoq (mem_of_mem_splitOn '/' root.string v (List.mem_of_getLast? hg.symm) '?' hm)
  apply flatMapE_pure
  intro fr hfrm
  obtain ⟨hq, hc, hst⟩ := hok fr hfrm
  unfold admitted
  by_cases hvs : v = ['*']
  · subst hvs
    obtain ⟨hne, hk⟩ := hst rfl
    obtain ⟨hka, hvals⟩ := hstar rfl
    simp only [if_true]
    exact perRoot_star d hwf key hka values hvals root hv fr hne hq hc hk
  · simp only [hvs, if_false, List.map_cons, List.map_nil]
    exact perRoot_fixed d h1 key values root v hv hvs hvq hvc fr hq hc

end constants

/-- everything the statements need to know about ONE search Sid `s` of a constants group whose
    parent level is searched: `s` and its root as in `ConstSearch`; the root has a parent whose
    (renderable) string contains '*'; `v` is the value of the key; the parent of the root is `rp`
    and the parent source `pi` answers `Finder.find(rp)` with `frs`, all of them `FoundOk` -/
def ParentAnswers (d : DCtx) (w : World) (fuel : Nat) (key : Str) (values : List Str) (pi : Nat)
    (s : Sid) (v : Str) (frs : List Str) : Prop :=
  ∃ root rp, ConstSearch d.ctx key s root ∧ 2 ≤ root.fields.length ∧
    renderable (parentStr root.string) ∧ Str.hasChar '*' (parentStr root.string) = true ∧
    root.fields.get key = some v ∧ ':' ∉ v ∧
    (v = ['*'] → keyAppends d.ctx.cfg.sid.templates key = true ∧ values.all constValOk = true) ∧
    d.ctx.parent root = .ok rp ∧ d.finderFind w fuel pi rp = .ok frs ∧
    ∀ fr ∈ frs, FoundOk d.ctx key v fr

/-- one search Sid: "parents found × admitted constants", as an exact list -/
theorem c11_const_answer (hwf : sidHierOk d.ctx.env d.ctx.cfg.sid.templates = true) (w : World)
    (fuel : Nat) (key : Str) (values : List Str) (pi : Nat) (s : Sid) (v : Str) (frs : List Str)
    (h : ParentAnswers d w fuel key values pi s v frs) :
    d.constStar w fuel key values (some pi) [s] =
      .ok (frs.flatMap (fun fr => (admitted d.ctx key values v fr).map (fun u => fr ++ '/' :: u))) := by
  obtain ⟨root, rp, hcs, hn, hren, hpar, hv, hvc, hstar, hp, hfr, hok⟩ := h
  obtain ⟨rp', hp', _, _, hall⟩ :=
    c11_const_one d w fuel key values hwf s root hcs hn hren hpar v hv hvc hstar
  rw [hp] at hp'
  injection hp' with hp'
  subst hp'
  exact hall pi frs hfr hok

/-- … and as a membership statement -/
theorem c11_const_answer_mem (hwf : sidHierOk d.ctx.env d.ctx.cfg.sid.templates = true) (w : World)
    (fuel : Nat) (key : Str) (values : List Str) (pi : Nat) (s : Sid) (v : Str) (frs : List Str)
    (h : ParentAnswers d w fuel key values pi s v frs) :
    ∃ r, d.constStar w fuel key values (some pi) [s] = .ok r ∧
      ∀ x, x ∈ r ↔ ∃ fr ∈ frs, ∃ u ∈ admitted d.ctx key values v fr, x = fr ++ '/' :: u := by
  refine ⟨_, c11_const_answer d hwf w fuel key values pi s v frs h, fun x => ?_⟩
  simp only [List.mem_flatMap, List.mem_map]
  constructor
  · rintro ⟨fr, hfr, u, hu', rfl⟩; exact ⟨fr, hfr, u, hu', rfl⟩
  · rintro ⟨fr, hfr, u, hu', rfl⟩; exact ⟨fr, hfr, u, hu', rfl⟩

/-- a GROUP of search Sids (the or-list case: several searches routed to the same constants
    Finder): the concatenation, in the order of the searches, of the answers to each -/
theorem c11_const_group (hwf : sidHierOk d.ctx.env d.ctx.cfg.sid.templates = true) (w : World)
    (fuel : Nat) (key : Str) (values : List Str) (pi : Nat) (ss : List Sid) (V : Sid → Str)
    (P : Sid → List Str) (h : ∀ s ∈ ss, ParentAnswers d w fuel key values pi s (V s) (P s)) :
    d.constStar w fuel key values (some pi) ss =
      .ok (ss.flatMap (fun s => (P s).flatMap (fun fr =>
        (admitted d.ctx key values (V s) fr).map (fun u => fr ++ '/' :: u)))) := by
  rw [c11_const_concat]
  apply flatMapE_pure
  intro s hs
  exact c11_const_answer d hwf w fuel key values pi s (V s) (P s) (h s hs)

/-- THE COROLLARY the property sentence is about.  Let the search unfold into `searches`, all of
    them star searches (no '>') routed to the same `FindInConstants(key, values, parent = pi)`, each
    with a searched parent level that the parent source answers with `P s` (`ParentAnswers`, at the
    fuel `FindInAll` leaves to the parent source; by `c11_fuel_find` any larger fuel does as well).
    Then `FindInAll.find(search)` succeeds, yields nothing twice, and yields exactly
        { fr/u | s ∈ searches, fr ∈ (what the parent source finds for the parent of s),
                 u ∈ (the constants the last segment of s admits below fr) }
    — the de-duplicated concatenation over the searches.  This is the reading the oracle of the
    harness checks on the code ("parents found × admitted constants", and the union over the
    alternatives of an or-list), with the two provisos stated at `admitted`. -/
theorem c11_const_find_all (hwf : sidHierOk d.ctx.env d.ctx.cfg.sid.templates = true) (w : World)
    (search : Str) (searches : List Sid) (i : Nat) (key : Str) (values : List Str) (pi : Nat)
    (hu : d.ctx.unfoldSearch search false false = .ok searches)
    (hr : ∀ s ∈ searches, d.finderFor s = some i)
    (hi : d.data.finders[i]? = some (.constants key values (some pi)))
    (hgt : ∀ s ∈ searches, Str.hasChar '>' s.string = false)
    (V : Sid → Str) (P : Sid → List Str)
    (h : ∀ s ∈ searches,
      ParentAnswers d w (2 * d.data.finders.length + 1) key values pi s (V s) (P s)) :
    ∃ r, d.findInAll w search = .ok r ∧ r.Nodup ∧
      r = Lst.dedupBy (· == ·) (searches.flatMap (fun s => (P s).flatMap (fun fr =>
        (admitted d.ctx key values (V s) fr).map (fun u => fr ++ '/' :: u)))) ∧
      ∀ x, x ∈ r ↔ ∃ s ∈ searches, ∃ fr ∈ P s, ∃ u ∈ admitted d.ctx key values (V s) fr,
        x = fr ++ '/' :: u := by
  refine ⟨_, ?_, Lst.dedupBy_nodup _, rfl, fun x => ?_⟩
  · rw [c11_all_groups d w search searches hu, groupsOf_single d searches i hr]
    cases searches with
    | nil => rfl
    | cons s rest =>
      simp only [List.isEmpty_cons, Bool.false_eq_true, if_false]
      rw [flatMapE_singleton, fuel_succ, finderDoFind_constants d w _ i key values (some pi) hi,
        doFindWith_star d _ _ (by simp) hgt,
        c11_const_group d hwf w _ key values pi _ V P h]
      rfl
  · simp only [Lst.mem_dedupBy, List.mem_flatMap, List.mem_map]
    constructor
    · rintro ⟨s, hs, fr, hfr, u, hu', rfl⟩; exact ⟨s, hs, fr, hfr, u, hu', rfl⟩
    · rintro ⟨s, hs, fr, hfr, u, hu', rfl⟩; exact ⟨s, hs, fr, hfr, u, hu', rfl⟩

/-- the same for a constants level WITHOUT searched parent: every search Sid is answered from the
    constants alone (cases (a) and (b)); the Finder's group answer is the concatenation -/
theorem c11_const_find_all_flat (w : World) (search : Str) (searches : List Sid) (i : Nat)
    (key : Str) (values : List Str) (parent : Option Nat)
    (hu : d.ctx.unfoldSearch search false false = .ok searches)
    (hr : ∀ s ∈ searches, d.finderFor s = some i)
    (hi : d.data.finders[i]? = some (.constants key values parent))
    (hgt : ∀ s ∈ searches, Str.hasChar '>' s.string = false) :
    d.findInAll w search =
      (Ctx.flatMapE (fun s => d.constStar w (2 * d.data.finders.length + 1) key values parent [s])
        searches).map (Lst.dedupBy (· == ·)) := by
  rw [c11_all_groups d w search searches hu, groupsOf_single d searches i hr]
  cases searches with
  | nil => rfl
  | cons s rest =>
    simp only [List.isEmpty_cons, Bool.false_eq_true, if_false]
    rw [flatMapE_singleton, fuel_succ, finderDoFind_constants d w _ i key values parent hi,
      doFindWith_star d _ _ (by simp) hgt, c11_const_concat]

/-! ### (3) the fuel -/

/-- FUEL: for a data configuration whose parent indices are valid and acyclic (`chainOk`), giving
    the Finders more fuel than `FindInAll` does changes no answer of any Finder -/
theorem c11_fuel (w : World) (hc : d.data.chainOk = true) (i k : Nat) (ss : List Sid) :
    d.finderDoFind w (d.fuel + k) i ss = d.finderDoFind w d.fuel i ss := by
  by_cases hi : i < d.data.finders.length
  · obtain ⟨r, hr, hlt⟩ := DataConf.chainOk_depth d.data hc i hi
    exact fuel_indep d w _ i r hr d.fuel k (by unfold DCtx.fuel; omega) ss
  · have hn : d.data.finders[i]? = none := by
      rw [List.getElem?_eq_none_iff]; omega
    rw [finderDoFind_none d w _ i hn, finderDoFind_none d w _ i hn]

/-- … and any fuel from twice the number of finders on gives the answers `FindInAll` gets -/
theorem c11_fuel_ge (w : World) (hc : d.data.chainOk = true) (i f : Nat)
    (hf : 2 * d.data.finders.length ≤ f) (ss : List Sid) :
    d.finderDoFind w f i ss = d.finderDoFind w d.fuel i ss := by
  by_cases hi : i < d.data.finders.length
  · obtain ⟨r, hr, hlt⟩ := DataConf.chainOk_depth d.data hc i hi
    have h1 := fuel_indep d w _ i r hr (2 * r + 1) (f - (2 * r + 1)) (Nat.le_refl _) ss
    have h2 := fuel_indep d w _ i r hr (2 * r + 1) (d.fuel - (2 * r + 1)) (Nat.le_refl _) ss
    have e1 : 2 * r + 1 + (f - (2 * r + 1)) = f := by omega
    have e2 : 2 * r + 1 + (d.fuel - (2 * r + 1)) = d.fuel := by unfold DCtx.fuel; omega
    rw [e1] at h1
    rw [e2] at h2
    rw [h1, h2]
  · have hn : d.data.finders[i]? = none := by
      rw [List.getElem?_eq_none_iff]; omega
    rw [finderDoFind_none d w _ i hn, finderDoFind_none d w _ i hn]

/-- the parent source's `Finder.find`, as `FindInConstants` calls it from `FindInAll` (fuel
    `2 * finders.length + 1`), answers the same with any larger fuel -/
theorem c11_fuel_find (w : World) (hc : d.data.chainOk = true) (pi f : Nat)
    (hf : 2 * d.data.finders.length + 1 ≤ f) (rp : Sid) :
    d.finderFind w f pi rp = d.finderFind w (2 * d.data.finders.length + 1) pi rp := by
  obtain ⟨f', rfl⟩ : ∃ f', f = f' + 1 := ⟨f - 1, by omega⟩
  rw [finderFind_succ, finderFind_succ]
  apply findVia_congr
  intro ss
  rw [c11_fuel_ge d w hc pi f' (by omega) ss, c11_fuel_ge d w hc pi _ (Nat.le_refl _) ss]

/-- no fuel exhaustion: under `chainOk` the fuel-exhaustion branch of the model (`fuel = 0`) is
    never reached from `FindInAll` — every Finder of the table, started with `d.fuel`, answers as
    it does with ANY larger fuel; in particular an `.error .other` it returns is the answer at
    every fuel, not an artefact of the bound -/
theorem c11_fuel_stable (w : World) (hc : d.data.chainOk = true) (i : Nat) (ss : List Sid) :
    ∀ f, d.fuel ≤ f → d.finderDoFind w f i ss = d.finderDoFind w d.fuel i ss := by
  intro f hf
  have := c11_fuel d w hc i (f - d.fuel) ss
  have e : d.fuel + (f - d.fuel) = f := by omega
  rw [e] at this
  exact this

end C11
