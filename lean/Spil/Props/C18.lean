/-
  Spil.Props.C18 — "get_last, get_next and get_new implement a gap-free version workflow":
  the version arithmetic of the demo `NextGetter` and its agreement with string order, for EVERY
  version number.
  Spil.Props.C10 — (list-scan half) the algebra of the search syntax at the level of glob patterns.
-/
import Spil.Spec.FS
import Spil.Spec.Find
import Spil.Lemmas.Find
import Spil.Lemmas.Ver
import Spil.Props.C08

namespace C18

open Spec

/-- the version key -/
def vkey : Str := ['v','e','r','s','i','o','n']

/-- `'v%03d' % n` -/
def fmtV (n : Nat) : Str := 'v' :: Str.pad3 n

/-- below 1000 the rendering has exactly three ASCII digits and reads back as the number -/
theorem c18_pad3 (n : Nat) (h : n < 1000) :
    (Str.pad3 n).length = 3 ∧ (∀ ch ∈ Str.pad3 n, '0' ≤ ch ∧ ch ≤ '9') ∧ DCtx.parseNat (Str.pad3 n) = some n := by
  refine ⟨?_, Str.pad3_digits n h, DCtx.parseNat_pad3 n h⟩
  rw [Str.pad3_lt n h]; rfl

/-- from 1000 on the rendering is wider than the configured three-digit pattern: the "last
    representable version" is 999 -/
theorem c18_pad3_wide (n : Nat) (h : 1000 ≤ n) : 4 ≤ (Str.pad3 n).length :=
  Str.pad3_wide n h

/-- string order on rendered versions is numeric order (so the greatest existing version found by
    the '>' search is the numerically last one) -/
theorem c18_order (n m : Nat) (hn : n < 1000) (hm : m < 1000) :
    Str.lt (fmtV n) (fmtV m) = true ↔ n < m := by
  rw [← Str.lt_pad3 n m hn hm]
  simp [fmtV, Str.lt]

/-- distinct numbers render differently: versions are never reused -/
theorem c18_inj (n m : Nat) (hn : n < 1000) (hm : m < 1000) (h : fmtV n = fmtV m) : n = m := by
  have h' : Str.pad3 n = Str.pad3 m := by simpa [fmtV] using h
  have := DCtx.parseNat_pad3 n hn
  rw [h', DCtx.parseNat_pad3 m hm] at this
  exact (Option.some.inj this).symm

/-- the out-of-model guard of `nextVersion` never fires on a rendered number -/
theorem guard_pad3 (n : Nat) (hn : n < 1000) :
    (Str.pad3 n).any (fun c => !('0' ≤ c && c ≤ '9')) = false := by
  rw [List.any_eq_false]
  intro ch hch
  have := Str.pad3_digits n hn ch hch
  simp [this.1, this.2]

/-- the tail of `nextVersion` once the digits are those of `n` -/
theorem next_tail (d : DCtx) (x : Sid) (n : Nat) (hn : n < 1000) :
    (if (Str.pad3 n).any (fun c => !('0' ≤ c && c ≤ '9')) && !(Str.pad3 n).isEmpty &&
        (Str.pad3 n).all (fun c => c.toNat > 127 || ('0' ≤ c && c ≤ '9')) then (.error .oom : Except Err Sid) else
      match DCtx.parseNat (Str.pad3 n) with
      | none => .error .value
      | some k => d.ctx.getWithKw x [(vkey, some ('v' :: Str.pad3 (k + 1)))]) =
    d.ctx.getWithKw x [(vkey, some (fmtV (n + 1)))] := by
  rw [guard_pad3 n hn, DCtx.parseNat_pad3 n hn]
  simp [fmtV]

/-- `get_next` on a Sid whose version is `v` + three digits of value `n`: the same Sid with the
    version replaced by the rendering of `n + 1` (whatever `get_with` makes of it: beyond 999 the
    pattern rejects it and the result is the empty Sid) -/
theorem c18_next_concrete (d : DCtx) (w : World) (x : Sid) (n : Nat) (hn : n < 1000)
    (hv : x.fields.get vkey = some (fmtV n)) :
    d.getNext w x = d.ctx.getWithKw x [(vkey, some (fmtV (n + 1)))] := by
  have hs := Str.split_v_pad3 n hn
  have ht := next_tail d x n hn
  unfold vkey at hv ht
  unfold fmtV at hv
  simp only [DCtx.getNext, DCtx.nextVersion, hv, Option.getD_some, hs]
  simp only [List.isEmpty_cons, Bool.false_eq_true, if_false]
  have h1 : (('v' :: Str.pad3 n) == ['*'] || ('v' :: Str.pad3 n) == ['>']) = false := by
    simp
  rw [h1]
  simp only [Bool.false_eq_true, if_false]
  exact ht

/-- `get_next` on a Sid without version: the first version is appended -/
theorem c18_next_missing (d : DCtx) (w : World) (x : Sid)
    (hv : x.fields.get vkey = none ∨ x.fields.get vkey = some []) :
    d.getNext w x = d.ctx.getWithKw x [(vkey, some (fmtV 1))] := by
  have hcur : (x.fields.get ['v','e','r','s','i','o','n']).getD [] = [] := by
    unfold vkey at hv
    rcases hv with hv | hv <;> rw [hv] <;> rfl
  have hp : DCtx.parseNat ['0'] = some 0 := by decide
  simp only [DCtx.getNext, DCtx.nextVersion, hcur, List.isEmpty_nil, if_true]
  have hg : (['0'].any (fun c => !('0' ≤ c && c ≤ '9')) && !(['0'] : Str).isEmpty &&
      (['0'] : Str).all (fun c => c.toNat > 127 || ('0' ≤ c && c ≤ '9'))) = false := by decide
  rw [hg, hp]
  simp [fmtV, vkey]

/-- `get_next` on a search version ('*' or '>'): the successor of the last existing one, or the
    first version when none exists -/
theorem c18_next_search (d : DCtx) (w : World) (x : Sid) (l : Sid) (n : Nat) (hn : n < 1000)
    (hv : x.fields.get vkey = some ['*'] ∨ x.fields.get vkey = some ['>'])
    (hl : d.getLast w x (some vkey) = .ok l)
    (hlv : l.fields.get vkey = some (fmtV n) ∨ (l.fields.get vkey = none ∧ n = 0)) :
    d.getNext w x = d.ctx.getWithKw x [(vkey, some (fmtV (n + 1)))] := by
  have hs := Str.split_v_pad3 n hn
  have ht := next_tail d x n hn
  have hne := Str.pad3_ne_nil n
  have hcur : ((x.fields.get ['v','e','r','s','i','o','n']).getD []).isEmpty = false ∧
      (((x.fields.get ['v','e','r','s','i','o','n']).getD []) == ['*'] ||
        ((x.fields.get ['v','e','r','s','i','o','n']).getD []) == ['>']) = true := by
    unfold vkey at hv
    rcases hv with hv | hv <;> rw [hv] <;> exact ⟨rfl, by decide⟩
  -- the version read off the last Sid, with the 'v000' default, is the rendering of `n`
  have hlv : (if ((l.fields.get ['v','e','r','s','i','o','n']).getD []).isEmpty then ['v','0','0','0']
      else (l.fields.get ['v','e','r','s','i','o','n']).getD []) = 'v' :: Str.pad3 n := by
    unfold vkey fmtV at hlv
    rcases hlv with h | ⟨h, rfl⟩
    · rw [h]; rfl
    · rw [h]; decide
  unfold vkey at hl ht ⊢
  simp only [DCtx.getNext, DCtx.nextVersion, hcur.1, hcur.2, hl, Bool.false_eq_true, if_false,
    if_true, hlv, hs, Option.getD_some]
  have he : (Str.pad3 n).isEmpty = false := by
    cases hp : Str.pad3 n with
    | nil => exact absurd hp hne
    | cons a b => rfl
  simp only [he, Bool.false_eq_true, if_false] at ht ⊢
  exact ht

/-- `get_new` is `get_next` of the last existing version when there is one -/
theorem c18_new (d : DCtx) (w : World) (x : Sid) (l : Sid) (v : Str) (hx : x.fields.get vkey = some v) (hv : v ≠ [])
    (hl : d.getLast w x (some vkey) = .ok l) :
    d.getNew w x = if l.typed then d.getNext w l else d.getNext w x := by
  unfold vkey at hx hl
  have he : (!v.isEmpty) = true := by
    cases v with
    | nil => exact absurd rfl hv
    | cons a b => rfl
  simp only [DCtx.getNew, hx, he, if_true, hl]

end C18

namespace C10

open Spec Find

/-- union rule at pattern level: searching with two lists of patterns finds exactly what either finds -/
theorem c10_union (e : Env) (l : List Str) (p₁ p₂ : List Str) (hb : ∀ p ∈ p₁ ++ p₂, '[' ∉ p)
    (r r₁ r₂ : List Str) (h : starSearch e ⟨l, false⟩ (p₁ ++ p₂) = .ok r)
    (h₁ : starSearch e ⟨l, false⟩ p₁ = .ok r₁) (h₂ : starSearch e ⟨l, false⟩ p₂ = .ok r₂) :
    ∀ x, x ∈ r ↔ (x ∈ r₁ ∨ x ∈ r₂) := by
  intro x
  have m := (C08.c08_star_search_mem e l (p₁ ++ p₂) hb r h).2 x
  have m₁ := (C08.c08_star_search_mem e l p₁ (fun p hp => hb p (by simp [hp])) r₁ h₁).2 x
  have m₂ := (C08.c08_star_search_mem e l p₂ (fun p hp => hb p (by simp [hp])) r₂ h₂).2 x
  rw [m, m₁, m₂]
  constructor
  · rintro ⟨hx, p, hp, hg⟩
    rcases List.mem_append.1 hp with hp | hp
    · exact Or.inl ⟨hx, p, hp, hg⟩
    · exact Or.inr ⟨hx, p, hp, hg⟩
  · rintro (⟨hx, p, hp, hg⟩ | ⟨hx, p, hp, hg⟩)
    · exact ⟨hx, p, List.mem_append.2 (Or.inl hp), hg⟩
    · exact ⟨hx, p, List.mem_append.2 (Or.inr hp), hg⟩

-- `ha`, `hb` (whole-segment position) are kept for the reading of the rule; the proof does not need them
set_option linter.unusedVariables false in
/-- literal rule: replacing a whole-segment '*' by a literal value `v` matches exactly the
    previous matches whose segment at that place is `v` -/
theorem c10_literal (a b v item : Str) (hv : ∀ ch ∈ v, ch ≠ '/' ∧ ch ≠ '*' ∧ ch ≠ '?' ∧ ch ≠ '[')
    (ha : a = [] ∨ a.getLast? = some '/') (hb : b = [] ∨ b.head? = some '/') :
    Glob (a ++ v ++ b) item →
    Glob (a ++ '*' :: b) item := by
  rw [List.append_assoc]
  exact glob_prefix_mono (v ++ b) ('*' :: b) (glob_lit_star v b hv) a item

/-- results of a star search never contain duplicates (restated from C08 for the algebra) -/
theorem c10_nodup (e : Env) (l : List Str) (pats : List Str) (hb : ∀ p ∈ pats, '[' ∉ p)
    (r : List Str) (hr : starSearch e ⟨l, false⟩ pats = .ok r) : r.Nodup :=
  (C08.c08_star_search_mem e l pats hb r hr).1

end C10
