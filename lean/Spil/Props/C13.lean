/-
  Spil.Props.C13 — "Answers never depend on what was asked before (caches are invisible)":
  the bookkeeping of the three memoising wrappers, for EVERY call history, capacity and
  eviction choice.
-/
import Spil.Model.Cache
import Spil.Lemmas.Cache

namespace C13

open Cache

/-- Python guarantees that the keyword names of one call are distinct -/
def Call.ok {V} (c : Call V) : Prop := (c.kwargs.map (·.1)).Nodup

/-- transparency of `lru_cache` / `lru_kw_cache`: if equal keys imply equal answers of the wrapped
    function, every call of every history returns what the wrapped function returns, whatever the
    capacity and whatever entries eviction removes -/
theorem c13_transparent_lru {V K R} [DecidableEq K] (key : Call V → K) (f : Call V → R)
    (hcong : ∀ a b, key a = key b → f a = f b) (max : Nat)
    (evict : Store K R → Store K R) (hev : ∀ st, ∀ p ∈ evict st, p ∈ st) (hist : List (Call V)) :
    runHist (stepLru key f max evict) [] hist = hist.map f := by
  exact runHist_transparent _ f (Inv (fun _ => True) key f) (fun _ => True)
    (fun st c hst hc => stepLru_spec _ key f (fun a b _ _ => hcong a b) max evict hev st hst c hc)
    [] (Inv.nil _ key f) hist (fun _ _ => trivial)

/-- the same for `hit_cache` (falsy answers are recomputed, never stored) -/
theorem c13_transparent_hit {V K R} [DecidableEq K] (key : Call V → K) (f : Call V → R)
    (truthy : R → Bool) (hcong : ∀ a b, key a = key b → f a = f b) (max : Nat)
    (evict : Store K R → Store K R) (hev : ∀ st, ∀ p ∈ evict st, p ∈ st) (hist : List (Call V)) :
    runHist (stepHit key f truthy max evict) [] hist = hist.map f := by
  exact runHist_transparent _ f (Inv (fun _ => True) key f) (fun _ => True)
    (fun st c hst hc => stepHit_spec _ key f truthy (fun a b _ _ => hcong a b) max evict hev st hst c hc)
    [] (Inv.nil _ key f) hist (fun _ _ => trivial)

/-- the real eviction (`popitem`) only removes entries -/
theorem c13_popitem_sub {K R} (st : Store K R) : ∀ p ∈ popitem st, p ∈ st := by
  intro p hp
  exact List.dropLast_subset st hp

set_option linter.unusedVariables false in
/-- the repaired key determines the positional values and the keyword items (up to order)
    (the proof needs neither well-formedness hypothesis nor decidable equality of values) -/
theorem c13_newkey_inj {V} [DecidableEq V] (a b : Call V) (ha : Call.ok a) (hb : Call.ok b)
    (h : newKey a = newKey b) : a.args = b.args ∧ sortKw a.kwargs = sortKw b.kwargs := by
  exact newKey_inj a b h

/-- hence it is congruent for every function that sees its arguments through Python's binding:
    calls with equal keys bind to the same parameter values, for every signature -/
theorem c13_newkey_bind {V} [DecidableEq V] (sig : Sig V) (a b : Call V) (ha : Call.ok a) (hb : Call.ok b)
    (h : newKey a = newKey b) : bind sig a = bind sig b := by
  obtain ⟨h1, h2⟩ := newKey_inj a b h
  unfold Cache.bind
  rw [bindGo_sortKw sig a.args a.kwargs ha, bindGo_sortKw sig b.args b.kwargs hb, h1, h2]

/-- fresh-process form: a wrapped function that depends on the bound parameters only (`g ∘ bind`)
    is answered through the cache exactly as without it, over histories of well-formed calls -/
theorem c13_fresh {V R} [DecidableEq V] (sig : Sig V) (g : Option (List V) → R) (max : Nat)
    (evict : Store (List (KeyPart V)) R → Store (List (KeyPart V)) R)
    (hev : ∀ st, ∀ p ∈ evict st, p ∈ st) (hist : List (Call V)) (hok : ∀ c ∈ hist, Call.ok c) :
    runHist (stepLru newKey (fun c => g (bind sig c)) max evict) [] hist
      = hist.map (fun c => g (bind sig c)) := by
  exact runHist_transparent _ (fun c => g (bind sig c)) (Inv Call.ok newKey (fun c => g (bind sig c))) Call.ok
    (fun st c hst hc => stepLru_spec _ newKey _
      (fun a b ha hb hk => congrArg g (c13_newkey_bind sig a b ha hb hk)) max evict hev st hst c hc)
    [] (Inv.nil _ newKey _) hist hok

/-- regression witness (defect D1): the original key ignores keyword VALUES — two calls that bind
    differently share a key, and a two-call history is answered wrongly -/
theorem c13_oldkey_not_congruent :
    ∃ (sig : Sig Nat) (a b : Call Nat), oldKey a = oldKey b ∧ bind sig a ≠ bind sig b := by
  exact ⟨[(['p'], none), (['c'], some 0)], ⟨[7], [(['c'], 1)]⟩, ⟨[7], [(['c'], 2)]⟩, by decide, by decide⟩

theorem c13_oldkey_wrong_answer :
    ∃ (sig : Sig Nat) (hist : List (Call Nat)),
      runHist (stepLru oldKey (fun c => bind sig c) 4096 popitem) [] hist ≠ hist.map (fun c => bind sig c) := by
  exact ⟨[(['p'], none), (['c'], some 0)], [⟨[7], [(['c'], 1)]⟩, ⟨[7], [(['c'], 2)]⟩], by decide⟩

end C13
