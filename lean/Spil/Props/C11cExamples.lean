/-
  Spil.Props.C11cExamples — non-vacuity of C11c on the SHIPPED configuration: the data
  configuration of `spil_hamlet_conf/spil_data_conf.py` as the harness probes it (`dAll`), a tree
  with two files, and `FindInAll` for an asset-level search (routed to FindInPaths), a state-level
  or-list search, a state-level star search (constants below a searched parent), an
  assettype-level search (constants, concrete parent) and a concrete assettype — each answer
  DERIVED from the theorems of C11c with every hypothesis discharged by the kernel, and equal to
  what the model evaluates to.  GENERATED char lists (scratch generator of the proof session).
-/
import Spil.Props.C11c
import Spil.Props.C11bExamples

namespace C11cEx

open Spec Generated AllL C11Ex

/-! ### the shipped data configuration, a world -/

/-- `get_finder_for` of the shipped `spil_data_conf`, as `extract_conf.probe_data_conf` describes
    it: 0 = FindInPaths(), 1 = states (parent: paths), 2 = projects, 3 = types (parent: projects),
    4 = asset types (parent: types); default = paths -/
def dAll : DCtx := ⟨demoCtx, ⟨[.paths none,
    .constants ['s','t','a','t','e'] [['w'], ['p']] (some 0),
    .constants ['p','r','o','j','e','c','t'] [['h','a','m','l','e','t']] none,
    .constants ['t','y','p','e'] [['a'], ['s']] (some 2),
    .constants ['a','s','s','e','t','t','y','p','e'] [['c','h','a','r'], ['l','o','c','a','t','i','o','n'], ['p','r','o','p'], ['f','x']] (some 3)],
  [(['a','s','s','e','t','_','_','s','t','a','t','e'], 1), (['a','s','s','e','t','_','_','a','s','s','e','t','t','y','p','e'], 4), (['a','s','s','e','t'], 3), (['s','h','o','t','_','_','s','t','a','t','e'], 1), (['s','h','o','t'], 3), (['p','r','o','j','e','c','t'], 2)], some 0,
  [['a','s','s','e','t','_','_','s','t','a','t','e'], ['a','s','s','e','t','_','_','a','s','s','e','t','t','y','p','e'], ['a','s','s','e','t'], ['s','h','o','t','_','_','s','t','a','t','e'], ['s','h','o','t'], ['p','r','o','j','e','c','t']], true⟩⟩

/-- two characters, each with its asset directory, one version directory and one file
    (ophelia: model v001 WORK, yorick: model v002 PUBLISH) -/
def wA : World := ⟨[(['/','R','/','d','a','t','a','/','t','e','s','t','i','n','g','/','S','P','I','L','_','P','R','O','J','E','C','T','S','/','L','O','C','A','L','/','P','R','O','J','E','C','T','S','/','H','A','M','L','E','T','/','P','R','O','D','/','A','S','S','E','T','S','/','c','h','a','r','/','o','p','h','e','l','i','a'], .dir),
  (['/','R','/','d','a','t','a','/','t','e','s','t','i','n','g','/','S','P','I','L','_','P','R','O','J','E','C','T','S','/','L','O','C','A','L','/','P','R','O','J','E','C','T','S','/','H','A','M','L','E','T','/','P','R','O','D','/','A','S','S','E','T','S','/','c','h','a','r','/','o','p','h','e','l','i','a','/','m','o','d','e','l','/','v','0','0','1'], .dir),
  (['/','R','/','d','a','t','a','/','t','e','s','t','i','n','g','/','S','P','I','L','_','P','R','O','J','E','C','T','S','/','L','O','C','A','L','/','P','R','O','J','E','C','T','S','/','H','A','M','L','E','T','/','P','R','O','D','/','A','S','S','E','T','S','/','c','h','a','r','/','o','p','h','e','l','i','a','/','m','o','d','e','l','/','v','0','0','1','/','c','h','a','r','_','o','p','h','e','l','i','a','_','m','o','d','e','l','_','W','O','R','K','_','v','0','0','1','.','m','a'], .file),
  (['/','R','/','d','a','t','a','/','t','e','s','t','i','n','g','/','S','P','I','L','_','P','R','O','J','E','C','T','S','/','L','O','C','A','L','/','P','R','O','J','E','C','T','S','/','H','A','M','L','E','T','/','P','R','O','D','/','A','S','S','E','T','S','/','c','h','a','r','/','y','o','r','i','c','k'], .dir),
  (['/','R','/','d','a','t','a','/','t','e','s','t','i','n','g','/','S','P','I','L','_','P','R','O','J','E','C','T','S','/','L','O','C','A','L','/','P','R','O','J','E','C','T','S','/','H','A','M','L','E','T','/','P','R','O','D','/','A','S','S','E','T','S','/','c','h','a','r','/','y','o','r','i','c','k','/','m','o','d','e','l','/','v','0','0','2'], .dir),
  (['/','R','/','d','a','t','a','/','t','e','s','t','i','n','g','/','S','P','I','L','_','P','R','O','J','E','C','T','S','/','L','O','C','A','L','/','P','R','O','J','E','C','T','S','/','H','A','M','L','E','T','/','P','R','O','D','/','A','S','S','E','T','S','/','c','h','a','r','/','y','o','r','i','c','k','/','m','o','d','e','l','/','v','0','0','2','/','c','h','a','r','_','y','o','r','i','c','k','_','m','o','d','e','l','_','P','U','B','L','I','S','H','_','v','0','0','2','.','m','a'], .file)], []⟩

def kState : Str := ['s','t','a','t','e']
def kAssettype : Str := ['a','s','s','e','t','t','y','p','e']
def vState : List Str := [['w'], ['p']]
def vAssettype : List Str := [['c','h','a','r'], ['l','o','c','a','t','i','o','n'], ['p','r','o','p'], ['f','x']]
def verO : Str := ['h','a','m','l','e','t','/','a','/','c','h','a','r','/','o','p','h','e','l','i','a','/','m','o','d','e','l','/','v','0','0','1']
def verY : Str := ['h','a','m','l','e','t','/','a','/','c','h','a','r','/','y','o','r','i','c','k','/','m','o','d','e','l','/','v','0','0','2']

/-- "hamlet/a/char/*" -/
def aStr : Str := ['h','a','m','l','e','t','/','a','/','c','h','a','r','/','*']
def aSid : Sid :=
  ⟨['h','a','m','l','e','t','/','a','/','c','h','a','r','/','*'],
    ['a','s','s','e','t','_','_','a','s','s','e','t'],
    [(['p','r','o','j','e','c','t'], ['h','a','m','l','e','t']), (['t','y','p','e'], ['a']), (['a','s','s','e','t','t','y','p','e'], ['c','h','a','r']), (['a','s','s','e','t'], ['*'])]⟩
/-- "hamlet/a/char/*/model/*/w,p" and the two typed searches it unfolds to -/
def cStr : Str := ['h','a','m','l','e','t','/','a','/','c','h','a','r','/','*','/','m','o','d','e','l','/','*','/','w',',','p']
def sW : Sid :=
  ⟨['h','a','m','l','e','t','/','a','/','c','h','a','r','/','*','/','m','o','d','e','l','/','*','/','w'],
    ['a','s','s','e','t','_','_','s','t','a','t','e'],
    [(['p','r','o','j','e','c','t'], ['h','a','m','l','e','t']), (['t','y','p','e'], ['a']), (['a','s','s','e','t','t','y','p','e'], ['c','h','a','r']), (['a','s','s','e','t'], ['*']), (['t','a','s','k'], ['m','o','d','e','l']), (['v','e','r','s','i','o','n'], ['*']), (['s','t','a','t','e'], ['w'])]⟩
def sP : Sid :=
  ⟨['h','a','m','l','e','t','/','a','/','c','h','a','r','/','*','/','m','o','d','e','l','/','*','/','p'],
    ['a','s','s','e','t','_','_','s','t','a','t','e'],
    [(['p','r','o','j','e','c','t'], ['h','a','m','l','e','t']), (['t','y','p','e'], ['a']), (['a','s','s','e','t','t','y','p','e'], ['c','h','a','r']), (['a','s','s','e','t'], ['*']), (['t','a','s','k'], ['m','o','d','e','l']), (['v','e','r','s','i','o','n'], ['*']), (['s','t','a','t','e'], ['p'])]⟩
/-- their common parent search "hamlet/a/char/*/model/*" -/
def vSid : Sid :=
  ⟨['h','a','m','l','e','t','/','a','/','c','h','a','r','/','*','/','m','o','d','e','l','/','*'],
    ['a','s','s','e','t','_','_','v','e','r','s','i','o','n'],
    [(['p','r','o','j','e','c','t'], ['h','a','m','l','e','t']), (['t','y','p','e'], ['a']), (['a','s','s','e','t','t','y','p','e'], ['c','h','a','r']), (['a','s','s','e','t'], ['*']), (['t','a','s','k'], ['m','o','d','e','l']), (['v','e','r','s','i','o','n'], ['*'])]⟩
/-- "hamlet/a/char/*/model/*/*" -/
def kStr : Str := ['h','a','m','l','e','t','/','a','/','c','h','a','r','/','*','/','m','o','d','e','l','/','*','/','*']
def sK : Sid :=
  ⟨['h','a','m','l','e','t','/','a','/','c','h','a','r','/','*','/','m','o','d','e','l','/','*','/','*'],
    ['a','s','s','e','t','_','_','s','t','a','t','e'],
    [(['p','r','o','j','e','c','t'], ['h','a','m','l','e','t']), (['t','y','p','e'], ['a']), (['a','s','s','e','t','t','y','p','e'], ['c','h','a','r']), (['a','s','s','e','t'], ['*']), (['t','a','s','k'], ['m','o','d','e','l']), (['v','e','r','s','i','o','n'], ['*']), (['s','t','a','t','e'], ['*'])]⟩
/-- "hamlet/a/*" -/
def tStr : Str := ['h','a','m','l','e','t','/','a','/','*']
def sT : Sid :=
  ⟨['h','a','m','l','e','t','/','a','/','*'],
    ['a','s','s','e','t','_','_','a','s','s','e','t','t','y','p','e'],
    [(['p','r','o','j','e','c','t'], ['h','a','m','l','e','t']), (['t','y','p','e'], ['a']), (['a','s','s','e','t','t','y','p','e'], ['*'])]⟩
/-- "hamlet/a/char" -/
def gStr : Str := ['h','a','m','l','e','t','/','a','/','c','h','a','r']
def sG : Sid :=
  ⟨['h','a','m','l','e','t','/','a','/','c','h','a','r'],
    ['a','s','s','e','t','_','_','a','s','s','e','t','t','y','p','e'],
    [(['p','r','o','j','e','c','t'], ['h','a','m','l','e','t']), (['t','y','p','e'], ['a']), (['a','s','s','e','t','t','y','p','e'], ['c','h','a','r'])]⟩

def rAsset : List Str := [['h','a','m','l','e','t','/','a','/','c','h','a','r','/','o','p','h','e','l','i','a'], ['h','a','m','l','e','t','/','a','/','c','h','a','r','/','y','o','r','i','c','k']]
def rOr : List Str := [['h','a','m','l','e','t','/','a','/','c','h','a','r','/','o','p','h','e','l','i','a','/','m','o','d','e','l','/','v','0','0','1','/','p'], ['h','a','m','l','e','t','/','a','/','c','h','a','r','/','y','o','r','i','c','k','/','m','o','d','e','l','/','v','0','0','2','/','p'], ['h','a','m','l','e','t','/','a','/','c','h','a','r','/','o','p','h','e','l','i','a','/','m','o','d','e','l','/','v','0','0','1','/','w'], ['h','a','m','l','e','t','/','a','/','c','h','a','r','/','y','o','r','i','c','k','/','m','o','d','e','l','/','v','0','0','2','/','w']]
def rStar : List Str := [['h','a','m','l','e','t','/','a','/','c','h','a','r','/','o','p','h','e','l','i','a','/','m','o','d','e','l','/','v','0','0','1','/','w'], ['h','a','m','l','e','t','/','a','/','c','h','a','r','/','o','p','h','e','l','i','a','/','m','o','d','e','l','/','v','0','0','1','/','p'], ['h','a','m','l','e','t','/','a','/','c','h','a','r','/','y','o','r','i','c','k','/','m','o','d','e','l','/','v','0','0','2','/','w'], ['h','a','m','l','e','t','/','a','/','c','h','a','r','/','y','o','r','i','c','k','/','m','o','d','e','l','/','v','0','0','2','/','p']]
def rTypes : List Str := [['h','a','m','l','e','t','/','a','/','c','h','a','r'], ['h','a','m','l','e','t','/','a','/','l','o','c','a','t','i','o','n'], ['h','a','m','l','e','t','/','a','/','p','r','o','p'], ['h','a','m','l','e','t','/','a','/','f','x']]

/-! ### definitions for the two remarks at the end -/

/-- the same table with the states Finder knowing only the value "w" -/
def dW : DCtx := ⟨demoCtx, ⟨[.paths none, .constants ['s','t','a','t','e'] [['w']] (some 0)],
  [(['a','s','s','e','t','_','_','s','t','a','t','e'], 1)], some 0, [], true⟩⟩
/-- "hamlet/a/char/*/model/*/p" -/
def pStr : Str := ['h','a','m','l','e','t','/','a','/','c','h','a','r','/','*','/','m','o','d','e','l','/','*','/','p']
def rP : List Str := [['h','a','m','l','e','t','/','a','/','c','h','a','r','/','o','p','h','e','l','i','a','/','m','o','d','e','l','/','v','0','0','1','/','p'], ['h','a','m','l','e','t','/','a','/','c','h','a','r','/','y','o','r','i','c','k','/','m','o','d','e','l','/','v','0','0','2','/','p']]

/-- two types `t1`, `t2` with the same sid pattern "{.}/{.}" and the roots /r1, /r2 -/
def twoCtx : Ctx :=
  { cfg := { sid := { sep := ['_','_'], searchSymbols := [['*']],
                      templates := [(['t','1'], [.ph ['a'] (Re.star Cls.notSlash), .lit ['/'], .ph ['b'] (Re.star Cls.notSlash)]),
                                    (['t','2'], [.ph ['c'] (Re.star Cls.notSlash), .lit ['/'], .ph ['e'] (Re.star Cls.notSlash)])],
                      keyTypes := [(['t','1'], [['a'], ['b']]), (['t','2'], [['c'], ['e']])], leafKeys := [],
                      extensionAlias := [], basetypedNarrowing := [], typedNarrowing := [] }
             paths := [{ name := ['l'],
                         templates := [(['t','1'], [.lit ['/','r','1','/'], .ph ['a'] (Re.star Cls.notSlash), .lit ['/'], .ph ['b'] (Re.star Cls.notSlash)]),
                                       (['t','2'], [.lit ['/','r','2','/'], .ph ['c'] (Re.star Cls.notSlash), .lit ['/'], .ph ['e'] (Re.star Cls.notSlash)])],
                         mapping := [], defaults := [], searchMapping := [] }]
             defaultPath := ['l'], dataSuffix := [] }
    env := { isDigit := fun _ => false } }
def twoD : DCtx := ⟨twoCtx, ⟨[.paths none], [], some 0, [], true⟩⟩
def twoW : World := ⟨[(['/','r','1','/','x','/','f','o','o'], .file), (['/','r','2','/','x','/','f','o','o'], .file)], []⟩
def two1 : Sid := ⟨['x','/','*'], ['t','1'], [(['a'], ['x']), (['b'], ['*'])]⟩
def two2 : Sid := ⟨['x','/','*'], ['t','2'], [(['c'], ['x']), (['e'], ['*'])]⟩

/-- the result is the error `.other` -/
def okErr {α} (x : Except Err α) : Bool :=
  match x with
  | .error .other => true
  | _ => false

theorem hwf : sidHierOk dAll.ctx.env dAll.ctx.cfg.sid.templates = true := Tie.demo_wf

/-! ### (3) the fuel -/

/-- the shipped data configuration (and the one-finder configuration of `C11bExamples`) have valid,
    acyclic parent chains -/
theorem ex_chain : dAll.data.chainOk = true := by decide +kernel
theorem ex_chain_paths : demoD.data.chainOk = true := by decide +kernel

/-- hence more fuel changes no answer of any Finder, on any tree, for any searches -/
theorem ex_fuel (w : World) (i k : Nat) (ss : List Sid) :
    dAll.finderDoFind w (dAll.fuel + k) i ss = dAll.finderDoFind w dAll.fuel i ss :=
  C11.c11_fuel dAll w ex_chain i k ss

/-- a dangling parent index is refused -/
theorem ex_chain_dangling :
    (⟨[.constants kState vState (some 3)], [], none, [], true⟩ : DataConf).chainOk = false := by
  decide +kernel

/-- a cycle is refused -/
theorem ex_chain_cycle :
    (⟨[.constants kState vState (some 1), .constants kAssettype vAssettype (some 0)], [], none, [],
      true⟩ : DataConf).chainOk = false := by
  decide +kernel

/-! ### the Finders of the table -/

theorem ex_f0 : dAll.data.finders[0]? = some (.paths none) := rfl
theorem ex_f1 : dAll.data.finders[1]? = some (.constants kState vState (some 0)) := rfl
theorem ex_f4 : dAll.data.finders[4]? = some (.constants kAssettype vAssettype (some 3)) := rfl

/-- `FindInPaths().find` as the states Finder calls it: `Finder.find` over `FindInPaths.do_find` -/
theorem ex_find_paths (w : World) (fuel : Nat) (rp : Sid) :
    dAll.finderFind w (fuel + 2) 0 rp = findVia dAll (dAll.pathsDoFind w none) rp := by
  rw [finderFind_succ]
  apply findVia_congr
  intro ss
  exact finderDoFind_paths dAll w fuel 0 none ex_f0 ss

/-! ### (1) an asset-level search is routed to FindInPaths -/

theorem ex_unfold_a : demoCtx.unfoldSearch aStr false false = .ok [aSid] :=
  okIs_eq _ _ (by decide +kernel)
theorem ex_searches_a : demoCtx.findSearches aStr = .ok [aSid] := okIs_eq _ _ (by decide +kernel)
theorem ex_route_a : ∀ s ∈ [aSid], dAll.finderFor s = some 0 := by
  intro s hs
  simp only [List.mem_singleton] at hs
  subst hs
  decide +kernel
theorem ex_paths_a : dAll.pathsDoFind wA none [aSid] = .ok rAsset := okIs_eq _ _ (by decide +kernel)

/-- `c11_all_eq_paths` instantiated: FindInAll IS FindInPaths for this search … -/
theorem ex_all_eq_paths : dAll.findInAll wA aStr = dAll.findInPaths wA none aStr :=
  C11.c11_all_eq_paths dAll wA aStr [aSid] 0 none ex_unfold_a ex_searches_a ex_route_a ex_f0
    (fun r hr => by rw [ex_paths_a] at hr; cases hr; decide +kernel)

/-- … and both find the two characters -/
theorem ex_all_a : dAll.findInAll wA aStr = .ok rAsset := by
  rw [ex_all_eq_paths]
  unfold DCtx.findInPaths
  have : dAll.ctx.findSearches aStr = .ok [aSid] := ex_searches_a
  rw [this]
  exact ex_paths_a

/-! ### (2c) a state-level or-list search: constants below a searched parent -/

theorem ex_unfold_c : demoCtx.unfoldSearch cStr false false = .ok [sP, sW] :=
  okIs_eq _ _ (by decide +kernel)

theorem ex_route_c : ∀ s ∈ [sP, sW], dAll.finderFor s = some 1 := by
  intro s hs
  simp only [List.mem_cons, List.not_mem_nil, or_false] at hs
  rcases hs with rfl | rfl <;> decide +kernel

theorem ex_cs (s : Sid) (hs : s ∈ [sP, sW, sK]) : C11.ConstSearch demoCtx kState s s := by
  simp only [List.mem_cons, List.not_mem_nil, or_false] at hs
  rcases hs with rfl | rfl | rfl
  · exact ⟨wellTyped_of_B _ _ _ (by decide +kernel), by decide +kernel, okIs_eq _ _ (by decide +kernel),
      wellTyped_of_B _ _ _ (by decide +kernel), by decide +kernel, by decide +kernel⟩
  · exact ⟨wellTyped_of_B _ _ _ (by decide +kernel), by decide +kernel, okIs_eq _ _ (by decide +kernel),
      wellTyped_of_B _ _ _ (by decide +kernel), by decide +kernel, by decide +kernel⟩
  · exact ⟨wellTyped_of_B _ _ _ (by decide +kernel), by decide +kernel, okIs_eq _ _ (by decide +kernel),
      wellTyped_of_B _ _ _ (by decide +kernel), by decide +kernel, by decide +kernel⟩

/-- `ConstSearch` obtained from C03 (`c11_const_search`, i.e. `c03_get_as`) instead of evaluating
    `get_as`: the key `state` is the 7th key of the search Sid -/
theorem ex_cs_c03 : ∃ root, C11.ConstSearch demoCtx kState sW root ∧
    root.fields = sW.fields.take 7 ∧
    root.string = Str.joinWith '/' ((Str.splitOn '/' sW.string).take 7) :=
  C11.c11_const_search demoCtx Tie.demo_wf kState sW (wellTyped_of_B _ _ _ (by decide +kernel))
    (by decide +kernel) 6 (by decide +kernel) (by decide +kernel) (by decide +kernel)

/-- the parent search of all three state searches is "hamlet/a/char/*/model/*" -/
theorem ex_parent (s : Sid) (hs : s ∈ [sP, sW, sK]) : demoCtx.parent s = .ok vSid := by
  simp only [List.mem_cons, List.not_mem_nil, or_false] at hs
  rcases hs with rfl | rfl | rfl <;> exact okIs_eq _ _ (by decide +kernel)

/-- FindInPaths answers the parent search with the two version directories -/
theorem ex_found : dAll.finderFind wA (2 * dAll.data.finders.length + 1) 0 vSid = .ok [verO, verY] := by
  show dAll.finderFind wA (9 + 2) 0 vSid = _
  rw [ex_find_paths]
  exact okIs_eq _ _ (by decide +kernel)

theorem ex_keyAppends : keyAppends demoConf.sid.templates kState = true := by decide +kernel

theorem ex_foundOk (v : Str) (fr : Str) (hfr : fr ∈ [verO, verY]) : C11.FoundOk demoCtx kState v fr := by
  simp only [List.mem_cons, List.not_mem_nil, or_false] at hfr
  rcases hfr with rfl | rfl
  · exact ⟨by decide +kernel, by decide +kernel, fun _ => ⟨by decide +kernel, by decide +kernel⟩⟩
  · exact ⟨by decide +kernel, by decide +kernel, fun _ => ⟨by decide +kernel, by decide +kernel⟩⟩

/-- `ParentAnswers` for the three state searches, every clause discharged by the kernel -/
theorem ex_answers (s : Sid) (hs : s ∈ [sP, sW, sK]) :
    C11.ParentAnswers dAll wA (2 * dAll.data.finders.length + 1) kState vState 0 s
      ((s.fields.get kState).getD []) [verO, verY] := by
  refine ⟨s, vSid, ex_cs s hs, ?_, ?_, ?_, ?_, ?_, fun _ => ⟨ex_keyAppends, by decide +kernel⟩,
    ex_parent s hs, ex_found, fun fr hfr => ex_foundOk _ fr hfr⟩
  all_goals
    simp only [List.mem_cons, List.not_mem_nil, or_false] at hs
    rcases hs with rfl | rfl | rfl <;> decide +kernel

/-- `c11_const_find_all` instantiated on the or-list search: FindInAll answers with
    (versions found by FindInPaths) × (the values w, p the last segment admits) -/
theorem ex_all_c_spec : ∃ r, dAll.findInAll wA cStr = .ok r ∧ r.Nodup ∧
    ∀ x, x ∈ r ↔ ∃ s ∈ [sP, sW], ∃ fr ∈ [verO, verY],
      ∃ u ∈ C11.admitted demoCtx kState vState ((s.fields.get kState).getD []) fr, x = fr ++ '/' :: u := by
  obtain ⟨r, h1, h2, _, h4⟩ := C11.c11_const_find_all dAll hwf wA cStr [sP, sW] 1 kState vState 0
    ex_unfold_c ex_route_c ex_f1
    (by intro s hs; simp only [List.mem_cons, List.not_mem_nil, or_false] at hs
        rcases hs with rfl | rfl <;> decide +kernel)
    (fun s => (s.fields.get kState).getD []) (fun _ => [verO, verY])
    (fun s hs => ex_answers s (by
      simp only [List.mem_cons, List.not_mem_nil, or_false] at hs ⊢
      rcases hs with rfl | rfl <;> simp))
  exact ⟨r, h1, h2, h4⟩

/-- … explicitly: every found version in both states, whatever files exist (states are constants) -/
theorem ex_all_c : dAll.findInAll wA cStr = .ok rOr := by
  obtain ⟨r, h1, _, h3, _⟩ := C11.c11_const_find_all dAll hwf wA cStr [sP, sW] 1 kState vState 0
    ex_unfold_c ex_route_c ex_f1
    (by intro s hs; simp only [List.mem_cons, List.not_mem_nil, or_false] at hs
        rcases hs with rfl | rfl <;> decide +kernel)
    (fun s => (s.fields.get kState).getD []) (fun _ => [verO, verY])
    (fun s hs => ex_answers s (by
      simp only [List.mem_cons, List.not_mem_nil, or_false] at hs ⊢
      rcases hs with rfl | rfl <;> simp))
  rw [h1, h3]
  exact congrArg Except.ok (by decide +kernel)

/-! ### (2c) the key itself searched: "hamlet/a/char/*/model/*/*" -/

theorem ex_unfold_k : demoCtx.unfoldSearch kStr false false = .ok [sK] :=
  okIs_eq _ _ (by decide +kernel)

theorem ex_all_k : dAll.findInAll wA kStr = .ok rStar := by
  obtain ⟨r, h1, _, h3, _⟩ := C11.c11_const_find_all dAll hwf wA kStr [sK] 1 kState vState 0
    ex_unfold_k
    (by intro s hs; simp only [List.mem_singleton] at hs; subst hs; decide +kernel) ex_f1
    (by intro s hs; simp only [List.mem_singleton] at hs; subst hs; decide +kernel)
    (fun s => (s.fields.get kState).getD []) (fun _ => [verO, verY])
    (fun s hs => ex_answers s (by simp only [List.mem_singleton] at hs; subst hs; simp))
  rw [h1, h3]
  exact congrArg Except.ok (by decide +kernel)

/-- the fuel-exhaustion branch of the model IS reachable with too little fuel (so `c11_fuel` says
    something): with fuel 2 the states Finder cannot ask its parent source -/
theorem ex_fuel_too_small : dAll.finderDoFind wA 2 1 [sW] = .error .other := by
  rw [finderDoFind_constants dAll wA 1 1 kState vState (some 0) ex_f1,
    doFindWith_star dAll _ _ (by simp) (by
      intro s hs; simp only [List.mem_singleton] at hs; subst hs; decide +kernel)]
  obtain ⟨rp, hp, _, _, _, _, hall⟩ := C11.c11_const_parent dAll wA 1 kState vState hwf sW sW
    (ex_cs sW (by simp)) (by decide +kernel) (by decide +kernel) (by decide +kernel)
  have hp' : demoCtx.parent sW = .ok vSid := ex_parent sW (by simp)
  have : rp = vSid := by
    have h : dAll.ctx.parent sW = .ok vSid := hp'
    rw [h] at hp
    injection hp with hp
    exact hp.symm
  subst this
  rw [hall 0, finderFind_succ]
  have h0 : findVia dAll (dAll.finderDoFind wA 0 0) vSid = findVia dAll (fun _ => .error .other) vSid :=
    findVia_congr dAll _ _ (fun ss => DCtx.finderDoFind.eq_1 dAll wA 0 ss) vSid
  rw [h0]
  have : findVia dAll (fun _ => .error .other) vSid = .error .other := by
    have : okErr (findVia dAll (fun _ => .error .other) vSid) = true := by decide +kernel
    revert this
    cases findVia dAll (fun _ => .error .other) vSid with
    | error e => cases e <;> simp [okErr]
    | ok r => simp [okErr]
  rw [this]

/-! ### (2b) an assettype-level search: constants below a concrete parent -/

theorem ex_unfold_t : demoCtx.unfoldSearch tStr false false = .ok [sT] :=
  okIs_eq _ _ (by decide +kernel)

theorem ex_cs_t : C11.ConstSearch demoCtx kAssettype sT sT :=
  ⟨wellTyped_of_B _ _ _ (by decide +kernel), by decide +kernel, okIs_eq _ _ (by decide +kernel),
    wellTyped_of_B _ _ _ (by decide +kernel), by decide +kernel, by decide +kernel⟩

theorem ex_all_t : dAll.findInAll wA tStr = .ok rTypes := by
  rw [C11.c11_const_find_all_flat dAll wA tStr [sT] 4 kAssettype vAssettype (some 3) ex_unfold_t
    (by intro s hs; simp only [List.mem_singleton] at hs; subst hs; decide +kernel) ex_f4
    (by intro s hs; simp only [List.mem_singleton] at hs; subst hs; decide +kernel),
    flatMapE_singleton,
    C11.c11_const_values dAll wA _ kAssettype vAssettype (some 3) hwf sT sT ex_cs_t (by decide +kernel)
      (by decide +kernel) (fun _ => by decide +kernel) (by decide +kernel)]
  exact congrArg Except.ok (by decide +kernel)

/-! ### (2a) a concrete assettype -/

theorem ex_unfold_g : demoCtx.unfoldSearch gStr false false = .ok [sG] :=
  okIs_eq _ _ (by decide +kernel)

theorem ex_cs_g : C11.ConstSearch demoCtx kAssettype sG sG :=
  ⟨wellTyped_of_B _ _ _ (by decide +kernel), by decide +kernel, okIs_eq _ _ (by decide +kernel),
    wellTyped_of_B _ _ _ (by decide +kernel), by decide +kernel, by decide +kernel⟩

theorem ex_all_g : dAll.findInAll wA gStr = .ok [gStr] := by
  rw [C11.c11_const_find_all_flat dAll wA gStr [sG] 4 kAssettype vAssettype (some 3) ex_unfold_g
    (by intro s hs; simp only [List.mem_singleton] at hs; subst hs; decide +kernel) ex_f4
    (by intro s hs; simp only [List.mem_singleton] at hs; subst hs; decide +kernel),
    flatMapE_singleton,
    C11.c11_const_concrete dAll wA _ kAssettype vAssettype (some 3) hwf sG sG ex_cs_g (by decide +kernel)]
  rfl

/-! ### two remarks, kernel-checked -/

theorem ex_unfold_p : demoCtx.unfoldSearch pStr false false = .ok [sP] :=
  okIs_eq _ _ (by decide +kernel)

theorem ex_foundW : dW.finderFind wA (2 * dW.data.finders.length + 1) 0 vSid = .ok [verO, verY] := by
  show dW.finderFind wA (3 + 2) 0 vSid = _
  rw [finderFind_succ]
  have : findVia dW (dW.finderDoFind wA (3 + 1) 0) vSid = findVia dW (dW.pathsDoFind wA none) vSid :=
    findVia_congr dW _ _ (fun ss => finderDoFind_paths dW wA 3 0 none rfl ss) vSid
  rw [this]
  exact okIs_eq _ _ (by decide +kernel)

/-- REMARK 1 (the proviso at `C11.admitted`): a FIXED value of the key is not compared with the
    constants.  The states Finder of `dW` knows only "w", yet `FindInAll` answers the search
    "hamlet/a/char/*/model/*/p" with the state "p" of every version found (`found_root / value`
    in `FindInConstants.star_search` never consults `self.values`).  The oracle of the harness reads
    "admitted" as `values ∩ alternatives` and would expect nothing here; the two readings coincide
    on every configuration whose key pattern admits exactly the constants, as the shipped one. -/
theorem ex_fixed_value_not_checked : dW.findInAll wA pStr = .ok rP := by
  obtain ⟨r, h1, _, h3, _⟩ := C11.c11_const_find_all dW hwf wA pStr [sP] 1 kState [['w']] 0
    ex_unfold_p
    (by intro s hs; simp only [List.mem_singleton] at hs; subst hs; decide +kernel) rfl
    (by intro s hs; simp only [List.mem_singleton] at hs; subst hs; decide +kernel)
    (fun _ => ['p']) (fun _ => [verO, verY])
    (fun s hs => by
      simp only [List.mem_singleton] at hs
      subst hs
      exact ⟨sP, vSid, ex_cs sP (by simp), by decide +kernel, by decide +kernel, by decide +kernel,
        by decide +kernel, by decide +kernel, fun h => absurd h (by decide), ex_parent sP (by simp),
        ex_foundW, fun fr hfr => ex_foundOk _ fr hfr⟩)
  rw [h1, h3]
  exact congrArg Except.ok (by decide +kernel)

/-- REMARK 2 (`hnd` of `c11_all_eq_paths` is needed): `FindInPaths.do_find(as_sid=False)` CAN yield
    a string twice — two typed searches with the same string, of two types whose Sids have the same
    string: the star search de-duplicates paths and Sids, not strings — and `FindInAll` removes the
    second one -/
theorem c11_nodup_needed :
    twoCtx.sidOfString (['t','1',':'] ++ two1.string) = .ok two1 ∧
    twoCtx.sidOfString (['t','2',':'] ++ two2.string) = .ok two2 ∧
    twoD.pathsStarSids twoW none [two1, two2] =
      .ok [⟨['x','/','f','o','o'], ['t','1'], [(['a'], ['x']), (['b'], ['f','o','o'])]⟩,
           ⟨['x','/','f','o','o'], ['t','2'], [(['c'], ['x']), (['e'], ['f','o','o'])]⟩] ∧
    twoD.pathsDoFind twoW none [two1, two2] = .ok [['x','/','f','o','o'], ['x','/','f','o','o']] ∧
    Lst.dedupBy (· == ·) [['x','/','f','o','o'], ['x','/','f','o','o']] = [['x','/','f','o','o']] :=
  ⟨okIs_eq _ _ (by decide +kernel), okIs_eq _ _ (by decide +kernel), okIs_eq _ _ (by decide +kernel),
   okIs_eq _ _ (by decide +kernel), by decide +kernel⟩

end C11cEx
