/-
  Spil.Props.C17 — "An interrupted attribute write leaves the old or the new data, never a ruin",
  for EVERY old content, new content and crash point, and every codec satisfying the two laws.
-/
import Spil.Model.Crash
import Spil.Lemmas.Crash

namespace C17

open Crash

/-- after any prefix of the effects of the repaired write, the sidecar holds exactly the old bytes
    or exactly the new bytes -/
theorem c17_atomic (f : Files) (new : Bytes) (k : Nat) :
    (crashAfter f (writeEffects new) k).target = f.target ∨
    (crashAfter f (writeEffects new) k).target = some new := by
  exact crashAfter_write_target f new k

/-- a write that runs to completion installs the new bytes and leaves no temporary file -/
theorem c17_complete (f : Files) (new : Bytes) :
    crashAfter f (writeEffects new) (writeEffects new).length = { target := some new, tmp := none } := by
  exact crashAfter_write_full f new

/-- reading after a crash returns the complete previous data or the complete new data -/
theorem c17_read {D} [Inhabited D] (c : Codec D) (f : Files) (d : D) (k : Nat) :
    readData c (crashAfter f (writeEffects (c.encode d)) k) = readData c f ∨
    readData c (crashAfter f (writeEffects (c.encode d)) k) = d := by
  rcases crashAfter_write_target f (c.encode d) k with h | h
  · left; simp only [readData, h]
  · right; simp [readData, h, c.dec_enc]

/-- a leftover temporary file never influences a later write -/
theorem c17_tmp_harmless {D} [Inhabited D] (c : Codec D) (overlay : D → D → D) (f : Files) (t : Option Bytes)
    (attrs : D) : setData c overlay { f with tmp := t } attrs = setData c overlay f attrs := by
  rw [setData_eq, setData_eq]; rfl

/-- the next `set` after a crash succeeds and stores the overlay of what a read returns:
    if the sidecar was absent or valid before the interrupted write, then after a crash at ANY
    point a further `set attrs₂` succeeds, and reading it back gives
    `overlay (what was readable after the crash) attrs₂` -/
theorem c17_next_ok {D} [Inhabited D] (c : Codec D) (overlay : D → D → D) (f : Files)
    (hvalid : f.target = none ∨ ∃ d₀, f.target = some (c.encode d₀))
    (attrs₁ attrs₂ : D) (k : Nat) (new : Bytes) (hnew : mergedBytes c overlay f attrs₁ = some new) :
    let crashed := crashAfter f (writeEffects new) k
    ∃ f', setData c overlay crashed attrs₂ = some f' ∧
      (crashed.target = none → readData c f' = attrs₂) ∧
      (crashed.target ≠ none → readData c f' = overlay (readData c crashed) attrs₂) := by
  intro crashed
  apply setData_valid
  rcases crashAfter_write_target f new k with h | h
  · rw [h]
    rcases hvalid with h0 | ⟨d₀, h0⟩
    · left; exact h0
    · right; exact ⟨d₀, h0⟩
  · right
    rcases hvalid with h0 | ⟨d₀, h0⟩
    · simp only [mergedBytes, h0, Option.some.injEq] at hnew
      exact ⟨attrs₁, by rw [h, hnew]⟩
    · simp only [mergedBytes, h0, c.dec_enc, Option.map_some, Option.some.injEq] at hnew
      exact ⟨overlay d₀ attrs₁, by rw [h, hnew]⟩

/-- regression witness (defect D19): with the original in-place protocol there is a crash point
    after which the data is neither old nor new — it does not decode at all — and the next `set`
    fails -/
theorem c17_inplace_breaks {D} [Inhabited D] (c : Codec D) (overlay : D → D → D) (f : Files) (d attrs : D)
    (hne : 0 < (c.encode d).length) :
    ∃ k, let crashed := crashAfter f (inplaceEffects (c.encode d)) k
      (∃ b, crashed.target = some b ∧ c.decode b = none) ∧ setData c overlay crashed attrs = none := by
  have hd : c.decode [] = none := by
    have := c.prefix_bad d 0 hne
    simpa using this
  refine ⟨1, ?_⟩
  have hc : crashAfter f (inplaceEffects (c.encode d)) 1 = { f with target := some [] } := by
    simp [crashAfter, inplaceEffects, applyEff]
  simp only [hc]
  refine ⟨⟨[], rfl, hd⟩, ?_⟩
  rw [setData_eq]
  simp [mergedBytes, hd]

/-- the hypotheses are satisfiable: a toy codec with both laws (byte values shifted by one, zero terminated) -/
def toyCodec : Codec (List Nat) := by
  exact { encode := toyEnc, decode := toyDec, dec_enc := toyDec_enc, prefix_bad := toyDec_prefix }

end C17
