/-
  Spil.Props.C07cExamples — non-vacuity of C07c / C10b on the SHIPPED configuration: the expressions
  `hamlet/a,s/*`, `hamlet/a/char/x/model/v001/w/maya`, `hamlet/a/**/ma` are unfolded by the kernel
  (`decide +kernel` on a Boolean test), every hypothesis of the theorems is discharged for them, and
  the theorems are instantiated.  GENERATED char lists.
-/
import Spil.Generated.DemoConf
import Spil.Props.Tie
import Spil.Props.C07c
import Spil.Props.C10b

namespace C07Ex

open Spec Generated Ctx

def demoCtx : Ctx := ⟨demoConf, demoEnv⟩

/-- Boolean test: the call succeeded and returned Sids with these uris, in this order -/
def urisAre (x : Except Err (List Sid)) (us : List Str) : Bool :=
  match x with
  | .ok r => decide (r.map Sid.uri = us)
  | .error _ => false

theorem urisAre_ok (x : Except Err (List Sid)) (us : List Str) (h : urisAre x us = true) :
    ∃ r, x = .ok r ∧ r.map Sid.uri = us := by
  unfold urisAre at h
  split at h
  · next r => exact ⟨r, rfl, by simpa using h⟩
  · cases h

def errIs (x : Except Err (List Sid)) (e : Err) : Bool :=
  match x with
  | .ok _ => false
  | .error e' => decide (e' = e)

theorem errIs_eq (x : Except Err (List Sid)) (e : Err) (h : errIs x e = true) : x = .error e := by
  unfold errIs at h
  split at h
  · cases h
  · simp only [decide_eq_true_eq] at h; rw [h]

/-- the shipped configuration meets the conventions of C07c -/
theorem demo_confOk : ConfOk demoCtx where
  wf := Tie.demo_wf
  alias := by decide +kernel
  noEmptyNarrow := by decide +kernel

theorem demo_aliasFlat : aliasFlat demoCtx.cfg.sid = true := by decide +kernel

/-- an expression meets the conditions of C07c as soon as four Boolean tests succeed -/
theorem exprOk_of_dec (c : Ctx) (hal : aliasOk c.cfg.sid = true) (s : Str)
    (h1 : Str.hasChar '?' s = false) (h2 : Str.hasChar ':' s = false)
    (h3 : Str.isInfix startMark s = false) (h4 : rootedB s = true) : ExprOk c s where
  noQuery := (DenL.hasChar_false_iff _ _).1 h1
  noColon := (DenL.hasChar_false_iff _ _).1 h2
  noMark := h3
  rooted := C07.c07_rooted c hal s h4

/-- "hamlet/a,s/*" -/
def sOr : Str := ['h','a','m','l','e','t','/','a',',','s','/','*']
def sOrUris : List Str := [['a','s','s','e','t','_','_','a','s','s','e','t','t','y','p','e',':','h','a','m','l','e','t','/','a','/','*'], ['s','h','o','t','_','_','s','e','q','u','e','n','c','e',':','h','a','m','l','e','t','/','s','/','*']]
theorem sOr_ok : ExprOk demoCtx sOr :=
  exprOk_of_dec demoCtx demo_confOk.alias sOr (by decide +kernel) (by decide +kernel) (by decide +kernel) (by decide +kernel)
theorem sOr_eval : ∃ r, demoCtx.unfoldSearch sOr false false = .ok r ∧ r.map Sid.uri = sOrUris :=
  urisAre_ok _ _ (by decide +kernel)

/-- "hamlet/a/char/x/model/v001/w/maya" -/
def sAlias : Str := ['h','a','m','l','e','t','/','a','/','c','h','a','r','/','x','/','m','o','d','e','l','/','v','0','0','1','/','w','/','m','a','y','a']
def sAliasUris : List Str := [['a','s','s','e','t','_','_','f','i','l','e',':','h','a','m','l','e','t','/','a','/','c','h','a','r','/','x','/','m','o','d','e','l','/','v','0','0','1','/','w','/','m','a'], ['a','s','s','e','t','_','_','f','i','l','e',':','h','a','m','l','e','t','/','a','/','c','h','a','r','/','x','/','m','o','d','e','l','/','v','0','0','1','/','w','/','m','b']]
theorem sAlias_ok : ExprOk demoCtx sAlias :=
  exprOk_of_dec demoCtx demo_confOk.alias sAlias (by decide +kernel) (by decide +kernel) (by decide +kernel) (by decide +kernel)
theorem sAlias_eval : ∃ r, demoCtx.unfoldSearch sAlias false false = .ok r ∧ r.map Sid.uri = sAliasUris :=
  urisAre_ok _ _ (by decide +kernel)

/-- "hamlet/a/**/ma" -/
def sStars : Str := ['h','a','m','l','e','t','/','a','/','*','*','/','m','a']
def sStarsUris : List Str := [['a','s','s','e','t','_','_','f','i','l','e',':','h','a','m','l','e','t','/','a','/','*','/','*','/','*','/','*','/','*','/','m','a']]
theorem sStars_ok : ExprOk demoCtx sStars :=
  exprOk_of_dec demoCtx demo_confOk.alias sStars (by decide +kernel) (by decide +kernel) (by decide +kernel) (by decide +kernel)
theorem sStars_eval : ∃ r, demoCtx.unfoldSearch sStars false false = .ok r ∧ r.map Sid.uri = sStarsUris :=
  urisAre_ok _ _ (by decide +kernel)

/-- "hamlet/a/*" -/
def sOrA : Str := ['h','a','m','l','e','t','/','a','/','*']
def sOrAUris : List Str := [['a','s','s','e','t','_','_','a','s','s','e','t','t','y','p','e',':','h','a','m','l','e','t','/','a','/','*']]
theorem sOrA_ok : ExprOk demoCtx sOrA :=
  exprOk_of_dec demoCtx demo_confOk.alias sOrA (by decide +kernel) (by decide +kernel) (by decide +kernel) (by decide +kernel)
theorem sOrA_eval : ∃ r, demoCtx.unfoldSearch sOrA false false = .ok r ∧ r.map Sid.uri = sOrAUris :=
  urisAre_ok _ _ (by decide +kernel)

/-- "hamlet/s/*" -/
def sOrS : Str := ['h','a','m','l','e','t','/','s','/','*']
def sOrSUris : List Str := [['s','h','o','t','_','_','s','e','q','u','e','n','c','e',':','h','a','m','l','e','t','/','s','/','*']]
theorem sOrS_ok : ExprOk demoCtx sOrS :=
  exprOk_of_dec demoCtx demo_confOk.alias sOrS (by decide +kernel) (by decide +kernel) (by decide +kernel) (by decide +kernel)
theorem sOrS_eval : ∃ r, demoCtx.unfoldSearch sOrS false false = .ok r ∧ r.map Sid.uri = sOrSUris :=
  urisAre_ok _ _ (by decide +kernel)

/-- "hamlet/a/char/x/model/v001/w/ma,mb" -/
def sAliasExp : Str := ['h','a','m','l','e','t','/','a','/','c','h','a','r','/','x','/','m','o','d','e','l','/','v','0','0','1','/','w','/','m','a',',','m','b']
def sAliasExpUris : List Str := [['a','s','s','e','t','_','_','f','i','l','e',':','h','a','m','l','e','t','/','a','/','c','h','a','r','/','x','/','m','o','d','e','l','/','v','0','0','1','/','w','/','m','a'], ['a','s','s','e','t','_','_','f','i','l','e',':','h','a','m','l','e','t','/','a','/','c','h','a','r','/','x','/','m','o','d','e','l','/','v','0','0','1','/','w','/','m','b']]
theorem sAliasExp_ok : ExprOk demoCtx sAliasExp :=
  exprOk_of_dec demoCtx demo_confOk.alias sAliasExp (by decide +kernel) (by decide +kernel) (by decide +kernel) (by decide +kernel)
theorem sAliasExp_eval : ∃ r, demoCtx.unfoldSearch sAliasExp false false = .ok r ∧ r.map Sid.uri = sAliasExpUris :=
  urisAre_ok _ _ (by decide +kernel)

/-- "hamlet/**/**" : malformed -/
def sTwo : Str := ['h','a','m','l','e','t','/','*','*','/','*','*']
theorem sTwo_ok : ExprOk demoCtx sTwo :=
  exprOk_of_dec demoCtx demo_confOk.alias sTwo (by decide +kernel) (by decide +kernel) (by decide +kernel) (by decide +kernel)
theorem sTwo_eval : demoCtx.unfoldSearch sTwo false false = .error .spil := errIs_eq _ _ (by decide +kernel)

/-! ### the theorems instantiated -/

/-- C07 end to end on `hamlet/a,s/*`: the two returned uris are exactly the uris of the typed,
    query-free narrowings of the searches the expression denotes -/
theorem ex_c07_or (u : Str) :
    u ∈ sOrUris ↔ ∃ y x, Denotes demoCtx sOr y ∧ demoCtx.typeNarrow y = .ok x ∧ x.typed = true ∧
      '?' ∉ x.string ∧ x.uri = u := by
  obtain ⟨r, hr, hu⟩ := sOr_eval
  rw [← hu]
  exact C07.c07_unfold_uris demoCtx demo_confOk.wf demo_confOk.alias demo_confOk.noEmptyNarrow sOr
    sOr_ok.noQuery sOr_ok.noColon sOr_ok.noMark sOr_ok.rooted r hr u

/-- in particular the expression does denote something (non-vacuity of `Denotes`) -/
theorem ex_c07_or_denotes : ∃ y, Denotes demoCtx sOr y :=
  let ⟨y, _, hd, _⟩ := (ex_c07_or _).1 (List.mem_cons_self : ['a','s','s','e','t','_','_','a','s','s','e','t','t','y','p','e',':','h','a','m','l','e','t','/','a','/','*'] ∈ sOrUris)
  ⟨y, hd⟩

theorem ex_c07_alias (u : Str) :
    u ∈ sAliasUris ↔ ∃ y x, Denotes demoCtx sAlias y ∧ demoCtx.typeNarrow y = .ok x ∧ x.typed = true ∧
      '?' ∉ x.string ∧ x.uri = u := by
  obtain ⟨r, hr, hu⟩ := sAlias_eval
  rw [← hu]
  exact C07.c07_unfold_uris demoCtx demo_confOk.wf demo_confOk.alias demo_confOk.noEmptyNarrow sAlias
    sAlias_ok.noQuery sAlias_ok.noColon sAlias_ok.noMark sAlias_ok.rooted r hr u

theorem ex_c07_stars (u : Str) :
    u ∈ sStarsUris ↔ ∃ y x, Denotes demoCtx sStars y ∧ demoCtx.typeNarrow y = .ok x ∧ x.typed = true ∧
      '?' ∉ x.string ∧ x.uri = u := by
  obtain ⟨r, hr, hu⟩ := sStars_eval
  rw [← hu]
  exact C07.c07_unfold_uris demoCtx demo_confOk.wf demo_confOk.alias demo_confOk.noEmptyNarrow sStars
    sStars_ok.noQuery sStars_ok.noColon sStars_ok.noMark sStars_ok.rooted r hr u

/-- the malformed expression is recognised as such by the declarative reading, and the theorem
    predicts the SpilException the kernel computed (`sTwo_eval`) -/
theorem ex_c07_malformed : Malformed demoCtx sTwo := by
  have hsp : Str.splitOn '/' sTwo = [['h','a','m','l','e','t'], ['*','*'], ['*','*']] := by decide +kernel
  refine ⟨sTwo, ⟨[['h','a','m','l','e','t'], ['*','*']], ['*','*'], ?_, ?_, ?_⟩, Or.inl (by decide +kernel)⟩
  · rw [hsp]
    exact Choice.cons (by decide +kernel) (Choice.cons (by decide +kernel) Choice.nil)
  · rw [hsp]; decide +kernel
  · decide +kernel

theorem ex_c07_malformed_error : demoCtx.unfoldSearch sTwo false false = .error .spil :=
  C07.c07_unfold_malformed demoCtx demo_confOk.wf demo_confOk.alias sTwo sTwo_ok.noQuery sTwo_ok.noColon
    sTwo_ok.noMark sTwo_ok.rooted ex_c07_malformed

/-- no duplicates -/
theorem ex_c07_nodup : ∀ r, demoCtx.unfoldSearch sOr false false = .ok r → r.Pairwise (fun a b => a.uri ≠ b.uri) :=
  fun r h => C07.c07_unfold_nodup demoCtx sOr r h

/-- C10 (or) on `hamlet/a,s/*`, segment 1 = "a,s": the Sids are the union of those of
    `hamlet/a/*` and `hamlet/s/*` -/
theorem ex_c10_or (u : Str) : u ∈ sOrUris ↔ (u ∈ sOrAUris ∨ u ∈ sOrSUris) := by
  obtain ⟨r, hr, hu⟩ := sOr_eval
  obtain ⟨ra, hra, hua⟩ := sOrA_eval
  obtain ⟨rs, hrs, hus⟩ := sOrS_eval
  have hA : setSeg sOr 1 ['a'] = sOrA := by decide +kernel
  have hS : setSeg sOr 1 ['s'] = sOrS := by decide +kernel
  have halts : altsOf (segAt sOr 1) = [['a'], ['s']] := by decide +kernel
  rw [← hu, (C10.c10_or demoCtx demo_confOk sOr sOr_ok 1 (by decide +kernel) r hr).2 u, halts]
  constructor
  · rintro ⟨alt, halt, r', hr', hm⟩
    simp only [List.mem_cons, List.not_mem_nil, or_false] at halt
    rcases halt with rfl | rfl
    · rw [hA, hra] at hr'; cases hr'; exact Or.inl (hua ▸ hm)
    · rw [hS, hrs] at hr'; cases hr'; exact Or.inr (hus ▸ hm)
  · rintro (h | h)
    · exact ⟨['a'], by simp, ra, by rw [hA]; exact hra, hua ▸ h⟩
    · exact ⟨['s'], by simp, rs, by rw [hS]; exact hrs, hus ▸ h⟩

/-- C10 (alias) on `…/w/maya`: the same Sids as `…/w/ma,mb` -/
theorem ex_c10_alias (u : Str) : u ∈ sAliasUris ↔ u ∈ sAliasExpUris := by
  obtain ⟨r, hr, hu⟩ := sAlias_eval
  obtain ⟨re, hre, hue⟩ := sAliasExp_eval
  have hl : demoCtx.cfg.sid.extensionAlias.lookup (DenL.lastSeg sAlias) = some [['m','a'], ['m','b']] := by
    decide +kernel
  have hE : setSeg sAlias (DenL.lastIdx sAlias) (Str.joinWith ',' [['m','a'], ['m','b']]) = sAliasExp := by
    decide +kernel
  obtain ⟨r', hr', hiff⟩ := C10.c10_alias demoCtx demo_confOk demo_aliasFlat sAlias sAlias_ok _
    (by decide +kernel) hl r hr
  rw [hE, hre] at hr'
  cases hr'
  rw [← hu, ← hue]
  exact hiff u

end C07Ex
