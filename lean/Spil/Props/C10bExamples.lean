/-
  Spil.Props.C10bExamples — (1) non-vacuity of the list-search rules of C10b and of the headline
  theorem `C07.c07_unfold` on the SHIPPED configuration; (2) COUNTEREXAMPLES, evaluated by the
  kernel in the model, showing that the hypotheses of C07c / C10b are needed — and that two clauses
  of C10 are FALSE on the model for some (well-formed) configurations:
  * `find(a,b) = find(a) ∪ find(b)` fails when a narrowing filter contradicts a concrete value
    (`cex_or_rule`): the concrete string takes `Finder.find`'s shortcut (not narrowed), the ','
    list is unfolded (narrowed, and the narrowing OVERRIDES the concrete value);
  * "an alias equals the list of its extensions" fails when an extension is itself an alias name
    (`cex_alias_rule`): aliases are not expanded recursively.
  GENERATED char lists.
-/
import Spil.Generated.DemoConf
import Spil.Props.C07d
import Spil.Props.C10b
import Spil.Props.C07cExamples

namespace C10Ex

open Spec Generated Ctx C07Ex

def strsAre (x : Except Err (List Str)) (us : List Str) : Bool :=
  match x with
  | .ok r => decide (r = us)
  | .error _ => false

theorem strsAre_ok (x : Except Err (List Str)) (us : List Str) (h : strsAre x us = true) : x = .ok us := by
  unfold strsAre at h
  split at h
  · simp only [decide_eq_true_eq] at h; rw [h]
  · cases h

/-! ### the headline theorem on the shipped configuration -/

theorem demo_narrowOk : narrowOk demoCtx.cfg.sid = true := by decide +kernel
theorem demo_aliasNoNl : aliasNoNl demoCtx.cfg.sid = true := by decide +kernel

/-- `C07.c07_unfold` instantiated on `hamlet/a,s/*`: the expression is well formed, and the kernel's
    result is exactly the set of typed, query-free narrowings of what the expression denotes -/
theorem ex_headline :
    ∃ r, demoCtx.unfoldSearch sOr false false = .ok r ∧ r.map Sid.uri = sOrUris ∧
      (∀ x, x ∈ r ↔ ∃ y, Denotes demoCtx sOr y ∧ demoCtx.typeNarrow y = .ok x ∧ x.typed = true ∧
        '?' ∉ x.string) ∧ r.Nodup := by
  obtain ⟨r, hr, hu⟩ := sOr_eval
  rcases C07.c07_unfold demoCtx demo_confOk demo_narrowOk sOr sOr_ok
    (C07.c07_noNl demoCtx demo_aliasNoNl sOr (by decide +kernel)) with ⟨_, herr⟩ | ⟨_, r', hr', hmem, _, hnd⟩
  · rw [hr] at herr; cases herr
  · rw [hr] at hr'
    cases hr'
    exact ⟨r, hr, hu, hmem, hnd⟩

/-! ### (or) for list search on the shipped configuration -/

def demoList : List Str := [['h','a','m','l','e','t','/','a','/','c','h','a','r'], ['h','a','m','l','e','t','/','a','/','p','r','o','p'], ['h','a','m','l','e','t','/','s','/','s','q','0','0','1'], ['h','a','m','l','e','t','/','a'], ['h','a','m','l','e','t','/','s','/','s','q','0','0','1','/','s','h','0','0','1','0']]

theorem ex_list_or_eval :
    demoCtx.findInList ⟨demoList, false⟩ sOr = .ok [['h','a','m','l','e','t','/','a','/','c','h','a','r'], ['h','a','m','l','e','t','/','a','/','p','r','o','p'], ['h','a','m','l','e','t','/','s','/','s','q','0','0','1']] :=
  strsAre_ok _ _ (by decide +kernel)

/-- `C10.c10_list_or` instantiated: `find(hamlet/a,s/*) = find(hamlet/a/*) ∪ find(hamlet/s/*)` -/
theorem ex_list_or : ∃ R, demoCtx.findInList ⟨demoList, false⟩ sOr = .ok R ∧ R.Nodup ∧
    ∀ x, x ∈ R ↔ ∃ alt ∈ altsOf (segAt sOr 1), ∃ R',
      demoCtx.findInList ⟨demoList, false⟩ (setSeg sOr 1 alt) = .ok R' ∧ x ∈ R' := by
  obtain ⟨r, hr, hu⟩ := sOr_eval
  have hsym : ∀ s, demoCtx.isSearchStr s = true → ExprOk demoCtx s → SearchesAgree demoCtx s :=
    fun s h hS => (C10.c10_agree_proper demoCtx demo_confOk s hS (Or.inl h)).2
  have halts : altsOf (segAt sOr 1) = [['a'], ['s']] := by decide +kernel
  have hA : setSeg sOr 1 ['a'] = sOrA := by decide +kernel
  have hS : setSeg sOr 1 ['s'] = sOrS := by decide +kernel
  -- no '>' and no '[' in the strings of the unfolded searches: read off their uris
  have hchars : ∀ x ∈ r, '>' ∉ x.string ∧ '[' ∉ x.string := by
    have key : ∀ u ∈ sOrUris, '>' ∉ u ∧ '[' ∉ u := by decide +kernel
    intro x hx
    have hxu := key x.uri (hu ▸ List.mem_map.2 ⟨x, hx, rfl⟩)
    have hsub : ∀ ch, ch ∈ x.string → ch ∈ x.uri := by
      intro ch hch
      unfold Sid.uri
      split
      · exact hch
      · simp [hch]
    exact ⟨fun h => hxu.1 (hsub _ h), fun h => hxu.2 (hsub _ h)⟩
  refine C10.c10_list_or demoCtx demo_confOk sOr sOr_ok 1 (by decide +kernel) demoList r hr
    (hsym sOr (by decide +kernel) sOr_ok) ?_ (fun x hx => (hchars x hx).1) (fun x hx => (hchars x hx).2)
  intro alt halt
  rw [halts] at halt
  simp only [List.mem_cons, List.not_mem_nil, or_false] at halt
  rcases halt with rfl | rfl
  · rw [hA]; exact hsym sOrA (by decide +kernel) sOrA_ok
  · rw [hS]; exact hsym sOrS (by decide +kernel) sOrS_ok

/-! ### ("/**") on the shipped configuration -/

/-- `hamlet/a/**/ma` is `x/**/b` with `x = hamlet/a`, `b = ma` -/
theorem sStars_shape : sStars = ['h','a','m','l','e','t','/','a'] ++ slashStars ++ '/' :: ['m','a'] := by decide +kernel

/-- `C10.c10_stars_denotes` instantiated on `hamlet/a/**/ma`: it denotes the leaf-typed searches of
    `hamlet/a` + k × "/*" + `/ma` -/
theorem ex_stars (y : Sid) :
    Denotes demoCtx sStars y ↔ ∃ k, Denotes demoCtx (fill sStars k) y ∧ LeafTyped demoCtx 2 y := by
  have hcm : ',' ∉ sStars := by decide +kernel
  have hnal : demoCtx.cfg.sid.extensionAlias.lookup (((Str.splitOn '/' sStars).getLast?).getD []) = none := by
    decide +kernel
  have hp1 : ∀ a, Picks demoCtx sStars a → Str.count a slashStars = 1 := by
    intro a ha
    rw [(DenL.picks_plain_iff demoCtx sStars hcm hnal a).1 ha]
    decide +kernel
  have h1 : Str.count sStars slashStars = 1 := by decide +kernel
  have hn : (Str.splitOn '/' ['h','a','m','l','e','t','/','a']).length = 2 := by decide +kernel
  have := C10.c10_stars_denotes demoCtx ['h','a','m','l','e','t','/','a'] ['m','a'] (sStars_shape ▸ h1) (sStars_shape ▸ hp1) y
  rw [hn, ← sStars_shape] at this
  exact this

/-! ### counterexample configurations -/

def free : Re := Re.star Cls.notSlash

/-- templates `p = {proj}`, `a = {proj}/{type}`, `a__f = {proj}/{type}/{ext}`, all placeholders
    `[^/]*`; leaf key `ext`; the alias table and the basetyped narrowing are parameters -/
def cexConf (alias : List (Str × List Str)) (narrow typed : List (Str × Str)) : Ctx :=
  { cfg := { sid := { sep := ['_','_'], searchSymbols := [['*'], [','], ['>'], ['<'], ['*','*']],
                      templates := [(['p'], [.ph ['p','r','o','j'] free]),
                                    (['a'], [.ph ['p','r','o','j'] free, .lit ['/'], .ph ['t','y','p','e'] free]),
                                    (['a','_','_','f'], [.ph ['p','r','o','j'] free, .lit ['/'], .ph ['t','y','p','e'] free, .lit ['/'], .ph ['e','x','t'] free])],
                      keyTypes := [], leafKeys := [(some ['a'], ['e','x','t']), (some ['p'], ['e','x','t'])],
                      extensionAlias := alias, basetypedNarrowing := narrow, typedNarrowing := typed }
             paths := [], defaultPath := [], dataSuffix := [] }
    env := { isDigit := fun _ => false } }

/-- narrowing `type=~a` for the basetype `a` (as the shipped configuration does for `asset`) -/
def cNarrow : Ctx := cexConf [] [(['a'], ['t','y','p','e','=','~','a'])] []

theorem cNarrow_confOk : ConfOk cNarrow where
  wf := by decide +kernel
  alias := by decide +kernel
  noEmptyNarrow := by decide +kernel

def lXYA : List Str := [['p','/','x'], ['p','/','y'], ['p','/','a']]

/-- C10's FIRST RULE IS FALSE ON THE MODEL for this (conventional) configuration:
    `find("p/x,y")` returns `["p/a"]` — both alternatives are typed `a` and the narrowing `type=~a`
    overrides the concrete values `x`, `y` — while `find("p/x")` returns `["p/x"]` and
    `find("p/y")` returns `["p/y"]` (a concrete typed string is neither unfolded nor narrowed). -/
theorem cex_or_rule :
    cNarrow.findInList ⟨lXYA, false⟩ ['p','/','x',',','y'] = .ok [['p','/','a']] ∧
    cNarrow.findInList ⟨lXYA, false⟩ ['p','/','x'] = .ok [['p','/','x']] ∧
    cNarrow.findInList ⟨lXYA, false⟩ ['p','/','y'] = .ok [['p','/','y']] :=
  ⟨strsAre_ok _ _ (by decide +kernel), strsAre_ok _ _ (by decide +kernel), strsAre_ok _ _ (by decide +kernel)⟩

/-- at the level of `unfold_search` the rule holds (`C10.c10_or`): the concrete string unfolds to
    the narrowed Sid as well; it is `Finder.find`'s shortcut that differs (`SearchesAgree` fails) -/
theorem cex_or_rule_unfold :
    (∃ r, cNarrow.unfoldSearch ['p','/','x'] false false = .ok r ∧ r.map Sid.uri = [['a',':','p','/','a']]) ∧
    (∃ r, cNarrow.findSearches ['p','/','x'] = .ok r ∧ r.map Sid.uri = [['a',':','p','/','x']]) :=
  ⟨urisAre_ok _ _ (by decide +kernel), urisAre_ok _ _ (by decide +kernel)⟩

/-- an extension that is itself an alias name: `aliasOk` holds, `aliasFlat` does not -/
def cAlias : Ctx := cexConf [(['m','a','y','a'], [['m','a'], ['m','b']]), (['m','a'], [['x']])] [] []

/-- C10's ALIAS RULE IS FALSE ON THE MODEL without `aliasFlat`: `p/t/maya` unfolds to the
    extensions `ma`, `mb`, but the written-out list `p/t/ma,mb` unfolds to `mb`, `x` -/
theorem cex_alias_rule :
    aliasOk cAlias.cfg.sid = true ∧ aliasFlat cAlias.cfg.sid = false ∧
    (∃ r, cAlias.unfoldSearch ['p','/','t','/','m','a','y','a'] false false = .ok r ∧
      r.map Sid.uri = [['a','_','_','f',':','p','/','t','/','m','a'], ['a','_','_','f',':','p','/','t','/','m','b']]) ∧
    (∃ r, cAlias.unfoldSearch ['p','/','t','/','m','a',',','m','b'] false false = .ok r ∧
      r.map Sid.uri = [['a','_','_','f',':','p','/','t','/','m','b'], ['a','_','_','f',':','p','/','t','/','x']]) :=
  ⟨by decide +kernel, by decide +kernel, urisAre_ok _ _ (by decide +kernel), urisAre_ok _ _ (by decide +kernel)⟩

/-- `aliasOk`, clause "alias names are non-empty": with an alias named "" the model leaves an empty
    last segment alone (`handle_extension("")` returns ""), the declarative reading would expand it -/
theorem cex_alias_empty_name :
    ∃ r, (cexConf [([], [['m','a']])] [] []).unfoldSearch ['p','/','t','/'] false false = .ok r ∧
      r.map Sid.uri = [['a','_','_','f',':','p','/','t','/']] :=
  urisAre_ok _ _ (by decide +kernel)

/-- `aliasOk`, clause "every alias has an extension": an alias without extensions stands for the
    EMPTY value in the model (not for nothing) -/
theorem cex_alias_no_ext :
    ∃ r, (cexConf [(['n','o','n','e'], [])] [] []).unfoldSearch ['p','/','t','/','n','o','n','e'] false false = .ok r ∧
      r.map Sid.uri = [['a','_','_','f',':','p','/','t','/']] :=
  urisAre_ok _ _ (by decide +kernel)

/-- `aliasOk`, clause "extensions are stripped": `or_on_path` strips the alternatives of the ','
    list `extensions` wrote, so the extension " ma" is searched as "ma" -/
theorem cex_alias_space :
    ∃ r, (cexConf [(['m','a','y','a'], [[' ','m','a'], ['m','b']])] [] []).unfoldSearch ['p','/','t','/','m','a','y','a'] false false = .ok r ∧
      r.map Sid.uri = [['a','_','_','f',':','p','/','t','/','m','a'], ['a','_','_','f',':','p','/','t','/','m','b']] :=
  urisAre_ok _ _ (by decide +kernel)

/-- `ConfOk.noEmptyNarrow`: with a typed narrowing configured for the type name "" (the type of
    the untyped Sid in the model), the EMPTY expression — which denotes nothing — unfolds to a Sid -/
theorem cex_empty_narrow :
    ∃ r, (cexConf [] [] [([], ['p','r','o','j','=','p'])]).unfoldSearch [] false false = .ok r ∧
      r.map Sid.uri = [['p',':','p']] :=
  urisAre_ok _ _ (by decide +kernel)

end C10Ex
