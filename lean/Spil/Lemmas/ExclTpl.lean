/-
  Spil.Lemmas.ExclTpl — soundness of `Spec.tplExcl`: the regular expression of `A` has no match on
  a path that `B` rendered from admissible concrete values.
-/
import Spil.Lemmas.ExclWalk
import Spil.Lemmas.DetDollar

namespace Excl

open Spec Det

/-! ### reading from right to left -/

theorem aword_rev (e : Env) (a : Atom) (u : Str) (h : aword e a u) : aword e a.rev u.reverse := by
  cases a with
  | cls k =>
    obtain ⟨c, rfl, hc⟩ := h
    exact ⟨c, rfl, hc⟩
  | closed key alts =>
    obtain ⟨w, hw, hm⟩ := h
    exact ⟨w.reverse, List.mem_map.mpr ⟨w, hw, rfl⟩, matchesSeq_reverse e w u hm⟩
  | free key =>
    simp only [Atom.rev, aword, List.mem_reverse]
    exact h

theorem revAtoms_cons (a : Atom) (as : List Atom) : revAtoms (a :: as) = revAtoms as ++ [a.rev] := by
  simp [revAtoms]

theorem parse_rev (e : Env) : ∀ (as : List Atom) (w : Str) (vs : List Str), Parse e as w vs →
    ∃ vs', Parse e (revAtoms as) w.reverse vs'
  | [], w, vs, h => by
    obtain ⟨rfl, _⟩ := (parse_nil_iff e w vs).mp h
    exact ⟨[], Parse.nil⟩
  | a :: as, w, vs, h => by
    obtain ⟨u, w1, v1, rfl, rfl, a1, p1⟩ := (parse_cons_iff e a as w vs).mp h
    obtain ⟨vs', p'⟩ := parse_rev e as w1 v1 p1
    rw [revAtoms_cons, List.reverse_append]
    exact ⟨_, (parse_append e _ _ _ _).mpr ⟨_, _, vs', _, rfl, rfl, p',
      (parse_single_iff e a.rev u.reverse _).mpr ⟨aword_rev e a u a1, rfl⟩⟩⟩

theorem wordsOk_rev (e : Env) (a : Atom) (h : wordsOk e a = true) : wordsOk e a.rev = true := by
  cases a with
  | cls k => exact h
  | free k => rfl
  | closed key alts =>
    simp only [wordsOk, Atom.rev, List.all_eq_true, Bool.and_eq_true, Bool.not_eq_true',
      List.isEmpty_eq_false_iff, List.mem_map] at h ⊢
    rintro w ⟨w0, hw0, rfl⟩
    refine ⟨by simpa using (h w0 hw0).1, ?_⟩
    intro k hk
    exact (h w0 hw0).2 k (by simpa using hk)

theorem all_revAtoms (q : Atom → Bool) (hq : ∀ a, q a = true → q a.rev = true) (as : List Atom)
    (h : as.all q = true) : (revAtoms as).all q = true := by
  simp only [revAtoms, List.all_eq_true, List.mem_reverse, List.mem_map] at h ⊢
  rintro x ⟨a, ha, rfl⟩
  exact hq a (h a ha)

theorem isSlash_rev (a : Atom) : a.rev.isSlash = a.isSlash := by cases a <;> rfl

theorem isFree_rev (a : Atom) : a.rev.isFree = a.isFree := by cases a <;> rfl

theorem countP_revAtoms (as : List Atom) :
    (revAtoms as).countP Atom.isSlash = as.countP Atom.isSlash := by
  simp only [revAtoms, List.countP_reverse, List.countP_map]
  congr 1
  funext a
  exact isSlash_rev a

/-! ### concrete words -/

theorem matchesSeq_lits (e : Env) : ∀ (s u : Str), matchesSeq e (s.map Cls.lit) u → u = s
  | [], u, h => by simpa using h
  | c :: cs, [], h => by simp at h
  | c :: cs, d :: ds, h => by
    simp only [List.map_cons, matchesSeq_cons_cons, Cls.test, beq_iff_eq] at h
    rw [h.1, matchesSeq_lits e cs ds h.2]

/-- a word that is not a search symbol is a word of a concrete alternative -/
theorem conc_word (e : Env) (syms : List Str) (alts : List (List Cls)) (v : Str)
    (hv : v ∉ syms) (h : ∃ a ∈ alts, matchesSeq e a v) :
    ∃ a ∈ concAlts syms alts, matchesSeq e a v := by
  obtain ⟨a, ha, hm⟩ := h
  refine ⟨a, ?_, hm⟩
  simp only [concAlts, List.mem_filter, Bool.not_eq_true']
  refine ⟨ha, ?_⟩
  cases hs : isSymWord syms a with
  | false => rfl
  | true =>
    exfalso
    simp only [isSymWord, List.any_eq_true, beq_iff_eq] at hs
    obtain ⟨s, hs, rfl⟩ := hs
    exact hv (matchesSeq_lits e s v hm ▸ hs)

theorem wordsOk_conc (e : Env) (syms : List Str) (a : Atom) (h : wordsOk e a = true) :
    wordsOk e (a.conc syms) = true := by
  cases a with
  | cls k => exact h
  | free k => rfl
  | closed key alts =>
    simp only [wordsOk, Atom.conc, concAlts, List.all_eq_true, List.mem_filter] at h ⊢
    intro w hw
    exact h w hw.1

theorem isSlash_conc (syms : List Str) (a : Atom) : (a.conc syms).isSlash = a.isSlash := by
  cases a <;> rfl

theorem countP_conc (syms : List Str) (as : List Atom) :
    (as.map (Atom.conc syms)).countP Atom.isSlash = as.countP Atom.isSlash := by
  rw [List.countP_map]
  congr 1
  funext a
  exact isSlash_conc syms a

theorem map_conc_lits (syms : List Str) (s : Str) :
    (s.map (fun ch => Atom.cls (Template.litCls ch))).map (Atom.conc syms) =
      s.map (fun ch => Atom.cls (Template.litCls ch)) := by
  rw [List.map_map]
  rfl

/-- the rendered string is parsed by the CONCRETE atoms when the values are concrete -/
theorem parse_conc_of_format (e : Env) (syms : List Str) : ∀ (t : Template) (fl : List Atom)
    (data : Dict) (w : Str), flatAtoms t = some fl → valuesOk e t data = true →
    concreteOk syms t data = true → Template.format t data = some w →
    ∃ vs, Parse e (fl.map (Atom.conc syms)) w vs
  | [], fl, data, w, h, _, _, hw => by
    simp only [flatAtoms, Option.some.injEq] at h
    simp only [Template.format, Option.some.injEq] at hw
    subst h hw
    exact ⟨[], Parse.nil⟩
  | .lit s :: rest, fl, data, w, h, hv, hc, hw => by
    obtain ⟨as, has, rfl⟩ := (flatAtoms_lit s rest fl).mp h
    simp only [Template.format, Option.map_eq_some_iff] at hw
    obtain ⟨w', hw', rfl⟩ := hw
    have hv' : valuesOk e rest data = true := by
      simp only [valuesOk, List.all_cons, Bool.true_and] at hv ⊢; exact hv
    have hc' : concreteOk syms rest data = true := by
      simp only [concreteOk, List.all_cons, Bool.true_and] at hc ⊢; exact hc
    obtain ⟨vs, ih⟩ := parse_conc_of_format e syms rest as data w' has hv' hc' hw'
    rw [List.map_append, map_conc_lits]
    exact ⟨_, (parse_append e _ _ _ _).mpr ⟨s, w', [], vs, rfl, rfl, parse_lits e s, ih⟩⟩
  | .ph k ex :: rest, fl, data, w, h, hv, hc, hw => by
    obtain ⟨a, as, ha, has, rfl⟩ := (flatAtoms_ph k ex rest fl).mp h
    simp only [valuesOk, List.all_cons, Bool.and_eq_true] at hv
    simp only [concreteOk, List.all_cons, Bool.and_eq_true] at hc
    have hv1 := hv.1
    have hc1 := hc.1
    simp only [Template.format] at hw
    cases hg : data.get k with
    | none => rw [hg] at hv1; simp at hv1
    | some v =>
      rw [hg] at hv1 hw hc1
      simp only at hv1
      cases hf : Template.format rest data with
      | none => rw [hf] at hw; simp at hw
      | some w' =>
        rw [hf] at hw
        simp only [Option.some.injEq] at hw
        subst hw
        have hword : aword e a v := (valuesOk_clause e k ex a ha v).mp hv1
        obtain ⟨vs, ih⟩ := parse_conc_of_format e syms rest as data w' has hv.2 hc.2 hf
        have hword' : aword e (a.conc syms) v := by
          simp only [phAtom] at ha
          split at ha
          · simp only [Option.some.injEq] at ha; subst ha; exact hword
          · next hex =>
            simp only [Option.map_eq_some_iff] at ha
            obtain ⟨alts, _, rfl⟩ := ha
            have hns : v ∉ syms := by
              simpa [hex] using hc1
            exact conc_word e syms alts v hns hword
        exact ⟨_, Parse.cons (a.conc syms) _ v w' vs hword' ih⟩

/-! ### soundness -/

theorem atomsExcl_sound (e : Env) (A B : List Atom) (h : atomsExcl e A B = true)
    (hA : A.all (wordsOk e) = true) (hB : B.all (wordsOk e) = true)
    (wA w r : Str) (vA vB : List Str) (pA : Parse e A wA vA) (pB : Parse e B w vB)
    (hw : w = wA ++ r) (hr : r = [] ∨ r = ['\n'])
    (hc : List.count '/' w = B.countP Atom.isSlash) : False := by
  simp only [atomsExcl, Bool.or_eq_true] at h
  rcases h with (h | h) | h
  · exact slashRule_absurd e A B h hA wA w r vA vB pA hw hr hc
  · exact lwalk_sound e _ A B h hA hB ⟨wA, w, r, vA, vB, pA, pB, hw, hr, hc⟩
  · split at h
    · next b rest hrev =>
      simp only [Bool.and_eq_true, Bool.not_eq_true'] at h
      obtain ⟨vB', pB'⟩ := parse_rev e B w vB pB
      obtain ⟨vA', pA'⟩ := parse_rev e A wA vA pA
      have hB' := all_revAtoms (wordsOk e) (wordsOk_rev e) B hB
      have hA' := all_revAtoms (wordsOk e) (wordsOk_rev e) A hA
      -- `w` does not end in a newline
      have hr0 : r = [] := by
        rcases hr with hr | hr
        · exact hr
        · exfalso
          rw [hrev] at pB' hB'
          obtain ⟨u, w1, v1, hu, _, a1, _⟩ := (parse_cons_iff e b rest _ vB').mp pB'
          simp only [List.all_cons, Bool.and_eq_true] at hB'
          obtain ⟨hne, hnl⟩ := aword_nonfree e b h.1 hB'.1 u a1
          rw [hw, hr, List.reverse_append] at hu
          cases u with
          | nil => exact hne rfl
          | cons c cs =>
            simp at hu
            apply hnl
            exact List.mem_cons.mpr (Or.inl hu.1)
      subst hr0
      simp only [List.append_nil] at hw
      subst hw
      exact lwalk_sound e _ _ _ h.2 hA' hB'
        ⟨w.reverse, w.reverse, [], vA', vB', pA', pB', by simp, Or.inl rfl,
          by rw [List.count_reverse, countP_revAtoms, hc]⟩
    · simp at h

theorem all_wordsOk_of_atomOk (e : Env) (fl : List Atom) (h : fl.all (atomOk e) = true) :
    fl.all (wordsOk e) = true := by
  simp only [List.all_eq_true] at h ⊢
  exact fun a ha => wordsOk_of_atomOk e a (h a ha)

/-- exclusion: the regular expression of `A` has NO match (with `^…$`) on a path that `B` rendered
    from admissible concrete values -/
theorem no_match (e : Env) (syms : List Str) (A B : Template) (data : Dict) (w : Str)
    (hA : pathTplOk e A = true) (hB : pathTplOk e B = true) (hx : tplExcl e syms A B = true)
    (hv : valuesOk e B data = true) (hc : concreteOk syms B data = true)
    (hw : Template.format B data = some w) : (Template.compile A).search e w = none := by
  obtain ⟨fa, hfa, _, hatomA, _⟩ := (pathTplOk_iff e A).mp hA
  obtain ⟨fb, hfb, _, hatomB, _⟩ := (pathTplOk_iff e B).mp hB
  simp only [tplExcl, hfa, hfb] at hx
  cases hs : (Template.compile A).search e w with
  | none => rfl
  | some caps =>
    exfalso
    simp only [Re.search, Option.map_eq_some_iff] at hs
    obtain ⟨x, hx', _⟩ := hs
    have hmem := List.mem_of_find?_eq_some hx'
    have hd := List.find?_some hx'
    simp only [atDollar, Bool.or_eq_true, beq_iff_eq] at hd
    obtain ⟨vs, pA, _, _⟩ := fwd_items e A [] fa hfa w x hmem
    have happ := run_app e _ w x hmem
    obtain ⟨_, hcount⟩ := parse_of_format e B fb data w hfb hatomB hv hw
    obtain ⟨vB, pB⟩ := parse_conc_of_format e syms B fb data w hfb hv hc hw
    have hBok : (fb.map (Atom.conc syms)).all (wordsOk e) = true := by
      have := all_wordsOk_of_atomOk e fb hatomB
      simp only [List.all_eq_true, List.mem_map] at this ⊢
      rintro a ⟨a0, ha0, rfl⟩
      exact wordsOk_conc e syms a0 (this a0 ha0)
    exact atomsExcl_sound e fa _ hx (all_wordsOk_of_atomOk e fa hatomA) hBok x.1 w x.2.1 vs vB pA pB
      happ.symm hd (by rw [countP_conc, hcount])

/-- in the form `Resolver.resolve_first` needs: the excluded template is skipped without raising,
    whatever the duplicate-placeholder flag -/
theorem resolveTpl_none (e : Env) (syms : List Str) (cd : Bool) (A B : Template) (data : Dict)
    (w : Str) (hA : pathTplOk e A = true) (hB : pathTplOk e B = true)
    (hx : tplExcl e syms A B = true) (hv : valuesOk e B data = true)
    (hc : concreteOk syms B data = true) (hw : Template.format B data = some w) :
    Resolver.resolveTpl e cd A w = .ok none := by
  unfold Resolver.resolveTpl
  rw [no_match e syms A B data w hA hB hx hv hc hw]

end Excl
