/-
  Spil.Lemmas.DenoteFind — helper lemmas for C10b: `FindInList.find` on a star search (no '>') is
  the list scan of C08 on the STRINGS of the search Sids `Finder.find` computes.
-/
import Spil.Spec.Denote
import Spil.Lemmas.DenoteMain
import Spil.Props.C08

namespace DenL

open Spec Ctx Find

/-- without '>' in any search, `do_find` is the star search on the strings of the searches -/
theorem doFindGlob_star (c : Ctx) (e : Env) (f : ListFinder) (S : List Sid)
    (hgt : ∀ x ∈ S, '>' ∉ x.string) :
    c.doFindGlob (starSearch e f) S = starSearch e f (S.map (·.string)) := by
  unfold Ctx.doFindGlob
  cases S with
  | nil => rfl
  | cons x xs =>
    have hany : ((x :: xs).any (fun x => Str.hasChar '>' x.string)) = false := by
      rw [List.any_eq_false]
      intro y hy
      simpa using (hasChar_false_iff '>' y.string).2 (hgt y hy)
    simp [hany]

/-- list search on a star search: exactly the entries matching the string of some search Sid,
    each once -/
theorem findInList_char (c : Ctx) (L : List Str) (s : Str) (S : List Sid)
    (hS : c.findSearches s = .ok S) (hgt : ∀ x ∈ S, '>' ∉ x.string) (hbr : ∀ x ∈ S, '[' ∉ x.string) :
    ∃ R, c.findInList ⟨L, false⟩ s = .ok R ∧ R.Nodup ∧
      ∀ x, x ∈ R ↔ (x ∈ L ∧ ∃ p ∈ S.map (·.string), Glob p x) := by
  have hb : ∀ p ∈ S.map (·.string), '[' ∉ p := by
    intro p hp
    obtain ⟨x, hx, rfl⟩ := List.mem_map.1 hp
    exact hbr x hx
  have hfind : c.findInList ⟨L, false⟩ s = starSearch c.env ⟨L, false⟩ (S.map (·.string)) := by
    unfold Ctx.findInList
    rw [hS]
    exact doFindGlob_star c c.env _ S hgt
  rw [hfind, C08.c08_star_search c.env L _ hb]
  refine ⟨_, rfl, ?_⟩
  exact C08.c08_star_search_mem c.env L _ hb _ (C08.c08_star_search c.env L _ hb)

/-- a string that is visibly a search (contains a search symbol) or ends in an alias is unfolded
    by `Finder.find` -/
theorem findSearches_proper (c : Ctx) (hwf : sidTableOk c.env c.cfg.sid.templates = true) (s : Str)
    (hq : '?' ∉ s) (hc : ':' ∉ s)
    (hp : c.isSearchStr s = true ∨
      (c.cfg.sid.extensionAlias.lookup (((Str.splitOn '/' s).getLast?).getD [])).isSome = true) :
    c.findSearches s = c.unfoldSearch s false false := by
  unfold Ctx.findSearches
  rw [ExpL.sidOfString_plain c hwf s hq hc]
  have hstr : (ExpL.plainOf c s).string = s := by
    unfold ExpL.plainOf
    split
    · next he => rw [List.isEmpty_iff] at he; subst he; rfl
    · unfold plainSid; split <;> rfl
  simp only [Ctx.isSearch, Ctx.isAliasSearch, hstr]
  rcases hp with hp | hp
  · simp [hp]
  · simp [hp]

/-! ### concrete strings -/

theorem countGo_zero_of_not_mem (sub : Str) (ch : Char) (hch : ch ∈ sub) :
    ∀ (s : Str), ch ∉ s → Str.countGo sub 0 s = 0
  | [], _ => rfl
  | c :: cs, h => by
    simp only [List.mem_cons, not_or] at h
    simp only [Str.countGo]
    split
    · next hp =>
      exfalso
      rw [List.isPrefixOf_iff_prefix] at hp
      have := hp.subset hch
      simp only [List.mem_cons] at this
      rcases this with e | e
      · exact h.1 e
      · exact h.2 e
    · exact countGo_zero_of_not_mem sub ch hch cs h.2

theorem count_stars_zero (s : Str) (h : '*' ∉ s) : Str.count s slashStars = 0 := by
  simp only [Str.count, slashStars, List.isEmpty_cons, Bool.false_eq_true, if_false]
  exact countGo_zero_of_not_mem _ '*' (by simp) s h

/-- a string without ',' whose last segment is no alias stands for itself -/
theorem picks_self (c : Ctx) (s : Str) (hcm : ',' ∉ s)
    (hnal : c.cfg.sid.extensionAlias.lookup (((Str.splitOn '/' s).getLast?).getD []) = none) :
    Picks c s s := by
  have hseg : ∀ p ∈ Str.splitOn '/' s, Str.hasChar ',' p = false := by
    intro p hp
    rw [hasChar_false_iff]
    exact fun h => hcm ((Str.splitOn_infix '/' s p hp).subset h)
  refine ⟨(Str.splitOn '/' s).dropLast, ((Str.splitOn '/' s).getLast?).getD [], ?_, ?_, ?_⟩
  · exact (choice_plain _ _ (fun p hp => hseg p (List.dropLast_subset _ hp))).2 rfl
  · simp [lastAlts, altsOf_of_no_comma _ (hseg _ (last_mem s)), hnal]
  · rw [dropLast_append_getLast _ (Str.splitOn_ne_nil '/' s), Str.join_split]

/-- … and for nothing else -/
theorem picks_plain_iff (c : Ctx) (s : Str) (hcm : ',' ∉ s)
    (hnal : c.cfg.sid.extensionAlias.lookup (((Str.splitOn '/' s).getLast?).getD []) = none) (a : Str) :
    Picks c s a ↔ a = s := by
  constructor
  · rintro ⟨picks, l, hpi, hl, rfl⟩
    have hseg : ∀ p ∈ Str.splitOn '/' s, Str.hasChar ',' p = false := by
      intro p hp
      rw [hasChar_false_iff]
      exact fun h => hcm ((Str.splitOn_infix '/' s p hp).subset h)
    rw [(choice_plain _ _ (fun p hp => hseg p (List.dropLast_subset _ hp))).1 hpi]
    have : l = ((Str.splitOn '/' s).getLast?).getD [] := by
      simpa [lastAlts, altsOf_of_no_comma _ (hseg _ (last_mem s)), hnal] using hl
    rw [this, dropLast_append_getLast _ (Str.splitOn_ne_nil '/' s), Str.join_split]
  · rintro rfl
    exact picks_self c a hcm hnal

end DenL
