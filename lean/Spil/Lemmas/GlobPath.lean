/-
  Spil.Lemmas.GlobPath — from the field-wise glob between a search Sid and an entity Sid to the
  relation between the glob pattern `sid.path()` renders for the search and the path it renders
  for the entity: `pathData` (defaults, reverse mapping) preserves the field-wise glob when `*` is a
  fixed point of the mapping, `Template.format` turns it into `StarRel`, and `Lemmas/Glob.lean`
  carries `StarRel` through `PurePosixPath` to `glob.glob`.
-/
import Spil.Lemmas.Glob
import Spil.Lemmas.PathL
import Spil.Lemmas.FS

namespace GlobL

open Spec

/-! ### `fieldsGlob` -/

theorem fieldsGlob_refl (a : Dict) : fieldsGlob a a := by
  induction a with
  | nil => trivial
  | cons p a ih => obtain ⟨k, v⟩ := p; exact ⟨rfl, Or.inr rfl, ih⟩

theorem fieldsGlob_keys : ∀ (a b : Dict), fieldsGlob a b → a.map (·.1) = b.map (·.1)
  | [], [], _ => rfl
  | [], _ :: _, h => h.elim
  | _ :: _, [], h => h.elim
  | (k, v) :: s, (k', v') :: e, h => by
    obtain ⟨hk, _, hr⟩ := h
    simp [hk, fieldsGlob_keys s e hr]

theorem fieldsGlob_append : ∀ (a b c d : Dict), fieldsGlob a b → fieldsGlob c d →
    fieldsGlob (a ++ c) (b ++ d)
  | [], [], _, _, _, h => h
  | [], _ :: _, _, _, h, _ => h.elim
  | _ :: _, [], _, _, h, _ => h.elim
  | (k, v) :: s, (k', v') :: e, c, d, h, h' => by
    obtain ⟨hk, hv, hr⟩ := h
    exact ⟨hk, hv, fieldsGlob_append s e c d hr h'⟩

/-- mapping the values with a key-indexed function that fixes `*` -/
theorem fieldsGlob_map (φ : Str → Str → Str) (hφ : ∀ k, φ k ['*'] = ['*']) :
    ∀ (a b : Dict), fieldsGlob a b →
      fieldsGlob (a.map (fun p => (p.1, φ p.1 p.2))) (b.map (fun p => (p.1, φ p.1 p.2)))
  | [], [], _ => trivial
  | [], _ :: _, h => h.elim
  | _ :: _, [], h => h.elim
  | (k, v) :: s, (k', v') :: e, h => by
    obtain ⟨hk, hv, hr⟩ := h
    subst hk
    refine ⟨rfl, ?_, fieldsGlob_map φ hφ s e hr⟩
    rcases hv with rfl | rfl
    · exact Or.inl (hφ k)
    · exact Or.inr rfl

theorem hasKey_eq_of_keys (a b : Dict) (h : a.map (·.1) = b.map (·.1)) (k : Str) :
    a.hasKey k = b.hasKey k := by
  have : ∀ d : Dict, d.hasKey k = (d.map (·.1)).any (· == k) := by
    intro d; simp [Dict.hasKey, List.any_map, Function.comp_def]
  rw [this a, this b, h]

theorem fieldsGlob_get : ∀ (a b : Dict), fieldsGlob a b → ∀ k vs ve,
    a.get k = some vs → b.get k = some ve → vs = ['*'] ∨ vs = ve
  | [], [], _, k, vs, ve, h1, _ => by simp [Dict.get] at h1
  | [], _ :: _, h, _, _, _, _, _ => h.elim
  | _ :: _, [], h, _, _, _, _, _ => h.elim
  | (k0, v) :: s, (k0', v') :: e, h, k, vs, ve, h1, h2 => by
    obtain ⟨hk, hv, hr⟩ := h
    subst hk
    unfold Dict.get at h1 h2
    rw [List.lookup_cons] at h1 h2
    cases hb : k == k0 with
    | true =>
      simp only [hb] at h1 h2
      injection h1 with h1; injection h2 with h2
      subst h1; subst h2; exact hv
    | false =>
      simp only [hb] at h1 h2
      exact fieldsGlob_get s e hr k vs ve h1 h2

/-! ### `pathData` -/

/-- step 1 of `dict_to_path`: defaults for empty values -/
def pdDefault (pc : PathConf) (k v : Str) : Str :=
  match pc.defaults.lookup k with
  | some d => if v.isEmpty && !d.isEmpty then d else v
  | none => v

/-- step 2: reverse mapping -/
def pdMap (pc : PathConf) (k v : Str) : Str :=
  match pc.mapping.lookup k with
  | some m => if v.isEmpty || m.isEmpty then v else Ctx.getKey m v
  | none => v

/-- step 3: defaults for missing template keys -/
def pdMissing (pc : PathConf) (d : Dict) (k : Str) : Dict :=
  match pc.defaults.lookup k with
  | some dv => if !d.hasKey k && !dv.isEmpty then d ++ [(k, dv)] else d
  | none => d

def pdF1 (pc : PathConf) : Str × Str → Str × Str := fun (k, v) =>
  match pc.defaults.lookup k with
  | some d => if v.isEmpty && !d.isEmpty then (k, d) else (k, v)
  | none => (k, v)

def pdF2 (pc : PathConf) : Str × Str → Str × Str := fun (k, v) =>
  match pc.mapping.lookup k with
  | some m => if v.isEmpty || m.isEmpty then (k, v) else (k, Ctx.getKey m v)
  | none => (k, v)

def pdF3 (pc : PathConf) : Dict → Str → Dict := fun d k =>
  match pc.defaults.lookup k with
  | some dv => if !d.hasKey k && !dv.isEmpty then d ++ [(k, dv)] else d
  | none => d

theorem pathData_eq0 (pc : PathConf) (data : Dict) (keys : List Str) :
    Ctx.pathData pc data keys = keys.foldl (pdF3 pc) ((data.map (pdF1 pc)).map (pdF2 pc)) := rfl

theorem pdF1_eq (pc : PathConf) : pdF1 pc = fun p => (p.1, pdDefault pc p.1 p.2) := by
  funext ⟨k, v⟩
  simp only [pdF1, pdDefault]
  split
  · split <;> rfl
  · rfl

theorem pdF2_eq (pc : PathConf) : pdF2 pc = fun p => (p.1, pdMap pc p.1 p.2) := by
  funext ⟨k, v⟩
  simp only [pdF2, pdMap]
  split
  · split <;> rfl
  · rfl

theorem pdF3_eq (pc : PathConf) : pdF3 pc = pdMissing pc := by
  funext d k
  simp only [pdF3, pdMissing]

theorem pathData_eq (pc : PathConf) (data : Dict) (keys : List Str) :
    Ctx.pathData pc data keys =
      keys.foldl (pdMissing pc)
        ((data.map (fun p => (p.1, pdDefault pc p.1 p.2))).map (fun p => (p.1, pdMap pc p.1 p.2))) := by
  rw [pathData_eq0, pdF1_eq, pdF2_eq, pdF3_eq]

theorem getKey_star (m : List (Str × Str)) (h : m.all (fun pv => pv.2 != ['*'] || pv.1 == ['*']) = true) :
    Ctx.getKey m ['*'] = ['*'] := by
  unfold Ctx.getKey
  cases hf : m.find? (·.2 == ['*']) with
  | none => rfl
  | some kv =>
    obtain ⟨k, v⟩ := kv
    have hv : v = ['*'] := by simpa using List.find?_some hf
    have hmem := List.mem_of_find?_eq_some hf
    have := List.all_eq_true.1 h _ hmem
    simp only [hv, bne_self_eq_false, Bool.false_or, beq_iff_eq] at this
    exact this

theorem pdMap_star (pc : PathConf) (hfix : starFixed pc = true) (k : Str) :
    pdMap pc k ['*'] = ['*'] := by
  unfold pdMap
  cases hl : pc.mapping.lookup k with
  | none => rfl
  | some m =>
    simp only [List.isEmpty_cons, Bool.false_or]
    split
    · rfl
    · apply getKey_star
      have hmem := FSL.lookup_some_mem _ _ _ hl
      exact List.all_eq_true.1 hfix _ hmem

theorem pdDefault_star (pc : PathConf) (k : Str) : pdDefault pc k ['*'] = ['*'] := by
  unfold pdDefault
  cases pc.defaults.lookup k with
  | none => rfl
  | some d => simp

/-- the three value loops of `dict_to_path` preserve the field-wise glob -/
theorem fieldsGlob_pathData (pc : PathConf) (hfix : starFixed pc = true) (fs fe : Dict)
    (h : fieldsGlob fs fe) (keys : List Str) :
    fieldsGlob (Ctx.pathData pc fs keys) (Ctx.pathData pc fe keys) := by
  rw [pathData_eq, pathData_eq]
  have h2 := fieldsGlob_map (pdMap pc) (pdMap_star pc hfix) _ _
    (fieldsGlob_map (pdDefault pc) (pdDefault_star pc) fs fe h)
  generalize (fs.map (fun p => (p.1, pdDefault pc p.1 p.2))).map (fun p => (p.1, pdMap pc p.1 p.2)) = a at h2
  generalize (fe.map (fun p => (p.1, pdDefault pc p.1 p.2))).map (fun p => (p.1, pdMap pc p.1 p.2)) = b at h2
  induction keys generalizing a b with
  | nil => exact h2
  | cons k keys ih =>
    simp only [List.foldl_cons]
    apply ih
    unfold pdMissing
    rw [hasKey_eq_of_keys a b (fieldsGlob_keys a b h2) k]
    split
    · split
      · exact fieldsGlob_append _ _ _ _ h2 (fieldsGlob_refl _)
      · exact h2
    · exact h2

/-! ### `Template.format` -/

/-- formatting one template with field-wise globbed data: the outputs are `StarRel`-related,
    as soon as the entity's values are admissible -/
theorem format_starRel (P : Str → Prop) (t : Template) (ds de : Dict) (h : fieldsGlob ds de)
    (hv : ∀ kv ∈ de, P kv.2) (rs re : Str)
    (hs : Template.format t ds = some rs) (he : Template.format t de = some re) :
    StarRel P rs re := by
  induction t generalizing rs re with
  | nil =>
    simp only [Template.format, Option.some.injEq] at hs he
    subst hs; subst he; exact .nil
  | cons tok rest ih =>
    cases tok with
    | lit s =>
      simp only [Template.format, Option.map_eq_some_iff] at hs he
      obtain ⟨rs', hs', rfl⟩ := hs
      obtain ⟨re', he', rfl⟩ := he
      exact (ih rs' re' hs' he').append_lit s
    | ph k ex =>
      simp only [Template.format] at hs he
      split at hs
      · next vs rs' hvs hrs' =>
        split at he
        · next ve re' hve hre' =>
          injection hs with hs; injection he with he
          subst hs; subst he
          have ih' := ih rs' re' hrs' hre'
          rcases fieldsGlob_get ds de h k vs ve hvs hve with rfl | rfl
          · refine .star ve (hv (k, ve) ?_) ih'
            exact FSL.lookup_some_mem de k ve hve
          · exact ih'.append_lit vs
        · cases he
      · cases hs

/-! ### `sid.path()` -/

/-- what a successful `sid.path(config)` is made of -/
theorem sidPath_some_inv (c : Ctx) (config : Option Str) (x : Sid) (p : Str)
    (h : c.sidPath config x = .ok (some p)) :
    ∃ pc t raw, c.cfg.pathConf? config = some pc ∧ pc.resolver.lookup x.type = some t ∧
      Template.format t (Ctx.pathData pc x.fields (Template.keys t)) = some raw ∧
      p = PurePath.normalize raw := by
  unfold Ctx.sidPath at h
  split at h
  · cases h
  · split at h
    · cases h
    · next pc hpc =>
      split at h
      · next q hq =>
        injection h with h
        injection h with h
        subst h
        refine ⟨pc, ?_⟩
        unfold Ctx.dictToPath at hq
        split at hq
        · cases hq
        · split at hq
          · cases hq
          · next t ht =>
            simp only at hq
            split at hq
            · cases hq
            · split at hq
              · cases hq
              · split at hq
                · cases hq
                · next path hf =>
                  split at hq
                  · cases hq
                  · split at hq
                    · injection hq with hq
                      exact ⟨t, path, hpc, ht, hf, hq.symm⟩
                    · cases hq
      · cases h
      · cases h

/-- the admissibility condition on the entity, as a Boolean: every PATH value of the entity
    (after defaults and reverse mapping) is `valOk` -/
def entityValsOk (c : Ctx) (config : Option Str) (e : Sid) : Bool :=
  match c.cfg.pathConf? config with
  | none => false
  | some pc =>
    match pc.resolver.lookup e.type with
    | none => false
    | some t => (Ctx.pathData pc e.fields (Template.keys t)).all (fun kv => valOk kv.2)

/-- the pattern rendered for a search Sid and the path rendered for an entity it globs field by
    field are related component by component -/
theorem sidPath_compMatch (c : Ctx) (config : Option Str) (s e : Sid) (pat p : Str)
    (hs : c.sidPath config s = .ok (some pat)) (he : c.sidPath config e = .ok (some p))
    (hg : SidGlob s e)
    (hfix : ∀ pc, c.cfg.pathConf? config = some pc → starFixed pc = true)
    (hvals : entityValsOk c config e = true) (hb : '[' ∉ pat) :
    All2 (fun x y => World.compMatch x y = true) (Str.splitOn '/' pat) (Str.splitOn '/' p) := by
  obtain ⟨pc, t, raws, hpc, ht, hfs, rfl⟩ := sidPath_some_inv c config s pat hs
  obtain ⟨pc', t', rawe, hpc', ht', hfe, rfl⟩ := sidPath_some_inv c config e p he
  rw [hpc] at hpc'
  injection hpc' with hpc'
  subst hpc'
  rw [hg.1, ht'] at ht
  injection ht with ht
  subst ht
  have hdata := fieldsGlob_pathData pc (hfix pc hpc) s.fields e.fields hg.2 (Template.keys t')
  have hv : ∀ kv ∈ Ctx.pathData pc e.fields (Template.keys t'), VP kv.2 := by
    unfold entityValsOk at hvals
    simp only [hpc, ht'] at hvals
    exact fun kv hkv => List.all_eq_true.1 hvals kv hkv
  have hrel := format_starRel VP t' _ _ hdata hv raws rawe hfs hfe
  exact hrel.norm_compMatch hb

end GlobL
