/-
  Spil.Lemmas.GlobStar — exact characterisation of the path star search `DCtx.pathsStarGo`
  (FindInPaths.star_search_simple): which (path, Sid) pairs it yields, in which order, and that it
  yields no path and no Sid twice.
-/
import Spil.Lemmas.FS
import Spil.Lemmas.Find
import Spil.Props.C05

namespace GlobL

open FSL World

/-- the path `p` of the tree is a hit of the search Sid `s`: it resolves to the typed Sid `x` of
    the searched type, whose string the search string matches (repaired `star_search_simple`) -/
def Hit (d : DCtx) (config : Option Str) (s : Sid) (p : Str) (x : Sid) : Prop :=
  d.ctx.sidOfPath p config = .ok x ∧ x.typed = true ∧ x.type = s.type ∧
    Find.globMatch d.ctx.env s.string x.string = .ok true

/-- `re.match(glob2re(pat), item)` does not raise (and is the Boolean `globB`) for a pattern
    without `[` -/
theorem globMatch_ok (e : Env) (pat item : Str) (hb : '[' ∉ pat) :
    Find.globMatch e pat item = .ok (Spec.globB e pat item) := by
  obtain ⟨items, hi⟩ := Find.glob2re_isSome pat hb
  simp [Find.globMatch, Spec.globB, hi]

/-- the glob pattern `star_search_simple` uses for the search Sid `s`: `str(sid.path(config))` -/
def patOf (d : DCtx) (config : Option Str) (s : Sid) : Str :=
  match d.ctx.sidPath config s with
  | .ok p => p.getD ['N','o','n','e']
  | .error _ => []

theorem patOf_some (d : DCtx) (config : Option Str) (s : Sid) (pat : Str)
    (h : d.ctx.sidPath config s = .ok (some pat)) : patOf d config s = pat := by
  simp [patOf, h]

/-- the (path, Sid) pairs one glob result contributes, `f` = paths already yielded -/
def hits (d : DCtx) (config : Option Str) (s : Sid) : List Str → List Str → List (Str × Sid)
  | [], _ => []
  | p :: l, f =>
    if f.contains p then hits d config s l f else
    match d.ctx.sidOfPath p config with
    | .ok x =>
      if x.type != s.type then hits d config s l f
      else if !x.typed then hits d config s l f
      else
        match Find.globMatch d.ctx.env s.string x.string with
        | .ok true => (p, x) :: hits d config s l (f ++ [p])
        | _ => hits d config s l f
    | .error _ => hits d config s l f

theorem foldl_starStep_error (d : DCtx) (config : Option Str) (s : Sid) (l : List Str) (e : Err) :
    l.foldl (starStep d config s) (.error e) = .error e := by
  induction l with
  | nil => rfl
  | cons a l ih => simpa [List.foldl_cons, starStep] using ih

theorem starStep_ok (d : DCtx) (config : Option Str) (s : Sid) (out : List Sid) (found : List Str)
    (path : Str) :
    starStep d config s (.ok (out, found)) path =
      if found.contains path then .ok (out, found) else
      match d.ctx.sidOfPath path config with
      | .error .spil => .ok (out, found)
      | .error e => .error e
      | .ok x =>
        if x.type != s.type then .ok (out, found)
        else if !x.typed then .ok (out, found)
        else
          match Find.globMatch d.ctx.env s.string x.string with
          | .error e => .error e
          | .ok false => .ok (out, found)
          | .ok true => .ok (out ++ [x], found ++ [path]) := rfl

/-- the fold of `star_search_simple` over one glob result, when resolving a path raises nothing
    but SpilException -/
theorem fold_eq_hits (d : DCtx) (config : Option Str) (s : Sid) (l : List Str)
    (htot : ∀ p ∈ l, ∀ e, d.ctx.sidOfPath p config = .error e → e = .spil)
    (hgm : ∀ y, ∃ b, Find.globMatch d.ctx.env s.string y = .ok b)
    (out0 : List Sid) (f0 : List Str) :
    l.foldl (starStep d config s) (.ok (out0, f0)) =
      .ok (out0 ++ (hits d config s l f0).map (·.2), f0 ++ (hits d config s l f0).map (·.1)) := by
  induction l generalizing out0 f0 with
  | nil => simp [hits]
  | cons p l ih =>
    have htot' : ∀ q ∈ l, ∀ e, d.ctx.sidOfPath q config = .error e → e = .spil :=
      fun q hq => htot q (List.mem_cons_of_mem _ hq)
    simp only [List.foldl_cons]
    rw [starStep_ok]
    unfold hits
    split
    · exact ih htot' out0 f0
    · split
      · next hx =>
        rw [hx]
        exact ih htot' out0 f0
      · next e hne hx =>
        exact absurd (htot p (by simp) e hx) (by intro h; exact hne h)
      · next x hx =>
        rw [hx]
        simp only
        split
        · exact ih htot' out0 f0
        · split
          · exact ih htot' out0 f0
          · obtain ⟨b, hb⟩ := hgm x.string
            rw [hb]
            cases b with
            | false => exact ih htot' out0 f0
            | true =>
              simp only
              rw [ih htot' (out0 ++ [x]) (f0 ++ [p])]
              simp

theorem mem_hits (d : DCtx) (config : Option Str) (s : Sid) (l : List Str) :
    ∀ (f : List Str) (q : Str) (x : Sid),
      (q, x) ∈ hits d config s l f ↔ q ∈ l ∧ q ∉ f ∧ Hit d config s q x := by
  induction l with
  | nil => intro f q x; simp [hits]
  | cons p l ih =>
    intro f q x
    unfold hits
    split
    · next hc =>
      have hpf : p ∈ f := by simpa using hc
      rw [ih]
      constructor
      · rintro ⟨h1, h2, h3⟩; exact ⟨List.mem_cons_of_mem _ h1, h2, h3⟩
      · rintro ⟨h1, h2, h3⟩
        rcases List.mem_cons.1 h1 with rfl | h1
        · exact absurd hpf h2
        · exact ⟨h1, h2, h3⟩
    · next hc =>
      have hpf : p ∉ f := by simpa using hc
      -- when `p` itself is no hit, the head contributes nothing
      have skip : (∀ y, ¬ Hit d config s p y) →
          ((q, x) ∈ hits d config s l f ↔ q ∈ p :: l ∧ q ∉ f ∧ Hit d config s q x) := by
        intro hno
        rw [ih]
        constructor
        · rintro ⟨h1, h2, h3⟩; exact ⟨List.mem_cons_of_mem _ h1, h2, h3⟩
        · rintro ⟨h1, h2, h3⟩
          rcases List.mem_cons.1 h1 with rfl | h1
          · exact absurd h3 (hno x)
          · exact ⟨h1, h2, h3⟩
      split
      · next y hy =>
        split
        · next hty =>
          apply skip
          rintro z ⟨hz, _, hzt, _⟩
          rw [hy] at hz
          injection hz with hz
          subst hz
          simp [hzt] at hty
        · split
          · next _ htyped =>
            apply skip
            rintro z ⟨hz, hzt, _⟩
            rw [hy] at hz
            injection hz with hz
            subst hz
            simp [hzt] at htyped
          · next hty htyped =>
            have hyt : y.type = s.type := by simpa using hty
            have hytyped : y.typed = true := by simpa using htyped
            split
            · next hgm =>
              rw [List.mem_cons, ih]
              constructor
              · rintro (heq | ⟨h1, h2, h3⟩)
                · injection heq with h1 h2
                  subst h1; subst h2
                  exact ⟨by simp, hpf, hy, hytyped, hyt, hgm⟩
                · refine ⟨List.mem_cons_of_mem _ h1, fun hm => h2 (List.mem_append_left _ hm), h3⟩
              · rintro ⟨h1, h2, h3⟩
                by_cases hqp : q = p
                · subst hqp
                  left
                  have := h3.1
                  rw [hy] at this
                  injection this with this
                  rw [this]
                · right
                  rcases List.mem_cons.1 h1 with h1 | h1
                  · exact absurd h1 hqp
                  · refine ⟨h1, ?_, h3⟩
                    simp only [List.mem_append, List.mem_singleton, not_or]
                    exact ⟨h2, hqp⟩
            · next hgm =>
              apply skip
              rintro z ⟨hz, _, _, hzg⟩
              rw [hy] at hz
              injection hz with hz
              subst hz
              exact hgm hzg
      · next e he =>
        apply skip
        rintro z ⟨hz, _, _⟩
        rw [he] at hz
        cases hz

theorem hits_paths_nodup (d : DCtx) (config : Option Str) (s : Sid) (l : List Str) :
    ∀ f : List Str, ((hits d config s l f).map (·.1)).Nodup := by
  induction l with
  | nil => intro f; simp [hits]
  | cons p l ih =>
    intro f
    unfold hits
    split
    · exact ih f
    · split
      · split
        · exact ih f
        · split
          · exact ih f
          · split
            · simp only [List.map_cons, List.nodup_cons]
              refine ⟨?_, ih _⟩
              intro hm
              obtain ⟨⟨q, x⟩, hqx, hq⟩ := List.mem_map.1 hm
              simp only at hq
              subst hq
              have := ((mem_hits d config s l _ _ _).1 hqx).2.1
              exact this (by simp)
            · exact ih f
      · exact ih f

/-- a list of pairs whose first components are distinct: the second components are distinct as
    soon as a second component determines its first -/
theorem snd_nodup {α β} (hs : List (α × β)) (h1 : (hs.map (·.1)).Nodup)
    (hinj : ∀ p q x, (p, x) ∈ hs → (q, x) ∈ hs → p = q) : (hs.map (·.2)).Nodup := by
  induction hs with
  | nil => simp
  | cons a hs ih =>
    obtain ⟨p, x⟩ := a
    simp only [List.map_cons, List.nodup_cons] at h1 ⊢
    refine ⟨?_, ih h1.2 (fun p q x hp hq => hinj p q x (List.mem_cons_of_mem _ hp) (List.mem_cons_of_mem _ hq))⟩
    intro hm
    obtain ⟨⟨q, y⟩, hqy, hy⟩ := List.mem_map.1 hm
    simp only at hy
    subst hy
    have := hinj p q y (by simp) (List.mem_cons_of_mem _ hqy)
    subst this
    exact h1.1 (List.mem_map.2 ⟨(p, y), hqy, rfl⟩)

/-- the invariant of the `searched` / `found` bookkeeping: every hit of a (type, pattern, search
    string) triple already globbed has been yielded -/
def SearchedInv (d : DCtx) (w : World) (config : Option Str)
    (searched : List (Str × Str × Str)) (found : List Str) : Prop :=
  ∀ tp ∈ searched, ∀ p ∈ w.glob tp.2.1, ∀ x, d.ctx.sidOfPath p config = .ok x → x.typed = true →
    x.type = tp.1 → Find.globMatch d.ctx.env tp.2.2 x.string = .ok true → p ∈ found

/-- EXACT characterisation of `pathsStarGo` at the level of (path, Sid) pairs -/
theorem pathsStarGo_pairs (d : DCtx) (w : World) (config : Option Str)
    (htot : ∀ p ∈ w.nodes.map (·.1), ∀ e, d.ctx.sidOfPath p config = .error e → e = .spil)
    (searches : List Sid) (hsp : ∀ s ∈ searches, ∃ po, d.ctx.sidPath config s = .ok po)
    (hgm : ∀ s ∈ searches, '[' ∉ s.string) :
    ∀ (searched : List (Str × Str × Str)) (found : List Str),
      SearchedInv d w config searched found →
    ∃ hs : List (Str × Sid),
      d.pathsStarGo w config searches searched found = .ok (hs.map (·.2)) ∧
      (hs.map (·.1)).Nodup ∧
      ∀ p x, (p, x) ∈ hs ↔
        ∃ s ∈ searches, p ∈ w.glob (patOf d config s) ∧ p ∉ found ∧ Hit d config s p x := by
  induction searches with
  | nil => intro searched found _; exact ⟨[], rfl, by simp, by simp⟩
  | cons s rest ih =>
    intro searched found hinv
    have hsp' : ∀ s ∈ rest, ∃ po, d.ctx.sidPath config s = .ok po :=
      fun s hs => hsp s (List.mem_cons_of_mem _ hs)
    have hgm' : ∀ s ∈ rest, '[' ∉ s.string := fun s hs => hgm s (List.mem_cons_of_mem _ hs)
    obtain ⟨po, hpo⟩ := hsp s (by simp)
    have hpat : patOf d config s = po.getD ['N','o','n','e'] := by simp [patOf, hpo]
    rw [pathsStarGo_cons, hpo]
    simp only
    split
    · next hc =>
      -- the triple was globbed before: nothing new
      have hmem : (s.type, po.getD ['N','o','n','e'], s.string) ∈ searched := by simpa using hc
      obtain ⟨hs, h1, h2, h3⟩ := ih hsp' hgm' searched found hinv
      refine ⟨hs, h1, h2, fun p x => ?_⟩
      rw [h3]
      constructor
      · rintro ⟨s', hs', h⟩; exact ⟨s', List.mem_cons_of_mem _ hs', h⟩
      · rintro ⟨s', hs', hg, hnf, hh⟩
        rcases List.mem_cons.1 hs' with rfl | hs'
        · rw [hpat] at hg
          exact absurd (hinv _ hmem p hg x hh.1 hh.2.1 hh.2.2.1 hh.2.2.2) hnf
        · exact ⟨s', hs', hg, hnf, hh⟩
    · have htot' : ∀ p ∈ w.glob (po.getD ['N','o','n','e']), ∀ e,
          d.ctx.sidOfPath p config = .error e → e = .spil := by
        intro p hp
        unfold World.glob at hp
        exact htot p (List.mem_filter.1 hp).1
      have hgm0 : ∀ y, ∃ b, Find.globMatch d.ctx.env s.string y = .ok b :=
        fun y => ⟨_, globMatch_ok d.ctx.env s.string y (hgm s (by simp))⟩
      rw [fold_eq_hits d config s _ htot' hgm0 [] found]
      simp only [List.nil_append]
      -- the invariant for the recursive call
      have hinv' : SearchedInv d w config (searched ++ [(s.type, po.getD ['N','o','n','e'], s.string)])
          (found ++ (hits d config s (w.glob (po.getD ['N','o','n','e'])) found).map (·.1)) := by
        intro tp htp p hp x hx hxt hxty hxg
        rcases List.mem_append.1 htp with htp | htp
        · exact List.mem_append_left _ (hinv tp htp p hp x hx hxt hxty hxg)
        · simp only [List.mem_singleton] at htp
          subst htp
          by_cases hpf : p ∈ found
          · exact List.mem_append_left _ hpf
          · apply List.mem_append_right
            exact List.mem_map.2 ⟨(p, x),
              (mem_hits d config s _ _ _ _).2 ⟨hp, hpf, hx, hxt, hxty, hxg⟩, rfl⟩
      obtain ⟨hs, h1, h2, h3⟩ := ih hsp' hgm' _ _ hinv'
      rw [h1]
      refine ⟨hits d config s (w.glob (po.getD ['N','o','n','e'])) found ++ hs, by simp, ?_, ?_⟩
      · rw [List.map_append, List.nodup_append]
        refine ⟨hits_paths_nodup d config s _ _, h2, ?_⟩
        intro a ha b hb hab
        subst hab
        obtain ⟨⟨q, y⟩, hqy, hq⟩ := List.mem_map.1 hb
        simp only at hq
        subst hq
        obtain ⟨_, _, _, hnf, _⟩ := (h3 q y).1 hqy
        exact hnf (List.mem_append_right _ ha)
      · intro p x
        rw [List.mem_append, mem_hits, h3]
        constructor
        · rintro (⟨hg, hnf, hh⟩ | ⟨s', hs', hg, hnf, hh⟩)
          · exact ⟨s, by simp, by rw [hpat]; exact hg, hnf, hh⟩
          · exact ⟨s', List.mem_cons_of_mem _ hs', hg, fun hm => hnf (List.mem_append_left _ hm), hh⟩
        · rintro ⟨s', hs', hg, hnf, hh⟩
          rcases List.mem_cons.1 hs' with rfl | hs'
          · left; rw [hpat] at hg; exact ⟨hg, hnf, hh⟩
          · by_cases hpm : p ∈ (hits d config s (w.glob (po.getD ['N','o','n','e'])) found).map (·.1)
            · -- `p` was already yielded for `s` (and resolves to the same Sid)
              left
              obtain ⟨⟨q, y⟩, hqy, hq⟩ := List.mem_map.1 hpm
              simp only at hq
              subst hq
              obtain ⟨g1, g2, g3⟩ := (mem_hits d config s _ _ _ _).1 hqy
              have : y = x := by
                have := g3.1
                rw [hh.1] at this
                injection this with this
                exact this.symm
              subst this
              exact ⟨g1, g2, g3⟩
            · right
              refine ⟨s', hs', hg, ?_, hh⟩
              simp only [List.mem_append, not_or]
              exact ⟨hnf, hpm⟩

end GlobL
