/-
  Spil.Lemmas.DetTpl — the compiled regular expression of a path template and the atoms of the
  template: successes of the expression are parses by the atoms (captures = placeholder words),
  and parses are successes; the rendered string is a parse with the rendered values.
-/
import Spil.Lemmas.DetSeg

namespace Det

open Spec

/-- keys of the placeholders, in order, with repetitions -/
def phKeys : Template → List Str
  | [] => []
  | .lit _ :: rest => phKeys rest
  | .ph k _ :: rest => k :: phKeys rest

/-- names of the groups of the compiled expression, in order -/
def capNames : List Tok → Template → List Str
  | _, [] => []
  | seen, .lit s :: rest => capNames (seen ++ [.lit s]) rest
  | seen, .ph k ex :: rest =>
    (k ++ Str.pad3 (Template.countKey k seen + 1)) :: capNames (seen ++ [.ph k ex]) rest

/-- the atom of a placeholder -/
def phAtom (k : Str) (ex : Re) : Option Atom :=
  if ex == Re.star Cls.notSlash then some (Atom.free k) else (altsOf? ex).map (Atom.closed k)

theorem flatAtoms_ph (k : Str) (ex : Re) (rest : Template) (fl : List Atom) :
    flatAtoms (.ph k ex :: rest) = some fl ↔
      ∃ a as, phAtom k ex = some a ∧ flatAtoms rest = some as ∧ fl = a :: as := by
  simp only [flatAtoms, phAtom]
  split
  · cases flatAtoms rest with
    | none => simp
    | some as =>
      simp only [Option.some.injEq]
      constructor
      · rintro rfl; exact ⟨_, _, rfl, rfl, rfl⟩
      · rintro ⟨a, as', rfl, rfl, rfl⟩; rfl
  · cases altsOf? ex with
    | none => simp
    | some alts =>
      cases flatAtoms rest with
      | none => simp
      | some as =>
        simp only [Option.map_some, Option.some.injEq]
        constructor
        · rintro rfl; exact ⟨_, _, rfl, rfl, rfl⟩
        · rintro ⟨a, as', rfl, rfl, rfl⟩; rfl

theorem flatAtoms_lit (s : Str) (rest : Template) (fl : List Atom) :
    flatAtoms (.lit s :: rest) = some fl ↔
      ∃ as, flatAtoms rest = some as ∧
        fl = s.map (fun ch => Atom.cls (Template.litCls ch)) ++ as := by
  simp only [flatAtoms]
  cases flatAtoms rest with
  | none => simp
  | some as =>
    simp only [Option.some.injEq]
    constructor
    · rintro rfl; exact ⟨_, rfl, rfl⟩
    · rintro ⟨as', rfl, rfl⟩; rfl

/-- the successes of a placeholder expression are the words of its atom -/
theorem ph_run (e : Env) (k : Str) (ex : Re) (a : Atom) (h : phAtom k ex = some a)
    (s m r : Str) (c : Caps) :
    (m, r, c) ∈ ex.run e s ↔ aword e a m ∧ m ++ r = s ∧ c = [] := by
  simp only [phAtom] at h
  split at h
  · next hex =>
    simp only [beq_iff_eq] at hex
    simp only [Option.some.injEq] at h
    subst h hex
    simp only [Re.run, List.mem_map, Prod.exists, Prod.mk.injEq, aword]
    constructor
    · rintro ⟨m', r', hq, rfl, rfl, rfl⟩
      obtain ⟨hs, hall⟩ := (starSplits_mem_iff e _ s m' r').mp hq
      refine ⟨?_, hs.symm, rfl⟩
      intro hm
      have := hall '/' hm
      simp [Cls.test] at this
    · rintro ⟨hm, hs, rfl⟩
      refine ⟨m, r, (starSplits_mem_iff e _ s m r).mpr ⟨hs.symm, ?_⟩, rfl, rfl, rfl⟩
      intro x hx
      simp only [Cls.test, bne_iff_ne, ne_eq]
      rintro rfl
      exact hm hx
  · simp only [Option.map_eq_some_iff] at h
    obtain ⟨alts, halts, rfl⟩ := h
    rw [run_altsOf e ex alts halts]
    simp [aword]

theorem ph_aval (k : Str) (ex : Re) (a : Atom) (h : phAtom k ex = some a) (m : Str) :
    aval a m = [m] := by
  simp only [phAtom] at h
  split at h
  · simp only [Option.some.injEq] at h; subst h; rfl
  · simp only [Option.map_eq_some_iff] at h
    obtain ⟨alts, _, rfl⟩ := h; rfl

/-- a placeholder atom is accepted by its expression -/
theorem ph_accepts (e : Env) (k : Str) (ex : Re) (a : Atom) (h : phAtom k ex = some a) (m : Str) :
    ex.accepts e m = true ↔ aword e a m := by
  rw [accepts_iff]
  constructor
  · rintro ⟨c, hc⟩; exact ((ph_run e k ex a h m m [] c).mp hc).1
  · intro hm; exact ⟨[], (ph_run e k ex a h m m [] []).mpr ⟨hm, by simp, rfl⟩⟩

/-! ### `mkSeq` -/

theorem mem_run_mkSeq_cons (e : Env) (a : Re) (l : List Re) (s : Str) (p : Succ) :
    p ∈ (Re.mkSeq (a :: l)).run e s ↔
      ∃ m1 r1 c1 m2 c2, (m1, r1, c1) ∈ a.run e s ∧ (m2, p.2.1, c2) ∈ (Re.mkSeq l).run e r1 ∧
        p.1 = m1 ++ m2 ∧ p.2.2 = c1 ++ c2 := by
  cases l with
  | cons b l => simp only [Re.mkSeq]; exact mem_run_seq e a _ s p
  | nil =>
    obtain ⟨m, r, c⟩ := p
    simp only [Re.mkSeq, Re.run, List.mem_singleton, Prod.mk.injEq]
    constructor
    · intro h; exact ⟨m, r, c, [], [], h, ⟨rfl, rfl, rfl⟩, by simp, by simp⟩
    · rintro ⟨m1, r1, c1, m2, c2, h, ⟨rfl, rfl, rfl⟩, rfl, rfl⟩; simpa using h

/-- every success of the item list is a parse by the atoms, captures = names zipped with values -/
def Fwd (e : Env) (l : List Re) (as : List Atom) (N : List Str) : Prop :=
  ∀ x p, p ∈ (Re.mkSeq l).run e x →
    ∃ vs, Parse e as p.1 vs ∧ p.2.2 = N.zip vs ∧ vs.length = N.length

theorem fwd_nil (e : Env) : Fwd e [] [] [] := by
  intro x p hp
  simp only [Re.mkSeq, Re.run, List.mem_singleton] at hp
  subst hp
  exact ⟨[], Parse.nil, rfl, rfl⟩

theorem fwd_cls (e : Env) (k : Cls) (l : List Re) (as : List Atom) (N : List Str)
    (h : Fwd e l as N) : Fwd e (Re.cls k :: l) (Atom.cls k :: as) N := by
  intro x p hp
  obtain ⟨m1, r1, c1, m2, c2, h1, h2, hm, hc⟩ := (mem_run_mkSeq_cons e _ l x p).mp hp
  obtain ⟨d, hd, _, hm1, hc1⟩ := (mem_run_cls e k x _).mp h1
  simp only at hm1 hc1
  obtain ⟨vs, pv, hcap, hlen⟩ := h r1 _ h2
  simp only at pv hcap
  refine ⟨vs, ?_, by rw [hc, hc1, hcap]; rfl, hlen⟩
  rw [hm, hm1]
  exact Parse.cons (Atom.cls k) as [d] m2 vs ⟨d, rfl, hd⟩ pv

theorem fwd_ph (e : Env) (k : Str) (ex : Re) (a : Atom) (ha : phAtom k ex = some a) (n : Str)
    (l : List Re) (as : List Atom) (N : List Str) (h : Fwd e l as N) :
    Fwd e (Re.grp n ex :: l) (a :: as) (n :: N) := by
  intro x p hp
  obtain ⟨m1, r1, c1, m2, c2, h1, h2, hm, hc⟩ := (mem_run_mkSeq_cons e _ l x p).mp hp
  obtain ⟨c, hrun, hc1⟩ := (mem_run_grp e n ex x _).mp h1
  simp only at hrun hc1
  obtain ⟨hw, _, rfl⟩ := (ph_run e k ex a ha x m1 r1 c).mp hrun
  obtain ⟨vs, pv, hcap, hlen⟩ := h r1 _ h2
  simp only at pv hcap
  refine ⟨m1 :: vs, ?_, by rw [hc, hc1, hcap]; rfl, by simp [hlen]⟩
  rw [hm]
  have := Parse.cons a as m1 m2 vs hw pv
  rwa [ph_aval k ex a ha] at this

theorem fwd_lits (e : Env) (l : List Re) (as : List Atom) (N : List Str) (h : Fwd e l as N) :
    ∀ cs : Str, Fwd e (cs.map (fun c => Re.cls (Template.litCls c)) ++ l)
      (cs.map (fun c => Atom.cls (Template.litCls c)) ++ as) N
  | [] => h
  | _ :: cs => fwd_cls e _ _ _ N (fwd_lits e l as N h cs)

theorem fwd_items (e : Env) : ∀ (t : Template) (seen : List Tok) (fl : List Atom),
    flatAtoms t = some fl → Fwd e (Template.items seen t) fl (capNames seen t)
  | [], seen, fl, h => by
    simp only [flatAtoms, Option.some.injEq] at h
    subst h
    exact fwd_nil e
  | .lit s :: rest, seen, fl, h => by
    obtain ⟨as, has, rfl⟩ := (flatAtoms_lit s rest fl).mp h
    simp only [Template.items, capNames]
    exact fwd_lits e _ _ _ (fwd_items e rest _ as has) s
  | .ph k ex :: rest, seen, fl, h => by
    obtain ⟨a, as, ha, has, rfl⟩ := (flatAtoms_ph k ex rest fl).mp h
    simp only [Template.items, capNames]
    exact fwd_ph e k ex a ha _ _ _ _ (fwd_items e rest _ as has)

/-- every parse by the atoms is a success of the item list, in front of any continuation -/
def Bwd (e : Env) (l : List Re) (as : List Atom) : Prop :=
  ∀ m vs, Parse e as m vs → ∀ r, ∃ caps, (m, r, caps) ∈ (Re.mkSeq l).run e (m ++ r)

theorem bwd_nil (e : Env) : Bwd e [] [] := by
  intro m vs h r
  obtain ⟨rfl, rfl⟩ := (parse_nil_iff e m vs).mp h
  exact ⟨[], by simp [Re.mkSeq, Re.run]⟩

theorem bwd_cls (e : Env) (k : Cls) (l : List Re) (as : List Atom) (h : Bwd e l as) :
    Bwd e (Re.cls k :: l) (Atom.cls k :: as) := by
  intro m vs hp r
  obtain ⟨u, w', vs', rfl, rfl, ⟨d, rfl, hd⟩, p1⟩ := (parse_cons_iff e _ as m vs).mp hp
  obtain ⟨caps, hcaps⟩ := h w' _ p1 r
  refine ⟨[] ++ caps, ?_⟩
  rw [mem_run_mkSeq_cons]
  refine ⟨[d], w' ++ r, [], w', caps, ?_, hcaps, rfl, rfl⟩
  simp [Re.run, hd]

theorem bwd_ph (e : Env) (k : Str) (ex : Re) (a : Atom) (ha : phAtom k ex = some a) (n : Str)
    (l : List Re) (as : List Atom) (h : Bwd e l as) : Bwd e (Re.grp n ex :: l) (a :: as) := by
  intro m vs hp r
  obtain ⟨u, w', vs', rfl, rfl, hw, p1⟩ := (parse_cons_iff e _ as m vs).mp hp
  obtain ⟨caps, hcaps⟩ := h w' vs' p1 r
  refine ⟨([] ++ [(n, u)]) ++ caps, ?_⟩
  rw [mem_run_mkSeq_cons]
  refine ⟨u, w' ++ r, [] ++ [(n, u)], w', caps, ?_, hcaps, rfl, rfl⟩
  rw [mem_run_grp]
  exact ⟨[], (ph_run e k ex a ha _ u (w' ++ r) []).mpr ⟨hw, by simp, rfl⟩, rfl⟩

theorem bwd_lits (e : Env) (l : List Re) (as : List Atom) (h : Bwd e l as) :
    ∀ cs : Str, Bwd e (cs.map (fun c => Re.cls (Template.litCls c)) ++ l)
      (cs.map (fun c => Atom.cls (Template.litCls c)) ++ as)
  | [] => h
  | _ :: cs => bwd_cls e _ _ _ (bwd_lits e l as h cs)

theorem bwd_items (e : Env) : ∀ (t : Template) (seen : List Tok) (fl : List Atom),
    flatAtoms t = some fl → Bwd e (Template.items seen t) fl
  | [], seen, fl, h => by
    simp only [flatAtoms, Option.some.injEq] at h
    subst h
    exact bwd_nil e
  | .lit s :: rest, seen, fl, h => by
    obtain ⟨as, has, rfl⟩ := (flatAtoms_lit s rest fl).mp h
    simp only [Template.items]
    exact bwd_lits e _ _ (bwd_items e rest _ as has) s
  | .ph k ex :: rest, seen, fl, h => by
    obtain ⟨a, as, ha, has, rfl⟩ := (flatAtoms_ph k ex rest fl).mp h
    simp only [Template.items]
    exact bwd_ph e k ex a ha _ _ _ (bwd_items e rest _ as has)

/-! ### the rendered string -/

theorem parse_lits (e : Env) : ∀ cs : Str,
    Parse e (cs.map (fun c => Atom.cls (Template.litCls c))) cs []
  | [] => Parse.nil
  | c :: cs => by
    have := Parse.cons (e := e) (Atom.cls (Template.litCls c)) _ [c] cs [] ?_ (parse_lits e cs)
    · simpa [aval] using this
    · refine ⟨c, rfl, ?_⟩
      simp only [Template.litCls]
      split
      · next h => simp only [beq_iff_eq] at h; subst h; simp [Cls.test]
      · simp [Cls.test]

theorem count_lits : ∀ cs : Str,
    (cs.map (fun c => Atom.cls (Template.litCls c))).countP Atom.isSlash = List.count '/' cs
  | [] => rfl
  | c :: cs => by
    simp only [List.map_cons, List.countP_cons, List.count_cons, count_lits cs]
    congr 1
    simp only [Template.litCls]
    by_cases hc : c = '.'
    · subst hc; simp [Atom.isSlash]
    · simp [hc, Atom.isSlash]

/-- the word of a placeholder atom whose vocabulary is '/'-free contains no '/' -/
theorem ph_noSlash (e : Env) (k : Str) (ex : Re) (a : Atom) (ha : phAtom k ex = some a)
    (hok : atomOk e a = true) (u : Str) (hu : aword e a u) : '/' ∉ u := by
  simp only [phAtom] at ha
  split at ha
  · simp only [Option.some.injEq] at ha; subst ha; exact hu
  · simp only [Option.map_eq_some_iff] at ha
    obtain ⟨alts, _, rfl⟩ := ha
    obtain ⟨w, hw, hm⟩ := hu
    simp only [atomOk, Bool.and_eq_true, List.all_eq_true] at hok
    have hcl := (hok.2 w hw).2
    intro hmem
    have := matchesSeq_all e (fun c => c ≠ '/') w u (by
      intro k hk c hc
      exact Cls.slashFree_test e k (hcl k hk).1 c hc) hm '/' hmem
    exact this rfl

theorem ph_notSlashAtom (k : Str) (ex : Re) (a : Atom) (ha : phAtom k ex = some a) :
    a.isSlash = false := by
  simp only [phAtom] at ha
  split at ha
  · simp only [Option.some.injEq] at ha; subst ha; rfl
  · simp only [Option.map_eq_some_iff] at ha
    obtain ⟨alts, _, rfl⟩ := ha; rfl

/-- the clause of `valuesOk` for one placeholder says that the value is a word of the atom -/
theorem valuesOk_clause (e : Env) (k : Str) (ex : Re) (a : Atom) (ha : phAtom k ex = some a)
    (v : Str) :
    (if ex == Re.star Cls.notSlash then !Str.hasChar '/' v else ex.accepts e v) = true ↔
      aword e a v := by
  rw [← ph_accepts e k ex a ha v]
  split
  · next hex =>
    simp only [beq_iff_eq] at hex
    subst hex
    have ha' : phAtom k (Re.star Cls.notSlash) = some (Atom.free k) := by simp [phAtom]
    rw [ph_accepts e k _ _ ha']
    simp only [aword, Str.hasChar, Bool.not_eq_true', List.any_eq_false, beq_iff_eq]
    constructor
    · intro h hm; exact h _ hm rfl
    · intro h x hx hxe; subst hxe; exact h hx
  · rfl

theorem parse_of_format (e : Env) : ∀ (t : Template) (fl : List Atom) (data : Dict) (w : Str),
    flatAtoms t = some fl → fl.all (atomOk e) = true → valuesOk e t data = true →
    Template.format t data = some w →
    Parse e fl w ((phKeys t).map (fun k => (data.get k).getD [])) ∧
      List.count '/' w = fl.countP Atom.isSlash
  | [], fl, data, w, h, _, _, hw => by
    simp only [flatAtoms, Option.some.injEq] at h
    simp only [Template.format, Option.some.injEq] at hw
    subst h hw
    exact ⟨Parse.nil, rfl⟩
  | .lit s :: rest, fl, data, w, h, hok, hv, hw => by
    obtain ⟨as, has, rfl⟩ := (flatAtoms_lit s rest fl).mp h
    simp only [Template.format, Option.map_eq_some_iff] at hw
    obtain ⟨w', hw', rfl⟩ := hw
    simp only [List.all_append, Bool.and_eq_true] at hok
    have hv' : valuesOk e rest data = true := by
      simp only [valuesOk, List.all_cons, Bool.true_and] at hv ⊢; exact hv
    obtain ⟨ih1, ih2⟩ := parse_of_format e rest as data w' has hok.2 hv' hw'
    refine ⟨?_, ?_⟩
    · simp only [phKeys]
      exact (parse_append e _ _ _ _).mpr ⟨s, w', [], _, rfl, rfl, parse_lits e s, ih1⟩
    · rw [List.count_append, List.countP_append, count_lits, ih2]
  | .ph k ex :: rest, fl, data, w, h, hok, hv, hw => by
    obtain ⟨a, as, ha, has, rfl⟩ := (flatAtoms_ph k ex rest fl).mp h
    simp only [List.all_cons, Bool.and_eq_true] at hok
    simp only [valuesOk, List.all_cons, Bool.and_eq_true] at hv
    have hv' : valuesOk e rest data = true := hv.2
    have hv1 := hv.1
    simp only [Template.format] at hw
    cases hg : data.get k with
    | none => rw [hg] at hv1; simp at hv1
    | some v =>
      rw [hg] at hv1 hw
      simp only at hv1
      cases hf : Template.format rest data with
      | none => rw [hf] at hw; simp at hw
      | some w' =>
        rw [hf] at hw
        simp only [Option.some.injEq] at hw
        subst hw
        have hword : aword e a v := (valuesOk_clause e k ex a ha v).mp hv1
        obtain ⟨ih1, ih2⟩ := parse_of_format e rest as data w' has hok.2 hv' hf
        refine ⟨?_, ?_⟩
        · simp only [phKeys, List.map_cons, hg, Option.getD_some]
          have := Parse.cons a as v w' _ hword ih1
          rwa [ph_aval k ex a ha] at this
        · rw [List.count_append, List.countP_cons, ph_notSlashAtom k ex a ha, ih2]
          have := ph_noSlash e k ex a ha hok.1 v hword
          simp [List.count_eq_zero.mpr this]

end Det
