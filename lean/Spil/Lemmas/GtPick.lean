/-
  Spil.Lemmas.GtPick — the reading of `sortedPick` as "the last one of each group" (`PicksLast`),
  `indexOfGt`, `gtStar`, and the `mapE` / `flatMapE` plumbing used by the '>' theorems (C09b).
-/
import Spil.Spec.Gt
import Spil.Props.C08
import Spil.Lemmas.Glob
import Spil.Lemmas.FS

namespace GtL

open Spec Find

/-! ### `sortedPick` picks the last one of each group -/

theorem segGe_antisymm (a b : Str) (h1 : segGe a b) (h2 : segGe b a) : a = b :=
  Str.splitOn_inj '/' a b (Str.ltList_sto.tri _ _ h1 h2)

/-- membership in the selection: found, and at least every found entry of the same group -/
theorem mem_sortedPick_iff (idx : Nat) (founds : List Str) (y : Str) :
    y ∈ sortedPick idx founds ↔
      y ∈ founds ∧ ∀ z ∈ founds, groupKey idx z = groupKey idx y → segGe y z := by
  constructor
  · intro hy
    refine ⟨C09.c09_pick_mem idx founds y hy, fun z hz hk => ?_⟩
    obtain ⟨r, hr, hkr, hrz⟩ := C09.c09_pick_max idx founds z hz
    have : r = y := (C09.c09_pick_unique idx founds).2 r hr y hy (hkr.trans hk)
    rw [← this]; exact hrz
  · rintro ⟨hy, hmax⟩
    obtain ⟨r, hr, hkr, hry⟩ := C09.c09_pick_max idx founds y hy
    have hyr := hmax r (C09.c09_pick_mem idx founds r hr) hkr
    rw [segGe_antisymm y r hyr hry]; exact hr

/-- the selection over any list whose members are exactly the entries satisfying `P` -/
theorem picksLast_sortedPick (idx : Nat) (P : Str → Prop) (founds : List Str)
    (h : ∀ x, x ∈ founds ↔ P x) : PicksLast idx P (sortedPick idx founds) where
  mem y := by
    rw [mem_sortedPick_iff, h]
    constructor
    · rintro ⟨h1, h2⟩; exact ⟨h1, fun z hz => h2 z ((h z).2 hz)⟩
    · rintro ⟨h1, h2⟩; exact ⟨h1, fun z hz => h2 z ((h z).1 hz)⟩
  nodup := (C09.c09_pick_unique idx founds).1
  one_per_group := (C09.c09_pick_unique idx founds).2
  every_group e he := C09.c09_pick_max idx founds e ((h e).2 he)

/-- two answers for the same set of entries hold the same members -/
theorem PicksLast.ext {idx : Nat} {P : Str → Prop} {r₁ r₂ : List Str} (h₁ : PicksLast idx P r₁)
    (h₂ : PicksLast idx P r₂) : ∀ y, y ∈ r₁ ↔ y ∈ r₂ := fun y => by rw [h₁.mem, h₂.mem]

/-- when all entries satisfying `P` share their first `idx` segments the answer has at most one
    element -/
theorem PicksLast.length_le_one {idx : Nat} {P : Str → Prop} {r : List Str} (h : PicksLast idx P r)
    (hg : ∀ a b, P a → P b → groupKey idx a = groupKey idx b) : r.length ≤ 1 := by
  match r, h with
  | [], _ => simp
  | [_], _ => simp
  | a :: b :: t, h =>
    exfalso
    have ha := ((h.mem a).1 (by simp)).1
    have hb := ((h.mem b).1 (by simp)).1
    have hab := h.one_per_group a (by simp) b (by simp) (hg a b ha hb)
    have hn := h.nodup
    rw [hab] at hn
    simp at hn

/-! ### `indexOfGt` -/

theorem indexOfGt_some_iff (segs : List Str) (i : Nat) :
    indexOfGt segs = some i ↔ segs[i]? = some ['>'] ∧ ∀ j, j < i → segs[j]? ≠ some ['>'] := by
  induction segs generalizing i with
  | nil => simp [indexOfGt]
  | cons s rest ih =>
    simp only [indexOfGt]
    by_cases hs : s = ['>']
    · subst hs
      simp only [beq_self_eq_true, if_true, Option.some.injEq]
      constructor
      · intro h; subst h; simp
      · rintro ⟨_, h2⟩
        cases i with
        | zero => rfl
        | succ i => exact absurd (by simp) (h2 0 (Nat.succ_pos _))
    · have hs' : (s == ['>']) = false := by simpa using hs
      simp only [hs', Bool.false_eq_true, if_false, Option.map_eq_some_iff]
      constructor
      · rintro ⟨k, hk, rfl⟩
        obtain ⟨h1, h2⟩ := (ih k).1 hk
        refine ⟨by simpa using h1, fun j hj => ?_⟩
        cases j with
        | zero => simpa using hs
        | succ j => simpa using h2 j (by omega)
      · rintro ⟨h1, h2⟩
        cases i with
        | zero => simp at h1; exact absurd h1 hs
        | succ i =>
          refine ⟨i, (ih i).2 ⟨by simpa using h1, fun j hj => ?_⟩, rfl⟩
          simpa using h2 (j + 1) (by omega)

/-- a search that carries '>' as a segment contains the character '>' -/
theorem hasChar_of_gtAt (idx : Nat) (s : Str) (h : GtAt idx s) : Str.hasChar '>' s = true := by
  have h1 := ((indexOfGt_some_iff _ _).1 h).1
  have hm : ['>'] ∈ Str.splitOn '/' s := List.mem_of_getElem? h1
  have := GlobL.mem_of_mem_splitOn '/' s ['>'] '>' hm (by simp)
  simp only [Str.hasChar, List.any_eq_true, beq_iff_eq]
  exact ⟨'>', this, rfl⟩

/-! ### `gtStar` -/

theorem gtStar_append (a b : Str) : gtStar (a ++ b) = gtStar a ++ gtStar b := by
  simp [gtStar]

theorem gtStar_cons (c : Char) (a : Str) :
    gtStar (c :: a) = (if c == '>' then '*' else c) :: gtStar a := rfl

theorem mem_gtStar (x : Char) (hx1 : x ≠ '>') (hx2 : x ≠ '*') (s : Str) : x ∈ gtStar s ↔ x ∈ s := by
  induction s with
  | nil => simp [gtStar]
  | cons c cs ih =>
    rw [gtStar_cons, List.mem_cons, List.mem_cons, ih]
    by_cases hc : c = '>'
    · subst hc; simp [hx1, hx2]
    · have : (c == '>') = false := by simpa using hc
      simp [this]

theorem bracket_gtStar (s : Str) : '[' ∉ gtStar s ↔ '[' ∉ s := by
  rw [mem_gtStar '[' (by decide) (by decide)]

/-! ### `mapE` / `flatMapE` -/

theorem mapE_eq_map {α β} (f : α → Except Err β) (g : α → β) (l : List α)
    (h : ∀ x ∈ l, f x = .ok (g x)) : Ctx.mapE f l = .ok (l.map g) := by
  induction l with
  | nil => rfl
  | cons a l ih =>
    simp only [Ctx.mapE, h a (by simp), ih (fun x hx => h x (List.mem_cons_of_mem _ hx)), List.map_cons]

theorem mapE_congr {α β} (f g : α → Except Err β) (l : List α) (h : ∀ x ∈ l, f x = g x) :
    Ctx.mapE f l = Ctx.mapE g l := by
  induction l with
  | nil => rfl
  | cons a l ih =>
    simp only [Ctx.mapE, h a (by simp), ih (fun x hx => h x (List.mem_cons_of_mem _ hx))]

/-- `mapE` of a composition `h = g ∘ f` (in the `Except` sense): first `f` over the list, then
    `g` over the results -/
theorem mapE_comp {α β γ} (f : α → Except Err β) (g : β → Except Err γ) (h : α → Except Err γ)
    (hh : ∀ x y, f x = .ok y → h x = g y) (l : List α) (ys : List β)
    (zs : List γ) (hf : Ctx.mapE f l = .ok ys) (hg : Ctx.mapE g ys = .ok zs) :
    Ctx.mapE h l = .ok zs := by
  induction l generalizing ys zs with
  | nil =>
    simp only [Ctx.mapE] at hf; cases hf
    simp only [Ctx.mapE] at hg ⊢; exact hg
  | cons a l ih =>
    simp only [Ctx.mapE] at hf
    split at hf
    · cases hf
    · next y hy =>
      split at hf
      · cases hf
      · next ys' hys' =>
        cases hf
        simp only [Ctx.mapE] at hg
        split at hg
        · cases hg
        · next z hz =>
          split at hg
          · cases hg
          · next zs' hzs' =>
            cases hg
            simp only [Ctx.mapE, hh a y hy, hz, ih ys' zs' hys' hzs']

/-- members of the results of a successful `mapE` -/
theorem mapE_mem {α β} (f : α → Except Err β) (l : List α) (rs : List β) (h : Ctx.mapE f l = .ok rs) :
    ∀ r, r ∈ rs ↔ ∃ x ∈ l, f x = .ok r := by
  induction l generalizing rs with
  | nil => simp only [Ctx.mapE] at h; cases h; simp
  | cons a l ih =>
    simp only [Ctx.mapE] at h
    split at h
    · cases h
    · next y hy =>
      split at h
      · cases h
      · next ys hys =>
        cases h
        intro r
        simp only [List.mem_cons, ih ys hys r]
        constructor
        · rintro (rfl | ⟨x, hx, hfx⟩)
          · exact ⟨a, Or.inl rfl, hy⟩
          · exact ⟨x, Or.inr hx, hfx⟩
        · rintro ⟨x, rfl | hx, hfx⟩
          · rw [hy] at hfx; injection hfx with hfx; exact Or.inl hfx.symm
          · exact Or.inr ⟨x, hx, hfx⟩

/-- `mapE` succeeds when the function succeeds on every member -/
theorem mapE_total {α β} (f : α → Except Err β) (l : List α) (h : ∀ x ∈ l, ∃ y, f x = .ok y) :
    ∃ rs, Ctx.mapE f l = .ok rs := by
  induction l with
  | nil => exact ⟨[], rfl⟩
  | cons a l ih =>
    obtain ⟨y, hy⟩ := h a (by simp)
    obtain ⟨ys, hys⟩ := ih (fun x hx => h x (List.mem_cons_of_mem _ hx))
    exact ⟨y :: ys, by simp only [Ctx.mapE, hy, hys]⟩

theorem flatMapE_of_mapE {α β} (f : α → Except Err (List β)) (l : List α) (rs : List (List β))
    (h : Ctx.mapE f l = .ok rs) : Ctx.flatMapE f l = .ok rs.flatten := by
  simp only [Ctx.flatMapE, h]

end GtL
