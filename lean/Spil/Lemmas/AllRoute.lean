/-
  Spil.Lemmas.AllRoute — helper lemmas for the routing half of C11 (`FindInAll`):
  `Ctx.flatMapE`, `DCtx.groupByFinder`, the first unfolding step of `finderDoFind`.
-/
import Spil.Model.FS
import Spil.Lemmas.Lst

namespace AllL

/-! ### `Ctx.flatMapE` -/

theorem flatMapE_nil {α β} (f : α → Except Err (List β)) : Ctx.flatMapE f [] = .ok [] := rfl

theorem flatMapE_cons {α β} (f : α → Except Err (List β)) (x : α) (xs : List α) :
    Ctx.flatMapE f (x :: xs) =
      match f x with
      | .error e => .error e
      | .ok ys =>
        match Ctx.flatMapE f xs with
        | .error e => .error e
        | .ok more => .ok (ys ++ more) := by
  unfold Ctx.flatMapE
  simp only [Ctx.mapE]
  cases f x with
  | error e => rfl
  | ok ys =>
    cases Ctx.mapE f xs with
    | error e => rfl
    | ok yss => simp

theorem flatMapE_singleton {α β} (f : α → Except Err (List β)) (x : α) :
    Ctx.flatMapE f [x] = f x := by
  rw [flatMapE_cons, flatMapE_nil]
  cases f x with
  | error e => rfl
  | ok ys => simp

theorem flatMapE_congr {α β} (f g : α → Except Err (List β)) (xs : List α)
    (h : ∀ x ∈ xs, f x = g x) : Ctx.flatMapE f xs = Ctx.flatMapE g xs := by
  induction xs with
  | nil => rfl
  | cons x xs ih =>
    rw [flatMapE_cons, flatMapE_cons, h x (by simp), ih (fun y hy => h y (by simp [hy]))]

/-- every item answers: the result is the concatenation of the answers -/
theorem flatMapE_pure {α β} (f : α → Except Err (List β)) (g : α → List β) (xs : List α)
    (h : ∀ x ∈ xs, f x = .ok (g x)) : Ctx.flatMapE f xs = .ok (xs.flatMap g) := by
  induction xs with
  | nil => rfl
  | cons x xs ih =>
    rw [flatMapE_cons, h x (by simp), ih (fun y hy => h y (by simp [hy]))]
    simp

/-- an answer of `flatMapE` is an answer of one of the items -/
theorem flatMapE_mem {α β} (f : α → Except Err (List β)) (xs : List α) (r : List β)
    (h : Ctx.flatMapE f xs = .ok r) (y : β) :
    y ∈ r ↔ ∃ x ∈ xs, ∃ ys, f x = .ok ys ∧ y ∈ ys := by
  induction xs generalizing r with
  | nil =>
    rw [flatMapE_nil] at h
    cases h
    simp
  | cons x xs ih =>
    rw [flatMapE_cons] at h
    cases hx : f x with
    | error e => rw [hx] at h; cases h
    | ok ys =>
      rw [hx] at h
      cases hxs : Ctx.flatMapE f xs with
      | error e => rw [hxs] at h; cases h
      | ok more =>
        rw [hxs] at h
        cases h
        rw [List.mem_append, ih more hxs]
        constructor
        · rintro (hy | ⟨a, ha, zs, hz, hyz⟩)
          · exact ⟨x, by simp, ys, hx, hy⟩
          · exact ⟨a, by simp [ha], zs, hz, hyz⟩
        · rintro ⟨a, ha, zs, hz, hyz⟩
          rcases List.mem_cons.1 ha with rfl | ha
          · rw [hx] at hz
            cases hz
            exact Or.inl hyz
          · exact Or.inr ⟨a, ha, zs, hz, hyz⟩

/-- `flatMapE` succeeds exactly when every item answers -/
theorem flatMapE_ok_iff {α β} (f : α → Except Err (List β)) (xs : List α) :
    (∃ r, Ctx.flatMapE f xs = .ok r) ↔ ∀ x ∈ xs, ∃ ys, f x = .ok ys := by
  induction xs with
  | nil => simp [flatMapE_nil]
  | cons x xs ih =>
    rw [flatMapE_cons]
    constructor
    · rintro ⟨r, hr⟩
      cases hx : f x with
      | error e => rw [hx] at hr; cases hr
      | ok ys =>
        rw [hx] at hr
        cases hxs : Ctx.flatMapE f xs with
        | error e => rw [hxs] at hr; cases hr
        | ok more =>
          intro a ha
          rcases List.mem_cons.1 ha with rfl | ha
          · exact ⟨ys, hx⟩
          · exact ih.1 ⟨more, hxs⟩ a ha
    · intro h
      obtain ⟨ys, hys⟩ := h x (by simp)
      obtain ⟨more, hmore⟩ := ih.2 (fun a ha => h a (by simp [ha]))
      exact ⟨ys ++ more, by rw [hys, hmore]⟩

theorem flatMapE_append {α β} (f : α → Except Err (List β)) (xs ys : List α) :
    Ctx.flatMapE f (xs ++ ys) =
      match Ctx.flatMapE f xs with
      | .error e => .error e
      | .ok a =>
        match Ctx.flatMapE f ys with
        | .error e => .error e
        | .ok b => .ok (a ++ b) := by
  induction xs with
  | nil =>
    rw [flatMapE_nil]
    simp only [List.nil_append]
    cases Ctx.flatMapE f ys <;> rfl
  | cons x xs ih =>
    rw [List.cons_append, flatMapE_cons, flatMapE_cons, ih]
    cases f x with
    | error e => rfl
    | ok zs =>
      cases Ctx.flatMapE f xs with
      | error e => rfl
      | ok a =>
        cases Ctx.flatMapE f ys with
        | error e => rfl
        | ok b => simp

/-! ### `groupByFinder` -/

/-- the groups `FindInAll` forms: one per finder index, in the order in which the indices are
    first met; each group lists the searches routed to its index, in their original order -/
def groupsOf (d : DCtx) (searches : List Sid) : List (Nat × List Sid) :=
  (Lst.dedupBy (· == ·) (searches.filterMap d.finderFor)).map
    (fun i => (i, searches.filter (fun s => d.finderFor s == some i)))

theorem groupByFinder_acc (d : DCtx) : ∀ (l : List Sid) (acc : List (Nat × List Sid)),
    d.groupByFinder l acc =
      acc.map (fun g => (g.1, g.2 ++ l.filter (fun s => d.finderFor s == some g.1))) ++
      ((Lst.dedupBy (· == ·) (l.filterMap d.finderFor)).filter (fun i => !acc.any (·.1 == i))).map
        (fun i => (i, l.filter (fun s => d.finderFor s == some i)))
  | [], acc => by
    simp [DCtx.groupByFinder, Lst.dedupBy]
  | s :: rest, acc => by
    unfold DCtx.groupByFinder
    cases h : d.finderFor s with
    | none =>
      simp only
      rw [groupByFinder_acc d rest acc]
      simp [h]
    | some i =>
      simp only
      by_cases hin : acc.any (·.1 == i) = true
      · simp only [hin, if_true]
        rw [groupByFinder_acc d rest _]
        have hkeys : ∀ j, (acc.map (fun (x : Nat × List Sid) =>
            if x.1 == i then (x.1, x.2 ++ [s]) else (x.1, x.2))).any (·.1 == j) = acc.any (·.1 == j) := by
          intro j
          rw [List.any_map]
          congr 1
          funext x
          simp only [Function.comp]
          split <;> rfl
        congr 1
        · rw [List.map_map]
          apply List.map_congr_left
          intro g _
          simp only [Function.comp, List.filter_cons, h]
          by_cases hg : g.1 = i
          · simp [hg]
          · have : (g.1 == i) = false := by simpa using hg
            have h2 : (some i == some g.1) = false := by simpa using fun e => hg e.symm
            simp [this, h2]
        · simp only [List.filterMap_cons, h, Lst.dedupBy, List.filter_cons, hin, Bool.not_true,
            Bool.false_eq_true, if_false, List.filter_filter]
          have hfun : ∀ j, (acc.map (fun (x : Nat × List Sid) =>
              if x.1 == i then (x.1, x.2 ++ [s]) else (x.1, x.2))).any (·.1 == j) = acc.any (·.1 == j) := hkeys
          have e1 : (Lst.dedupBy (· == ·) (rest.filterMap d.finderFor)).filter
              (fun a => (!acc.any (·.1 == a)) && !(i == a)) =
              (Lst.dedupBy (· == ·) (rest.filterMap d.finderFor)).filter
              (fun a => !acc.any (·.1 == a)) := by
            apply List.filter_congr
            intro a _
            by_cases hia : i = a
            · subst hia; simp [hin]
            · have : (i == a) = false := by simpa using hia
              simp [this]
          rw [e1]
          have e2 : (fun j => !(acc.map (fun (x : Nat × List Sid) =>
              if x.1 == i then (x.1, x.2 ++ [s]) else (x.1, x.2))).any (·.1 == j)) =
              (fun j => !acc.any (·.1 == j)) := by
            funext j; rw [hfun j]
          rw [e2]
          apply List.map_congr_left
          intro a ha
          rw [List.mem_filter] at ha
          have hai : a ≠ i := by
            intro e; subst e
            simp [hin] at ha
          have : (some i == some a) = false := by simpa using fun e => hai e.symm
          simp [this]
      · have hin' : acc.any (·.1 == i) = false := Bool.eq_false_iff.mpr hin
        simp only [hin', Bool.false_eq_true, if_false]
        rw [groupByFinder_acc d rest _]
        simp only [List.map_append, List.map_cons, List.map_nil, List.append_assoc,
          List.filterMap_cons, h, Lst.dedupBy, List.filter_cons, hin', Bool.not_false, if_true,
          List.cons_append, List.nil_append, beq_self_eq_true,
          List.filter_filter]
        congr 1
        · apply List.map_congr_left
          intro g hg
          have hgi : g.1 ≠ i := by
            intro e
            have : acc.any (·.1 == i) = true := List.any_eq_true.2 ⟨g, hg, by simp [e]⟩
            rw [hin'] at this; cases this
          have : (some i == some g.1) = false := by simpa using fun e => hgi e.symm
          simp [this]
        · congr 1
          have e1 : (Lst.dedupBy (· == ·) (rest.filterMap d.finderFor)).filter
              (fun a => !(acc ++ [(i, [s])]).any (·.1 == a)) =
              (Lst.dedupBy (· == ·) (rest.filterMap d.finderFor)).filter
              (fun a => (!acc.any (·.1 == a)) && !(i == a)) := by
            apply List.filter_congr
            intro a _
            simp [List.any_append, Bool.not_or]
          rw [e1]
          apply List.map_congr_left
          intro a ha
          rw [List.mem_filter] at ha
          have hai : i ≠ a := by
            intro e; subst e
            simp at ha
          have : (some i == some a) = false := by simpa using hai
          simp [this]

/-- `groupByFinder` IS `groupsOf` -/
theorem groupByFinder_eq (d : DCtx) (searches : List Sid) :
    d.groupByFinder searches [] = groupsOf d searches := by
  rw [groupByFinder_acc]
  unfold groupsOf
  simp only [List.map_nil, List.nil_append, List.any_nil, Bool.not_false]
  rw [List.filter_eq_self.2 (fun _ _ => rfl)]

/-- the finder indices of the groups are pairwise different -/
theorem groupsOf_keys_nodup (d : DCtx) (searches : List Sid) :
    ((groupsOf d searches).map (·.1)).Nodup := by
  unfold groupsOf
  rw [List.map_map]
  have : ((fun (g : Nat × List Sid) => g.1) ∘
      (fun i => (i, searches.filter (fun s => d.finderFor s == some i)))) = id := by
    funext i; rfl
  rw [this, List.map_id]
  exact Lst.dedupBy_nodup _

/-- a group: a finder index some search is routed to, with ALL the searches routed to it, in
    their original order -/
theorem mem_groupsOf (d : DCtx) (searches : List Sid) (g : Nat × List Sid) :
    g ∈ groupsOf d searches ↔
      (∃ s ∈ searches, d.finderFor s = some g.1) ∧
      g.2 = searches.filter (fun s => d.finderFor s == some g.1) := by
  unfold groupsOf
  rw [List.mem_map]
  constructor
  · rintro ⟨i, hi, rfl⟩
    rw [Lst.mem_dedupBy, List.mem_filterMap] at hi
    exact ⟨hi, rfl⟩
  · rintro ⟨hs, hg⟩
    refine ⟨g.1, ?_, ?_⟩
    · rw [Lst.mem_dedupBy, List.mem_filterMap]
      exact hs
    · rw [← hg]

/-- no group is empty -/
theorem groupsOf_ne_nil (d : DCtx) (searches : List Sid) (g : Nat × List Sid)
    (hg : g ∈ groupsOf d searches) : g.2 ≠ [] := by
  obtain ⟨⟨s, hs, hf⟩, h2⟩ := (mem_groupsOf d searches g).1 hg
  intro h0
  have : s ∈ g.2 := by
    rw [h2, List.mem_filter]
    exact ⟨hs, by simp [hf]⟩
  rw [h0] at this
  cases this

/-- the groups partition the routed searches: a search routed to `i` lies in the group of `i`
    (and, by `mem_groupsOf`, in no other) -/
theorem groupsOf_cover (d : DCtx) (searches : List Sid) (s : Sid) (i : Nat) (hs : s ∈ searches)
    (hf : d.finderFor s = some i) :
    (i, searches.filter (fun s => d.finderFor s == some i)) ∈ groupsOf d searches ∧
    s ∈ searches.filter (fun s => d.finderFor s == some i) := by
  refine ⟨(mem_groupsOf d searches _).2 ⟨⟨s, hs, hf⟩, rfl⟩, ?_⟩
  rw [List.mem_filter]
  exact ⟨hs, by simp [hf]⟩

/-- a search that is routed nowhere (`get_finder_for` gives `None`) is in no group -/
theorem groupsOf_unrouted (d : DCtx) (searches : List Sid) (s : Sid) (hf : d.finderFor s = none)
    (g : Nat × List Sid) (hg : g ∈ groupsOf d searches) : s ∉ g.2 := by
  obtain ⟨_, h2⟩ := (mem_groupsOf d searches g).1 hg
  rw [h2, List.mem_filter]
  simp [hf]

/-- all searches routed to the same finder: one group holding all of them -/
theorem groupsOf_single (d : DCtx) (searches : List Sid) (i : Nat)
    (h : ∀ s ∈ searches, d.finderFor s = some i) :
    groupsOf d searches = if searches.isEmpty then [] else [(i, searches)] := by
  unfold groupsOf
  cases searches with
  | nil => rfl
  | cons s rest =>
    have hfm : ∀ l : List Sid, (∀ s ∈ l, d.finderFor s = some i) →
        l.filterMap d.finderFor = List.replicate l.length i := by
      intro l hl
      induction l with
      | nil => rfl
      | cons a l ih =>
        rw [List.filterMap_cons, hl a (by simp), ih (fun b hb => hl b (by simp [hb]))]
        rfl
    have hdd : ∀ n, Lst.dedupBy (· == ·) (List.replicate (n + 1) i) = [i] := by
      intro n
      induction n with
      | zero => rfl
      | succ n ih =>
        rw [List.replicate_succ, Lst.dedupBy, ih]
        simp
    rw [hfm _ h, List.length_cons, hdd]
    simp only [List.map_cons, List.map_nil, List.isEmpty_cons, Bool.false_eq_true, if_false]
    rw [List.filter_eq_self.2 (fun a ha => by simp [h a ha])]

/-! ### the first step of `finderDoFind` -/

/-- `FindInAll` starts every Finder with fuel ≥ 1 -/
theorem fuel_succ (d : DCtx) : d.fuel = (2 * d.data.finders.length + 1) + 1 := rfl

theorem finderDoFind_paths (d : DCtx) (w : World) (fuel i : Nat) (config : Option Str)
    (hi : d.data.finders[i]? = some (.paths config)) (ss : List Sid) :
    d.finderDoFind w (fuel + 1) i ss = d.pathsDoFind w config ss := by
  rw [DCtx.finderDoFind.eq_2, hi]

theorem finderDoFind_constants (d : DCtx) (w : World) (fuel i : Nat) (key : Str) (values : List Str)
    (parent : Option Nat) (hi : d.data.finders[i]? = some (.constants key values parent))
    (ss : List Sid) :
    d.finderDoFind w (fuel + 1) i ss =
      d.doFindWith (fun ss => d.constStar w fuel key values parent ss) ss := by
  rw [DCtx.finderDoFind.eq_2, hi]

theorem finderDoFind_none (d : DCtx) (w : World) (fuel i : Nat) (hi : d.data.finders[i]? = none)
    (ss : List Sid) : d.finderDoFind w fuel i ss = .error .other := by
  cases fuel with
  | zero => rw [DCtx.finderDoFind.eq_1]
  | succ f => rw [DCtx.finderDoFind.eq_2, hi]

/-- a star search (no '>' in the search Sids): `do_find` is `star_search` on the whole list -/
theorem doFindWith_star (d : DCtx) (star : List Sid → Except Err (List Str)) (ss : List Sid)
    (hne : ss ≠ []) (hgt : ∀ x ∈ ss, Str.hasChar '>' x.string = false) :
    d.doFindWith star ss = star ss := by
  unfold DCtx.doFindWith
  have h1 : ss.isEmpty = false := by cases ss with | nil => exact absurd rfl hne | cons _ _ => rfl
  have h2 : ss.any (fun x => Str.hasChar '>' x.string) = false := by
    rw [List.any_eq_false]
    intro x hx
    simp [hgt x hx]
  simp only [h1, h2, Bool.false_eq_true, if_false]

theorem doFindWith_nil (d : DCtx) (star : List Sid → Except Err (List Str)) :
    d.doFindWith star [] = .ok [] := rfl

/-! ### `findInAll` -/

/-- `FindInAll.find`: unfold, group (`groupsOf`), let each Finder answer its group, concatenate,
    de-duplicate -/
theorem findInAll_eq (d : DCtx) (w : World) (search : Str) (searches : List Sid)
    (hu : d.ctx.unfoldSearch search false false = .ok searches) :
    d.findInAll w search =
      (Ctx.flatMapE (fun (g : Nat × List Sid) => d.finderDoFind w d.fuel g.1 g.2)
        (groupsOf d searches)).map (Lst.dedupBy (· == ·)) := by
  unfold DCtx.findInAll
  rw [hu]
  simp only [groupByFinder_eq]
  cases Ctx.flatMapE (fun (g : Nat × List Sid) => d.finderDoFind w d.fuel g.1 g.2)
    (groupsOf d searches) <;> rfl

end AllL
