/-
  Spil.Lemmas.Sid — helper lemmas for the Sid typing theorems (C01–C03).
-/
import Spil.Spec.Sid
import Spil.Lemmas.StrSplit
import Spil.Lemmas.ReRun
import Spil.Lemmas.Template

namespace SidL

open Spec

/-! ### one well-formed template -/

/-- what `sidTplOk` gives, in the vocabulary of `Spil.Lemmas.Template` -/
theorem tplOk_unpack (e : Env) (t : Template) (h : sidTplOk e t = true) :
    SidShape t (phs t) ∧ ((phs t).map (·.1)).Nodup ∧ phs t ≠ [] ∧
    (∀ p ∈ phs t, p.2.slashFree e = true ∧ p.2.noGrp = true) ∧
    (lastSat isFree (phs t) = true ∨ lastSat (Re.nlFree e) (phs t) = true) := by
  simp only [sidTplOk, Bool.and_eq_true, List.all_eq_true, Bool.or_eq_true] at h
  obtain ⟨⟨ha, hd⟩, hall⟩ := h
  have hs := sidShape_of_alternates t ha
  refine ⟨hs, (distinct_iff_nodup _).mp hd, hs.ne_nil, fun p hp => ⟨(hall p hp).1.1, (hall p hp).1.2⟩, ?_⟩
  exact lastSat_of_all _ _ _ hs.ne_nil (fun p hp => (hall p hp).2)

/-- `resolve_*` never raises without the duplicate-placeholder check -/
theorem resolveTpl_total (e : Env) (t : Template) (s : Str) :
    ∃ od, Resolver.resolveTpl e false t s = .ok od := by
  unfold Resolver.resolveTpl
  cases (t.compile).search e s with
  | none => exact ⟨none, rfl⟩
  | some caps =>
    obtain ⟨d, hd⟩ := matchToDict_false_ok caps []
    simp only [hd]
    exact ⟨_, rfl⟩

theorem fieldsOf_ne_nil (t : Template) (s : Str) (h : phs t ≠ []) : fieldsOf t s ≠ [] := by
  unfold fieldsOf
  have := Str.splitOn_ne_nil '/' s
  match hp : phs t, hs : Str.splitOn '/' s with
  | [], _ => exact absurd hp h
  | _ :: _, [] => exact absurd hs this
  | _ :: _, _ :: _ => simp

/-- an accepted string resolves to its segments -/
theorem resolveTpl_of_accepts (e : Env) (t : Template) (hwf : sidTplOk e t = true) (s : Str)
    (hacc : accepts e t s = true) :
    Resolver.resolveTpl e false t s = .ok (some (fieldsOf t s)) := by
  obtain ⟨hs, hnd, hne, hsf, hlast⟩ := tplOk_unpack e t hwf
  unfold Resolver.resolveTpl
  rw [compile_eq hs hnd, search_of_accepts e _ hne hsf hlast s hacc]
  simp only
  have : (phs t).map (fun p => nm p.1) = ((phs t).map (·.1)).map nm := by simp [List.map_map]
  rw [this, matchToDict_zip _ hnd _ [] (by simp)]
  have hf := fieldsOf_ne_nil t s hne
  simp only [List.nil_append]
  show Except.ok (if (fieldsOf t s).isEmpty then none else some (fieldsOf t s)) = _
  simp [hf]

/-- whatever resolves was accepted, up to the final newline that `$` tolerates -/
theorem resolveTpl_some (e : Env) (t : Template) (hwf : sidTplOk e t = true) (s : Str) (d : Dict)
    (h : Resolver.resolveTpl e false t s = .ok (some d)) :
    ∃ m, (s = m ∨ s = m ++ ['\n']) ∧ accepts e t m = true ∧ d = fieldsOf t m := by
  obtain ⟨hs, hnd, hne, hsf, hlast⟩ := tplOk_unpack e t hwf
  unfold Resolver.resolveTpl at h
  rw [compile_eq hs hnd] at h
  cases hsearch : (sidRe (phs t)).search e s with
  | none => rw [hsearch] at h; simp at h
  | some caps =>
    rw [hsearch] at h
    obtain ⟨m, hm, hacc, hcaps⟩ := search_some e _ hne hsf s caps hsearch
    refine ⟨m, hm, hacc, ?_⟩
    have : (phs t).map (fun p => nm p.1) = ((phs t).map (·.1)).map nm := by simp [List.map_map]
    subst hcaps
    simp only at h
    rw [this, matchToDict_zip _ hnd _ [] (by simp)] at h
    simp only [List.nil_append] at h
    change Except.ok (if (fieldsOf t m).isEmpty then none else some (fieldsOf t m)) = _ at h
    have hf := fieldsOf_ne_nil t m hne
    simp [hf] at h
    exact h.symm

/-- rendering the fields of an accepted string gives the string back -/
theorem formatOne_of_accepts (e : Env) (R : Resolver) (hcd : R.checkDup = false) (label : Str)
    (t : Template) (hl : R.lookup label = some t) (hwf : sidTplOk e t = true) (m : Str)
    (hacc : accepts e t m = true) :
    Resolver.formatOne e R (fieldsOf t m) label = .ok (if m.isEmpty then none else some m) := by
  obtain ⟨hs, hnd, hne, hsf, hlast⟩ := tplOk_unpack e t hwf
  have hf := fieldsOf_ne_nil t m hne
  have hlen := acceptsSegs_length e _ _ hacc
  unfold Resolver.formatOne
  have hemp : (fieldsOf t m).isEmpty = false := by simp [hf]
  rw [hemp, hl]
  simp only [Bool.false_eq_true, if_false]
  unfold Resolver.formatTpl
  have hkeys : Dict.keysEq (fieldsOf t m) t.keys = true := by
    rw [keys_sid hs hnd]; exact keysEq_zip _ _ (by simpa using hlen)
  have hfmt : Template.format t (fieldsOf t m) = some m := by
    have := format_sid hs (fieldsOf t m) (Str.splitOn '/' m) hlen (lookup_zip _ hnd _)
    rw [this, Str.join_split]
  rw [hkeys, hfmt]
  simp only [Bool.not_true, Bool.false_eq_true, if_false]
  unfold Resolver.resolveOne
  by_cases hm : m = []
  · subst hm; simp
  · have hm' : m.isEmpty = false := by simp [hm]
    simp only [hm', hl, hcd, Bool.false_eq_true, if_false, resolveTpl_of_accepts e t hwf m hacc]

/-- a template that accepts `s` resolves it and passes the render-back guard -/
theorem tpl_accepts (e : Env) (R : Resolver) (hcd : R.checkDup = false) (label : Str)
    (t : Template) (hl : R.lookup label = some t) (hwf : sidTplOk e t = true) (s : Str)
    (hne : s ≠ []) (hacc : accepts e t s = true) :
    Resolver.resolveTpl e false t s = .ok (some (fieldsOf t s)) ∧
    Resolver.formatOne e R (fieldsOf t s) label = .ok (some s) := by
  refine ⟨resolveTpl_of_accepts e t hwf s hacc, ?_⟩
  rw [formatOne_of_accepts e R hcd label t hl hwf s hacc]
  simp [hne]

/-- a template that does not accept `s` does not resolve it or fails the render-back guard -/
theorem tpl_rejects (e : Env) (R : Resolver) (hcd : R.checkDup = false) (label : Str)
    (t : Template) (hl : R.lookup label = some t) (hwf : sidTplOk e t = true) (s : Str)
    (hne : s ≠ []) (hrej : accepts e t s = false) :
    Resolver.resolveTpl e false t s = .ok none ∨
    ∃ d f, Resolver.resolveTpl e false t s = .ok (some d) ∧
      Resolver.formatOne e R d label = .ok f ∧ (f == some s) = false := by
  obtain ⟨od, hod⟩ := resolveTpl_total e t s
  cases od with
  | none => exact Or.inl hod
  | some d =>
    right
    obtain ⟨m, hm, hacc, rfl⟩ := resolveTpl_some e t hwf s d hod
    refine ⟨_, _, hod, formatOne_of_accepts e R hcd label t hl hwf m hacc, ?_⟩
    rcases hm with rfl | rfl
    · rw [hacc] at hrej; exact absurd hrej (by simp)
    · by_cases hm : m = []
      · simp [hm]
      · simp [hm]

/-! ### the template table -/

theorem lookup_of_mem (ts : List (Str × Template)) (hnd : (ts.map (·.1)).Nodup) (l : Str)
    (t : Template) (h : (l, t) ∈ ts) : ts.lookup l = some t := by
  induction ts with
  | nil => simp at h
  | cons p ts ih =>
    obtain ⟨l', t'⟩ := p
    simp only [List.map_cons, List.nodup_cons] at hnd
    simp only [List.mem_cons, Prod.mk.injEq] at h
    rcases h with ⟨rfl, rfl⟩ | h
    · simp
    · have hne : (l == l') = false := by
        have : l ≠ l' := by
          intro heq; subst heq
          exact hnd.1 (List.mem_map.mpr ⟨(l, t), h, rfl⟩)
        simpa using this
      rw [List.lookup_cons, hne]
      exact ih hnd.2 h

theorem mem_of_lookup (ts : List (Str × Template)) (l : Str) (t : Template)
    (h : ts.lookup l = some t) : (l, t) ∈ ts := by
  induction ts with
  | nil => simp at h
  | cons p ts ih =>
    obtain ⟨l', t'⟩ := p
    rw [List.lookup_cons] at h
    cases hb : l == l' with
    | true =>
      rw [hb] at h
      simp at h hb
      simp [h, hb]
    | false =>
      rw [hb] at h
      simp [ih h]

/-- what `sidTableOk` gives -/
theorem tableOk_unpack (e : Env) (ts : List (Str × Template)) (h : sidTableOk e ts = true) :
    ∀ p ∈ ts, sidTplOk e p.2 = true ∧ ts.lookup p.1 = some p.2 := by
  simp only [sidTableOk, Bool.and_eq_true, List.all_eq_true] at h
  obtain ⟨hall, hd⟩ := h
  intro p hp
  exact ⟨(hall p hp).2, lookup_of_mem ts ((distinct_iff_nodup _).mp hd) p.1 p.2 hp⟩

theorem firstAccepting_some (e : Env) (ts : List (Str × Template)) (s : Str) (l : Str) (t : Template)
    (h : firstAccepting e ts s = some (l, t)) : (l, t) ∈ ts ∧ accepts e t s = true := by
  induction ts with
  | nil => simp [firstAccepting] at h
  | cons p ts ih =>
    obtain ⟨l', t'⟩ := p
    simp only [firstAccepting] at h
    split at h
    · next hacc =>
      simp only [Option.some.injEq, Prod.mk.injEq] at h
      obtain ⟨rfl, rfl⟩ := h
      exact ⟨by simp, hacc⟩
    · have := ih h
      exact ⟨by simp [this.1], this.2⟩

/-- the typing of `s` that the statement prescribes, as the value `sid_to_dict` returns -/
def specDict (e : Env) (ts : List (Str × Template)) (s : Str) : Option (Str × Dict) :=
  (firstAccepting e ts s).map (fun p => (p.1, fieldsOf p.2 s))

theorem resolveFirstGo_spec (e : Env) (R : Resolver) (hcd : R.checkDup = false) (s : Str)
    (hne : s ≠ []) (ts : List (Str × Template))
    (H : ∀ p ∈ ts, sidTplOk e p.2 = true ∧ R.lookup p.1 = some p.2) :
    (Resolver.resolveFirstGo e false s ts = .ok none ∧ firstAccepting e ts s = none) ∨
    (∃ l d f, Resolver.resolveFirstGo e false s ts = .ok (some (l, d)) ∧
      Resolver.formatOne e R d l = .ok f ∧
      ((f == some s) = true → specDict e ts s = some (l, d))) := by
  induction ts with
  | nil => left; simp [Resolver.resolveFirstGo, firstAccepting]
  | cons p ts ih =>
    obtain ⟨l, t⟩ := p
    obtain ⟨hwf, hl⟩ := H (l, t) (by simp)
    simp only at hwf hl
    cases hacc : accepts e t s with
    | true =>
      obtain ⟨h1, h2⟩ := tpl_accepts e R hcd l t hl hwf s hne hacc
      right
      refine ⟨l, fieldsOf t s, some s, ?_, h2, ?_⟩
      · simp [Resolver.resolveFirstGo, h1]
      · intro _; simp [specDict, firstAccepting, hacc]
    | false =>
      rcases tpl_rejects e R hcd l t hl hwf s hne hacc with h1 | ⟨d, f, h1, h2, h3⟩
      · rcases ih (fun p hp => H p (by simp [hp])) with ⟨h4, h5⟩ | ⟨l', d', f', h4, h5, h6⟩
        · left; simp [Resolver.resolveFirstGo, h1, h4, firstAccepting, hacc, h5]
        · right
          refine ⟨l', d', f', ?_, h5, ?_⟩
          · simp [Resolver.resolveFirstGo, h1, h4]
          · intro hf; simpa [specDict, firstAccepting, hacc] using h6 hf
      · right
        refine ⟨l, d, f, ?_, h2, ?_⟩
        · simp [Resolver.resolveFirstGo, h1]
        · intro hf; rw [h3] at hf; exact absurd hf (by simp)

theorem resolveAllGo_firstExact (c : Ctx) (s : Str) (hne : s ≠ []) (ts : List (Str × Template))
    (H : ∀ p ∈ ts, sidTplOk c.env p.2 = true ∧ c.sidR.lookup p.1 = some p.2) :
    ∃ all, Resolver.resolveAllGo c.env false s ts = .ok all ∧
      c.firstExact s all = .ok (specDict c.env ts s) := by
  induction ts with
  | nil => exact ⟨[], by simp [Resolver.resolveAllGo], by simp [Ctx.firstExact, specDict, firstAccepting]⟩
  | cons p ts ih =>
    obtain ⟨l, t⟩ := p
    obtain ⟨hwf, hl⟩ := H (l, t) (by simp)
    simp only at hwf hl
    obtain ⟨all, ha1, ha2⟩ := ih (fun p hp => H p (by simp [hp]))
    cases hacc : accepts c.env t s with
    | true =>
      obtain ⟨h1, h2⟩ := tpl_accepts c.env c.sidR rfl l t hl hwf s hne hacc
      refine ⟨(l, fieldsOf t s) :: all, ?_, ?_⟩
      · simp [Resolver.resolveAllGo, h1, ha1]
      · simp [Ctx.firstExact, h2, specDict, firstAccepting, hacc]
    | false =>
      rcases tpl_rejects c.env c.sidR rfl l t hl hwf s hne hacc with h1 | ⟨d, f, h1, h2, h3⟩
      · refine ⟨all, ?_, ?_⟩
        · simp [Resolver.resolveAllGo, h1, ha1]
        · simpa [specDict, firstAccepting, hacc] using ha2
      · refine ⟨(l, d) :: all, ?_, ?_⟩
        · simp [Resolver.resolveAllGo, h1, ha1]
        · simp only [Ctx.firstExact, h2, h3]
          simpa [specDict, firstAccepting, hacc] using ha2

end SidL

namespace SidL

open Spec

/-! ### `sid_to_dict` -/

theorem sidToDict_unforced_aux (c : Ctx) (hwf : sidTableOk c.env c.cfg.sid.templates = true)
    (s : Str) (hne : s ≠ []) :
    (match Resolver.resolveFirst c.env c.sidR s with
      | .error x => .error x
      | .ok none => .ok none
      | .ok (some (label, data)) =>
        match Resolver.formatOne c.env c.sidR data label with
        | .error x => .error x
        | .ok f =>
          if f == some s then .ok (some (label, data))
          else
            match Resolver.resolveAll c.env c.sidR s with
            | .error x => .error x
            | .ok all => c.firstExact s all : Except Err (Option (Str × Dict))) =
      .ok (specDict c.env c.cfg.sid.templates s) := by
  have H := tableOk_unpack c.env _ hwf
  have hs : s.isEmpty = false := by simp [hne]
  unfold Resolver.resolveFirst Resolver.resolveAll
  simp only [hs, Bool.false_eq_true, if_false]
  obtain ⟨all, ha1, ha2⟩ := resolveAllGo_firstExact c s hne c.cfg.sid.templates H
  rcases resolveFirstGo_spec c.env c.sidR rfl s hne c.cfg.sid.templates H with
    ⟨h1, h2⟩ | ⟨l, d, f, h1, h2, h3⟩
  · have h1' : Resolver.resolveFirstGo c.env c.sidR.checkDup s c.sidR.templates = .ok none := h1
    simp [h1', specDict, h2]
  · have h1' : Resolver.resolveFirstGo c.env c.sidR.checkDup s c.sidR.templates = .ok (some (l, d)) := h1
    have ha1' : Resolver.resolveAllGo c.env c.sidR.checkDup s c.sidR.templates = .ok all := ha1
    simp only [h1', h2, ha1']
    cases hf : f == some s with
    | true => simp [h3 hf]
    | false => simpa using ha2

theorem sidToDict_none (c : Ctx) (hwf : sidTableOk c.env c.cfg.sid.templates = true)
    (s : Str) (hne : s ≠ []) :
    c.sidToDict s none = .ok (specDict c.env c.cfg.sid.templates s) := by
  rw [← sidToDict_unforced_aux c hwf s hne]
  simp only [Ctx.sidToDict, Bool.false_eq_true, if_false]
  rfl

theorem sidToDict_some_nil (c : Ctx) (hwf : sidTableOk c.env c.cfg.sid.templates = true)
    (s : Str) (hne : s ≠ []) :
    c.sidToDict s (some []) = .ok (specDict c.env c.cfg.sid.templates s) := by
  rw [← sidToDict_unforced_aux c hwf s hne]
  simp only [Ctx.sidToDict, List.isEmpty_nil, Bool.not_true, Bool.false_eq_true, if_false]
  rfl

/-- the forced typing of `rest` by the template named `ty`, as the value `sid_to_dict` returns -/
def forcedDict (e : Env) (ts : List (Str × Template)) (ty rest : Str) : Option (Str × Dict) :=
  match ts.lookup ty with
  | some t => if !rest.isEmpty && accepts e t rest then some (ty, fieldsOf t rest) else none
  | none => none

theorem sidToDict_forced (c : Ctx) (hwf : sidTableOk c.env c.cfg.sid.templates = true)
    (ty rest : Str) (hty : ty ≠ []) :
    c.sidToDict rest (some ty) = .ok (forcedDict c.env c.cfg.sid.templates ty rest) := by
  have H := tableOk_unpack c.env _ hwf
  have hf : (!ty.isEmpty) = true := by simp [hty]
  unfold Ctx.sidToDict
  simp only [hf, if_true, Option.getD_some]
  unfold Resolver.resolveOne forcedDict
  by_cases hr : rest = []
  · subst hr
    cases c.cfg.sid.templates.lookup ty <;> simp
  · have hr' : rest.isEmpty = false := by simp [hr]
    simp only [hr', Bool.false_eq_true, if_false, Bool.not_false, Bool.true_and]
    cases hl : c.cfg.sid.templates.lookup ty with
    | none =>
      have hl' : c.sidR.lookup ty = none := hl
      simp [hl']
    | some t =>
      have hl' : c.sidR.lookup ty = some t := hl
      obtain ⟨hwt, _⟩ := H (ty, t) (mem_of_lookup _ _ _ hl)
      simp only at hwt
      have hcd : c.sidR.checkDup = false := rfl
      simp only [hl', hcd]
      cases hacc : accepts c.env t rest with
      | true =>
        obtain ⟨h1, h2⟩ := tpl_accepts c.env c.sidR rfl ty t hl' hwt rest hr hacc
        simp [h1, h2]
      | false =>
        rcases tpl_rejects c.env c.sidR rfl ty t hl' hwt rest hr hacc with h1 | ⟨d, f, h1, h2, h3⟩
        · simp [h1]
        · simp only [h1, h2, h3]
          simp

theorem sidToDict_nil (c : Ctx) (ty : Option Str) : c.sidToDict [] ty = .ok none := by
  unfold Ctx.sidToDict Resolver.resolveOne Resolver.resolveFirst
  simp only [List.isEmpty_nil, if_true, ite_self]

end SidL
