/-
  Spil.Lemmas.Sid — helper lemmas for the Sid typing theorems (C01–C03).
-/
import Spil.Spec.Sid
