/-
  Spil.Lemmas.Re — lemmas about the list-of-successes matcher `Re.run`.
-/
import Spil.Model.Re
import Spil.Lemmas.StrSplit

/-! ### `starSplits` -/

/-- the successes of a greedy class star are exactly the splits whose left part passes the class -/
theorem starSplits_mem_iff (e : Env) (k : Cls) (s m r : Str) :
    (m, r) ∈ starSplits e k s ↔ s = m ++ r ∧ ∀ c ∈ m, k.test e c = true := by
  induction s generalizing m r with
  | nil =>
    simp only [starSplits, List.mem_singleton, Prod.mk.injEq]
    constructor
    · rintro ⟨rfl, rfl⟩; simp
    · rintro ⟨h, _⟩
      have := List.append_eq_nil_iff.mp h.symm
      exact this
  | cons c cs ih =>
    simp only [starSplits]
    split
    · next ht =>
      simp only [List.mem_append, List.mem_map, List.mem_singleton, Prod.mk.injEq, Prod.exists]
      constructor
      · rintro (⟨m', r', hmem, rfl, rfl⟩ | ⟨rfl, rfl⟩)
        · have := (ih m' r').mp hmem
          refine ⟨by simp [this.1], ?_⟩
          intro x hx
          simp only [List.mem_cons] at hx
          rcases hx with rfl | hx
          · exact ht
          · exact this.2 x hx
        · simp
      · rintro ⟨h, hall⟩
        cases m with
        | nil => right; simp at h; simp [h]
        | cons d ds =>
          left
          simp at h
          refine ⟨ds, r, (ih ds r).mpr ⟨h.2, fun x hx => hall x (by simp [hx])⟩, by simp [h.1], rfl⟩
    · next ht =>
      simp only [List.mem_singleton, Prod.mk.injEq]
      constructor
      · rintro ⟨rfl, rfl⟩; simp
      · rintro ⟨h, hall⟩
        cases m with
        | nil => simp at h; simp [h]
        | cons d ds =>
          simp at h
          have := hall d (by simp)
          rw [← h.1] at this
          exact absurd this ht

/-! ### every success splits its input -/

theorem run_app (e : Env) (r : Re) : ∀ s, ∀ p ∈ r.run e s, p.1 ++ p.2.1 = s := by
  induction r with
  | eps => intro s p hp; simp [Re.run] at hp; subst hp; simp
  | cls k =>
    intro s p hp
    cases s with
    | nil => simp [Re.run] at hp
    | cons c cs =>
      simp only [Re.run] at hp
      split at hp
      · simp at hp; subst hp; simp
      · simp at hp
  | star k =>
    intro s p hp
    simp only [Re.run, List.mem_map] at hp
    rcases hp with ⟨⟨m, r⟩, hq, rfl⟩
    exact ((starSplits_mem_iff e k s m r).mp hq).1.symm
  | seq a b iha ihb =>
    intro s p hp
    simp only [Re.run, List.mem_flatMap, List.mem_map] at hp
    rcases hp with ⟨⟨m1, r1, c1⟩, h1, ⟨m2, r2, c2⟩, h2, rfl⟩
    have e1 := iha s _ h1
    have e2 := ihb r1 _ h2
    simp at e1 e2 ⊢
    rw [← e1, ← e2]
  | alt a b iha ihb =>
    intro s p hp
    simp only [Re.run, List.mem_append] at hp
    rcases hp with h | h
    · exact iha s p h
    · exact ihb s p h
  | grp n r ih =>
    intro s p hp
    simp only [Re.run, List.mem_map] at hp
    rcases hp with ⟨⟨m, r', c⟩, h, rfl⟩
    exact ih s (m, r', c) h
  | cgrp r ih =>
    intro s p hp
    simp only [Re.run] at hp
    exact ih s p hp

/-! ### membership in the successes of a sequence / group / class -/

theorem mem_run_seq (e : Env) (a b : Re) (s : Str) (p : Succ) :
    p ∈ (Re.seq a b).run e s ↔
      ∃ m1 r1 c1 m2 c2, (m1, r1, c1) ∈ a.run e s ∧ (m2, p.2.1, c2) ∈ b.run e r1 ∧
        p.1 = m1 ++ m2 ∧ p.2.2 = c1 ++ c2 := by
  obtain ⟨m, r, c⟩ := p
  simp only [Re.run, List.mem_flatMap, List.mem_map, Prod.exists, Prod.mk.injEq]
  constructor
  · rintro ⟨m1, r1, c1, h1, m2, r2, c2, h2, rfl, rfl, rfl⟩
    exact ⟨m1, r1, c1, m2, c2, h1, h2, rfl, rfl⟩
  · rintro ⟨m1, r1, c1, m2, c2, h1, h2, rfl, rfl⟩
    exact ⟨m1, r1, c1, h1, m2, r, c2, h2, rfl, rfl, rfl⟩

theorem mem_run_grp (e : Env) (n : Str) (a : Re) (s : Str) (p : Succ) :
    p ∈ (Re.grp n a).run e s ↔ ∃ c, (p.1, p.2.1, c) ∈ a.run e s ∧ p.2.2 = c ++ [(n, p.1)] := by
  obtain ⟨m, r, c⟩ := p
  simp only [Re.run, List.mem_map, Prod.exists, Prod.mk.injEq]
  constructor
  · rintro ⟨m', r', c', h, rfl, rfl, rfl⟩; exact ⟨c', h, rfl⟩
  · rintro ⟨c', h, rfl⟩; exact ⟨m, r, c', h, rfl, rfl, rfl⟩

theorem mem_run_cls (e : Env) (k : Cls) (s : Str) (p : Succ) :
    p ∈ (Re.cls k).run e s ↔ ∃ c, k.test e c = true ∧ s = c :: p.2.1 ∧ p.1 = [c] ∧ p.2.2 = [] := by
  obtain ⟨m, r, cp⟩ := p
  cases s with
  | nil => simp [Re.run]
  | cons d ds =>
    simp only [Re.run]
    split
    · next ht =>
      simp only [List.mem_singleton, Prod.mk.injEq, List.cons.injEq]
      constructor
      · rintro ⟨rfl, rfl, rfl⟩; exact ⟨d, ht, ⟨rfl, rfl⟩, rfl, rfl⟩
      · rintro ⟨c, _, ⟨rfl, rfl⟩, rfl, rfl⟩; exact ⟨rfl, rfl, rfl⟩
    · next ht =>
      simp only [List.not_mem_nil, false_iff, not_exists, not_and, List.cons.injEq]
      rintro c hc ⟨rfl, _⟩
      exact absurd hc ht

/-! ### slash-free / newline-free expressions never consume the character -/

theorem Cls.slashFree_test (e : Env) (k : Cls) (h : k.slashFree e = true) (c : Char)
    (ht : k.test e c = true) : c ≠ '/' := by
  cases k <;> simp_all [Cls.slashFree, Cls.test]
  · rintro rfl; simp_all

theorem Cls.nlFree_test (e : Env) (k : Cls) (h : k.nlFree e = true) (c : Char)
    (ht : k.test e c = true) : c ≠ '\n' := by
  cases k <;> simp_all [Cls.nlFree, Cls.test]
  · rintro rfl; simp_all

/-- generic: if every class of `r` that can fire rejects `x`, no success of `r` consumes `x` -/
theorem run_avoids (e : Env) (x : Char) (free : Re → Bool)
    (hcls : ∀ k, free (.cls k) = true → ∀ c, k.test e c = true → c ≠ x)
    (hstar : ∀ k, free (.star k) = true → ∀ c, k.test e c = true → c ≠ x)
    (hseq : ∀ a b, free (.seq a b) = true → free a = true ∧ free b = true)
    (halt : ∀ a b, free (.alt a b) = true → free a = true ∧ free b = true)
    (hgrp : ∀ n a, free (.grp n a) = true → free a = true)
    (hcgrp : ∀ a, free (.cgrp a) = true → free a = true)
    (r : Re) (h : free r = true) : ∀ s, ∀ p ∈ r.run e s, x ∉ p.1 := by
  induction r with
  | eps => intro s p hp; simp [Re.run] at hp; subst hp; simp
  | cls k =>
    intro s p hp
    obtain ⟨c, hc, _, hm, _⟩ := (mem_run_cls e k s p).mp hp
    rw [hm]
    have := hcls k h c hc
    simp [this.symm]
  | star k =>
    intro s p hp
    simp only [Re.run, List.mem_map] at hp
    rcases hp with ⟨⟨m, r⟩, hq, rfl⟩
    have := ((starSplits_mem_iff e k s m r).mp hq).2
    intro hx
    exact hstar k h x (this x hx) rfl
  | seq a b iha ihb =>
    intro s p hp
    obtain ⟨m1, r1, c1, m2, c2, h1, h2, hm, _⟩ := (mem_run_seq e a b s p).mp hp
    have e1 := iha (hseq a b h).1 s _ h1
    have e2 := ihb (hseq a b h).2 r1 _ h2
    rw [hm]
    simp at e1 e2 ⊢
    exact ⟨e1, e2⟩
  | alt a b iha ihb =>
    intro s p hp
    simp only [Re.run, List.mem_append] at hp
    rcases hp with h' | h'
    · exact iha (halt a b h).1 s p h'
    · exact ihb (halt a b h).2 s p h'
  | grp n r ih =>
    intro s p hp
    obtain ⟨c, hc, _⟩ := (mem_run_grp e n r s p).mp hp
    exact ih (hgrp n r h) s (p.1, p.2.1, c) hc
  | cgrp r ih =>
    intro s p hp
    simp only [Re.run] at hp
    exact ih (hcgrp r h) s p hp

theorem run_slashFree (e : Env) (r : Re) (h : r.slashFree e = true) :
    ∀ s, ∀ p ∈ r.run e s, '/' ∉ p.1 := by
  apply run_avoids e '/' (Re.slashFree e) _ _ _ _ _ _ r h
  · intro k hk c hc; exact Cls.slashFree_test e k (by simpa [Re.slashFree] using hk) c hc
  · intro k hk c hc; exact Cls.slashFree_test e k (by simpa [Re.slashFree] using hk) c hc
  · intro a b hab; simpa [Re.slashFree] using hab
  · intro a b hab; simpa [Re.slashFree] using hab
  · intro n a ha; simpa [Re.slashFree] using ha
  · intro a ha; simpa [Re.slashFree] using ha

theorem run_nlFree (e : Env) (r : Re) (h : r.nlFree e = true) :
    ∀ s, ∀ p ∈ r.run e s, '\n' ∉ p.1 := by
  apply run_avoids e '\n' (Re.nlFree e) _ _ _ _ _ _ r h
  · intro k hk c hc; exact Cls.nlFree_test e k (by simpa [Re.nlFree] using hk) c hc
  · intro k hk c hc; exact Cls.nlFree_test e k (by simpa [Re.nlFree] using hk) c hc
  · intro a b hab; simpa [Re.nlFree] using hab
  · intro a b hab; simpa [Re.nlFree] using hab
  · intro n a ha; simpa [Re.nlFree] using ha
  · intro a ha; simpa [Re.nlFree] using ha

/-! ### expressions without named groups capture nothing -/

theorem run_noGrp (e : Env) (r : Re) (h : r.noGrp = true) :
    ∀ s, ∀ p ∈ r.run e s, p.2.2 = [] := by
  induction r with
  | eps => intro s p hp; simp [Re.run] at hp; subst hp; simp
  | cls k =>
    intro s p hp
    obtain ⟨c, _, _, _, hc⟩ := (mem_run_cls e k s p).mp hp
    exact hc
  | star k =>
    intro s p hp
    simp only [Re.run, List.mem_map] at hp
    rcases hp with ⟨⟨m, r⟩, _, rfl⟩
    rfl
  | seq a b iha ihb =>
    intro s p hp
    simp only [Re.noGrp, Bool.and_eq_true] at h
    obtain ⟨m1, r1, c1, m2, c2, h1, h2, _, hc⟩ := (mem_run_seq e a b s p).mp hp
    have e1 := iha h.1 s _ h1
    have e2 := ihb h.2 r1 _ h2
    simp at e1 e2
    simp [hc, e1, e2]
  | alt a b iha ihb =>
    intro s p hp
    simp only [Re.noGrp, Bool.and_eq_true] at h
    simp only [Re.run, List.mem_append] at hp
    rcases hp with h' | h'
    · exact iha h.1 s p h'
    · exact ihb h.2 s p h'
  | grp n r ih => simp [Re.noGrp] at h
  | cgrp r ih =>
    intro s p hp
    simp only [Re.run] at hp
    exact ih (by simpa [Re.noGrp] using h) s p hp

/-! ### locality: a success does not depend on what follows the consumed part -/

theorem run_local (e : Env) (r : Re) :
    ∀ s, ∀ p ∈ r.run e s, ∀ r', (p.1, r', p.2.2) ∈ r.run e (p.1 ++ r') := by
  induction r with
  | eps => intro s p hp r'; simp [Re.run] at hp; subst hp; simp [Re.run]
  | cls k =>
    intro s p hp r'
    obtain ⟨c, hc, _, hm, hcap⟩ := (mem_run_cls e k s p).mp hp
    rw [hm, hcap]
    simp [Re.run, hc]
  | star k =>
    intro s p hp r'
    simp only [Re.run, List.mem_map] at hp
    rcases hp with ⟨⟨m, r⟩, hq, rfl⟩
    have := ((starSplits_mem_iff e k s m r).mp hq).2
    simp only [Re.run, List.mem_map]
    exact ⟨(m, r'), (starSplits_mem_iff e k _ m r').mpr ⟨rfl, this⟩, rfl⟩
  | seq a b iha ihb =>
    intro s p hp r'
    obtain ⟨m1, r1, c1, m2, c2, h1, h2, hm, hc⟩ := (mem_run_seq e a b s p).mp hp
    have e1 := iha s _ h1 (m2 ++ r')
    have e2 := ihb r1 _ h2 r'
    rw [mem_run_seq]
    refine ⟨m1, m2 ++ r', c1, m2, c2, ?_, e2, hm, hc⟩
    rw [hm, List.append_assoc]
    exact e1
  | alt a b iha ihb =>
    intro s p hp r'
    simp only [Re.run, List.mem_append] at hp ⊢
    rcases hp with h' | h'
    · exact Or.inl (iha s p h' r')
    · exact Or.inr (ihb s p h' r')
  | grp n r ih =>
    intro s p hp r'
    obtain ⟨c, hc, hcap⟩ := (mem_run_grp e n r s p).mp hp
    rw [mem_run_grp]
    exact ⟨c, ih s _ hc r', hcap⟩
  | cgrp r ih =>
    intro s p hp r'
    simp only [Re.run] at hp ⊢
    exact ih s p hp r'

/-- `accepts` = some success consumes everything -/
theorem accepts_iff (e : Env) (r : Re) (s : Str) :
    r.accepts e s = true ↔ ∃ c, (s, [], c) ∈ r.run e s := by
  simp only [Re.accepts, Re.matchZ, List.any_eq_true, beq_iff_eq, Prod.exists]
  constructor
  · rintro ⟨m, r', c, hmem, rfl⟩
    have := run_app e r s _ hmem
    simp at this
    exact ⟨c, this ▸ hmem⟩
  · rintro ⟨c, h⟩; exact ⟨s, [], c, h, rfl⟩

/-- a success on any input makes the expression accept exactly the consumed part -/
theorem accepts_of_mem_run (e : Env) (r : Re) (s : Str) (p : Succ) (hp : p ∈ r.run e s) :
    r.accepts e p.1 = true := by
  rw [accepts_iff]
  have := run_local e r s p hp []
  simp at this
  exact ⟨_, this⟩

/-- an accepted string is a success in front of any continuation -/
theorem mem_run_of_accepts (e : Env) (r : Re) (m : Str) (h : r.accepts e m = true) (r' : Str) :
    ∃ c, (m, r', c) ∈ r.run e (m ++ r') := by
  obtain ⟨c, hc⟩ := (accepts_iff e r m).mp h
  exact ⟨c, run_local e r m _ hc r'⟩

/-! ### `$`: which success `Re.search` selects -/

/-- the first success satisfying `$` (if any) ends at the very end, for every input -/
def Re.dollarOk (e : Env) (r : Re) : Prop :=
  ∀ s x, (r.run e s).find? (fun p => atDollar p.2.1) = some x → x.2.1 = []

theorem find_dollar_append (l1 l2 : List Succ)
    (h1 : ∀ x, l1.find? (fun p => atDollar p.2.1) = some x → x.2.1 = [])
    (h2 : ∀ x, l2.find? (fun p => atDollar p.2.1) = some x → x.2.1 = []) :
    ∀ x, (l1 ++ l2).find? (fun p => atDollar p.2.1) = some x → x.2.1 = [] := by
  intro x hx
  rw [List.find?_append] at hx
  cases h : l1.find? (fun p => atDollar p.2.1) with
  | none => rw [h] at hx; simp at hx; exact h2 x hx
  | some y => rw [h] at hx; simp at hx; subst hx; exact h1 y h

theorem find_dollar_map (l : List Succ) (f : Succ → Succ) (hf : ∀ x, (f x).2.1 = x.2.1)
    (h : ∀ x, l.find? (fun p => atDollar p.2.1) = some x → x.2.1 = []) :
    ∀ x, (l.map f).find? (fun p => atDollar p.2.1) = some x → x.2.1 = [] := by
  intro x hx
  rw [List.find?_map] at hx
  have : ((fun p : Succ => atDollar p.2.1) ∘ f) = (fun p : Succ => atDollar p.2.1) := by
    funext y; simp [hf]
  rw [this] at hx
  cases h' : l.find? (fun p => atDollar p.2.1) with
  | none => rw [h'] at hx; simp at hx
  | some y => rw [h'] at hx; simp at hx; subst hx; rw [hf]; exact h y h'

theorem find_dollar_flatMap {α : Type} (l : List α) (f : α → List Succ)
    (h : ∀ a ∈ l, ∀ x, (f a).find? (fun p => atDollar p.2.1) = some x → x.2.1 = []) :
    ∀ x, (l.flatMap f).find? (fun p => atDollar p.2.1) = some x → x.2.1 = [] := by
  induction l with
  | nil => simp
  | cons a l ih =>
    rw [List.flatMap_cons]
    exact find_dollar_append _ _ (h a (by simp)) (ih (fun b hb => h b (by simp [hb])))

theorem dollarOk_seq (e : Env) (a b : Re) (hb : b.dollarOk e) : (Re.seq a b).dollarOk e := by
  intro s
  simp only [Re.run]
  apply find_dollar_flatMap
  rintro ⟨m1, r1, c1⟩ _
  exact find_dollar_map _ _ (fun _ => rfl) (hb r1)

theorem dollarOk_grp (e : Env) (n : Str) (a : Re) (ha : a.dollarOk e) : (Re.grp n a).dollarOk e := by
  intro s
  simp only [Re.run]
  exact find_dollar_map _ _ (fun _ => rfl) (ha s)

theorem starSplits_notSlash_find (e : Env) (s : Str) :
    (starSplits e Cls.notSlash s).find? (fun p => atDollar p.2) =
      if '/' ∈ s then none else some (s, []) := by
  induction s with
  | nil => simp [starSplits, atDollar]
  | cons c cs ih =>
    simp only [starSplits]
    by_cases hc : c = '/'
    · subst hc; simp [atDollar, Cls.test]
    · have hc' : Cls.test e Cls.notSlash c = true := by simp [Cls.test, hc]
      rw [if_pos hc', List.find?_append, List.find?_map]
      have : ((fun p : Str × Str => atDollar p.2) ∘ fun x : Str × Str => (c :: x.1, x.2)) =
          (fun p : Str × Str => atDollar p.2) := by funext y; rfl
      rw [this, ih]
      by_cases hs : '/' ∈ cs
      · have hne : cs ≠ [] := by intro h; simp [h] at hs
        have : atDollar (c :: cs) = false := by
          cases cs with
          | nil => exact absurd rfl hne
          | cons d ds => simp [atDollar]
        simp [hs, this]
      · have : ¬ ('/' = c) := fun h => hc h.symm
        simp [hs, this]

theorem dollarOk_star_notSlash (e : Env) : (Re.star Cls.notSlash).dollarOk e := by
  intro s x hx
  simp only [Re.run] at hx
  rw [List.find?_map] at hx
  have : ((fun p : Succ => atDollar p.2.1) ∘ fun x : Str × Str => (x.1, x.2, ([] : Caps))) =
      (fun p : Str × Str => atDollar p.2) := by funext y; rfl
  rw [this, starSplits_notSlash_find] at hx
  split at hx
  · simp at hx
  · simp at hx; subst hx; rfl
