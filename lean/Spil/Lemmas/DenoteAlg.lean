/-
  Spil.Lemmas.DenoteAlg — helper lemmas for C10b: the rewrite rules of the search syntax at the
  level of the plain strings an expression stands for (`Spec.Picks`) and of `Spec.Denotes`.
-/
import Spil.Spec.Denote
import Spil.Lemmas.DenoteMain

namespace DenL

open Spec Ctx

/-! ### alternatives of an alternative -/

theorem altsOf_alt (p alt : Str) (h : alt ∈ altsOf p) : altsOf alt = [alt] :=
  altsOf_of_no_comma alt ((hasChar_false_iff _ _).2 (altsOf_props p alt h).1)

/-- choosing in a list of segments = first fixing the alternative of segment `i`, then choosing -/
theorem choice_set : ∀ (ps : List Str) (i : Nat), i < ps.length → ∀ picks,
    (Choice ps picks ↔ ∃ alt ∈ altsOf ((ps[i]?).getD []), Choice (ps.set i alt) picks)
  | [], _, h, _ => by simp at h
  | p :: rest, 0, _, picks => by
    simp only [List.getElem?_cons_zero, Option.getD_some, List.set_cons_zero]
    constructor
    · intro hc
      cases hc with
      | cons ha hc' =>
        rename_i a as
        exact ⟨a, ha, Choice.cons (by rw [altsOf_alt p a ha]; simp) hc'⟩
    · rintro ⟨alt, halt, hc⟩
      cases hc with
      | cons ha hc' =>
        rw [altsOf_alt p alt halt] at ha
        simp only [List.mem_singleton] at ha
        subst ha
        exact Choice.cons halt hc'
  | p :: rest, i + 1, h, picks => by
    simp only [List.getElem?_cons_succ, List.set_cons_succ]
    have ih := choice_set rest i (by simpa using h)
    constructor
    · intro hc
      cases hc with
      | cons ha hc' =>
        obtain ⟨alt, halt, hc''⟩ := (ih _).1 hc'
        exact ⟨alt, halt, Choice.cons ha hc''⟩
    · rintro ⟨alt, halt, hc⟩
      cases hc with
      | cons ha hc' => exact Choice.cons ha ((ih _).2 ⟨alt, halt, hc'⟩)

theorem lastAlts_or (c : Ctx) (p l : Str) :
    l ∈ lastAlts c p ↔ ∃ alt ∈ altsOf p, l ∈ lastAlts c alt := by
  simp only [lastAlts, List.mem_flatMap]
  constructor
  · rintro ⟨alt, halt, hl⟩
    exact ⟨alt, halt, alt, by rw [altsOf_alt p alt halt]; simp, hl⟩
  · rintro ⟨alt, halt, a, ha, hl⟩
    rw [altsOf_alt p alt halt] at ha
    simp only [List.mem_singleton] at ha
    subst ha
    exact ⟨a, halt, hl⟩

/-! ### replacing a segment -/

theorem parts_decomp (s : Str) :
    Str.splitOn '/' s = (Str.splitOn '/' s).dropLast ++ [((Str.splitOn '/' s).getLast?).getD []] :=
  (dropLast_append_getLast _ (Str.splitOn_ne_nil '/' s)).symm

theorem segAt_mem (s : Str) (i : Nat) (hi : i < (Str.splitOn '/' s).length) :
    segAt s i ∈ Str.splitOn '/' s := by
  unfold segAt
  rw [List.getElem?_eq_getElem hi]
  exact List.getElem_mem hi

theorem alt_no_slash (s : Str) (i : Nat) (hi : i < (Str.splitOn '/' s).length) (alt : Str)
    (h : alt ∈ altsOf (segAt s i)) : '/' ∉ alt :=
  altsOf_not_mem '/' _ (Str.splitOn_not_mem '/' s _ (segAt_mem s i hi)) alt h

theorem split_setSeg (s : Str) (i : Nat) (v : Str) (hv : '/' ∉ v) :
    Str.splitOn '/' (setSeg s i v) = (Str.splitOn '/' s).set i v := by
  unfold setSeg
  apply Str.split_join
  · intro h
    have := congrArg List.length h
    simp only [List.length_set, List.length_nil] at this
    exact Str.splitOn_ne_nil '/' s (List.length_eq_zero_iff.1 this)
  · intro p hp
    rcases List.mem_or_eq_of_mem_set hp with h | rfl
    · exact Str.splitOn_not_mem '/' s p h
    · exact hv

/-- the segments of `s` with segment `i` replaced, split into all-but-last and last -/
theorem set_decomp (init : List Str) (last : Str) (i : Nat) (v : Str) (hi : i < init.length + 1) :
    (i < init.length ∧ ((init ++ [last]).set i v).dropLast = init.set i v ∧
      (((init ++ [last]).set i v).getLast?).getD [] = last ∧ ((init ++ [last])[i]?).getD [] = (init[i]?).getD []) ∨
    (i = init.length ∧ ((init ++ [last]).set i v).dropLast = init ∧
      (((init ++ [last]).set i v).getLast?).getD [] = v ∧ ((init ++ [last])[i]?).getD [] = last) := by
  by_cases h : i < init.length
  · left
    refine ⟨h, ?_, ?_, ?_⟩
    · rw [List.set_append, if_pos h, List.dropLast_concat]
    · rw [List.set_append, if_pos h, List.getLast?_concat]; rfl
    · rw [List.getElem?_append, if_pos h]
  · right
    have he : i = init.length := by omega
    subst he
    refine ⟨rfl, ?_, ?_, ?_⟩
    · rw [List.set_append, if_neg h]; simp
    · rw [List.set_append, if_neg h]; simp
    · rw [List.getElem?_append, if_neg h]; simp

/-- (or) at the level of plain strings -/
theorem picks_or (c : Ctx) (s : Str) (i : Nat) (hi : i < (Str.splitOn '/' s).length) (a : Str) :
    Picks c s a ↔ ∃ alt ∈ altsOf (segAt s i), Picks c (setSeg s i alt) a := by
  have hdec := parts_decomp s
  generalize hinit : (Str.splitOn '/' s).dropLast = init at hdec
  generalize hlast : ((Str.splitOn '/' s).getLast?).getD [] = last at hdec
  have hi' : i < init.length + 1 := by rw [hdec] at hi; simpa using hi
  have hpicks : ∀ alt ∈ altsOf (segAt s i), (Picks c (setSeg s i alt) a ↔
      ∃ picks l, Choice ((init ++ [last]).set i alt).dropLast picks ∧
        l ∈ lastAlts c ((((init ++ [last]).set i alt).getLast?).getD []) ∧
        a = Str.joinWith '/' (picks ++ [l])) := by
    intro alt halt
    unfold Picks
    rw [split_setSeg s i alt (alt_no_slash s i hi alt halt), hdec]
  have hseg : segAt s i = ((init ++ [last])[i]?).getD [] := by unfold segAt; rw [hdec]
  have hps : Picks c s a ↔ ∃ picks l, Choice init picks ∧ l ∈ lastAlts c last ∧
      a = Str.joinWith '/' (picks ++ [l]) := by
    unfold Picks; rw [hinit, hlast]
  rw [hps]
  rcases set_decomp init last i [] hi' with ⟨hlt, _, _, hget⟩ | ⟨heq, _, _, hget⟩
  · rw [hseg, hget]
    constructor
    · rintro ⟨picks, l, hc, hl, rfl⟩
      obtain ⟨alt, halt, hc'⟩ := (choice_set init i hlt picks).1 hc
      refine ⟨alt, halt, ?_⟩
      rw [hpicks alt (by rw [hseg, hget]; exact halt)]
      rcases set_decomp init last i alt hi' with ⟨_, h1, h2, _⟩ | ⟨h0, _⟩
      · rw [h1, h2]; exact ⟨picks, l, hc', hl, rfl⟩
      · omega
    · rintro ⟨alt, halt, hp⟩
      rw [hpicks alt (by rw [hseg, hget]; exact halt)] at hp
      rcases set_decomp init last i alt hi' with ⟨_, h1, h2, _⟩ | ⟨h0, _⟩
      · rw [h1, h2] at hp
        obtain ⟨picks, l, hc, hl, rfl⟩ := hp
        exact ⟨picks, l, (choice_set init i hlt picks).2 ⟨alt, halt, hc⟩, hl, rfl⟩
      · omega
  · rw [hseg, hget]
    constructor
    · rintro ⟨picks, l, hc, hl, rfl⟩
      obtain ⟨alt, halt, hl'⟩ := (lastAlts_or c last l).1 hl
      refine ⟨alt, halt, ?_⟩
      rw [hpicks alt (by rw [hseg, hget]; exact halt)]
      rcases set_decomp init last i alt hi' with ⟨h0, _⟩ | ⟨_, h1, h2, _⟩
      · omega
      · rw [h1, h2]; exact ⟨picks, l, hc, hl', rfl⟩
    · rintro ⟨alt, halt, hp⟩
      rw [hpicks alt (by rw [hseg, hget]; exact halt)] at hp
      rcases set_decomp init last i alt hi' with ⟨h0, _⟩ | ⟨_, h1, h2, _⟩
      · omega
      · rw [h1, h2] at hp
        obtain ⟨picks, l, hc, hl, rfl⟩ := hp
        exact ⟨picks, l, hc, (lastAlts_or c last l).2 ⟨alt, halt, hl⟩, rfl⟩

/-- (or) for what the expression denotes -/
theorem denotes_or (c : Ctx) (s : Str) (i : Nat) (hi : i < (Str.splitOn '/' s).length) (y : Sid) :
    Denotes c s y ↔ ∃ alt ∈ altsOf (segAt s i), Denotes c (setSeg s i alt) y := by
  unfold Denotes
  constructor
  · rintro ⟨a, hp, hd⟩
    obtain ⟨alt, halt, hp'⟩ := (picks_or c s i hi a).1 hp
    exact ⟨alt, halt, a, hp', hd⟩
  · rintro ⟨alt, halt, a, hp, hd⟩
    exact ⟨a, (picks_or c s i hi a).2 ⟨alt, halt, hp⟩, hd⟩

theorem malformed_or (c : Ctx) (s : Str) (i : Nat) (hi : i < (Str.splitOn '/' s).length) :
    Malformed c s ↔ ∃ alt ∈ altsOf (segAt s i), Malformed c (setSeg s i alt) := by
  unfold Malformed
  constructor
  · rintro ⟨a, hp, hd⟩
    obtain ⟨alt, halt, hp'⟩ := (picks_or c s i hi a).1 hp
    exact ⟨alt, halt, a, hp', hd⟩
  · rintro ⟨alt, halt, a, hp, hd⟩
    exact ⟨a, (picks_or c s i hi a).2 ⟨alt, halt, hp⟩, hd⟩

/-! ### the hypotheses of C07c pass to the expression with one alternative chosen -/

theorem setSeg_char (s : Str) (i : Nat) (hi : i < (Str.splitOn '/' s).length) (alt : Str)
    (halt : alt ∈ altsOf (segAt s i)) (ch : Char) (h : ch ∈ setSeg s i alt) : ch = '/' ∨ ch ∈ s := by
  unfold setSeg at h
  rcases UpdL.mem_joinWith _ _ _ h with h | ⟨p, hp, hc⟩
  · exact Or.inl h
  · right
    rcases List.mem_or_eq_of_mem_set hp with hp | rfl
    · exact (Str.splitOn_infix '/' s p hp).subset hc
    · exact (Str.splitOn_infix '/' s _ (segAt_mem s i hi)).subset ((altsOf_infix _ _ halt).subset hc)

theorem setSeg_no_mark (s : Str) (i : Nat) (hi : i < (Str.splitOn '/' s).length) (alt : Str)
    (halt : alt ∈ altsOf (segAt s i)) (hm : Str.isInfix startMark s = false) :
    Str.isInfix startMark (setSeg s i alt) = false := by
  cases h : Str.isInfix startMark (setSeg s i alt) with
  | false => rfl
  | true =>
    exfalso
    unfold setSeg at h
    have hne : (Str.splitOn '/' s).set i alt ≠ [] := by
      intro h0
      have := congrArg List.length h0
      simp only [List.length_set, List.length_nil] at this
      exact Str.splitOn_ne_nil '/' s (List.length_eq_zero_iff.1 this)
    obtain ⟨p, hp, hip⟩ := UpdL.isInfix_join_sep '/' startMark startMark_no_slash _ hne h
    rw [Str.isInfix_eq_false_iff] at hm
    rw [Str.isInfix_iff] at hip
    apply hm
    rcases List.mem_or_eq_of_mem_set hp with hp | rfl
    · exact hip.trans (Str.splitOn_infix '/' s p hp)
    · exact (hip.trans (altsOf_infix _ _ halt)).trans (Str.splitOn_infix '/' s _ (segAt_mem s i hi))

theorem rooted_setSeg (c : Ctx) (s : Str) (i : Nat) (hi : i < (Str.splitOn '/' s).length) (alt : Str)
    (halt : alt ∈ altsOf (segAt s i)) (hr : Rooted c s) : Rooted c (setSeg s i alt) :=
  fun a hp => hr a ((picks_or c s i hi a).2 ⟨alt, halt, hp⟩)

/-! ### (alias) -/

theorem aliasFlat_unpack (sc : SidConf) (h : aliasFlat sc = true) (k : Str) (vs : List Str)
    (hl : sc.extensionAlias.lookup k = some vs) : ∀ v ∈ vs, sc.extensionAlias.lookup v = none := by
  have hm := UpdL.lookup_mem _ _ _ hl
  unfold aliasFlat at h
  rw [List.all_eq_true] at h
  have := h (k, vs) hm
  simp only [List.all_eq_true, Option.isNone_iff_eq_none] at this
  exact this

/-- the last segment of `s` -/
def lastSeg (s : Str) : Str := ((Str.splitOn '/' s).getLast?).getD []

/-- index of the last segment -/
def lastIdx (s : Str) : Nat := (Str.splitOn '/' s).length - 1

theorem lastAlts_alias (c : Ctx) (al : Str) (vs : List Str) (hc : ',' ∉ al)
    (hl : c.cfg.sid.extensionAlias.lookup al = some vs) (l : Str) : l ∈ lastAlts c al ↔ l ∈ vs := by
  simp [lastAlts, altsOf_of_no_comma al ((hasChar_false_iff _ _).2 hc), hl]

theorem lastAlts_exts (c : Ctx) (hal : aliasOk c.cfg.sid = true) (hfl : aliasFlat c.cfg.sid = true)
    (al : Str) (vs : List Str) (hl : c.cfg.sid.extensionAlias.lookup al = some vs) (l : Str) :
    l ∈ lastAlts c (Str.joinWith ',' vs) ↔ l ∈ vs := by
  obtain ⟨_, hne, hvs⟩ := aliasOk_unpack _ hal _ _ hl
  have hflat := aliasFlat_unpack _ hfl _ _ hl
  have hmem := mem_altsOf_join vs hne (fun e he => (hvs e he).2.1) (fun _ e he => (hvs e he).2.2.2.2.1)
  simp only [lastAlts, List.mem_flatMap]
  constructor
  · rintro ⟨v, hv, hlv⟩
    have hv' := (hmem v).1 hv
    rw [hflat v hv'] at hlv
    simp only [Option.getD_none, List.mem_singleton] at hlv
    subst hlv; exact hv'
  · intro hlv
    exact ⟨l, (hmem l).2 hlv, by rw [hflat l hlv]; simp⟩

/-- (alias) at the level of plain strings: an alias as last segment stands for what the ',' list
    of its extensions stands for -/
theorem picks_alias (c : Ctx) (hal : aliasOk c.cfg.sid = true) (hfl : aliasFlat c.cfg.sid = true)
    (s : Str) (vs : List Str) (hc : ',' ∉ lastSeg s)
    (hl : c.cfg.sid.extensionAlias.lookup (lastSeg s) = some vs) (a : Str) :
    Picks c s a ↔ Picks c (setSeg s (lastIdx s) (Str.joinWith ',' vs)) a := by
  have hns : '/' ∉ Str.joinWith ',' vs := by
    intro h
    rcases UpdL.mem_joinWith _ _ _ h with h | ⟨v, hv, hcv⟩
    · cases h
    · exact ((aliasOk_unpack _ hal _ _ hl).2.2 v hv).1 hcv
  have hdec := parts_decomp s
  unfold Picks
  rw [split_setSeg s _ _ hns]
  unfold lastSeg at hc hl
  generalize (Str.splitOn '/' s).dropLast = init at hdec
  generalize ((Str.splitOn '/' s).getLast?).getD [] = last at hdec hc hl
  have hidx : lastIdx s = init.length := by unfold lastIdx; rw [hdec]; simp
  rw [hidx, hdec]
  rcases set_decomp init last init.length (Str.joinWith ',' vs) (by omega) with ⟨h0, _⟩ | ⟨_, h1, h2, _⟩
  · omega
  · rw [h1, h2]
    constructor
    · rintro ⟨picks, l, hpi, hl', rfl⟩
      exact ⟨picks, l, hpi, (lastAlts_exts c hal hfl last vs hl l).2
        ((lastAlts_alias c last vs hc hl l).1 hl'), rfl⟩
    · rintro ⟨picks, l, hpi, hl', rfl⟩
      exact ⟨picks, l, hpi, (lastAlts_alias c last vs hc hl l).2
        ((lastAlts_exts c hal hfl last vs hl l).1 hl'), rfl⟩

theorem alias_char (s : Str) (vs : List Str) (ch : Char)
    (h : ch ∈ setSeg s (lastIdx s) (Str.joinWith ',' vs)) :
    ch = '/' ∨ ch = ',' ∨ ch ∈ s ∨ ∃ v ∈ vs, ch ∈ v := by
  unfold setSeg at h
  rcases UpdL.mem_joinWith _ _ _ h with h | ⟨p, hp, hc⟩
  · exact Or.inl h
  · rcases List.mem_or_eq_of_mem_set hp with hp | rfl
    · exact Or.inr (Or.inr (Or.inl ((Str.splitOn_infix '/' s p hp).subset hc)))
    · rcases UpdL.mem_joinWith _ _ _ hc with h | h
      · exact Or.inr (Or.inl h)
      · exact Or.inr (Or.inr (Or.inr h))

theorem alias_no_mark (c : Ctx) (hal : aliasOk c.cfg.sid = true) (s : Str) (al : Str) (vs : List Str)
    (hl : c.cfg.sid.extensionAlias.lookup al = some vs) (hm : Str.isInfix startMark s = false) :
    Str.isInfix startMark (setSeg s (lastIdx s) (Str.joinWith ',' vs)) = false := by
  cases h : Str.isInfix startMark (setSeg s (lastIdx s) (Str.joinWith ',' vs)) with
  | false => rfl
  | true =>
    exfalso
    unfold setSeg at h
    have hne : (Str.splitOn '/' s).set (lastIdx s) (Str.joinWith ',' vs) ≠ [] := by
      intro h0
      have := congrArg List.length h0
      simp only [List.length_set, List.length_nil] at this
      exact Str.splitOn_ne_nil '/' s (List.length_eq_zero_iff.1 this)
    obtain ⟨p, hp, hip⟩ := UpdL.isInfix_join_sep '/' startMark startMark_no_slash _ hne h
    rcases List.mem_or_eq_of_mem_set hp with hp | rfl
    · rw [Str.isInfix_eq_false_iff] at hm
      rw [Str.isInfix_iff] at hip
      exact hm (hip.trans (Str.splitOn_infix '/' s p hp))
    · obtain ⟨_, hne', hvs⟩ := aliasOk_unpack _ hal _ _ hl
      obtain ⟨v, hv, hiv⟩ := UpdL.isInfix_join_sep ',' startMark (by decide) vs hne' hip
      rw [(hvs v hv).2.2.2.2.2] at hiv
      cases hiv

end DenL
