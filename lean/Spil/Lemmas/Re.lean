/-
  Spil.Lemmas.Re — facts about `Re.run`, `starSplits`, `Re.matchZ` and `Re.mkSeq`.
-/
import Spil.Model.Re

/-- every split of `starSplits` recomposes the input -/
theorem starSplits_app (e : Env) (k : Cls) (s : Str) :
    ∀ p ∈ starSplits e k s, p.1 ++ p.2 = s := by
  induction s with
  | nil => simp [starSplits]
  | cons c cs ih =>
    intro p hp
    simp only [starSplits] at hp
    split at hp
    · simp only [List.mem_append, List.mem_map, List.mem_singleton] at hp
      rcases hp with ⟨q, hq, rfl⟩ | rfl
      · simp [ih q hq]
      · simp
    · simp at hp; subst hp; simp

/-- exact membership in `starSplits`: all splits whose consumed part passes the class test -/
theorem mem_starSplits (e : Env) (k : Cls) (s : Str) (p : Str × Str) :
    p ∈ starSplits e k s ↔ p.1 ++ p.2 = s ∧ ∀ c ∈ p.1, k.test e c = true := by
  induction s generalizing p with
  | nil =>
    obtain ⟨m, r⟩ := p
    simp only [starSplits, List.mem_singleton, Prod.mk.injEq, List.append_eq_nil_iff]
    constructor
    · rintro ⟨rfl, rfl⟩; simp
    · rintro ⟨h, _⟩; exact h
  | cons c cs ih =>
    obtain ⟨m, r⟩ := p
    simp only [starSplits]
    split
    · next ht =>
      simp only [List.mem_append, List.mem_map, List.mem_singleton, Prod.mk.injEq]
      constructor
      · rintro (⟨q, hq, rfl, rfl⟩ | ⟨rfl, rfl⟩)
        · have := (ih q).1 hq
          refine ⟨by simp [this.1], ?_⟩
          intro x hx
          rcases List.mem_cons.1 hx with rfl | hx
          · exact ht
          · exact this.2 x hx
        · simp
      · rintro ⟨happ, hall⟩
        cases m with
        | nil => right; simpa using happ
        | cons x m' =>
          simp only [List.cons_append, List.cons.injEq] at happ
          obtain ⟨rfl, happ⟩ := happ
          left
          refine ⟨(m', r), (ih _).2 ⟨happ, fun y hy => hall y (List.mem_cons_of_mem _ hy)⟩, rfl, rfl⟩
    · next ht =>
      simp only [List.mem_singleton, Prod.mk.injEq]
      constructor
      · rintro ⟨rfl, rfl⟩; simp
      · rintro ⟨happ, hall⟩
        cases m with
        | nil => simpa using happ
        | cons x m' =>
          simp only [List.cons_append, List.cons.injEq] at happ
          obtain ⟨rfl, _⟩ := happ
          exact absurd (hall x (by simp)) ht

/-- `[^/]*`: all splits whose consumed part is slash-free -/
theorem mem_starSplits_notSlash (e : Env) (s : Str) (p : Str × Str) :
    p ∈ starSplits e .notSlash s ↔ p.1 ++ p.2 = s ∧ '/' ∉ p.1 := by
  rw [mem_starSplits]
  constructor
  · rintro ⟨h, hall⟩
    refine ⟨h, fun hm => ?_⟩
    have := hall _ hm
    simp [Cls.test] at this
  · rintro ⟨h, hn⟩
    refine ⟨h, fun c hc => ?_⟩
    simp only [Cls.test, bne_iff_ne, ne_eq]
    rintro rfl
    exact hn hc

/-- recursion for "some split of the star has a rest satisfying `P`" -/
theorem exists_starSplits_cons (e : Env) (k : Cls) (c : Char) (cs : Str) (P : Str → Prop) :
    (∃ p ∈ starSplits e k (c :: cs), P p.2) ↔
      (k.test e c = true ∧ ∃ p ∈ starSplits e k cs, P p.2) ∨ P (c :: cs) := by
  simp only [starSplits]
  split
  · next ht =>
    simp only [List.mem_append, List.mem_map, List.mem_singleton, ht, true_and]
    constructor
    · rintro ⟨p, (⟨q, hq, rfl⟩ | rfl), hp⟩
      · exact Or.inl ⟨q, hq, hp⟩
      · exact Or.inr hp
    · rintro (⟨q, hq, hp⟩ | hp)
      · exact ⟨_, Or.inl ⟨q, hq, rfl⟩, hp⟩
      · exact ⟨_, Or.inr rfl, hp⟩
  · next ht =>
    simp only [List.mem_singleton, ht, false_and, false_or, Bool.false_eq_true]
    constructor
    · rintro ⟨p, rfl, hp⟩; exact hp
    · intro hp; exact ⟨_, rfl, hp⟩

theorem exists_starSplits_nil (e : Env) (k : Cls) (P : Str → Prop) :
    (∃ p ∈ starSplits e k [], P p.2) ↔ P [] := by
  simp [starSplits]

/-- every success of `run` splits its input -/
theorem Re.run_app (e : Env) (r : Re) : ∀ s, ∀ p ∈ r.run e s, p.1 ++ p.2.1 = s := by
  induction r with
  | eps => intro s p hp; simp [Re.run] at hp; subst hp; simp
  | cls k =>
    intro s p hp
    cases s with
    | nil => simp [Re.run] at hp
    | cons c cs =>
      simp only [Re.run] at hp
      split at hp
      · simp at hp; subst hp; simp
      · simp at hp
  | star k =>
    intro s p hp
    simp only [Re.run, List.mem_map] at hp
    rcases hp with ⟨q, hq, rfl⟩
    exact starSplits_app e k s q hq
  | seq a b iha ihb =>
    intro s p hp
    simp only [Re.run, List.mem_flatMap, List.mem_map] at hp
    rcases hp with ⟨⟨m1, r1, c1⟩, h1, ⟨m2, r2, c2⟩, h2, rfl⟩
    have e1 := iha s _ h1
    have e2 := ihb r1 _ h2
    simp at e1 e2 ⊢
    rw [← e1, ← e2]
  | alt a b iha ihb =>
    intro s p hp
    simp only [Re.run, List.mem_append] at hp
    rcases hp with h | h
    · exact iha s p h
    · exact ihb s p h
  | grp n r ih =>
    intro s p hp
    simp only [Re.run, List.mem_map] at hp
    rcases hp with ⟨⟨m, r', c⟩, h, rfl⟩
    exact ih s (m, r', c) h
  | cgrp r ih =>
    intro s p hp
    simp only [Re.run] at hp
    exact ih s p hp

theorem Re.matchZ_iff (e : Env) (r : Re) (s : Str) :
    r.matchZ e s = true ↔ ∃ p ∈ r.run e s, p.2.1 = [] := by
  simp [Re.matchZ, List.any_eq_true]

theorem Re.matchZ_eps (e : Env) (s : Str) : Re.eps.matchZ e s = true ↔ s = [] := by
  simp [Re.matchZ, Re.run]

/-- `seq a b` matches to the end iff some success of `a` leaves a rest that `b` matches to the end -/
theorem Re.matchZ_seq (e : Env) (a b : Re) (s : Str) :
    (Re.seq a b).matchZ e s = true ↔ ∃ p ∈ a.run e s, b.matchZ e p.2.1 = true := by
  simp only [Re.matchZ_iff, Re.run, List.mem_flatMap, List.mem_map]
  constructor
  · rintro ⟨p, ⟨⟨m1, r1, c1⟩, h1, ⟨m2, r2, c2⟩, h2, rfl⟩, hp⟩
    exact ⟨_, h1, _, h2, hp⟩
  · rintro ⟨⟨m1, r1, c1⟩, h1, ⟨m2, r2, c2⟩, h2, hp⟩
    exact ⟨_, ⟨_, h1, _, h2, rfl⟩, hp⟩

/-- uniform unfolding of `mkSeq` under `matchZ` (covers `mkSeq [a] = a`) -/
theorem Re.matchZ_mkSeq_cons (e : Env) (a : Re) (l : List Re) (s : Str) :
    (Re.mkSeq (a :: l)).matchZ e s = true ↔
      ∃ p ∈ a.run e s, (Re.mkSeq l).matchZ e p.2.1 = true := by
  cases l with
  | nil => simp only [Re.mkSeq, Re.matchZ_eps]; exact Re.matchZ_iff e a s
  | cons b l => simp only [Re.mkSeq]; exact Re.matchZ_seq e a _ s

theorem Re.matchZ_mkSeq_nil (e : Env) (s : Str) : (Re.mkSeq []).matchZ e s = true ↔ s = [] :=
  Re.matchZ_eps e s

/-- a single-character class in front of a sequence -/
theorem Re.matchZ_mkSeq_cls (e : Env) (k : Cls) (l : List Re) (s : Str) :
    (Re.mkSeq (.cls k :: l)).matchZ e s = true ↔
      ∃ c cs, s = c :: cs ∧ k.test e c = true ∧ (Re.mkSeq l).matchZ e cs = true := by
  rw [Re.matchZ_mkSeq_cons]
  cases s with
  | nil => simp [Re.run]
  | cons c cs =>
    simp only [Re.run]
    split
    · next ht =>
      simp only [List.mem_singleton, exists_eq_left, List.cons.injEq]
      constructor
      · intro h; exact ⟨c, cs, ⟨rfl, rfl⟩, ht, h⟩
      · rintro ⟨_, _, ⟨rfl, rfl⟩, _, h⟩; exact h
    · next ht =>
      simp only [List.not_mem_nil, false_and, exists_false, List.cons.injEq, false_iff]
      rintro ⟨_, _, ⟨rfl, rfl⟩, h, _⟩; exact ht h

/-- a greedy class star in front of a sequence -/
theorem Re.matchZ_mkSeq_star (e : Env) (k : Cls) (l : List Re) (s : Str) :
    (Re.mkSeq (.star k :: l)).matchZ e s = true ↔
      ∃ p ∈ starSplits e k s, (Re.mkSeq l).matchZ e p.2 = true := by
  rw [Re.matchZ_mkSeq_cons]
  simp only [Re.run, List.mem_map]
  constructor
  · rintro ⟨p, ⟨q, hq, rfl⟩, hp⟩; exact ⟨q, hq, hp⟩
  · rintro ⟨q, hq, hp⟩; exact ⟨_, ⟨q, hq, rfl⟩, hp⟩
