/-
  Spil.Lemmas.ExclWalk — soundness of the walk `Spec.lwalk` that decides that two lists of atoms
  cannot parse the same string (up to a final newline left over by `$`).
-/
import Spil.Lemmas.DetSeg

namespace Excl

open Spec Det

/-- what the walk needs of an atom (`atomOk` without "the vocabulary is non-empty", which the
    restriction to concrete words does not preserve) -/
def wordsOk (e : Env) : Atom → Bool
  | .cls k => k.nlFree e
  | .closed _ alts =>
      alts.all (fun w => !w.isEmpty && w.all (fun k => k.slashFree e && k.nlFree e))
  | .free _ => true

theorem wordsOk_of_atomOk (e : Env) (a : Atom) (h : atomOk e a = true) : wordsOk e a = true := by
  cases a with
  | cls k => exact h
  | closed k alts =>
    simp only [atomOk, Bool.and_eq_true] at h
    exact h.2
  | free k => rfl

/-! ### words of non-free atoms -/

theorem aword_words (e : Env) (a : Atom) (W : List (List Cls)) (h : a.words = some W) (u : Str) :
    aword e a u ↔ ∃ w ∈ W, matchesSeq e w u := by
  cases a with
  | cls k =>
    simp only [Atom.words, Option.some.injEq] at h
    subst h
    simp only [aword, List.mem_singleton, exists_eq_left]
    constructor
    · rintro ⟨c, rfl, hc⟩; simp [hc]
    · intro hm
      match u, hm with
      | [c], hm => simp at hm; exact ⟨c, rfl, hm⟩
  | closed k alts =>
    simp only [Atom.words, Option.some.injEq] at h
    subst h
    rfl
  | free k => simp [Atom.words] at h

theorem words_of_not_free (a : Atom) (h : a.isFree = false) : ∃ W, a.words = some W := by
  cases a with
  | cls k => exact ⟨_, rfl⟩
  | closed k alts => exact ⟨_, rfl⟩
  | free k => simp [Atom.isFree] at h

/-- the words of a non-free atom are non-empty and contain no newline -/
theorem aword_nonfree (e : Env) (a : Atom) (hf : a.isFree = false) (hok : wordsOk e a = true)
    (u : Str) (hu : aword e a u) : u ≠ [] ∧ '\n' ∉ u := by
  cases a with
  | free k => simp [Atom.isFree] at hf
  | cls k =>
    obtain ⟨c, rfl, hc⟩ := hu
    simp only [wordsOk] at hok
    have := Cls.nlFree_test e k hok c hc
    refine ⟨by simp, ?_⟩
    simp only [List.mem_singleton]
    exact fun h => this h.symm
  | closed key alts =>
    obtain ⟨w, hw, hm⟩ := hu
    simp only [wordsOk, List.all_eq_true, Bool.and_eq_true, Bool.not_eq_true',
      List.isEmpty_eq_false_iff] at hok
    have hwne : w ≠ [] := (hok w hw).1
    refine ⟨?_, ?_⟩
    · intro h0; subst h0
      cases w with
      | nil => exact hwne rfl
      | cons _ _ => simp at hm
    · intro hmem
      have := matchesSeq_all e (fun c => c ≠ '\n') w u (by
        intro k hk c hc
        exact Cls.nlFree_test e k ((hok w hw).2 k hk).2 c hc) hm '\n' hmem
      exact this rfl

/-- an atom that cannot consume '/' has '/'-free words -/
theorem aword_noSlash (e : Env) (a : Atom) (h : a.noSlash e = true) (u : Str) (hu : aword e a u) :
    '/' ∉ u := by
  cases a with
  | free k => exact hu
  | cls k =>
    obtain ⟨c, rfl, hc⟩ := hu
    simp only [Atom.noSlash] at h
    have := Cls.slashFree_test e k h c hc
    simp only [List.mem_singleton]
    exact fun h => this h.symm
  | closed key alts =>
    obtain ⟨w, hw, hm⟩ := hu
    simp only [Atom.noSlash, List.all_eq_true] at h
    intro hmem
    have := matchesSeq_all e (fun c => c ≠ '/') w u (by
      intro k hk c hc
      exact Cls.slashFree_test e k (h w hw k hk) c hc) hm '/' hmem
    exact this rfl

theorem noSlash_of_wordsOk (e : Env) (a : Atom) (hok : wordsOk e a = true)
    (h : a.noSlash e = false) : ∃ k, a = Atom.cls k := by
  cases a with
  | cls k => exact ⟨k, rfl⟩
  | free k => simp [Atom.noSlash] at h
  | closed key alts =>
    exfalso
    simp only [wordsOk, List.all_eq_true, Bool.and_eq_true] at hok
    have : Atom.noSlash e (Atom.closed key alts) = true := by
      simp only [Atom.noSlash, List.all_eq_true]
      intro w hw k hk
      exact ((hok w hw).2 k hk).1
    rw [this] at h
    cases h

/-- two atoms that `skipOk` read the same prefix -/
theorem skip_unique (e : Env) (a b : Atom) (h : skipOk e a b = true) (u u' x x' : Str)
    (hu : aword e a u) (hu' : aword e b u') (heq : u ++ x = u' ++ x') : u = u' := by
  unfold skipOk at h
  match ha : a.words, hb : b.words with
  | some X, some Y =>
    rw [ha, hb] at h
    simp only at h
    obtain ⟨w, hw, hm⟩ := (aword_words e a X ha u).mp hu
    obtain ⟨w', hw', hm'⟩ := (aword_words e b Y hb u').mp hu'
    exact prefixFree_unique e (X ++ Y) h w w' (by simp [hw]) (by simp [hw']) u u' x x' hm hm' heq
  | none, _ => rw [ha] at h; simp at h
  | some X, none => rw [ha, hb] at h; simp at h

theorem skipOk_not_free (e : Env) (a b : Atom) (h : skipOk e a b = true) :
    a.isFree = false ∧ b.isFree = false := by
  unfold skipOk at h
  cases a <;> cases b <;> simp [Atom.words] at h <;> simp [Atom.isFree]

/-- two atoms that `disjOk` never read the same position -/
theorem disj_absurd (e : Env) (a b : Atom) (h : disjOk e a b = true) (u u' x x' : Str)
    (hu : aword e a u) (hu' : aword e b u') (heq : u ++ x = u' ++ x') : False := by
  unfold disjOk at h
  match ha : a.words, hb : b.words with
  | some X, some Y =>
    rw [ha, hb] at h
    simp only [List.all_eq_true, Bool.and_eq_true, Bool.not_eq_true'] at h
    obtain ⟨w, hw, hm⟩ := (aword_words e a X ha u).mp hu
    obtain ⟨w', hw', hm'⟩ := (aword_words e b Y hb u').mp hu'
    have hd := h w hw w' hw'
    rcases List.append_eq_append_iff.mp heq with ⟨y, hy, _⟩ | ⟨y, hy, _⟩
    · have := prefixCompat_of e w w' u u' y hm hm' hy
      rw [this] at hd; exact absurd hd.1 (by simp)
    · have := prefixCompat_of e w' w u' u y hm' hm hy
      rw [this] at hd; exact absurd hd.2 (by simp)
  | none, _ => rw [ha] at h; simp at h
  | some X, none => rw [ha, hb] at h; simp at h

/-! ### counting '/' -/

theorem count_le_one (c : Char) : List.count '/' [c] ≤ 1 := by
  by_cases h : c = '/'
  · subst h; simp
  · simp [h]

/-- a parse reads at most one '/' per atom that can consume one -/
theorem parse_count_ge (e : Env) : ∀ (as : List Atom) (w : Str) (vs : List Str),
    as.all (wordsOk e) = true → Parse e as w vs →
    List.count '/' w ≤ as.countP (fun a => !a.noSlash e)
  | [], w, vs, _, h => by
    obtain ⟨rfl, _⟩ := (parse_nil_iff e w vs).mp h
    simp
  | a :: as, w, vs, hok, h => by
    obtain ⟨u, w1, v1, rfl, rfl, a1, p1⟩ := (parse_cons_iff e a as w vs).mp h
    simp only [List.all_cons, Bool.and_eq_true] at hok
    have ih := parse_count_ge e as w1 v1 hok.2 p1
    rw [List.countP_cons, List.count_append]
    cases hs : a.noSlash e with
    | true =>
      have := List.count_eq_zero.mpr (aword_noSlash e a hs u a1)
      simp only [Bool.not_true, Bool.false_eq_true, if_false]
      omega
    | false =>
      obtain ⟨k, rfl⟩ := noSlash_of_wordsOk e a hok.1 hs
      obtain ⟨c, rfl, _⟩ := a1
      have := count_le_one c
      simp only [Bool.not_false, if_true]
      omega

theorem count_nl (r : Str) (hr : r = [] ∨ r = ['\n']) : List.count '/' r = 0 := by
  rcases hr with rfl | rfl <;> decide

/-- the two counting rules -/
theorem slashRule_absurd (e : Env) (A B : List Atom) (h : slashRule e A B = true)
    (hA : A.all (wordsOk e) = true) (wA wB r : Str) (vA vB : List Str) (pA : Parse e A wA vA)
    (hw : wB = wA ++ r) (hr : r = [] ∨ r = ['\n'])
    (hc : List.count '/' wB = B.countP Atom.isSlash) : False := by
  have _ := vB
  have h1 := parse_count_le e A wA vA pA
  have h2 := parse_count_ge e A wA vA hA pA
  have h3 : List.count '/' wB = List.count '/' wA := by
    rw [hw, List.count_append, count_nl r hr]; rfl
  simp only [slashRule, Bool.or_eq_true, Nat.blt_eq] at h
  omega

/-- the counting invariant of `B` passes to the tail -/
theorem count_tail (e : Env) (b : Atom) (B : List Atom) (u w : Str) (vs : List Str)
    (hu : aword e b u) (p : Parse e B w vs)
    (hc : List.count '/' (u ++ w) = (b :: B).countP Atom.isSlash) :
    List.count '/' w = B.countP Atom.isSlash ∧ (b.isSlash = false → '/' ∉ u) := by
  have hle := parse_count_le e B w vs p
  rw [List.count_append, List.countP_cons] at hc
  by_cases hs : b.isSlash = true
  · rw [aword_slash e b hs u hu] at hc
    simp only [hs, if_true, List.count_cons_self, List.count_nil] at hc
    exact ⟨by omega, by simp [hs]⟩
  · simp only [hs] at hc
    simp only [Bool.false_eq_true, if_false, Nat.add_zero] at hc
    refine ⟨by omega, fun _ => count_eq_zero_not_mem u (by omega)⟩

/-! ### cutting at the first '/' atom -/

theorem cutSlash_some : ∀ (A sa A' : List Atom), cutSlash A = some (sa, A') →
    ∃ s, s.isSlash = true ∧ A = sa ++ s :: A' ∧ ∀ a ∈ sa, a.isSlash = false
  | [], _, _, h => by simp [cutSlash] at h
  | a :: as, sa, A', h => by
    simp only [cutSlash] at h
    split at h
    · next hs =>
      simp only [Option.some.injEq, Prod.mk.injEq] at h
      obtain ⟨rfl, rfl⟩ := h
      exact ⟨a, hs, rfl, by simp⟩
    · next hs =>
      split at h
      · next s r hcut =>
        simp only [Option.some.injEq, Prod.mk.injEq] at h
        obtain ⟨rfl, rfl⟩ := h
        obtain ⟨sl, hsl, rfl, hall⟩ := cutSlash_some as s r hcut
        refine ⟨sl, hsl, rfl, ?_⟩
        intro x hx
        simp only [List.mem_cons] at hx
        rcases hx with rfl | hx
        · simpa using hs
        · exact hall x hx
      · simp at h

theorem cutSlash_length (A sa A' : List Atom) (h : cutSlash A = some (sa, A')) :
    A'.length < A.length := by
  obtain ⟨s, _, rfl, _⟩ := cutSlash_some A sa A' h
  simp
  omega

/-- a parse by atoms that cannot consume '/' is '/'-free -/
theorem parse_noSlash (e : Env) : ∀ (as : List Atom) (w : Str) (vs : List Str),
    as.all (Atom.noSlash e) = true → Parse e as w vs → '/' ∉ w
  | [], w, vs, _, h => by
    obtain ⟨rfl, _⟩ := (parse_nil_iff e w vs).mp h
    simp
  | a :: as, w, vs, hok, h => by
    obtain ⟨u, w1, v1, rfl, rfl, a1, p1⟩ := (parse_cons_iff e a as w vs).mp h
    simp only [List.all_cons, Bool.and_eq_true] at hok
    have := parse_noSlash e as w1 v1 hok.2 p1
    have := aword_noSlash e a hok.1 u a1
    simp_all

theorem countP_isSlash_zero (sa : List Atom) (h : ∀ a ∈ sa, a.isSlash = false) :
    sa.countP Atom.isSlash = 0 := by
  rw [List.countP_eq_zero]
  intro a ha
  simp [h a ha]

/-! ### the walk -/

/-- the property the walk refutes: `A` parses `wA`, `B` parses `wB = wA` + what `$` may leave, and
    `wB` has exactly one '/' per '/' atom of `B` -/
def Meets (e : Env) (A B : List Atom) : Prop :=
  ∃ (wA wB r : Str) (vA vB : List Str), Parse e A wA vA ∧ Parse e B wB vB ∧ wB = wA ++ r ∧
    (r = [] ∨ r = ['\n']) ∧ List.count '/' wB = B.countP Atom.isSlash

theorem lwalk_sound (e : Env) : ∀ (n : Nat) (A B : List Atom), lwalk e n A B = true →
    A.all (wordsOk e) = true → B.all (wordsOk e) = true → ¬ Meets e A B
  | 0, _, _, h, _, _ => by simp [lwalk] at h
  | n + 1, [], [], h, _, _ => by simp [lwalk] at h
  | n + 1, [], b :: B', h, hA, hB => by
    rintro ⟨wA, wB, r, vA, vB, pA, pB, hw, hr, hc⟩
    simp only [lwalk, Bool.or_eq_true, Bool.not_eq_true'] at h
    rcases h with h | h
    · obtain ⟨rfl, _⟩ := (parse_nil_iff e wA vA).mp pA
      obtain ⟨u, w1, v1, rfl, rfl, a1, p1⟩ := (parse_cons_iff e b B' wB vB).mp pB
      simp only [List.all_cons, Bool.and_eq_true] at hB
      obtain ⟨hne, hnl⟩ := aword_nonfree e b h hB.1 u a1
      simp only [List.nil_append] at hw
      rcases hr with rfl | rfl
      · simp at hw; exact hne hw.1
      · cases u with
        | nil => exact hne rfl
        | cons c cs =>
          simp at hw
          apply hnl
          simp [hw.1]
    · exact slashRule_absurd e _ _ h hA wA wB r vA vB pA hw hr hc
  | n + 1, a :: A', [], h, hA, _ => by
    rintro ⟨wA, wB, r, vA, vB, pA, pB, hw, hr, hc⟩
    simp only [lwalk, Bool.or_eq_true, Bool.not_eq_true'] at h
    rcases h with h | h
    · obtain ⟨rfl, _⟩ := (parse_nil_iff e wB vB).mp pB
      obtain ⟨u, w1, v1, rfl, rfl, a1, p1⟩ := (parse_cons_iff e a A' wA vA).mp pA
      simp only [List.all_cons, Bool.and_eq_true] at hA
      obtain ⟨hne, _⟩ := aword_nonfree e a h hA.1 u a1
      have : u ++ w1 ++ r = [] := hw.symm
      simp at this
      exact hne this.1
    · exact slashRule_absurd e _ _ h hA wA wB r vA vB pA hw hr hc
  | n + 1, a :: A', b :: B', h, hA, hB => by
    rintro ⟨wA, wB, r, vA, vB, pA, pB, hw, hr, hc⟩
    have hA' := hA
    have hB' := hB
    simp only [List.all_cons, Bool.and_eq_true] at hA' hB'
    simp only [lwalk, Bool.or_eq_true] at h
    rcases h with h | h
    · -- the heads are disjoint
      obtain ⟨u, w1, v1, rfl, rfl, a1, p1⟩ := (parse_cons_iff e a A' wA vA).mp pA
      obtain ⟨u', w1', v1', rfl, rfl, a1', p1'⟩ := (parse_cons_iff e b B' wB vB).mp pB
      exact disj_absurd e a b h u u' (w1 ++ r) w1' a1 a1' (by rw [← List.append_assoc, ← hw])
    · split at h
      · next hskip =>
        -- the heads read the same prefix
        obtain ⟨u, w1, v1, rfl, rfl, a1, p1⟩ := (parse_cons_iff e a A' wA vA).mp pA
        obtain ⟨u', w1', v1', rfl, rfl, a1', p1'⟩ := (parse_cons_iff e b B' wB vB).mp pB
        have heq : u ++ (w1 ++ r) = u' ++ w1' := by rw [← List.append_assoc, ← hw]
        have huu := skip_unique e a b hskip u u' (w1 ++ r) w1' a1 a1' heq
        subst huu
        have hww : w1' = w1 ++ r := (List.append_cancel_left heq).symm
        exact lwalk_sound e n A' B' h hA'.2 hB'.2
          ⟨w1, w1', r, v1, v1', p1, p1', hww, hr, (count_tail e b B' u w1' v1' a1' p1' hc).1⟩
      · simp only [Bool.or_eq_true] at h
        rcases h with h | h
        · exact slashRule_absurd e _ _ h hA wA wB r vA vB pA hw hr hc
        · -- jump to the next '/'
          split at h
          · next sa A'' sb B'' hcA hcB =>
            simp only [Bool.and_eq_true] at h
            obtain ⟨s, hs, hAeq, _⟩ := cutSlash_some _ sa A'' hcA
            obtain ⟨s', hs', hBeq, hsb⟩ := cutSlash_some _ sb B'' hcB
            rw [hAeq] at pA hA
            rw [hBeq] at pB hB hc
            obtain ⟨x, wr, vx, vr, rfl, rfl, px, pr⟩ := (parse_append e sa (s :: A'') wA vA).mp pA
            obtain ⟨us, wA'', v3, rfl, rfl, as1, pA''⟩ := (parse_cons_iff e s A'' wr vr).mp pr
            obtain ⟨y, wr', vy, vr', rfl, rfl, py, pr'⟩ := (parse_append e sb (s' :: B'') wB vB).mp pB
            obtain ⟨us', wB'', v3', rfl, rfl, as1', pB''⟩ :=
              (parse_cons_iff e s' B'' wr' vr').mp pr'
            have e1 := aword_slash e s hs us as1
            have e2 := aword_slash e s' hs' us' as1'
            subst e1 e2
            have hx : '/' ∉ x := parse_noSlash e sa x vx h.1 px
            -- '/' ∉ y, by counting
            have hle1 := parse_count_le e sb y vy py
            have hle2 := parse_count_le e B'' wB'' v3' pB''
            rw [List.count_append, List.countP_append, countP_isSlash_zero sb hsb,
              List.countP_cons] at hc
            simp only [hs', if_true, List.singleton_append, List.count_cons_self] at hc
            have hy : '/' ∉ y := count_eq_zero_not_mem y (by omega)
            have hcut : y ++ '/' :: wB'' = x ++ '/' :: (wA'' ++ r) := by
              simpa using hw
            obtain ⟨rfl, hrest⟩ := Str.first_sep_unique '/' y x wB'' (wA'' ++ r) hy hx hcut
            simp only [List.all_append, List.all_cons, Bool.and_eq_true] at hA hB
            exact lwalk_sound e n A'' B'' h.2 hA.2.2 hB.2.2
              ⟨wA'', wB'', r, v3, v3', pA'', pB'', hrest, hr, by omega⟩
          · simp at h

end Excl
